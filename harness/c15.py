'''C15: generated tasks correspond one-to-one to what was asked for.

Implementation (valjean.cosette.use / run / task, valjean.cambronne.common,
task_stats / test_stats) vs the Coq model C15/Model.v, plus the property
oracle (independent bookkeeping request -> expected task).

A case is a *history*: hand-made base tasks, an alphabet of functions
(same-named ones, lambdas, a partial), factories (same-named ones), UseRun
objects, then 2..12 API-level operations

  ['use', fid, [[ref, key, kwarg|None], ...], soft, ser, how]   Use -> get_task()
  ['map', opindex, fid]                                         use.map(f).get_task()
  ['wrap', opindex, [ref, key, kwarg|None], soft, ser, defer]   Use.from_func(func=<the Use of op>, ...)
                                                                [.get_task() unless defer]
  ['get', opindex]                                              <the Use of op>.get_task() once more
  ['bulk', kind, n, which]                                      n OTHER requests with n fresh names (a long
                                                                history): kind use | stats | make | userun
  ['make', fac, mk]                                             factory.make(**mk)
  ['userun', ur, mk, kwarg|None, fid]                           @userun(kwarg, **mk) def f
  ['stats', 'task'|'test', name, [ref, ...]]                    task_stats / test_stats

and job lists on which collect_tasks is run at the end.  A ref is ['b', i] (base
task) or ['s', k] (k-th result slot of the history).  Use._CACHE is emptied
before every case.'''
import functools
import hashlib
import json
import os
import signal
import subprocess

from vp import common
from vp.common import cn, cb, clist, copt, cstr

IMPORTS = '''From Coq Require Import String List.
From VV Require Import Lib.Base C15.Model.
Import ListNotations.
'''

KEYS = ['result', 'k1', 'k2']          # key atoms 0..2, None = whole section
KWARGS = ['x', 'y']                    # keyword names of the injected functions
FUNC_NAMES = ['f', 'f', 'g', '<lambda>', '<lambda>', 'g',
              'h', 'h', '<lambda>', '<lambda>', 'method', 'method', 'tagged', 'tagged', 'e', 'e',
              'cm', 'cm', 'call', 'call']
NF = len(FUNC_NAMES)
# functions that are easily mistaken for one another: same name, and from index
# 6 on also the same code object / source / underlying function
SIBLING = {0: 1, 1: 0, 2: 5, 5: 2, 3: 4, 4: 3, 6: 7, 7: 6, 8: 9, 9: 8, 10: 11, 11: 10,
           12: 13, 13: 12, 14: 15, 15: 14, 16: 17, 17: 16, 18: 19, 19: 18}
MKKEYS = ['k0', 'k1', 'k2', 'k3', 'k4']   # keyword arguments of make(); factories preset k0, k1 (k2)
SUBKEYS = ['env', 'umask']             # subprocess arguments
NSLOTS = {'use': 1, 'map': 2, 'make': 1, 'stats': 1, 'get': 1}
USE_OPS = ('use', 'map', 'userun', 'wrap')


def nslots(case, op):
    if op[0] == 'userun':
        return 2 + len(case['useruns'][op[1]]['posts'])
    if op[0] == 'wrap':
        return 0 if op[5] else 1
    if op[0] == 'bulk':
        return 0
    return NSLOTS[op[0]]


# --------------------------------------------------------------------------
# the real objects

class FakePopen:
    '''stands in for subprocess.Popen while a RunTask is executed: records the
    command line and the keyword arguments, "succeeds"'''
    calls = []

    def __init__(self, args, **kwargs):
        FakePopen.calls.append((list(args), kwargs))
        self.args = args
        self.returncode = 0
        self.pid = 0
        self.stdout = self.stderr = self.stdin = None
        out = kwargs.get('stdout')
        if hasattr(out, 'write'):
            try:
                out.write(' '.join(str(a) for a in list(args)[1:]) + '\n')
            except Exception:  # noqa
                pass

    def __enter__(self):
        return self

    def __exit__(self, *exc):
        return False

    def wait(self, timeout=None):
        return 0

    def communicate(self, input=None, timeout=None):  # noqa
        return (None, None)

    def poll(self):
        return 0

    def kill(self):
        pass

    terminate = kill


class Fresh:
    '''an alphabet entry that yields a new (equal) callable object at every use'''
    def __init__(self, getter):
        self.getter = getter


def fetch(entry):
    return entry.getter() if isinstance(entry, Fresh) else entry


def make_funcs():
    '''function alphabet: two different functions named f, g, two lambdas, a
    partial that carries the name g'''
    funcs = []

    def f(*args, **kwargs):
        return ('F', 0, args, kwargs)
    funcs.append(f)

    def f(*args, **kwargs):  # noqa  (same name on purpose)
        return ('F', 1, args, kwargs)
    funcs.append(f)

    def g(*args, **kwargs):
        return ('F', 2, args, kwargs)
    funcs.append(g)
    funcs.append(lambda *args, **kwargs: ('F', 3, args, kwargs))
    funcs.append(lambda *args, **kwargs: ('F', 4, args, kwargs))

    def tagged(tag, *args, **kwargs):
        return ('F', tag, args, kwargs)
    part = functools.partial(tagged, 5)
    functools.update_wrapper(part, g)
    funcs.append(part)

    # different functions that share ONE code object (or source, or underlying
    # function): the function of a request is the function OBJECT
    def make(k):                       # closures of one factory function
        def h(*args, **kwargs):
            return ('F', k, args, kwargs)
        return h
    funcs += [make(6), make(7)]
    funcs += [lambda *args, i=i, **kwargs: ('F', i, args, kwargs)     # lambdas of one loop
              for i in (8, 9)]

    class Obj:
        def __init__(self, tag):
            self.tag = tag

        def method(self, *args, **kwargs):
            return ('F', self.tag, args, kwargs)
    # callables that are EQUAL BUT NOT IDENTICAL from one request to the next: the
    # alphabet entry is fetched anew for every request (Fresh), as user code does
    # when it writes conv.scale twice.  Equal callables = the same function.
    obj10, obj11 = Obj(10), Obj(11)
    funcs += [Fresh(lambda: obj10.method), Fresh(lambda: obj11.method)]   # one method, two objects
    for tag in (12, 13):                                               # partials of one function
        part = functools.partial(tagged, tag)
        functools.update_wrapper(part, tagged)
        funcs.append(part)
    for tag in (14, 15):                                               # exec of the same source
        glob = {'TAG': tag}
        exec("def e(*args, **kwargs):\n    return ('F', TAG, args, kwargs)\n", glob)  # noqa
        funcs.append(glob['e'])

    class Kbase:
        @classmethod
        def cm(cls, *args, **kwargs):
            return ('F', cls.tag, args, kwargs)
    k16 = type('K16', (Kbase,), {'tag': 16})
    k17 = type('K17', (Kbase,), {'tag': 17})
    funcs += [Fresh(lambda: k16().cm), Fresh(lambda: k17.cm)]     # class method, via instance / class

    class Call:
        '''callable object with value equality'''
        def __init__(self, tag):
            self.tag = tag
            self.__name__ = 'call'

        def __call__(self, *args, **kwargs):
            return ('F', self.tag, args, kwargs)

        def __eq__(self, other):
            return isinstance(other, Call) and other.tag == self.tag

        def __hash__(self):
            return hash(('Call', self.tag))
    funcs += [Fresh(lambda: Call(18)), Fresh(lambda: Call(19))]
    assert len(funcs) == NF and [fetch(fn).__name__ for fn in funcs] == FUNC_NAMES
    return funcs


class World:
    '''the objects of one case'''

    def __init__(self, case, outroot):
        from valjean.cosette.task import Task, TaskStatus
        from valjean.cosette.use import Use
        from valjean.cosette.run import RunTaskFactory
        from valjean.cosette.use import UseRun
        from valjean.config import Config

        class Base(Task):
            def do(self, env, config):
                return {}, TaskStatus.DONE

        Use._CACHE.clear()
        self.case = case
        self.base = []
        for b in case['base']:
            self.base.append(Base(b['name']))
        for b, obj in zip(case['base'], self.base):
            obj.depends_on.update(self.base[i] for i in b['hard'])
            obj.soft_depends_on.update(self.base[i] for i in b['soft'])
        self.funcs = make_funcs()
        self.fnames = list(FUNC_NAMES)
        self.facs = []
        for fa in case['facs']:
            kwargs = {MKKEYS[k]: f'v{v}' for k, v in fa['kwargs']}
            self.facs.append(RunTaskFactory.from_executable(
                '/bin/echo', name=fa['name'],
                default_args=['{' + MKKEYS[k] + '}' for k in fa['tmpl']],
                deps=[self.base[i] for i in fa['deps']],
                soft_deps=[self.base[i] for i in fa['soft']], **kwargs))
        # UseRun objects; .map() copies the factory: a UseRun with posts has a
        # factory (and cache) of its own
        self.useruns = []
        self.fac_params = [dict(fa) for fa in case['facs']]
        self.ur_fac = []
        for ur in case['useruns']:
            obj = UseRun.from_factory(self.facs[ur['fac']])
            for fid in ur['posts']:
                obj = obj.map(fetch(self.funcs[fid]))
            self.useruns.append(obj)
            if ur['posts']:
                self.ur_fac.append(len(self.fac_params))
                self.fac_params.append(dict(case['facs'][ur['fac']]))
            else:
                self.ur_fac.append(ur['fac'])
        self.config = Config()
        self.config.set('path', 'output-root', outroot)
        self.shared_sub, self.shared_deps, self.shared_soft = {}, [], []
        self.bulk = []            # tasks of the filler requests (kept alive: identities stay unique)
        self.last_bulk = []
        self.slots = []           # task object | None (operation raised or was skipped)
        self.uses = {}            # op index -> Use object
        self.numbers = {id(t): i for i, t in enumerate(self.base)}
        self.objects = list(self.base)

    def num(self, task):
        if id(task) not in self.numbers:
            self.numbers[id(task)] = len(self.objects)
            self.objects.append(task)
        return self.numbers[id(task)]

    def ref(self, ref):
        if ref[0] == 'b':
            return self.base[ref[1]]
        return self.slots[ref[1]] if ref[1] < len(self.slots) else None

    def mk_kwargs(self, mk):
        '''keyword arguments of factory.make; None when a referenced task does
        not exist'''
        deps = [self.ref(r) for r in mk['deps']]
        soft = [self.ref(r) for r in mk['soft']]
        if any(d is None for d in deps + soft):
            return None
        # the SPELLING of a request (not part of its identity): order of the
        # keywords (= order of mk['kwargs']), extra_args as a tuple, keywords
        # before or after the other arguments, equal but not identical strings
        # ... and the caller's mutable arguments (subprocess_args dict, deps and
        # soft_deps lists) being ONE object per history, changed in place between
        # the requests (the request is what the arguments hold at call time)
        tup, kw_last, fresh_str, shared = (list(mk.get('spell', [])) + [False] * 4)[:4]

        def val(v):
            return ''.join(['v', str(v)]) if fresh_str else f'v{v}'
        out = {}
        if not kw_last:
            out.update((MKKEYS[k], val(v)) for k, v in mk['kwargs'])
        if mk['name'] is not None:
            out['name'] = ''.join(list(mk['name'])) if fresh_str else mk['name']
        if mk['extra'] is not None:
            extra = [val(v) for v in mk['extra']]
            out['extra_args'] = tuple(extra) if tup else extra
        if shared:
            self.shared_sub.clear()
            self.shared_sub.update(sub_value(k, v) for k, v in mk['sub'])
            self.shared_deps[:] = deps
            self.shared_soft[:] = soft
            out['subprocess_args'] = self.shared_sub
            out['deps'] = self.shared_deps
            out['soft_deps'] = self.shared_soft
        elif mk['sub']:
            out['subprocess_args'] = dict(sub_value(k, v) for k, v in mk['sub'])
        if kw_last:
            out.update((MKKEYS[k], val(v)) for k, v in mk['kwargs'])
        if shared:
            return out
        if mk['deps'] or mk.get('deps_given'):
            out['deps'] = deps
        if mk['soft']:
            out['soft_deps'] = soft
        return out


def sub_value(k, v):
    return (SUBKEYS[k], {'VV': f'v{v}'} if k == 0 else v)


def key_of(k):
    return None if k is None else KEYS[k]


def run_op(world, k, op):
    '''execute one operation; returns the list of task objects of its slots,
    None (referenced task missing: skipped) or an exception'''
    from valjean.cosette.use import Use, using
    from valjean.gavroche.diagnostics.stats import task_stats, test_stats
    kind = op[0]
    try:
        if kind == 'use':
            _, fid, injs, soft, ser, how = op
            tasks = [world.ref(r) for r, _, _ in injs]
            if any(t is None for t in tasks):
                return None
            deps_type = 'soft' if soft else 'hard'
            func = fetch(world.funcs[fid])
            if how == 'direct':
                inj_args = [(t, key_of(key)) for t, (_, key, kw) in zip(tasks, injs) if kw is None]
                inj_kwargs = {KWARGS[kw]: (t, key_of(key))
                              for t, (_, key, kw) in zip(tasks, injs) if kw is not None}
                use = Use(inj_args=inj_args, inj_kwargs=inj_kwargs, wrapped=func,
                          deps_type=deps_type, serialize=ser)
            elif how == 'using' and not soft and not ser:
                use = func
                for t, (_, key, kw) in zip(tasks, injs):
                    use = using(task=t, key=key_of(key),
                                kwarg=None if kw is None else KWARGS[kw])(use)
            else:
                use = func
                for t, (_, key, kw) in zip(tasks, injs):
                    use = Use.from_func(func=use, task=t, key=key_of(key),
                                        kwarg=None if kw is None else KWARGS[kw],
                                        deps_type=deps_type, serialize=ser)
            world.uses[k] = use
            return [use.get_task()]
        if kind == 'map':
            _, opi, fid = op
            use = world.uses.get(opi)
            if use is None:
                return None
            new = use.map(fetch(world.funcs[fid]))
            world.uses[k] = new
            task = new.get_task()
            below = list(task.depends_on)
            return [below[0] if len(below) == 1 else None, task]
        if kind == 'wrap':
            # a wrapper applied on top of an existing wrapper OBJECT
            _, opi, (r, key, kw), soft, ser, defer = op
            base = world.uses.get(opi)
            task = world.ref(r)
            if base is None or task is None:
                return None
            use = Use.from_func(func=base, task=task, key=key_of(key),
                                kwarg=None if kw is None else KWARGS[kw],
                                deps_type='soft' if soft else 'hard', serialize=ser)
            world.uses[k] = use
            return [] if defer else [use.get_task()]
        if kind == 'bulk':
            # many OTHER requests, each with a name of its own, between the requests of interest
            _, what, count, which = op
            made = []
            world.last_bulk = made
            world.bulk.append(made)
            for i in range(count):
                tag = f'z{k}_{i}'
                if what == 'use':
                    def filler(*args, **kwargs):
                        return ('Z', args, kwargs)
                    filler.__name__ = filler.__qualname__ = tag
                    made.append(Use.from_func(func=filler, task=world.base[which % len(world.base)],
                                              deps_type='soft' if i % 2 else 'hard').get_task())
                elif what == 'stats':
                    stats = (task_stats if i % 2 else test_stats)(
                        name=tag, tasks=[world.base[which % len(world.base)]])
                    made += list(stats.depends_on)
                elif what == 'make':
                    fac = world.facs[which % len(world.facs)]
                    made.append(fac.make(name=tag) if i % 2 else fac.make(extra_args=[tag]))
                else:
                    deco = world.useruns[which % len(world.useruns)](None, extra_args=[tag])
                    task = deco(fetch(world.funcs[i % NF])).get_task()
                    made.append(task)
                    made += list(task.depends_on)
            return []
        if kind == 'get':
            use = world.uses.get(op[1])
            if use is None:
                return None
            return [use.get_task()]
        if kind == 'make':
            _, fac, mk = op
            kwargs = world.mk_kwargs(mk)
            if kwargs is None:
                return None
            return [world.facs[fac].make(**kwargs)]
        if kind == 'userun':
            _, uri, mk, kw, fid = op
            kwargs = world.mk_kwargs(mk)
            if kwargs is None:
                return None
            deco = world.useruns[uri](None if kw is None else KWARGS[kw], **kwargs)
            use = deco(fetch(world.funcs[fid]))
            world.uses[k] = use
            chain = [use.get_task()]
            for _ in range(nslots(world.case, op) - 1):
                below = list(chain[0].depends_on) if chain[0] is not None else []
                chain.insert(0, below[0] if len(below) == 1 else None)
            return chain
        if kind == 'stats':
            _, which, name, refs = op
            tasks = [world.ref(r) for r in refs]
            if any(t is None for t in tasks):
                return None
            fun = task_stats if which == 'task' else test_stats
            stats = fun(name=name, description=f'call{k}', tasks=tasks)
            below = list(stats.depends_on)
            return [below[0] if len(below) == 1 else None]
    except Exception as exc:  # noqa
        return exc
    raise ValueError(kind)


def decode_value(val):
    '''what a function received for one injected argument -> [task name, key atom|None]'''
    if isinstance(val, str) and '|' in val:
        name, _, key = val.rpartition('|')
        return [name, int(key)]
    if isinstance(val, tuple) and len(val) == 2 and isinstance(val[0], str):
        return [val[0], None]
    return ['?' + repr(val)[:30], None]


def atom_of(text):
    text = str(text)
    return int(text[1:]) if text[:1] == 'v' and text[1:].isdigit() else 999


def execute(world, task, stats_fid):
    '''run task.do on a prepared environment and describe the call it made'''
    from valjean.cosette.run import RunTask
    env = {}
    for obj in world.objects:
        sec = {key: f'{obj.name}|{i}' for i, key in enumerate(KEYS)}
        env[obj.name] = sec
    if isinstance(task, RunTask):
        FakePopen.calls = []
        real = subprocess.Popen
        subprocess.Popen = FakePopen
        try:
            task.do(env=env, config=world.config)
        finally:
            subprocess.Popen = real
        if len(FakePopen.calls) != 1:
            return {'run': None, 'ncalls': len(FakePopen.calls)}
        args, kwargs = FakePopen.calls[0]
        sub = []
        for key, val in kwargs.items():
            if key in ('stdout', 'stderr', 'cwd', 'universal_newlines', 'text', 'encoding',
                       'errors', 'stdin'):
                continue
            if key == 'env' and isinstance(val, dict):
                sub.append([0, atom_of(val.get('VV'))])
            elif key == 'umask':
                sub.append([1, int(val)])
            else:
                sub.append([99, 0])
        return {'run': [atom_of(a) for a in args[1:]], 'exe': str(args[0]), 'sub': sorted(sub)}
    env_up, _status = task.do(env=env, config=world.config)
    sec = env_up[task.name]
    res = sec['result']
    ser = 'output_dir' in sec
    if isinstance(res, tuple) and len(res) == 4 and res[0] == 'F':
        _, fid, args, kwargs = res
        return {'use': fid, 'pos': [decode_value(v) for v in args],
                'kw': sorted([KWARGS.index(kw), decode_value(v)] for kw, v in kwargs.items()),
                'ser': ser}
    # a statistics test made by task_stats / test_stats
    if isinstance(res, list) and len(res) == 1 and hasattr(res[0], 'task_results'):
        test = res[0]
        fid = stats_fid.get((type(test).__name__, test.name, test.description), -1)
        return {'use': fid, 'pos': sorted(decode_value(v) for v in test.task_results),
                'kw': [], 'ser': ser, 'stats': True}
    return {'use': -1, 'pos': [], 'kw': [], 'ser': ser}


# --------------------------------------------------------------------------
# the oracle: independent bookkeeping of requests

class Book:
    '''what was asked for so far.  A *class* is the expected identity of a task:
    one per distinct request.'''

    def __init__(self, case, world):
        self.case = case
        nb = len(case['base'])
        self.req_class = {}                    # canonical request -> class
        self.classes = [{'base': i} for i in range(nb)]
        self.hard = [set(b['hard']) for b in case['base']]
        self.soft = [set(b['soft']) for b in case['base']]
        self.slot_class = []                   # class | None
        self.bulk_ids = set()                  # id() of the tasks of filler requests
        self.obj_class = {}                    # id(task object) -> class
        self.class_obj = {}
        for i, obj in enumerate(world.base):
            self.obj_class[id(obj)] = i
            self.class_obj[i] = obj
        self.names_used = {}                   # (factory, name identity) -> canonical request
        self.expect = {}                       # class -> expected call
        self.stats_fid = {}
        self.use_req = {}                      # op index -> (fid, injs) of the Use object

    def cls(self, ref):
        if ref[0] == 'b':
            return ref[1]
        return self.slot_class[ref[1]] if ref[1] < len(self.slot_class) else None

    def closure(self, roots):
        seen = set(roots)
        todo = list(roots)
        while todo:
            cur = todo.pop()
            for nxt in self.hard[cur] | self.soft[cur]:
                if nxt not in seen:
                    seen.add(nxt)
                    todo.append(nxt)
        return seen


def use_request(fid, injs, soft, ser):
    '''canonical Use request from injections [(class, key, kwarg)] in application order'''
    pos = tuple((c, key) for c, key, kw in injs if kw is None)
    kws = {}
    for c, key, kw in injs:
        if kw is not None:
            kws[kw] = (c, key)
    return ('use', fid, pos, tuple(sorted(kws.items())), bool(soft), bool(ser))


def fac_merged(params, mk):
    merged = dict((k, v) for k, v in params['kwargs'])
    merged.update(dict((k, v) for k, v in mk['kwargs']))
    return merged


def check_result(ctx, book, case, what, req, got, hard, soft, call, clash_ok=False):
    '''the generic rule: identical requests share, different requests never do.
    ``got`` is the returned task object or an exception.  Returns the class.'''
    if isinstance(got, Exception):
        if not (clash_ok and req not in book.req_class and isinstance(got, ValueError)):
            ctx.oracle_failure(f'{what} raises {type(got).__name__} :: {case}', case,
                               key=f'{what.split()[0]}-raises-{type(got).__name__}')
        return None
    if got is None:
        ctx.oracle_failure(f'{what}: the generated tasks are not chained as requested :: {case}',
                           case, key='chain-broken')
        return None
    if req in book.req_class:
        cls = book.req_class[req]
        if book.class_obj[cls] is not got:
            ctx.oracle_failure(f'{what}: identical requests got different tasks :: {case}', case,
                               key='identical-requests-differ')
            # go on with the new object as its own class so that later checks make sense
            cls = len(book.classes)
            book.classes.append({'req': req})
            book.hard.append(set(hard))
            book.soft.append(set(soft))
            book.obj_class.setdefault(id(got), cls)
            book.class_obj[cls] = got
            book.expect[cls] = call
        return cls
    if id(got) in book.bulk_ids:
        ctx.oracle_failure(f'{what}: two different requests silently share one task '
                           f'(a task of the filler requests, {got.name!r}) :: {case}', case,
                           key='different-requests-share')
        return None
    if id(got) in book.obj_class:
        other = book.obj_class[id(got)]
        ctx.oracle_failure(f'{what}: two different requests silently share one task '
                           f'(the task first made for {book.classes[other]}) :: {case}', case,
                           key='different-requests-share')
        return other
    cls = len(book.classes)
    book.classes.append({'req': req})
    book.req_class[req] = cls
    book.hard.append(set(hard))
    book.soft.append(set(soft))
    book.obj_class[id(got)] = cls
    book.class_obj[cls] = got
    book.expect[cls] = call
    return cls


def oracle_op(ctx, book, world, case, k, op, res):
    '''update the bookkeeping with operation k and judge what came back.
    Returns the model-level operations [(kind, payload, slot object)]'''
    kind = op[0]
    n = nslots(case, op)
    if res is None:                       # skipped: a referenced task does not exist
        book.slot_class += [None] * n
        ctx.count('op_skipped')
        return
    objs = res if isinstance(res, list) else [res] * n

    def use_step(what, fid, injs, soft, ser, got, stats=False):
        req = use_request(fid, injs, soft, ser)
        pos = [[c, key] for c, key, kw in injs if kw is None]
        kws = {}
        for c, key, kw in injs:
            if kw is not None:
                kws[kw] = [c, key]            # a keyword injected twice: the last one counts
        injected = set(c for c, _ in pos) | set(c for c, _ in kws.values())
        call = {'use': fid, 'pos': list(reversed(pos)), 'kw': sorted([a, b] for a, b in kws.items()),
                'ser': bool(ser), 'stats': stats}
        return check_result(ctx, book, case, what, req, got,
                            set() if soft else injected, injected if soft else set(), call)

    def make_step(what, fac, mk, got):
        params = world.fac_params[fac]
        merged = fac_merged(params, mk)
        deps = frozenset(book.cls(r) for r in mk['deps'])
        soft = frozenset(book.cls(r) for r in mk['soft'])
        extra = tuple(mk['extra'] or ())
        sub = tuple(sorted((a, b) for a, b in mk['sub']))
        req = ('run', fac, mk['name'], extra, tuple(sorted(merged.items())), sub, deps, soft)
        ident = (fac, ('user', mk['name']) if mk['name'] is not None
                 else ('auto', extra, tuple(sorted(merged.items()))))
        clash = ident in book.names_used and book.names_used[ident] != req
        call = {'run': [merged.get(a, 999) for a in params['tmpl']] + list(extra),
                'sub': [list(x) for x in sub]}
        cls = check_result(ctx, book, case, what, req, got,
                           set(params['deps']) | deps, set(params['soft']) | soft, call,
                           clash_ok=clash)
        if cls is not None:
            book.names_used.setdefault(ident, req)
        return cls

    if kind == 'use':
        _, fid, injs, soft, ser, _how = op
        cinj = [(book.cls(r), key, kw) for r, key, kw in injs]
        book.use_req[k] = (fid, cinj, soft, ser)
        book.slot_class.append(use_step('use', fid, cinj, soft, ser, objs[0]))
    elif kind == 'map':
        _, opi, fid = op
        ufid, uinj, usoft, user = book.use_req[opi]
        below = use_step('map (task of the mapped Use)', ufid, uinj, usoft, user, objs[0])
        book.slot_class.append(below)
        if below is None or isinstance(res, Exception):
            book.slot_class.append(None)
            return
        cinj = [(below, 0, None)]
        book.use_req[k] = (fid, cinj, False, False)
        book.slot_class.append(use_step('map', fid, cinj, False, False, objs[1]))
    elif kind == 'wrap':
        _, opi, (r, key, kw), soft, ser, defer = op
        ufid, uinj, _usoft, _user = book.use_req[opi]
        cinj = list(uinj) + [(book.cls(r), key, kw)]
        if isinstance(res, Exception):
            check_result(ctx, book, case, 'wrap', None, res, (), (), None)
            book.slot_class += [None] * n
            return
        book.use_req[k] = (ufid, cinj, soft, ser)
        if not defer:
            book.slot_class.append(use_step('wrap', ufid, cinj, soft, ser, objs[0]))
    elif kind == 'bulk':
        if isinstance(res, Exception):
            ctx.oracle_failure(f'bulk: one of {op[2]} fresh requests raises {type(res).__name__} '
                               f':: {case}', case, key='bulk-raises-' + type(res).__name__)
            return
        for task in world.last_bulk:
            if id(task) in book.obj_class or id(task) in book.bulk_ids:
                ctx.oracle_failure(f'bulk: a request never made before got an existing task '
                                   f'{task.name!r} :: {case}', case, key='different-requests-share')
                break
            book.bulk_ids.add(id(task))
        ctx.count('bulk_requests', len(world.last_bulk))
    elif kind == 'get':
        ufid, uinj, usoft, user = book.use_req[op[1]]
        book.slot_class.append(use_step('get_task of an earlier wrapper', ufid, uinj, usoft, user,
                                        objs[0]))
    elif kind == 'make':
        _, fac, mk = op
        book.slot_class.append(make_step('make', fac, mk, objs[0]))
    elif kind == 'userun':
        _, uri, mk, kw, fid = op
        fac = world.ur_fac[uri]
        cur = make_step('userun (factory task)', fac, mk, objs[0])
        book.slot_class.append(cur)
        posts = case['useruns'][uri]['posts']
        for j, pfid in enumerate(posts):
            if cur is None:
                book.slot_class.append(None)
                continue
            cur = use_step('userun (post-processing task)', pfid, [(cur, 0, None)], False, False,
                           objs[1 + j])
            book.slot_class.append(cur)
        if cur is None:
            book.slot_class.append(None)
            return
        cinj = [(cur, 0, kw)]
        book.use_req[k] = (fid, cinj, False, False)
        book.slot_class.append(use_step('userun', fid, cinj, False, False, objs[-1]))
    elif kind == 'stats':
        _, which, name, refs = op
        classes = [book.cls(r) for r in refs]
        if which == 'task':
            classes = sorted(book.closure(classes))
        fid = len(world.fnames)
        world.fnames.append(name + '.stats')
        book.stats_fid[('TestStatsTasks' if which == 'task' else 'TestStatsTests',
                        name, f'call{k}')] = fid
        cinj = [(c, None, None) for c in classes]
        book.slot_class.append(use_step(f'{which}_stats', fid, cinj, True, False, objs[0],
                                        stats=True))


def oracle_attributes(ctx, book, world, case, observed):
    '''every generated task has the requested dependencies and, when executed,
    calls the requested function on the requested values'''
    for cls, obj in book.class_obj.items():
        if cls < len(case['base']):
            continue
        hard = set(book.obj_class.get(id(t), -1) for t in obj.depends_on)
        soft = set(book.obj_class.get(id(t), -1) for t in obj.soft_depends_on)
        if hard != book.hard[cls] or soft != book.soft[cls]:
            ctx.oracle_failure(f'task {obj.name!r} made for {book.classes[cls]} has dependencies '
                               f'hard {sorted(hard)} soft {sorted(soft)}, requested '
                               f'hard {sorted(book.hard[cls])} soft {sorted(book.soft[cls])} '
                               f':: {case}', case, key='wrong-dependencies')
        want = book.expect[cls]
        got = observed[id(obj)]
        if 'skipped' in got:
            continue
        if 'error' in got:
            ctx.oracle_failure(f'executing task {obj.name!r} raises {got["error"]} :: {case}', case,
                               key='do-raises-' + got['error'])
            continue
        if 'run' in want:
            ok = got.get('run') == want['run'] and got.get('sub') == want['sub'] \
                and got.get('exe') == '/bin/echo'
        else:
            def named(pairs):
                return [[book.class_obj[c].name, key] for c, key in pairs]
            pos = named(want['pos'])
            if want['stats']:
                pos = sorted(pos)
            ok = got.get('use') == want['use'] and got.get('pos') == pos \
                and got.get('kw') == [[a, [book.class_obj[b[0]].name, b[1]]] for a, b in want['kw']] \
                and got.get('ser') == want['ser']
        if not ok:
            ctx.oracle_failure(f'task {obj.name!r} made for {book.classes[cls]} does {got}, '
                               f'requested {want} :: {case}', case, key='wrong-behaviour')


def oracle_collect(ctx, book, world, case, roots, res):
    classes = [book.cls(r) for r in roots]
    if any(c is None for c in classes):
        return None
    want = book.closure(classes)
    names = [book.class_obj[c].name for c in want]
    clash = len(set(names)) != len(names)
    if isinstance(res, Exception):
        if not (clash and isinstance(res, ValueError)):
            ctx.oracle_failure(f'collecting {roots} raises {type(res).__name__} :: {case}', case,
                               key='collect-raises-' + type(res).__name__)
        return want
    got = [book.obj_class.get(id(t), -1) for t in res]
    if len(set(id(t) for t in res)) != len(res):
        ctx.oracle_failure(f'collecting {roots} returns a task twice :: {case}', case,
                           key='collect-twice')
    elif set(got) != want:
        ctx.oracle_failure(f'collecting {roots} returns {sorted(got)}, the transitive hard and soft '
                           f'dependencies are {sorted(want)} :: {case}', case, key='collect-wrong-set')
    elif clash:
        ctx.oracle_failure(f'collecting {roots} accepts two different tasks with the same name '
                           f'{sorted(names)} :: {case}', case, key='collect-accepts-name-clash')
    return want


# --------------------------------------------------------------------------
# running one case

class Hang(Exception):
    '''the implementation did not come back within the time limit'''


class time_limit:
    '''Hang guard for one call of the implementation.  The limit is on the CPU time of this
    process (the hangs this property knows are busy loops, e.g. a dependency closure that never
    terminates), so a loaded machine cannot make a healthy call look like a hang; a generous
    wall-clock limit covers a blocked call.'''

    def __init__(self, seconds):
        self.seconds = seconds

    def _fire(self, *_):
        raise Hang()

    def __enter__(self):
        self.old = signal.signal(signal.SIGVTALRM, self._fire)
        self.old_real = signal.signal(signal.SIGALRM, self._fire)
        signal.setitimer(signal.ITIMER_VIRTUAL, max(3.0, 3.0 * self.seconds))
        signal.setitimer(signal.ITIMER_REAL, 120.0)

    def __exit__(self, *exc):
        signal.setitimer(signal.ITIMER_VIRTUAL, 0)
        signal.setitimer(signal.ITIMER_REAL, 0)
        signal.signal(signal.SIGVTALRM, self.old)
        signal.signal(signal.SIGALRM, self.old_real)
        return False


def collect_real(roots):
    from valjean.cambronne import common as cam
    saved = cam.run_job
    cam.run_job = lambda *_a, **_k: list(roots)
    try:
        with time_limit(1):
            return cam.collect_tasks('job.py', [], {})
    except Exception as exc:  # noqa
        return exc
    finally:
        cam.run_job = saved


def run_case(ctx, case, outroot, judge=True):
    '''returns the record handed to the model: steps and collects with what the
    implementation returned'''
    world = World(case, outroot)
    book = Book(case, world)
    results = []
    for k, op in enumerate(case['ops']):
        try:
            with time_limit(120 if op[0] == 'bulk' else 1):
                res = run_op(world, k, op)
        except Hang as exc:
            res = exc
        n = nslots(case, op)
        if res is None:
            world.slots += [None] * n
        elif isinstance(res, Exception):
            world.slots += [None] * n
        else:
            world.slots += res
            for t in res:
                if t is not None:
                    world.num(t)
        oracle_op(ctx if judge else _Mute(), book, world, case, k, op, res)
        results.append(res)
    # observe every generated task at the end of the history
    observed = {}
    for obj in world.objects[len(world.base):]:
        try:
            observed[id(obj)] = execute(world, obj, book.stats_fid)
        except OSError as exc:
            import errno
            if exc.errno == errno.ENAMETOOLONG:
                # the name of a task wrapped several times can exceed the file-name limit of the file
                # system when the task writes its files: a limit of the platform, not of the property
                observed[id(obj)] = {'skipped': 'ENAMETOOLONG'}
                ctx.count('execution_skipped_name_too_long')
            else:
                observed[id(obj)] = {'error': type(exc).__name__}
        except Exception as exc:  # noqa
            observed[id(obj)] = {'error': type(exc).__name__}
    if judge:
        oracle_attributes(ctx, book, world, case, observed)
    collects = []
    for roots in case['collect']:
        tasks = [world.ref(r) for r in roots]
        if any(t is None for t in tasks):
            continue
        res = collect_real(tasks)
        if judge:
            oracle_collect(ctx, book, world, case, roots, res)
        if isinstance(res, Exception):
            out = {'raise': type(res).__name__}
        elif len(set(id(t) for t in res)) != len(res):
            out = {'raise': 'duplicates'}
        else:
            out = {'ok': sorted(world.num(t) for t in res)}
        collects.append({'roots': [world.num(t) for t in tasks], 'res': out})
    steps = model_steps(case, world, book, results, observed)
    hits = sum(1 for cls in book.slot_class if cls is not None) - (len(book.classes) - len(case['base']))
    return {'steps': steps, 'collects': collects, 'fnames': world.fnames,
            'facs': world.fac_params, 'hits': hits, 'errors': sum(isinstance(r, Exception)
                                                                  for r in results),
            'ntasks': len(world.objects)}


class _Mute:
    def oracle_failure(self, *a, **k):
        pass

    def count(self, *a, **k):
        pass


def describe(world, task, observed):
    '''observation of a returned task for the model'''
    if task is None:
        return {'raise': 'chain'}
    obs = observed.get(id(task), {'error': 'unobserved'})
    return {'ok': {'num': world.num(task), 'name': task.name,
                   'hard': sorted(world.num(t) for t in task.depends_on),
                   'soft': sorted(world.num(t) for t in task.soft_depends_on),
                   'call': obs}}


def model_steps(case, world, book, results, observed):
    '''translate the history into operations of the model, each with what the
    implementation returned'''
    steps = []
    use_reqs = {}
    use_raw = {}                      # op index -> (fid, injections in application order)

    def ureq(fid, injs, soft, ser):
        args = [[t, key] for t, key, kw in injs if kw is None]
        kws = {}
        for t, key, kw in injs:
            if kw is not None:
                kws[kw] = [t, key]
        return {'fid': fid, 'args': args, 'kwargs': [[a, b] for a, b in kws.items()],
                'soft': bool(soft), 'ser': bool(ser)}

    def rreq(mk):
        return {'name': mk['name'], 'extra': list(mk['extra'] or []),
                'kwargs': [list(x) for x in mk['kwargs']], 'sub': [list(x) for x in mk['sub']],
                'deps': [world.num(world.ref(r)) for r in mk['deps']],
                'soft': [world.num(world.ref(r)) for r in mk['soft']]}

    def outcome(res, j):
        if isinstance(res, Exception):
            return {'raise': type(res).__name__}
        return describe(world, res[j], observed)

    stats_next = len(FUNC_NAMES)
    for k, (op, res) in enumerate(zip(case['ops'], results)):
        kind = op[0]
        if kind == 'stats' and res is not None:
            fid = stats_next
            stats_next += 1
        if res is None:
            continue
        if kind == 'use':
            _, fid, injs, soft, ser, _how = op
            use_raw[k] = (fid, [(world.num(world.ref(r)), key, kw) for r, key, kw in injs])
            req = ureq(fid, use_raw[k][1], soft, ser)
            use_reqs[k] = req
            steps.append({'use': req, 'res': outcome(res, 0)})
        elif kind == 'wrap':
            _, opi, (r, key, kw), soft, ser, defer = op
            if isinstance(res, Exception):
                continue
            bfid, binj = use_raw[opi]
            use_raw[k] = (bfid, binj + [(world.num(world.ref(r)), key, kw)])
            use_reqs[k] = ureq(bfid, use_raw[k][1], soft, ser)
            if not defer:
                steps.append({'use': use_reqs[k], 'res': outcome(res, 0)})
        elif kind == 'get':
            steps.append({'use': use_reqs[op[1]], 'res': outcome(res, 0)})
        elif kind == 'map':
            _, opi, fid = op
            steps.append({'use': use_reqs[opi], 'res': outcome(res, 0)})
            if isinstance(res, Exception) or res[0] is None:
                continue
            use_raw[k] = (fid, [(world.num(res[0]), 0, None)])
            req = ureq(fid, use_raw[k][1], False, False)
            use_reqs[k] = req
            steps.append({'use': req, 'res': outcome(res, 1)})
        elif kind == 'make':
            _, fac, mk = op
            steps.append({'make': fac, 'req': rreq(mk), 'res': outcome(res, 0)})
        elif kind == 'userun':
            _, uri, mk, kw, fid = op
            steps.append({'make': world.ur_fac[uri], 'req': rreq(mk), 'res': outcome(res, 0)})
            if isinstance(res, Exception):
                continue
            cur = res[0]
            for j, pfid in enumerate(case['useruns'][uri]['posts']):
                if cur is None:
                    break
                steps.append({'use': ureq(pfid, [(world.num(cur), 0, None)], False, False),
                              'res': outcome(res, 1 + j)})
                cur = res[1 + j]
            if cur is None:
                continue
            use_raw[k] = (fid, [(world.num(cur), 0, kw)])
            req = ureq(fid, use_raw[k][1], False, False)
            use_reqs[k] = req
            steps.append({'use': req, 'res': outcome(res, len(res) - 1)})
        elif kind == 'stats':
            _, which, name, refs = op
            if isinstance(res, Exception) or res[0] is None:
                steps.append({'use': ureq(fid, [], True, False), 'res': outcome(res, 0)})
                continue
            # test_stats injects the given list as it is, task_stats the closure
            # of the given tasks (the oracle's own closure); the order of the
            # results a statistics test receives is not an observable
            if which == 'test':
                injected = [world.ref(r) for r in refs]
            else:
                injected = [book.class_obj[c] for c in book.closure([book.cls(r) for r in refs])]
            injected = sorted(injected, key=lambda t: t.name, reverse=True)
            req = ureq(fid, [(world.num(t), None, None) for t in injected], True, False)
            steps.append({'use': req, 'res': outcome(res, 0)})
    return steps


# --------------------------------------------------------------------------
# Coq emission

def c_inj(inj):
    return f'({cn(inj[0])}, {copt(inj[1], cn)})'


def c_pairs(pairs):
    return clist([f'({cn(a)}, {cn(b)})' for a, b in pairs])


def c_ureq(req):
    return ('(mk_ureq ' + cn(req['fid']) + ' ' + clist([c_inj(i) for i in req['args']]) + ' '
            + clist([f'({cn(kw)}, {c_inj(i)})' for kw, i in req['kwargs']]) + ' '
            + cb(req['soft']) + ' ' + cb(req['ser']) + ')')


def c_rreq(req):
    return ('(mk_rreq ' + copt(req['name'], cstr) + ' ' + clist([cn(a) for a in req['extra']]) + ' '
            + c_pairs(req['kwargs']) + ' ' + c_pairs(req['sub']) + ' '
            + clist([cn(a) for a in req['deps']]) + ' ' + clist([cn(a) for a in req['soft']]) + ')')


EXC = {'ValueError': 0, 'chain': 7, 'Hang': 6}


def c_named(val):
    return f'({cstr(val[0])}, {copt(val[1], cn)})'


def c_call(call, ntmpl):
    if 'run' in call:
        if call['run'] is None:
            return '(CRun [] [] [(98, 98)])'
        fmt, extra = call['run'][:ntmpl], call['run'][ntmpl:]
        return ('(CRun ' + clist([f'(Some {cn(a)})' if a != 999 else 'None' for a in fmt]) + ' '
                + clist([cn(a) for a in extra]) + ' ' + c_pairs(call['sub']) + ')')
    if 'error' in call:
        return '(CRun [] [] [(97, 97)])'
    return ('(CUse ' + cn(call['use'] if call['use'] >= 0 else 9999) + ' '
            + clist([c_named(v) for v in call['pos']]) + ' '
            + clist([f'({cn(kw)}, {c_named(v)})' for kw, v in call['kw']]) + ' '
            + cb(call['ser']) + ')')


def c_res(res, ntmpl):
    if 'raise' in res:
        return f'(Raise {cn(EXC.get(res["raise"], 8))})'
    o = res['ok']
    return ('(Ok (' + cn(o['num']) + ', ' + cstr(o['name']) + ', '
            + clist([cn(a) for a in o['hard']]) + ', ' + clist([cn(a) for a in o['soft']]) + ', '
            + c_call(o['call'], ntmpl) + '))')


def det_hash_strings(fname, extra, kwargs):
    '''the arguments make() hashes when no name is given, as Python values'''
    return (fname, [f'v{a}' for a in extra], {MKKEYS[k]: f'v{v}' for k, v in kwargs})


def c_case(case, rec):
    from valjean.cosette.task import det_hash
    facs = rec['facs']
    base = clist([f'(mk_task {cstr(b["name"])} ' + clist([cn(i) for i in sorted(set(b['hard']))])
                  + ' ' + clist([cn(i) for i in sorted(set(b['soft']))]) + ' None)'
                  for b in case['base']])
    cfacs = clist([f'(mk_fac {cstr(f["name"])} ' + clist([cn(i) for i in f['deps']]) + ' '
                   + clist([cn(i) for i in f['soft']]) + ' ' + c_pairs(f['kwargs']) + ' '
                   + clist([cn(i) for i in f['tmpl']]) + ')' for f in facs])
    htab = {}
    steps = []
    for st in rec['steps']:
        if 'use' in st:
            steps.append('(OUse ' + c_ureq(st['use']) + ', ' + c_res(st['res'], 0) + ')')
        else:
            fac = facs[st['make']]
            req = st['req']
            if req['name'] is None:
                merged = dict((k, v) for k, v in fac['kwargs'])
                merged.update(dict((k, v) for k, v in req['kwargs']))
                items = sorted(merged.items())
                key = (fac['name'], tuple(req['extra']), tuple(items))
                htab[key] = str(det_hash(*det_hash_strings(fac['name'], req['extra'], items)))
            steps.append(f'(OMake {cn(st["make"])} ' + c_rreq(req) + ', '
                         + c_res(st['res'], len(fac['tmpl'])) + ')')
    chash = clist([f'({cstr(k[0])}, ' + clist([cn(a) for a in k[1]]) + ', ' + c_pairs(k[2])
                   + ', ' + cstr(h) + ')' for k, h in htab.items()])
    colls = clist(['(' + clist([cn(a) for a in c['roots']]) + ', '
                   + ('(Ok ' + clist([cn(a) for a in c['res']['ok']]) + ')' if 'ok' in c['res']
                      else f'(Raise {cn(EXC.get(c["res"]["raise"], 8))})') + ')'
                   for c in rec['collects']])
    return ('(mk_case ' + base + '\n  ' + clist([cstr(n) for n in rec['fnames']]) + '\n  ' + cfacs
            + '\n  ' + chash + '\n  ' + clist(steps).replace('); (O', ');\n   (O') + '\n  ' + colls + ')')


# --------------------------------------------------------------------------
# generation

def corpus():
    '''the defects of the pinned tree and boundary cases'''
    b2 = [{'name': 'a', 'hard': [], 'soft': []}, {'name': 'b', 'hard': [], 'soft': []}]
    fac = {'name': 'echo', 'deps': [], 'soft': [], 'kwargs': [[0, 0], [1, 1]], 'tmpl': [0, 1]}
    a, b = ['b', 0], ['b', 1]

    def mk(name=None, extra=None, kwargs=(), sub=(), deps=(), soft=()):
        return {'name': name, 'extra': extra, 'kwargs': [list(x) for x in kwargs],
                'sub': [list(x) for x in sub], 'deps': list(deps), 'soft': list(soft)}

    def case(ops, base=b2, facs=(fac,), useruns=(), collect=None):
        return {'base': base, 'facs': list(facs), 'useruns': list(useruns), 'ops': ops,
                'collect': collect if collect is not None else []}
    out = [
        # two lambdas on the same task
        case([['use', 3, [[a, 0, None]], False, False, 'stack'],
              ['use', 4, [[a, 0, None]], False, False, 'stack']], collect=[[['s', 0]], [['s', 0], ['s', 1]]]),
        # same function, different keys
        case([['use', 0, [[a, 1, None]], False, False, 'stack'],
              ['use', 0, [[a, 2, None]], False, False, 'stack'],
              ['use', 0, [[a, 1, None]], False, False, 'using']]),
        # keyword vs positional
        case([['use', 0, [[a, 0, 0]], False, False, 'stack'],
              ['use', 0, [[a, 0, None]], False, False, 'stack']]),
        # different soft-injected tasks
        case([['use', 2, [[a, 0, None]], True, False, 'stack'],
              ['use', 2, [[b, 0, None]], True, False, 'stack']]),
        # two functions with the same name
        case([['use', 0, [[a, 0, None]], False, False, 'direct'],
              ['use', 1, [[a, 0, None]], False, False, 'direct']]),
    ] + [
        # different functions sharing a code object / source / underlying function,
        # alone, under a map and as UseRun post-processing
        case([['use', f1, [[a, 0, None]], False, False, 'stack'],
              ['use', f2, [[a, 0, None]], False, False, 'stack'],
              ['use', f1, [[a, 0, None]], False, False, 'using'],
              ['map', 0, f1], ['map', 0, f2]], collect=[[['s', 0], ['s', 1]]])
        for f1, f2 in ((6, 7), (8, 9), (10, 11), (12, 13), (14, 15), (16, 17), (18, 19))
    ] + [
        case([['userun', 0, mk(extra=[1]), None, 6], ['userun', 1, mk(extra=[1]), None, 7],
              ['userun', 0, mk(extra=[1]), None, 7]],
             useruns=({'fac': 0, 'posts': [8]}, {'fac': 0, 'posts': [9]})),
        # wrappers applied on top of ONE base wrapper object, then the earlier wrappers again
        case([['use', 0, [[a, 0, 0]], False, False, 'direct'],
              ['wrap', 0, [b, 0, 1], False, False, False], ['wrap', 0, [['b', 2], 0, 1], False, False, False],
              ['get', 0], ['get', 1], ['get', 2], ['map', 1, 2]],
             base=b2 + [{'name': 'c', 'hard': [], 'soft': []}], collect=[[['s', 0], ['s', 1], ['s', 2]]]),
        case([['use', 2, [[a, 1, None]], False, False, 'stack'],
              ['wrap', 0, [b, 0, None], False, False, True], ['wrap', 0, [b, 2, 0], True, False, False],
              ['wrap', 1, [a, 0, 0], False, True, False], ['get', 1], ['get', 0], ['get', 2], ['get', 3]]),
        # task_stats / test_stats with the same name
        case([['stats', 'task', 'n', [a]], ['stats', 'test', 'n', [b]], ['stats', 'task', 'n', [b]]],
             collect=[[['s', 0]], [['s', 0], ['s', 1]]]),
        # make ignores deps / soft deps / subprocess args
        case([['make', 0, mk(extra=[1], deps=[a])], ['make', 0, mk(extra=[1], deps=[b])],
              ['make', 0, mk(extra=[1], deps=[a])]]),
        case([['make', 0, mk(extra=[1], soft=[a])], ['make', 0, mk(extra=[1])]]),
        case([['make', 0, mk(extra=[1], sub=[[0, 1]])], ['make', 0, mk(extra=[1], sub=[[0, 2]])]]),
        # identical requests spelled differently: keyword order, tuple / list, order of the dependencies
        case([['make', 0, mk(extra=[1, 2], kwargs=[[3, 1], [4, 2]], deps=[a, b], sub=[[0, 1], [1, 18]])],
              ['make', 0, dict(mk(extra=[1, 2], kwargs=[[4, 2], [3, 1]], deps=[b, a], sub=[[1, 18], [0, 1]]),
                               spell=[True, True, True])],
              ['userun', 0, mk(extra=[1], kwargs=[[3, 1], [4, 2]]), None, 0],
              ['userun', 0, dict(mk(extra=[1], kwargs=[[4, 2], [3, 1]]), spell=[True, False, True]), None, 0]],
             useruns=({'fac': 0, 'posts': [2]},)),
        # ONE subprocess_args dictionary / deps list of the caller, changed in place between the requests
        case([['make', 0, dict(mk(name='t', extra=[1], sub=[[0, 1]], deps=[a]), spell=[False, False, False, True])],
              ['make', 0, dict(mk(name='t', extra=[1], sub=[[0, 2]], deps=[a]), spell=[False, False, False, True])],
              ['make', 0, dict(mk(name='t', extra=[1], sub=[[0, 1]], deps=[a]), spell=[False, False, False, True])],
              ['make', 0, dict(mk(name='u', extra=[1], deps=[a]), spell=[False, False, False, True])],
              ['make', 0, dict(mk(name='u', extra=[1], deps=[b]), spell=[False, False, False, True])],
              ['make', 0, dict(mk(name='u', extra=[1], deps=[a]), spell=[False, False, False, True])]]),
        # a user name hides the arguments
        case([['make', 0, mk(name='t', extra=[1])], ['make', 0, mk(name='t', extra=[2])],
              ['make', 0, mk(name='t', extra=[1])], ['make', 0, mk(name='t', kwargs=[[0, 3]], extra=[1])]]),
        # stacked decorators, serialisation, order of positional arguments
        case([['use', 0, [[a, 0, None], [b, 1, None]], False, False, 'using'],
              ['use', 0, [[b, 1, None], [a, 0, None]], False, False, 'using'],
              ['use', 0, [[a, 0, 0], [b, 1, 1]], False, True, 'stack'],
              ['use', 0, [[b, 1, 1], [a, 0, 0]], False, True, 'stack'],
              ['use', 0, [[a, 0, 0], [b, 1, 1]], False, False, 'stack']]),
        # maps and UseRun chains sharing the run task; two factories with one name
        case([['userun', 0, mk(extra=[1]), None, 0], ['userun', 0, mk(extra=[1]), None, 2],
              ['userun', 1, mk(extra=[1]), 0, 0], ['map', 0, 3], ['map', 0, 4], ['map', 0, 3],
              ['make', 0, mk(extra=[1])], ['make', 1, mk(extra=[1])]],
             facs=(fac, dict(fac)), useruns=({'fac': 0, 'posts': [2, 3]}, {'fac': 0, 'posts': []}),
             collect=[[['s', 3]], [['s', 3], ['s', 7]], [['s', 20], ['s', 21]]]),
        # names: dependencies 'a' and 'b' against one dependency called 'a,b'; cycle among hand-made tasks
        case([['use', 0, [[['b', 0], 0, None], [['b', 1], 0, None]], False, False, 'stack'],
              ['use', 0, [[['b', 2], 0, None]], False, False, 'stack']],
             base=[{'name': 'a', 'hard': [1], 'soft': []}, {'name': 'b', 'hard': [], 'soft': [0]},
                   {'name': 'a,b', 'hard': [], 'soft': []}],
             collect=[[['s', 0]], [['s', 0], ['s', 1]], [['b', 0]]]),
    ]
    return out


def long_corpus(tier):
    '''long histories: identical requests separated by thousands of other requests with names of
    their own, for every cache (Use._CACHE through Use / map / stats, the factories, UseRun)'''
    a, b = ['b', 0], ['b', 1]
    b2 = [{'name': 'a', 'hard': [], 'soft': []}, {'name': 'b', 'hard': [], 'soft': []}]
    fac = {'name': 'echo', 'deps': [], 'soft': [], 'kwargs': [[0, 0], [1, 1]], 'tmpl': [0, 1]}
    big, mid = (3000, 1500) if tier == 'quick' else (5000, 3000)

    def mk(name=None, extra=None):
        return {'name': name, 'extra': extra, 'kwargs': [], 'sub': [], 'deps': [], 'soft': []}
    out = []
    for kind, n in (('use', big), ('stats', mid)):
        out.append({'base': b2, 'facs': [fac], 'useruns': [], 'collect': [[['s', 0], ['s', 1], ['s', 3], ['s', 9]]],
                    'ops': [['use', 0, [[a, 0, None]], False, False, 'stack'],         # s0
                            ['wrap', 0, [b, 0, 1], False, False, False],               # s1
                            ['map', 0, 2],                                             # s2 s3
                            ['bulk', kind, n, 0],
                            ['get', 0], ['get', 1],                                    # s4 s5
                            ['map', 0, 2],                                             # s6 s7
                            ['use', 0, [[a, 0, None]], False, False, 'using'],         # s8
                            ['map', 0, 3]]})                                           # s9 s10
    out.append({'base': b2, 'facs': [fac], 'useruns': [{'fac': 0, 'posts': [2]}, {'fac': 0, 'posts': []}],
                'collect': [[['s', 0], ['s', 3], ['s', 4], ['s', 6]]],
                'ops': [['make', 0, mk(extra=[1])], ['userun', 0, mk(extra=[1]), None, 0],    # s0 | s1 s2 s3
                        ['make', 0, mk(name='t', extra=[2])], ['userun', 1, mk(extra=[2]), 0, 1],  # s4 | s5 s6
                        ['bulk', 'make', mid, 0], ['bulk', 'userun', mid // 2, 0],
                        ['bulk', 'userun', mid // 2, 1],
                        ['make', 0, mk(extra=[1])], ['userun', 0, mk(extra=[1]), None, 0],
                        ['make', 0, mk(name='t', extra=[2])], ['userun', 1, mk(extra=[2]), 0, 1],
                        ['map', 1, 4], ['get', 3]]})
    return out


def pick_f(rng, near=None):
    '''a function of the alphabet; with ``near`` mostly its look-alike'''
    if near is not None and rng.random() < 0.6:
        return SIBLING[near]
    return rng.randrange(NF)


def gen_case(rng, long_n=None):
    '''a random history; with ``long_n`` a LONG one: long_n other requests with fresh names are
    made somewhere in the middle and most later operations repeat earlier ones'''
    nb = rng.choice([1, 2, 2, 3, 4])
    names = ['a', 'b', 'c', 'a,b', 'a'] if rng.random() < 0.35 else ['a', 'b', 'c', 'd', 'e']
    base = []
    for i in range(nb):
        hard = [j for j in range(nb) if j != i and rng.random() < (0.25 if j < i else 0.05)]
        soft = [j for j in range(nb) if j != i and j not in hard and rng.random() < 0.15]
        base.append({'name': names[i], 'hard': hard, 'soft': soft})
    nf = rng.choice([1, 1, 2, 2, 3])
    facs = []
    for i in range(nf):
        facs.append({'name': rng.choice(['echo', 'echo', 'run']),
                     'deps': [j for j in range(nb) if rng.random() < 0.2],
                     'soft': [j for j in range(nb) if rng.random() < 0.1],
                     'kwargs': [[0, rng.randint(0, 1)], [1, rng.randint(0, 1)]]
                     + ([[2, 0]] if rng.random() < 0.2 else []),
                     'tmpl': rng.choice([[0, 1], [0, 1], [1], [1, 0]])})
    useruns = [{'fac': rng.randrange(nf), 'posts': [pick_f(rng) for _ in range(rng.choice([0, 1, 1, 2]))]}
               for _ in range(rng.choice([0, 1, 1, 2]))]
    case = {'base': base, 'facs': facs, 'useruns': useruns, 'ops': [], 'collect': []}
    nops = rng.randint(2, 12)
    slot_count = 0
    slot_ops = []                     # op index of each slot

    def ref():
        if slot_count and rng.random() < 0.45:
            return ['s', rng.randrange(slot_count)]
        return ['b', rng.randrange(nb)]

    def inj():
        return [ref(), rng.choice([0, 0, 0, 1, 2, None]), rng.choice([None, None, None, 0, 1])]

    def mk():
        return {'name': rng.choice([None, None, None, 't', 'u']),
                'extra': rng.choice([None, [], [1], [1], [2], [1, 2], [2, 1]]),
                'kwargs': rng.choice([[], [], [], [[0, 2]], [[0, 3]], [[1, 2]], [[2, 1]], [[0, 2], [1, 2]],
                                      [[3, 1], [4, 2]], [[4, 2], [3, 1]], [[2, 1], [3, 1]],
                                      [[3, 1], [0, 2]], [[4, 1], [2, 0], [3, 2]]]),
                'spell': [rng.random() < 0.3, rng.random() < 0.3, rng.random() < 0.3, rng.random() < 0.4],
                'sub': rng.choice([[], [], [], [[0, 1]], [[0, 2]], [[1, 18]], [[1, 18], [0, 1]]]),
                'deps': [ref() for _ in range(rng.choice([0, 0, 0, 1, 1, 2]))],
                'soft': [ref() for _ in range(rng.choice([0, 0, 0, 0, 1]))]}

    def base_wrapper():
        '''an earlier operation that made a Use object; mostly one that was
        already wrapped or derived (several wrappers on ONE base)'''
        cands = [k for k, o in enumerate(case['ops']) if o[0] in USE_OPS]
        used = [o[1] for o in case['ops'] if o[0] in ('wrap', 'get', 'map')]
        used = [k for k in used if k in cands]
        if used and rng.random() < 0.5:
            return rng.choice(used)
        return rng.choice(cands) if cands else None

    def fresh():
        r = rng.random()
        base = base_wrapper()
        if base is not None and r < 0.22:
            if r < 0.15:
                return ['wrap', base, inj(), rng.random() < 0.25, rng.random() < 0.15,
                        rng.random() < 0.2]
            return ['get', base]
        r = rng.random()
        if r < 0.42:
            return ['use', pick_f(rng), [inj() for _ in range(rng.choice([1, 1, 1, 2, 2, 3]))],
                    rng.random() < 0.25, rng.random() < 0.15, rng.choice(['stack', 'stack', 'direct', 'using'])]
        if r < 0.54:
            cands = [k for k, o in enumerate(case['ops']) if o[0] in USE_OPS]
            if cands:
                return ['map', rng.choice(cands), pick_f(rng)]
            return ['use', pick_f(rng), [inj()], False, False, 'stack']
        if r < 0.76:
            return ['make', rng.randrange(nf), mk()]
        if r < 0.90 and useruns:
            return ['userun', rng.randrange(len(useruns)), mk(), rng.choice([None, None, 0, 1]),
                    pick_f(rng)]
        return ['stats', rng.choice(['task', 'test']), rng.choice(['n', 'n', 'm']),
                [ref() for _ in range(rng.choice([1, 1, 2, 3]))]]

    def mutate(op):
        '''an earlier operation again, identical or with ONE component changed'''
        op = json.loads(json.dumps(op))
        if rng.random() < ident_p[0]:
            return op
        kind = op[0]
        if kind == 'use':
            what = rng.randrange(9)
            if what >= 7:
                # the SAME request spelled differently: the keyword injections (distinct
                # keywords) in another order among the positional ones, built another way
                kws = [i for i in op[2] if i[2] is not None]
                if len(set(i[2] for i in kws)) == len(kws):
                    rng.shuffle(kws)
                    slots = sorted(rng.sample(range(len(op[2])), len(kws)))
                    pos = [i for i in op[2] if i[2] is None]
                    op[2] = [kws.pop(0) if j in slots else pos.pop(0) for j in range(len(op[2]))]
            j = rng.randrange(len(op[2]))
            if what == 0:
                op[1] = pick_f(rng, op[1])
            elif what == 1:
                op[2][j][0] = ref()
            elif what == 2:
                op[2][j][1] = rng.choice([0, 1, 2, None])
            elif what == 3:
                op[2][j][2] = rng.choice([None, 0, 1])
            elif what == 4:
                op[3] = not op[3]
            elif what == 5:
                op[4] = not op[4]
            elif what == 6:
                rng.shuffle(op[2])
            op[5] = rng.choice(['stack', 'direct', 'using'])
        elif kind == 'map':
            if rng.random() < 0.5:
                op[2] = pick_f(rng, op[2])
            else:
                op[1] = rng.choice([k for k, o in enumerate(case['ops'])
                                    if o[0] in USE_OPS])
        elif kind == 'wrap':
            what = rng.randrange(6)
            if what == 0:
                op[1] = base_wrapper()
            elif what == 1:
                op[2][0] = ref()
            elif what == 2:
                op[2][1] = rng.choice([0, 1, 2, None])
            elif what == 3:
                op[2][2] = rng.choice([None, 0, 1])
            elif what == 4:
                op[3] = not op[3]
            else:
                op[4] = not op[4]
            op[5] = rng.random() < 0.2
        elif kind == 'get':
            op[1] = base_wrapper()
        elif kind in ('make', 'userun') and rng.random() < 0.4:
            # the SAME request spelled differently: keywords in another order,
            # extra_args as a tuple, dependencies in another order, fresh strings
            m = op[2]
            rng.shuffle(m['kwargs'])
            rng.shuffle(m['sub'])
            rng.shuffle(m['deps'])
            rng.shuffle(m['soft'])
            old = m.get('spell', [False, False, False])
            m['spell'] = [not old[0] if rng.random() < 0.6 else old[0], rng.random() < 0.5,
                          rng.random() < 0.5, rng.random() < 0.5]
        elif kind in ('make', 'userun'):
            m = op[2]
            what = rng.randrange(8)
            if what == 0:
                m['name'] = rng.choice([None, 't', 'u'])
            elif what == 1:
                m['extra'] = rng.choice([None, [], [1], [2], [1, 2], [2, 1]])
            elif what == 2:
                m['kwargs'] = rng.choice([[], [[0, 2]], [[0, 3]], [[1, 2]], [[2, 1]], [[3, 1], [4, 2]],
                                          [[4, 2], [3, 1]], [[3, 2], [4, 2]], [[2, 1], [3, 1]]])
            elif what == 3:
                m['sub'] = rng.choice([[], [[0, 1]], [[0, 2]], [[1, 18]]])
            elif what == 4:
                m['deps'] = [ref() for _ in range(rng.choice([0, 1, 2]))]
            elif what == 5:
                m['soft'] = [ref() for _ in range(rng.choice([0, 1]))]
            elif what == 6:
                if kind == 'make':
                    op[1] = rng.randrange(nf)
                else:
                    op[1] = rng.randrange(len(useruns))
            else:
                rng.shuffle(m['deps'])
                m['kwargs'] = list(reversed(m['kwargs']))
                m['sub'] = list(reversed(m['sub']))
            if kind == 'userun' and rng.random() < 0.3:
                if rng.random() < 0.5:
                    op[3] = rng.choice([None, 0, 1])
                else:
                    op[4] = pick_f(rng, op[4])
        elif kind == 'stats':
            what = rng.randrange(3)
            if what == 0:
                op[1] = 'test' if op[1] == 'task' else 'task'
            elif what == 1:
                op[2] = rng.choice(['n', 'm'])
            else:
                op[3] = [ref() for _ in range(rng.choice([1, 2]))]
        return op

    ident_p = [0.35]
    repeat_p = 0.45
    bulk_at = rng.randrange(1, nops) if long_n else None
    for _ in range(nops):
        if len(case['ops']) == bulk_at:
            kinds = ['use', 'use', 'stats', 'make'] + (['userun'] if useruns else [])
            case['ops'].append(['bulk', rng.choice(kinds), long_n, rng.randrange(4)])
            ident_p[0], repeat_p = 0.6, 0.85
        earlier = [o for o in case['ops'] if o[0] != 'bulk']
        if earlier and rng.random() < repeat_p:
            op = mutate(rng.choice(earlier))
        else:
            op = fresh()
        case['ops'].append(op)
        n = nslots(case, op)
        slot_ops += [len(case['ops']) - 1] * n
        slot_count += n
    for _ in range(rng.choice([1, 2, 3])):
        roots = [ref() for _ in range(rng.choice([1, 1, 2, 3, 4]))]
        case['collect'].append(roots)
    return case


# --------------------------------------------------------------------------

RULE = ('corpus (the reproduced cache collisions, stacked decorators, map/UseRun chains, name '
        'clashes, a dependency cycle) + random histories of 2..12 operations (use / wrap a wrapper / get_task again / map / make / '
        'userun / task_stats / test_stats) over 20 functions (two named f, two lambdas, a partial '
        'named g; pairs sharing one code object: closures of one factory, lambdas of one loop, one '
        'method bound to two objects, partials of one function, exec of one source; bound methods, '
        'class methods and callable objects with value equality are fetched anew (equal, not identical) '
        'for every request), 1..4 hand-made tasks, 1..3 factories (same-named ones), keys, positional / '
        'keyword, hard / soft, serialize; 45% of the operations repeat an earlier one identically '
        'or with one component changed; non-trivial = some request is served from a cache and at '
        'least two tasks are generated; distinct by case content')


def run(ctx):
    common.import_repo()
    ctx.rule = RULE
    rng = ctx.rng
    cases = corpus()
    ctx.count('corpus', len(cases))
    nrand = 1000 if ctx.tier == 'quick' else 20000
    cases += long_corpus(ctx.tier)
    # long histories: 1 % of the random ones (sizes beyond any plausible bound of a cache)
    sizes = [1100, 1300, 1600, 2100] if ctx.tier == 'quick' else [1100, 1600, 2100, 3000, 5000]
    for i in range(nrand):
        cases.append(gen_case(rng, rng.choice(sizes) if i % 100 == 50 else None))
    ctx.count('long_histories', sum(any(o[0] == 'bulk' for o in c['ops']) for c in cases))
    outroot = os.path.join(ctx.wd(), 'out')
    os.makedirs(outroot, exist_ok=True)
    records = []
    failing = 0
    for case in cases:
        if failing >= 12:
            # the property is violated all over the place: no need to go on
            # (a hanging close_dependency_graph costs 2 s per case)
            ctx.notes.append(f'stopped after {failing} failing cases of {len(records)}')
            break
        nviol = len(ctx.violations)
        rec = run_case(ctx, case, outroot)
        if len(ctx.violations) > nviol:
            failing += 1
            if failing <= 4:
                shrink(ctx, case, outroot, nviol)
        records.append(rec)
        for op in case['ops']:
            ctx.count('op_' + op[0])
        ctx.count('cache_hits', rec['hits'])
        ctx.count('explicit_errors', rec['errors'])
        ctx.count('collect_queries', len(rec['collects']))
        ctx.count('collect_rejected', sum('raise' in c['res'] for c in rec['collects']))
        ctx.count('tasks_generated', rec['ntasks'] - len(case['base']))
        ctx.case_seen(case, nontrivial=rec['hits'] > 0 and rec['ntasks'] - len(case['base']) >= 2,
                      sample_every=499)
    shard_size = 90
    shards = []
    cases = cases[:len(records)]
    # a case in which the execution of a task was skipped (file name too long for the platform)
    # cannot be compared with the model step by step: oracle only
    keep = [i for i, r in enumerate(records) if 'ENAMETOOLONG' not in json.dumps(r, default=str)]
    ctx.count('cases_not_sent_to_model', len(records) - len(keep))
    cases = [cases[i] for i in keep]
    records = [records[i] for i in keep]
    for k in range(0, len(cases), shard_size):
        items = [c_case(c, r) for c, r in zip(cases[k:k + shard_size], records[k:k + shard_size])]
        shards.append('Definition cases : list case :=\n [' + ';\n '.join(items)
                      + '].\nEval vm_compute in bad_indices (map check_case cases).')
    outs = common.coq_eval(ctx.pid, IMPORTS, shards)
    for k, out in enumerate(outs):
        for i in common.parse_nat_list(out):
            case = cases[k * shard_size + i]
            rec = records[k * shard_size + i]
            ctx.mismatch('model and implementation disagree on a history '
                         f'({len(rec["steps"])} model steps)', {'case': case, 'impl': rec})
    ctx.extra['model_steps_compared'] = sum(len(r['steps']) for r in records)
    ctx.assumptions = ['Python object identity is the identity of tasks; functions are compared as '
                       'Use compares them (==, identity for plain functions)',
                       'subprocess.Popen is replaced by a recorder while RunTasks are executed',
                       'det_hash is taken from valjean (the model treats it as an arbitrary function)']


def shrink(ctx, case, outroot, nviol):
    '''replace the failing case of the newest oracle failures by its shortest failing prefix'''
    new = ctx.violations[nviol:]
    keys = set(v[1].split(' :: ')[0] for v in new)
    best = case
    for n in range(1, len(case['ops'])):
        cand = dict(case, ops=case['ops'][:n], collect=[])
        probe = common.Ctx.__new__(common.Ctx)
        probe.violations = []
        probe.findings = []
        probe.known_hits = []
        probe.dist = {}
        try:
            run_case(probe, cand, outroot)
        except Exception:  # noqa
            continue
        if probe.violations:
            best = cand
            new = probe.violations
            break
    if best is not case:
        del ctx.violations[nviol:]
        seen = set()
        for kind, what, _ in new:
            sig = what.split(' :: ')[0]
            if sig not in seen:
                seen.add(sig)
                ctx.violations.append((kind, what, best))
    del keys


def replay(ctx, path):
    common.import_repo()
    data = json.load(open(path))
    case = data['case']
    if isinstance(case, dict) and 'case' in case:
        case = case['case']
    outroot = os.path.join(ctx.wd(), 'out')
    os.makedirs(outroot, exist_ok=True)
    rec = run_case(ctx, case, outroot)
    print('case:', json.dumps(case))
    for st in rec['steps']:
        print('impl:', json.dumps(st))
    for c in rec['collects']:
        print('impl collect:', json.dumps(c))
    body = ('Definition c : case := ' + c_case(case, rec) + '.\n'
            'Eval vm_compute in (check_case c, '
            'let st := snd (check_steps (c_fnames c) (c_facs c) (c_hash c) (mk_state (c_base c) []) '
            '(c_steps c)) in (map (fun t => (t_name t, t_hard t, t_soft t)) (tasks st), '
            'map (fun qw => collect (tasks st) (fst qw)) (c_collect c))).')
    print('model (agrees, tasks, collects):', common.coq_eval(ctx.pid, IMPORTS, [body])[0])
    for v in ctx.violations:
        print('oracle:', v[1][:600])
    import shutil
    shutil.rmtree(ctx.wd(), ignore_errors=True)
    return 0

'''C06: Bonferroni correction and Holm-Bonferroni method.
Implementation (valjean.gavroche.stat_tests.bonferroni) vs Coq model
C06/Model.v, plus the property oracle (plain Python floats as ground truth).'''
import json
import math
import time

import numpy as np

import c0567_layouts as layouts
from vp import common
from vp.common import cz, cn, cb, clist

IMPORTS = '''From Coq Require Import List ZArith.
From VV Require Import Lib.Base Lib.B64 C06.LibF C06.Model.
Import ListNotations.
'''

KNOWN_BOUNDARY = 'bonf-flag-not-holm-flag-at-p-eq-level-over-m'
ALPHAS = [0.001, 0.01, 0.05, 0.1, 0.2, 0.5]
NAN = float('nan')


def bits(x):
    return common.canon_bits(x)


def unbits(n):
    return common.bits_f64(n)


# --------------------------------------------------------------------------
# running the implementation

def build_tests(case):
    '''(inner test, bonferroni test, holm test) built through the public API'''
    from valjean.eponine.dataset import Dataset
    from valjean.gavroche.stat_tests.student import TestStudent, TestResultStudent
    from valjean.gavroche.stat_tests.bonferroni import TestBonferroni, TestHolmBonferroni
    shape = tuple(case['shape'])

    lay = case.get('layouts') or []

    def arr(flat, kind='C'):
        vals = [unbits(b) for b in flat]
        if not shape:
            return np.float64(vals[0])
        return layouts.apply(np.array(vals, dtype=float).reshape(shape), kind)

    if case['kind'] == 'stub':
        # case['layouts'][k]: memory layout of the k-th p-value array (same logical content)
        # case['pdtypes'][k]: dtype of the k-th p-value array (the values are exactly representable)
        pdt = case.get('pdtypes') or []

        def pcast(a, k):
            dtype = pdt[k] if k < len(pdt) else None
            if not dtype or dtype == 'float64':
                return a
            back = np.asarray(a).astype(dtype)
            assert np.array_equal(np.asarray(back, dtype=float), np.asarray(a, dtype=float), equal_nan=True), dtype
            return back if shape else back[()]
        parrs = [pcast(arr(p, lay[k] if k < len(lay) else 'C'), k) for k, p in enumerate(case['pvals'])]
        zero = arr([0] * (int(np.prod(shape)) if shape else 1))

        class PvalueStub(TestStudent):
            '''a Student test whose p-values are dictated by the case'''
            def evaluate(self):
                return TestResultStudent(self, [np.zeros_like(p) for p in parrs], list(parrs))
        dsref = Dataset(zero, zero)
        if case.get('refmask') is not None and shape:      # a reference that went through Dataset.mask()
            dsref = dsref.mask(np.array(case['refmask'], dtype=bool).reshape(shape))
        inner = PvalueStub(dsref, *[Dataset(zero, zero) for _ in parrs],
                           name='stub', alpha=layouts.scalar(case['alpha'], case.get('alpha_type')))
    else:
        dty = case.get('dtypes') or []
        msk = case.get('masks') or []
        dsets = [layouts.make_dataset(Dataset, shape, [unbits(b) for b in v], [unbits(b) for b in e],
                                      lay[k] if k < len(lay) else ('C', 'C'), dty[k] if k < len(dty) else None,
                                      msk[k] if k < len(msk) else None)
                 for k, (v, e) in enumerate(case['datasets'])]
        inner = TestStudent(*dsets, name='student', alpha=layouts.scalar(case['alpha'], case.get('alpha_type')), ndf=layouts.scalar(case['ndf'], case.get('ndf_type')))
    tbonf = TestBonferroni(name='bonf', test=inner, alpha=layouts.scalar(case['alpha'], case.get('alpha_type')))
    tholm = TestHolmBonferroni(name='holm', test=inner, alpha=layouts.scalar(case['alpha'], case.get('alpha_type')))
    return inner, tbonf, tholm


def static_methods_differ(tbonf, tholm, inner_res, rbonf, rholm):
    '''the documented static methods, called directly on the p-value arrays (whatever their
    memory layout), must give what evaluate() reports; None when they agree or do not exist'''
    bonf = getattr(type(tbonf), 'bonferroni_correction', None)
    holm = getattr(type(tholm), 'holm_bonferroni_method', None)
    for d, pvals in enumerate(inner_res.pvalue):
        if bonf is not None:
            got = np.asarray(bonf(pvals, tbonf.bonf_signi_level))
            if not np.array_equal(got, np.asarray(rbonf.rejected_null_hyp[d])):
                return f'bonferroni_correction on array {d}'
        if holm is not None:
            al, fl = holm(pvals, tholm.alpha)
            if not (np.array_equal(np.asarray(fl), np.asarray(rholm.rejected_null_hyp[d]))
                    and np.array_equal(np.asarray(al), np.asarray(rholm.alphas_i[d]))):
                # ties may be ranked differently by two calls only if argsort is not deterministic
                return f'holm_bonferroni_method on array {d}'
    return None


def history_differs(case, inner, tbonf, tholm, rbonf, rholm, before):
    '''the same test objects evaluated again (in another order): equal results, earlier results and
    the first test's alpha / ndf / threshold unchanged; None when all is well'''
    def snap(res):
        return (bool(res), [np.array(x, copy=True) for x in res.rejected_null_hyp], list(res.nb_rejected))

    def same(a, b):
        return a[0] == b[0] and a[2] == b[2] and all(np.array_equal(x, y) for x, y in zip(a[1], b[1]))
    sb, sh = snap(rbonf), snap(rholm)
    order = [tholm, tbonf, tholm] if len(case['shape']) % 2 else [tbonf, tholm, tbonf]
    for test in order:
        again = snap(test.evaluate())
        if not same(again, sb if test is tbonf else sh):
            return f're-evaluating the {type(test).__name__} gives another result'
        if not same(snap(rbonf), sb) or not same(snap(rholm), sh):
            return 'an earlier correction result changed after another evaluation'
        if (bits(inner.alpha), inner.ndf, bits(inner.threshold)) != before:
            return (f'the first test was modified by a correction: alpha {unbits(before[0])!r} -> '
                    f'{float(inner.alpha)!r}, threshold {unbits(before[2])!r} -> {float(inner.threshold)!r}')
    import copy
    for name, test, want in (('Bonferroni', tbonf, sb), ('Holm-Bonferroni', tholm, sh)):
        if not same(snap(copy.deepcopy(test).evaluate()), want):
            return f'a deep copy of the {name} test evaluates differently'
    if not same(snap(copy.deepcopy(rholm)), sh) or not same(snap(copy.copy(rbonf)), sb):
        return 'a copy of a correction result reads differently'
    return None


def run_impl(case):
    '''canonical observation of one case (dict), or {'raise': class name}'''
    shape = tuple(case['shape'])
    try:
        with np.errstate(all='ignore'):
            inner, tbonf, tholm = build_tests(case)
            before = (bits(inner.alpha), inner.ndf, bits(inner.threshold))
            rbonf = tbonf.evaluate()
            rholm = tholm.evaluate()
            inner_res = rbonf.first_test_res
            obs = {'arrays': [], 'student_verdict': None}
            if case['kind'] == 'student':
                obs['student_verdict'] = bool(inner_res)
            obs['bonf_verdict'] = bool(rbonf)
            obs['holm_verdict'] = bool(rholm)
            obs['blevel'] = bits(tbonf.bonf_signi_level)
            ndat = len(inner_res.pvalue)
            for d in range(ndat):
                pvals = np.asarray(inner_res.pvalue[d], dtype=float)
                pvals_h = np.asarray(rholm.first_test_res.pvalue[d], dtype=float)
                bfl = np.asarray(rbonf.rejected_null_hyp[d])
                hal = np.asarray(rholm.alphas_i[d], dtype=float)
                hfl = np.asarray(rholm.rejected_null_hyp[d])
                obs['arrays'].append({
                    'pvals': [bits(x) for x in pvals.reshape(-1)],
                    'pvals_same': bool(np.array_equal(pvals, pvals_h, equal_nan=True)),
                    'shapes_ok': bool(pvals.shape == shape and bfl.shape == shape
                                      and hal.shape == shape and hfl.shape == shape),
                    'bflags': [bool(x) for x in bfl.reshape(-1)],
                    'bnb': int(rbonf.nb_rejected[d]),
                    'halphas': [bits(x) for x in hal.reshape(-1)],
                    'hflags': [bool(x) for x in hfl.reshape(-1)],
                    'hnb': int(rholm.nb_rejected[d]),
                })
            obs['static_differs'] = static_methods_differ(tbonf, tholm, inner_res, rbonf, rholm)
            obs['history_differs'] = history_differs(case, inner, tbonf, tholm, rbonf, rholm, before)
            obs['inner_alpha'] = bits(inner.alpha)
            if len(rbonf.rejected_null_hyp) != ndat or len(rholm.rejected_null_hyp) != ndat:
                return {'raise': 'WrongNumberOfDatasets'}
            return obs
    except Exception as exc:  # noqa
        return {'raise': type(exc).__name__}


# --------------------------------------------------------------------------
# the property, transcribed (ground truth: Python floats, sorted())

def oracle(ctx, case, obs):
    tag = f' :: {json.dumps(case)[:600]}'
    if 'raise' in obs:
        ctx.oracle_failure('corrections raise ' + obs['raise'] + tag, case, key='raises')
        return
    if obs.get('history_differs'):
        ctx.oracle_failure('history: ' + obs['history_differs'] + tag, case, key='history')
        return
    if obs.get('inner_alpha') != bits(case['alpha']):
        ctx.oracle_failure(f'the first test reads alpha {unbits(obs["inner_alpha"])!r}, requested {case["alpha"]!r}'
                           + tag, case, key='inner-alpha')
        return
    if obs.get('static_differs'):
        ctx.oracle_failure('static method called directly differs from evaluate(): ' + obs['static_differs']
                           + tag, case, key='static-method')
        return
    alpha = case['alpha']
    lvl = alpha / 2
    nothing_b, nothing_h = True, True
    for d, arr in enumerate(obs['arrays']):
        ps = [unbits(b) for b in arr['pvals']]
        m = len(ps)
        if not arr['shapes_ok'] or len(arr['bflags']) != m or len(arr['hflags']) != m:
            ctx.oracle_failure('flags are not reported in the shape of the bins' + tag, case, key='shape')
            return
        if case['kind'] == 'stub' and arr['pvals'] != [bits(unbits(b)) for b in case['pvals'][d]]:
            ctx.oracle_failure('p-values of the first test altered' + tag, case, key='pvals-altered')
            return
        bfl, hfl = arr['bflags'], arr['hflags']
        hal = [unbits(b) for b in arr['halphas']]
        # full pipeline (real Student first test): the p-value of a bin is defined iff its statistic
        # is (only 0/0, equal values with BOTH errors NaN, and both values NaN are forced to t = 0),
        # it is then the two-sided p-value of that statistic, and an undefined bin is flagged by both
        if case['kind'] == 'student' and not case.get('masks'):
            import c05
            ref_v, ref_e = [[unbits(b) for b in x] for x in case['datasets'][0]]
            dv, de = [[unbits(b) for b in x] for x in case['datasets'][d + 1]]
            for i, p in enumerate(ps):
                texp = c05.expected_t(ref_v[i], ref_e[i], dv[i], de[i])
                pexp = c05.expected_pvalue(abs(texp), case['ndf'])
                if pexp != pexp and not (bfl[i] and hfl[i]):
                    ctx.oracle_failure(
                        f'bin {i} of dataset {d} (values {ref_v[i]!r}, {dv[i]!r}; errors {ref_e[i]!r}, {de[i]!r}) has no '
                        f'defined statistic but is accepted by {"Bonferroni" if not bfl[i] else "Holm-Bonferroni"} '
                        f'(p-value reported: {p!r})' + tag, case, key='undefined-bin-accepted')
                    return
                if (pexp != pexp) != (p != p):
                    ctx.oracle_failure(
                        f'bin {i} of dataset {d} (values {ref_v[i]!r}, {dv[i]!r}; errors {ref_e[i]!r}, {de[i]!r}): p-value '
                        f'{p!r} but the statistic is {"un" if pexp != pexp else ""}defined' + tag, case,
                        key='pvalue-definedness')
                    return
                thyp = c05.expected_t(ref_v[i], ref_e[i], dv[i], de[i], hypot=True)
                if pexp == pexp and not (c05.rel_close(p, pexp, 1e-7) or abs(p - pexp) < 1e-300
                                         or c05.rel_close(p, c05.expected_pvalue(abs(thyp), case['ndf']), 1e-7)):
                    ctx.oracle_failure(f'bin {i} of dataset {d}: p-value {p!r} handed to the corrections, two-sided '
                                       f'p-value of the statistic is {pexp!r}' + tag, case, key='pipeline-pvalue')
                    return
        # a bin without a defined p-value is never accepted
        for i, p in enumerate(ps):
            if p != p and not (bfl[i] and hfl[i]):
                ctx.oracle_failure(f'bin {i} of dataset {d} has p-value NaN and is accepted by '
                                   f'{"Bonferroni" if not bfl[i] else "Holm-Bonferroni"}' + tag, case,
                                   key='nan-accepted')
                return
        # Bonferroni: flagged exactly when p <= level/m (position by position)
        for i, p in enumerate(ps):
            if p == p and bfl[i] != (p <= lvl / m):
                ctx.oracle_failure(f'Bonferroni flag of bin {i} (p={p!r}, level/m={lvl / m!r}) is '
                                   f'{bfl[i]}' + tag, case, key='bonf-flag')
                return
        if unbits(obs['blevel']) != lvl / m:
            ctx.oracle_failure('Bonferroni per-bin level is not level/m' + tag, case, key='bonf-level')
            return
        # Holm: rank k (from 1, sorted increasingly, undefined last) flagged exactly when
        # p < level/(m-k+1); inside a group of equal p-values any assignment of its ranks
        order = sorted(range(m), key=lambda i: (ps[i] != ps[i], 0. if ps[i] != ps[i] else ps[i]))
        k = 0
        while k < m:
            j = k
            while j + 1 < m and (ps[order[j + 1]] == ps[order[k]]
                                 or (ps[order[j + 1]] != ps[order[j + 1]] and ps[order[k]] != ps[order[k]])):
                j += 1
            p = ps[order[k]]
            want = sorted((lvl / (m - r), (p < lvl / (m - r)) or p != p) for r in range(k, j + 1))
            got = sorted((hal[order[r]], hfl[order[r]]) for r in range(k, j + 1))
            if want != got:
                ctx.oracle_failure(f'Holm-Bonferroni levels/flags of the bins with p={p!r} (ranks '
                                   f'{k + 1}..{j + 1} of {m}) are {got}, expected {want}' + tag, case,
                                   key='holm-flag')
                return
            k = j + 1
        if arr['bnb'] != sum(bfl) or arr['hnb'] != sum(hfl):
            ctx.oracle_failure('nb_rejected is not the number of flagged bins' + tag, case, key='nb-rejected')
            return
        nothing_b = nothing_b and not any(bfl)
        nothing_h = nothing_h and not any(hfl)
        # every bin flagged by Bonferroni is flagged by Holm-Bonferroni
        for i, p in enumerate(ps):
            if bfl[i] and not hfl[i]:
                if p == lvl / m and hal[i] == lvl / m:
                    ctx.oracle_failure(
                        f'bin {i} with p == level/m == {p!r} exactly is flagged by Bonferroni (<=) and '
                        f'not by Holm-Bonferroni (<, rank 1)' + tag, case, key=KNOWN_BOUNDARY)
                    ctx.count('known_boundary_hits')
                else:
                    ctx.oracle_failure(f'bin {i} (p={p!r}) flagged by Bonferroni, not by Holm-Bonferroni'
                                       + tag, case, key='bonf-not-subset-holm')
                    return
    if obs['bonf_verdict'] != nothing_b or obs['holm_verdict'] != nothing_h:
        ctx.oracle_failure('verdict is not "nothing flagged"' + tag, case, key='verdict')
        return
    if obs['student_verdict'] is True and not case.get('masks') \
            and not (obs['bonf_verdict'] and obs['holm_verdict']):
        ctx.oracle_failure('Student comparison passes bin by bin but a correction at the same level fails'
                           + tag, case, key='student-pass-correction-fail')


# --------------------------------------------------------------------------
# generation

def rand_shape(rng, m):
    '''a shape of size m with 1..3 dimensions (or () when m == 1, sometimes)'''
    if m == 1 and rng.random() < 0.5:
        return []
    nd = rng.choice([1, 1, 2, 2, 3])
    shape = []
    rest = m
    for _ in range(nd - 1):
        divs = [q for q in range(1, rest + 1) if rest % q == 0]
        q = rng.choice(divs)
        shape.append(q)
        rest //= q
    shape.append(rest)
    rng.shuffle(shape)
    return shape


def gen_pvals(rng, m, alpha, nan_rate):
    lvl = alpha / 2
    out = []
    for _ in range(m):
        r = rng.random()
        if r < nan_rate:
            p = NAN
        elif r < nan_rate + 0.10:
            p = rng.choice([0.0, 1.0])
        elif r < nan_rate + 0.30:             # exact per-rank levels and their float neighbours
            k = rng.randrange(m)
            p = lvl / (m - k)
            q = rng.random()
            if q < 0.25:
                p = math.nextafter(p, 0.0)
            elif q < 0.5:
                p = math.nextafter(p, 1.0)
        elif r < nan_rate + 0.55:             # around the levels
            p = min(1.0, lvl / m * math.exp(rng.uniform(-3, math.log(m) + 3)))
        else:
            p = rng.random()
        out.append(p)
    # ties: copy other entries
    for i in range(m):
        if m > 1 and rng.random() < 0.2:
            out[i] = out[rng.randrange(m)]
    return out


def gen_student(rng, m, shape, alpha):
    ndat = rng.choice([1, 1, 2, 3])
    special = rng.random() < 0.4

    def vals():
        out = []
        for _ in range(m):
            r = rng.random()
            if special and r < 0.08:
                out.append(NAN)
            elif special and r < 0.11:
                out.append(rng.choice([math.inf, -math.inf]))
            else:
                out.append(round(rng.gauss(5, 1), 3))
        return out

    def errs():
        return [0.0 if rng.random() < 0.08 else (NAN if special and rng.random() < 0.05
                                                 else round(rng.uniform(0.05, 1.5), 3))
                for _ in range(m)]
    ref = vals()
    sets = [[ref, errs()]]
    for _ in range(ndat):
        other = [v if rng.random() < 0.1 else (v + rng.gauss(0, 1) if v == v and abs(v) != math.inf else w)
                 for v, w in zip(ref, vals())]
        sets.append([other, errs()])
    if rng.random() < 0.25:              # bins drawn from {equal, different values} x {error NaN in none/first/second/both}
        for other, oerr in sets[1:]:
            for i in range(m):
                if rng.random() < 0.6:
                    if rng.random() < 0.5 and ref[i] == ref[i]:
                        other[i] = ref[i]
                    pat = rng.randrange(4)
                    sets[0][1][i] = NAN if pat in (1, 3) else (sets[0][1][i] if sets[0][1][i] == sets[0][1][i] else 0.3)
                    oerr[i] = NAN if pat in (2, 3) else (oerr[i] if oerr[i] == oerr[i] else 0.4)
    case_extra = {}
    q = rng.random()
    if q < 0.2:                          # integer-valued data with integer dtypes (all or mixed)
        all_int = rng.random() < 0.6
        dts = []
        for k, (v, e) in enumerate(sets):
            int_val = all_int or rng.random() < 0.5
            int_err = rng.random() < 0.5
            if int_val:
                v[:] = [float(round(x * 10)) if x == x and abs(x) != math.inf else x for x in v]
            if int_err:
                e[:] = [float(round(x * 6)) if x == x else x for x in e]
            dts.append([rng.choice(layouts.INT_VALUE_DTYPES) if int_val else 'float64',
                        rng.choice(layouts.INT_ERROR_DTYPES) if int_err else 'float64'])
        case_extra['dtypes'] = dts
    elif q < 0.5 and shape:              # datasets that went through Dataset.mask()
        def pattern():
            r = rng.random()
            return [0] * m if r < 0.2 else [1] * m if r < 0.3 else [int(rng.random() < 0.3) for _ in range(m)]
        who = rng.choice(['ref', 'cmp', 'both'])
        case_extra['masks'] = [pattern() if (who == 'both' or (k == 0) == (who == 'ref')) else None
                               for k in range(len(sets))]
    ndf = rng.choice([None, 1, 2, 3, 10, 1000, 10 ** 6])
    return {'kind': 'student', 'alpha': alpha, 'shape': shape, 'ndf': ndf,
            'ndf_type': layouts.pick_ndf_type(rng, ndf), **case_extra,
            'layouts': ([[layouts.pick(rng, shape), layouts.pick(rng, shape)] for _ in sets] if rng.random() < 0.6
                        else [[k, k] for k in [layouts.pick(rng, shape, plain=0.0)] for _ in sets]),
            'datasets': [[[bits(x) for x in v], [bits(x) for x in e]] for v, e in sets]}


def stub_case(alpha, shape, parrs, lay=None):
    case = {'kind': 'stub', 'alpha': alpha, 'shape': shape,
            'pvals': [[bits(x) for x in p] for p in parrs]}
    if lay:
        case['layouts'] = lay
    return case


INT_P_DTYPES = ['int8', 'int16', 'int32', 'int64', 'uint8', 'uint16', 'uint32', 'uint64', 'bool']
DYADIC = [0.0, 1.0, 0.5, 0.25, 0.75] + [2.0 ** -k for k in range(3, 12)]      # exact in float16/32/64


def dtype_cases(rng, quick):
    '''p-value arrays that are not float64: every array of zeros and ones of size <= 4 (quick 3) for
    every integer dtype and bool, and dyadic p-values (exact in float16) as float32 / float16;
    levels and flags must be those of the same numbers as float64'''
    import itertools
    out = []
    mmax = 3 if quick else 4
    for dtype in INT_P_DTYPES:
        for m in range(1, mmax + 1):
            tuples = [list(map(float, t)) for t in itertools.product((0, 1), repeat=m)]
            for k in range(0, len(tuples), 8):
                shape = [[m], [1, m], [m, 1]][(k // 8 + m) % 3] if m != 4 else [[4], [2, 2]][(k // 8) % 2]
                batch = tuples[k:k + 8]
                alpha = [0.05, 0.5, 0.01][(m + k // 8) % 3]
                case = stub_case(alpha, shape, batch, [layouts.KINDS[(k // 8 + m) % 7]] * len(batch))
                case['pdtypes'] = [dtype] * len(batch)
                out.append(case)
    for dtype in ('float32', 'float16'):
        for _ in range(12 if quick else 150):
            m = rng.choice([1, 2, 3, 4, 6, 8, 12])
            shape = rand_shape(rng, m)
            parrs = [[NAN if rng.random() < 0.05 else rng.choice(DYADIC) for _ in range(m)]
                     for _ in range(rng.choice([1, 2, 3]))]
            case = stub_case(rng.choice([0.05, 0.5, 0.01, 0.25]), shape, parrs, [layouts.pick(rng, shape) for _ in parrs])
            case['pdtypes'] = [dtype] * len(parrs)
            out.append(case)
    return out


def nan_grid_cases():
    '''real Student first test: every combination of {equal, different values} x {error NaN in none /
    the first / the second / both datasets} per bin -- as one 2x4 array, as eight scalar comparisons
    and with two compared datasets carrying different patterns'''
    combos = [(same, pat) for same in (True, False) for pat in range(4)]

    def bin_(same, pat):
        return (5.0, NAN if pat in (1, 3) else 0.2, 5.0 if same else 5.9, NAN if pat in (2, 3) else 0.1)
    bins = [bin_(*c) for c in combos]
    out = []

    def student(shape, ndf, *sets):
        return {'kind': 'student', 'alpha': 0.05, 'shape': shape, 'ndf': ndf,
                'datasets': [[[bits(x) for x in v], [bits(x) for x in e]] for v, e in sets]}
    for ndf in (None, 10):
        out.append(student([2, 4], ndf, ([b[0] for b in bins], [b[1] for b in bins]),
                           ([b[2] for b in bins], [b[3] for b in bins])))
        for b in bins:
            out.append(student([], ndf, ([b[0]], [b[1]]), ([b[2]], [b[3]])))
        for k in range(8):                       # one special bin among ordinary ones, two compared datasets
            b, c = bins[k], bins[(k + 3) % 8]
            out.append(student([3], ndf, ([5.2, b[0], 5.4], [0.2, b[1], 0.2]), ([5.1, b[2], 5.3], [0.1, b[3], 0.4]),
                               ([5.3, c[2], 5.5], [0.3, c[3] if (c[1] != c[1]) == (b[1] != b[1]) else b[3], 0.2])))
    return out


def layout_cases():
    '''the same mixed-flag p-values (2-d and 3-d) under every memory layout'''
    out = []
    p6 = [0.3, 0.0001, 0.5, 0.004, 0.011, 0.9]
    p24 = [0.5, 1e-5, 0.3, 0.002, 0.9, 0.0011, 0.7, 0.04, 0.2, 0.0008, 0.6, 0.1,
           0.45, 3e-4, 0.35, 0.0021, 0.95, 0.0013, 0.75, 0.045, 0.25, 0.0009, 0.65, 0.15]
    for kind in layouts.KINDS:
        out.append(stub_case(0.05, [2, 3], [p6], [kind]))
        out.append(stub_case(0.05, [3, 2], [p6, p6[::-1]], [kind, 'C']))
        out.append(stub_case(0.05, [2, 3, 4], [p24], [kind]))
    out.append(stub_case(0.05, [2, 3], [[0.001] * 6], ['B']))        # broadcast (all equal)
    return out


def corpus():
    cases = [
        stub_case(0.05, [3], [[1.0, NAN, 1.0]]),                      # NaN accepted (fixed)
        stub_case(0.05, [2, 2], [[0.0125, 0.5, 0.3, 0.00625]]),       # p == level/m (known finding)
        stub_case(0.05, [], [[NAN]]),
        stub_case(0.05, [], [[0.025]]),
        stub_case(0.05, [], [[0.3]]),
        stub_case(0.01, [4], [[NAN, NAN, NAN, NAN]]),
        stub_case(0.1, [5], [[0.01, 0.01, 0.01, 0.01, 0.01]]),        # one group of ties across levels
        stub_case(0.1, [2, 3], [[0.05 / 6, 0.05 / 5, 0.05 / 4, 0.05 / 3, 0.05 / 2, 0.05]]),
        stub_case(0.1, [3, 2], [[0.05, 0.05 / 2, 0.05 / 3, 0.05 / 4, 0.05 / 5, 0.05 / 6],
                                [0.5, 0.5, 0.001, 0.5, NAN, 0.002]]),
        stub_case(0.5, [1, 1, 1], [[0.25]]),
        # docstring example (Student with one value NaN on one side)
        {'kind': 'student', 'alpha': 0.05, 'shape': [3], 'ndf': None,
         'datasets': [[[bits(x) for x in (1.0, NAN, 3.0)], [bits(x) for x in (0.1, 0.1, 0.1)]],
                      [[bits(x) for x in (1.0, 2.0, 3.0)], [bits(x) for x in (0.1, 0.1, 0.1)]]]},
    ]
    p6 = [0.3, 0.0001, 0.5, 0.0045, 0.011, 0.9]
    for refmask in ([0] * 6, [0, 1, 0, 0, 0, 1], [1] * 6):            # masked reference: still 6 bins
        cases.append(dict(stub_case(0.05, [2, 3], [p6]), refmask=refmask))
    doc = [[[5.2, 5.3, 5.25, 5.4, 5.5, 9.0], [0.2, 0.25, 0.1, 0.2, 0.3, 0.1]],
           [[5.1, 5.9, 5.8, 5.3, 4.5, 1.0], [0.1, 0.1, 0.05, 0.4, 0.1, 0.1]]]
    for masks in ([[0, 1, 0, 0, 0, 1], None], [None, [0, 1, 0, 0, 0, 1]], [[1] * 6, None]):
        cases.append({'kind': 'student', 'alpha': 0.05, 'shape': [6], 'ndf': 10, 'masks': masks,
                      'datasets': [[[bits(x) for x in v], [bits(x) for x in e]] for v, e in doc]})
    counts = [[[52, 53, 52, 54, 55, 90], [2, 3, 1, 2, 3, 1]], [[51, 59, 58, 53, 45, 10], [1, 1, 2, 4, 1, 1]]]
    for dts in ([['int64', 'int64'], ['int64', 'int64']], [['int32', 'uint32'], ['float64', 'float64']]):
        cases.append({'kind': 'student', 'alpha': 0.05, 'shape': [2, 3], 'ndf': None, 'dtypes': dts,
                      'datasets': [[[bits(x) for x in v], [bits(x) for x in e]] for v, e in counts]})
    return cases


def lattice(alpha, m, mids=True):
    '''p-values containing every decision boundary of both corrections for m bins: 0, each level
    level/(m-k) exactly and one ulp below / above it, a value below the smallest level, one between
    consecutive levels, one above the overall level, 1 and NaN'''
    lvl = alpha / 2
    bounds = [lvl / (m - k) for k in range(m)]              # level/m ... level/1, increasing
    vals = [0.0, bounds[0] / 2] if mids else [0.0]
    for k, b in enumerate(bounds):
        vals += [math.nextafter(b, 0.0), b, math.nextafter(b, 1.0)]
        if mids and k + 1 < m:
            vals.append((b + bounds[k + 1]) / 2)
    vals += [(lvl + 1) / 2, 1.0, NAN]
    return vals


EXH_SHAPES = {1: [[1], [], [1, 1]], 2: [[2], [1, 2], [2, 1]], 3: [[3], [3, 1], [1, 3]], 4: [[4], [2, 2], [2, 2], [4, 1]]}


def exhaustive_cases(tier):
    '''EVERY array of m p-values over lattice(alpha, m) (all orders, hence all tie patterns and all
    positions), several arrays per stub case; returns (cases, number of arrays, bound text)'''
    import itertools
    # (alpha, sizes, with the values strictly between the boundaries)
    plan = [(0.05, [1, 2, 3], True), (0.3, [1, 2], True)] if tier == 'quick' else \
        [(0.05, [1, 2, 3], True), (0.01, [1, 2, 3], True), (0.3, [1, 2, 3], True), (0.05, [4], False)]
    cases, total = [], 0
    for alpha, sizes, mids in plan:
        for m in sizes:
            vals = lattice(alpha, m, mids)
            shapes = EXH_SHAPES[m]
            batch, k = [], 0
            for tup in itertools.product(vals, repeat=m):
                batch.append(list(tup))
                total += 1
                if len(batch) == 8:
                    shape = shapes[k % len(shapes)]
                    kind = layouts.KINDS[k % len(layouts.KINDS)]
                    cases.append(dict(stub_case(alpha, shape, batch, [kind] * len(batch)), exhaustive=True))
                    batch, k = [], k + 1
            if batch:
                cases.append(dict(stub_case(alpha, shapes[k % len(shapes)], batch), exhaustive=True))
    bound = '; '.join(f'alpha={a}: every array of m in {ms} p-values over the '
                      + ('full lattice' if mids else 'lattice without the values strictly between boundaries '
                         '(0, every level and its two float neighbours, a value above the overall level, 1, NaN)')
                      for a, ms, mids in plan)
    return cases, total, bound


def gen_cases(ctx):
    rng = ctx.rng
    quick = ctx.tier == 'quick'
    cases = corpus()
    ctx.count('corpus', len(cases))
    cases += layout_cases()
    ctx.count('layout_grid_cases', len(cases) - ctx.dist['corpus'])
    extra = nan_grid_cases()
    ctx.count('student_nan_error_grid_cases', len(extra))
    cases += extra
    extra = dtype_cases(rng, quick)
    ctx.count('non_float64_pvalue_cases', len(extra))
    cases += extra
    nrand = 200 if quick else 9000
    mmax = 40 if quick else 120
    for _ in range(nrand):
        m = rng.choice([1, 2, 3, 4, 5, 6, 8]) if rng.random() < 0.5 else rng.randint(1, mmax)
        if not quick and rng.random() < 0.9:
            m = min(m, 48)
        shape = rand_shape(rng, m)
        alpha = rng.choice(ALPHAS) if rng.random() < 0.8 else round(rng.uniform(0.0005, 0.999), 4)
        if rng.random() < 0.15:
            cases.append(gen_student(rng, m, shape, alpha))
            continue
        nan_rate = 0.12 if rng.random() < 0.35 else 0.0
        ndat = rng.choice([1, 1, 1, 2, 3])
        parrs = [gen_pvals(rng, m, alpha, nan_rate) for _ in range(ndat)]
        if rng.random() < 0.04:
            parrs = [[p[0]] * m for p in parrs]                     # constant array: broadcastable
        case = stub_case(alpha, shape, parrs, [layouts.pick(rng, shape) for _ in parrs])
        if rng.random() < 0.06:                                     # zeros and ones with an integer / bool dtype
            case['pvals'] = [[bits(float(rng.random() < 0.5)) for _ in range(m)] for _ in parrs]
            case['pdtypes'] = [rng.choice(INT_P_DTYPES) for _ in parrs]
        if rng.random() < 0.2:                                      # alpha as a NumPy number (same value)
            case['alpha_type'] = rng.choice(['float64', 'array0'])
        if shape and rng.random() < 0.12:                           # masked reference dataset
            r = rng.random()
            case['refmask'] = [0] * m if r < 0.2 else [1] * m if r < 0.3 else [int(rng.random() < 0.3) for _ in range(m)]
        cases.append(case)
    return cases


# --------------------------------------------------------------------------
# model side

def coq_obs(obs, arr):
    return ('(mk_obs ' + cz(obs['blevel']) + ' ' + clist([cb(x) for x in arr['bflags']]) + ' '
            + cn(arr['bnb']) + ' ' + clist([cz(x) for x in arr['halphas']]) + ' '
            + clist([cb(x) for x in arr['hflags']]) + ' ' + cn(arr['hnb']) + ')')


def coq_case(case, obs):
    arrs = ['(' + clist([cz(x) for x in arr['pvals']]) + ', ' + coq_obs(obs, arr) + ')'
            for arr in obs['arrays']]
    return ('(' + cz(bits(case['alpha'])) + ', ' + clist(arrs) + ', ' + cb(obs['bonf_verdict'])
            + ', ' + cb(obs['holm_verdict']) + ')')


def classify(ctx, case, obs):
    '''input distribution + non-triviality'''
    ctx.count('kind_' + case['kind'])
    if case.get('alpha_type'):
        ctx.count('alpha_type_' + case['alpha_type'])
    if case.get('ndf_type'):
        ctx.count('ndf_type_' + case['ndf_type'])
    for dt in case.get('pdtypes') or []:
        ctx.count('pvalue_dtype_' + dt)
    if case.get('masks') or case.get('refmask') is not None:
        ctx.count('masked_datasets_cases')
    if case.get('dtypes'):
        ctx.count('integer_dtype_cases')
    for kind in case.get('layouts') or []:
        for k in (kind if case['kind'] == 'student' else [kind]):
            ctx.count('layout_' + k)
    ctx.count('ndim_%d' % len(case['shape']))
    nontrivial = False
    for arr in obs.get('arrays', []):
        ps = [unbits(b) for b in arr['pvals']]
        ctx.count('arrays')
        ctx.count('bins', len(ps))
        if any(p != p for p in ps):
            ctx.count('arrays_with_nan')
        fin = [p for p in ps if p == p]
        if len(set(fin)) < len(fin):
            ctx.count('arrays_with_ties')
        if any(arr['hflags']) and not all(arr['hflags']):
            nontrivial = True
            ctx.count('arrays_mixed_flags')
        if arr['hflags'] != arr['bflags']:
            ctx.count('arrays_holm_differs_from_bonf')
    return nontrivial


def run(ctx):
    common.import_repo()
    ctx.rule = ('corpus (NaN, p == level/m, scalars, ties) + random p-value arrays of size 1..40 (quick) / '
                '1..120 (thorough), scalar to 3-d shapes, 1..3 compared datasets, p-values drawn around the '
                'per-rank levels incl. the exact levels and their float neighbours, ties 20%, 0/1 10%, NaN 12% '
                'in a third of the cases; every p-value / value / error array handed over C- or Fortran-ordered, axis-permuted, strided, negatively strided, read-only or broadcast (55% non-plain) and the documented static methods called directly on them; 15% real Student tests, with the full-pipeline oracle (p-value handed to the corrections = two-sided p-value of the statistic of the datasets, defined iff the statistic is; undefined bins flagged) and a deterministic grid {equal, different values} x {error NaN in none/first/second/both} as array, scalars and with two compared datasets (20% of them integer-valued with int dtypes, 30% masked through Dataset.mask(); 12% of the stub cases have a masked reference); p-value arrays of zeros and ones with every integer dtype and bool (all arrays of size <= 3, thorough 4) and dyadic p-values as float32/float16, through evaluate() and the static methods: levels/flags of the same numbers as float64; every case re-evaluates the same Bonferroni/Holm/first-test objects in another order and re-reads the earlier results; non-trivial = some array has flagged and '
                'unflagged bins under Holm-Bonferroni; distinct by case content')
    cases = gen_cases(ctx)
    exh, n_exh, bound = exhaustive_cases(ctx.tier)
    ctx.count('exhaustive_cases', len(exh))
    ctx.count('exhaustive_arrays', n_exh)
    cases = cases[:ctx.dist['corpus']] + exh + cases[ctx.dist['corpus']:]
    ctx.rule = (f'EXHAUSTIVE small scope: {bound}, over the lattice {{0, below the smallest level, every level '
                f'level/(m-k) exactly and one ulp below/above it, a value between consecutive levels, a value above the '
                f'overall level, 1, NaN}} (all orders, ties and positions; 1-d and 2-d shapes, 7 memory layouts; '
                f'{n_exh} arrays), Bonferroni and Holm-Bonferroni through evaluate() and the static methods, compared '
                f'with the model inside Coq and with the sorted-ranks oracle; PLUS ' + ctx.rule)
    done = []
    t_start = time.time()
    for case in cases:
        obs = run_impl(case)
        oracle(ctx, case, obs)
        nontrivial = classify(ctx, case, obs)
        ctx.case_seen(case, nontrivial, sample_every=499)
        if 'raise' not in obs:
            done.append((case, obs))
        else:
            ctx.count('raise_' + obs['raise'])
    # model side: shards balanced by number of bins
    nshard = max(16, len(done) // 150)
    shards = [[] for _ in range(nshard)]
    load = [0] * nshard
    for item in sorted(done, key=lambda co: -sum(len(a['pvals']) for a in co[1]['arrays'])):
        k = load.index(min(load))
        shards[k].append(item)
        load[k] += sum(len(a['pvals']) for a in item[1]['arrays']) + 3
    shards = [s for s in shards if s]
    bodies = []
    for chunk in shards:
        items = [coq_case(case, obs) for case, obs in chunk]
        sizes = sorted({(bits(case['alpha']), len(a['pvals'])) for case, obs in chunk for a in obs['arrays']})
        bodies.append('Definition cases : list (Z * list (list Z * obs) * bool * bool) :=\n '
                      + clist(items).replace('); (', ');\n (')
                      + '.\nEval vm_compute in bad_indices (map check_case cases).\n'
                      + 'Eval vm_compute in bad_indices (map (fun c => levels_ok (of_bits (fst c)) (snd c)) '
                      + clist(['(' + cz(a) + ', ' + cn(m) + ')' for a, m in sizes[:40]]) + ').')
    ctx.extra['impl_and_oracle_s'] = round(time.time() - t_start, 1)
    t_start = time.time()
    outs = common.coq_eval(ctx.pid, IMPORTS, bodies)
    ctx.extra['model_eval_s'] = round(time.time() - t_start, 1)
    for chunk, out in zip(shards, outs):
        blocks = common.parse_eval_blocks(out)
        for i in common.parse_nat_list('= ' + blocks[0]):
            case, obs = chunk[i]
            ctx.mismatch('levels, flags, counts or verdict of the model differ from the implementation: '
                         + json.dumps(obs)[:400], {'case': case, 'obs': obs})
        if common.parse_nat_list('= ' + blocks[1]):
            ctx.mismatch('side condition levels_ok (level/m <= level/(m-k) <= alpha) fails in the model',
                         {'shard_sizes': 'see evidence'})
    ctx.extra['model_cases_compared'] = len(done)
    exh_done = sum(1 for case, _ in done if case.get('exhaustive'))
    ctx.extra['exhaustive'] = bool(exh_done == len(exh) and not ctx.corr_broken)
    ctx.extra['exhaustive_bound'] = bound + ' over lattice(alpha, m) (see rule)'
    ctx.extra['exhaustive_enumerated_arrays'] = n_exh
    ctx.extra['exhaustive_cases_compared_with_model'] = exh_done
    ctx.assumptions = ['Python float arithmetic and sorted() are the ground truth of the oracle',
                       'p-values are injected through a TestStudent subclass whose evaluate() returns them '
                       '(public API: TestBonferroni/TestHolmBonferroni(test=...).evaluate())']


def replay(ctx, path):
    common.import_repo()
    data = json.load(open(path))
    case = data['case'].get('case', data['case'])
    obs = run_impl(case)
    print('case:', json.dumps(case))
    print('impl:', json.dumps(obs))
    if 'raise' not in obs:
        for arr in obs['arrays']:
            print('  p-values:', [unbits(b) for b in arr['pvals']])
            print('  bonf flags:', arr['bflags'], ' holm levels:', [unbits(b) for b in arr['halphas']],
                  ' holm flags:', arr['hflags'])
        body = ('Eval vm_compute in (check_case ' + coq_case(case, obs) + ', '
                + clist(['(bonf (of_bits ' + cz(bits(case['alpha'])) + ') (map of_bits '
                         + clist([cz(x) for x in arr['pvals']]) + '), map (fun x => (to_bits (fst x), snd x)) '
                         '(holm (of_bits ' + cz(bits(case['alpha'])) + ') (map of_bits '
                         + clist([cz(x) for x in arr['pvals']]) + ')))' for arr in obs['arrays']]) + ').')
        print('model (agrees, [bonf flags, holm (level bits, flag)]):',
              common.coq_eval(ctx.pid, IMPORTS, [body])[0])
    oracle(ctx, case, obs)
    for v in ctx.violations:
        print('oracle:', v[1][:300])
    for k, what in ctx.known_hits:
        print('known finding:', k)
    return 0

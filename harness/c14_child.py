'''C14, multi-process histories: the two sides of "written by one valjean run, read
at the start of the next one".  Run as a script in a fresh interpreter:

    python c14_child.py write SPEC.json OUT.json    (imports everything the payloads need)
    python c14_child.py read  SPEC.json OUT.json    (imports only the reading API)

Only the standard library is imported at module level; the reader must not load any
module that defines a payload class before it reads (what it had loaded is reported).
'''
import hashlib
import json
import os
import sys

HELPER_SOURCE = r"""
'''classes a job file defines for what its tasks store in the environment'''
import collections
import dataclasses
import enum


class Plain:
    def __init__(self, a, b=None):
        self.a, self.b = a, b


@dataclasses.dataclass
class Record:
    x: float
    tags: list
    inner: object = None


class Colour(enum.Enum):
    RED = 1
    GREEN = 'g'


Pair = collections.namedtuple('Pair', 'left right')


class Outer:
    class Inner:
        def __init__(self, v):
            self.v = v


class Slotted:
    __slots__ = ('p', 'q')

    def __init__(self, p, q):
        self.p, self.q = p, q


class Rows(list):
    '''a list subclass with an attribute'''


def rebuild(n):
    return Plain(n, 'rebuilt')


class ViaReduce:
    def __init__(self, n):
        self.n = n

    def __reduce__(self):
        return (rebuild, (self.n,))


def a_function(x):
    return x
"""

SUB_SOURCE = r"""
class Deep:
    def __init__(self, *args):
        self.args = list(args)
"""

PAYLOAD_MODULES = ['c14_job_helpers', 'c14_job_pkg', 'c14_job_pkg.sub', 'valjean.eponine.dataset',
                   'valjean.gavroche.test', 'valjean.gavroche.stat_tests.student', 'numpy', 'decimal',
                   'fractions', 'datetime', 'uuid', 'array', 'ipaddress']


def make_helpers(directory):
    '''the helper modules of the "job", importable through PYTHONPATH'''
    os.makedirs(os.path.join(directory, 'c14_job_pkg'), exist_ok=True)
    with open(os.path.join(directory, 'c14_job_helpers.py'), 'w') as fil:
        fil.write(HELPER_SOURCE)
    with open(os.path.join(directory, 'c14_job_pkg', '__init__.py'), 'w') as fil:
        fil.write('')
    with open(os.path.join(directory, 'c14_job_pkg', 'sub.py'), 'w') as fil:
        fil.write(SUB_SOURCE)


# --------------------------------------------------------------------------
# canonical description of an object, computed where the object lives

def crepr(obj, depth=0):
    if depth > 40:
        return 'too-deep'
    typ = type(obj)
    if obj is None or typ in (bool, int, str):
        return [typ.__name__, repr(obj)]
    if typ is bytes:
        return ['bytes', obj.hex()]
    if typ is float:
        return ['float', obj.hex()]
    if typ is complex:
        return ['complex', obj.real.hex(), obj.imag.hex()]
    if typ in (list, tuple):
        return [typ.__name__] + [crepr(x, depth + 1) for x in obj]
    if typ is dict:
        return ['dict'] + [[crepr(k, depth + 1), crepr(v, depth + 1)] for k, v in obj.items()]
    if typ in (set, frozenset):
        return [typ.__name__] + sorted((crepr(x, depth + 1) for x in obj), key=json.dumps)
    if isinstance(obj, type) or typ.__name__ in ('function', 'builtin_function_or_method'):
        return ['global', getattr(obj, '__module__', None), obj.__qualname__]
    if typ.__module__ == 'numpy' and typ.__name__ == 'ndarray':
        return ['ndarray', str(obj.dtype), list(obj.shape), obj.tobytes().hex()]
    if typ.__module__ == 'numpy' and hasattr(obj, 'dtype') and hasattr(obj, 'tobytes'):
        return ['npscalar', str(obj.dtype), obj.tobytes().hex()]
    red = obj.__reduce_ex__(4)
    if isinstance(red, str):
        return ['global-by-name', red]
    out = ['object', typ.__module__, typ.__qualname__, crepr(red[0], depth + 1),
           crepr(tuple(red[1]), depth + 1)]
    out.append(crepr(red[2], depth + 1) if len(red) > 2 else None)
    out.append([crepr(x, depth + 1) for x in red[3]] if len(red) > 3 and red[3] is not None else None)
    out.append([[crepr(k, depth + 1), crepr(v, depth + 1)] for k, v in red[4]]
               if len(red) > 4 and red[4] is not None else None)
    return out


def digest(obj):
    text = json.dumps(crepr(obj))
    return hashlib.sha1(text.encode()).hexdigest()[:20] + ' ' + text[:160]


# --------------------------------------------------------------------------
# the writing run

def payload(kind, seed):
    import random
    rng = random.Random(seed)
    if kind == 'builtins':
        return {'n': rng.randint(0, 9), 'l': [1.5, None, 'x'], 't': (True, b'\x00')}
    if kind.startswith('helper'):
        import c14_job_helpers as hlp
        import c14_job_pkg.sub as sub
        if kind == 'helper-plain':
            return hlp.Plain(rng.random(), [hlp.Plain(1)])
        if kind == 'helper-dataclass':
            return hlp.Record(rng.random(), ['a', 'b'], hlp.Record(0.5, []))
        if kind == 'helper-enum':
            return [hlp.Colour.RED, hlp.Colour.GREEN][rng.randrange(2)]
        if kind == 'helper-namedtuple':
            return hlp.Pair(rng.randint(0, 5), hlp.Pair('l', 'r'))
        if kind == 'helper-nested':
            return hlp.Outer.Inner({'k': rng.random()})
        if kind == 'helper-slots':
            return hlp.Slotted(rng.randint(0, 5), 'q')
        if kind == 'helper-listsub':
            rows = hlp.Rows([1, 2, rng.randint(0, 5)])
            rows.title = 'rows'
            return rows
        if kind == 'helper-reduce':
            return hlp.ViaReduce(rng.randint(0, 5))
        if kind == 'helper-function':
            return [hlp.a_function, hlp.Plain]
        if kind == 'helper-submodule':
            return sub.Deep(rng.random(), hlp.Colour.RED)
    if kind in ('dataset', 'dataset-nobins', 'testresult-equal', 'testresult-student', 'ndarray',
                'npscalar'):
        import numpy as np
        from collections import OrderedDict
        from valjean.eponine.dataset import Dataset
        size = rng.randint(1, 4)

        def dset(name):
            bins = OrderedDict([('e', np.arange(size + 1.0)), ('t', np.arange(2.0))])
            return Dataset(np.array([[rng.random()] for _ in range(size)]), np.ones((size, 1)),
                           bins=bins, name=name, what='flux')
        if kind == 'dataset':
            return dset('d')
        if kind == 'dataset-nobins':
            return Dataset(np.float64(rng.random()), np.float64(0.1), name='scalar')
        if kind == 'ndarray':
            return np.arange(rng.randint(0, 6), dtype=rng.choice(['f8', 'i4', 'u1', 'c16']))
        if kind == 'npscalar':
            return np.float32(rng.random())
        if kind == 'testresult-equal':
            from valjean.gavroche.test import TestEqual
            return TestEqual(dset('a'), dset('b'), name='eq', description='equal?').evaluate()
        from valjean.gavroche.stat_tests.student import TestStudent
        return TestStudent(dset('a'), dset('b'), name='st', description='student').evaluate()
    if kind == 'stdlib':
        import array
        import datetime
        import decimal
        import fractions
        import ipaddress
        import uuid
        return [decimal.Decimal('1.25'), fractions.Fraction(3, rng.randint(4, 9)),
                datetime.datetime(2020, 2, 29, 12, 0, rng.randrange(60)), datetime.timedelta(1),
                uuid.UUID(int=rng.getrandbits(64)), array.array('d', [1.0, 2.0]),
                ipaddress.ip_address('10.0.0.1')]
    raise ValueError(kind)


def write_side(spec):
    import pickle
    from valjean.cambronne.common import write_env
    from valjean.cosette.env import Env
    from valjean.cosette.task import TaskStatus
    out = {}
    for case in spec['cases']:
        entries = {}
        for task in case['tasks']:
            entry = {'status': TaskStatus(task['status']),
                     'result': [payload(kind, seed) for kind, seed in task['payloads']],
                     'start_clock': 1.0}
            if task['payloads']:
                entry['first'] = entry['result'][0]            # also directly as a value
            if task['outdir']:
                entry['output_dir'] = os.path.join(case['root'], task['name'])
                os.makedirs(entry['output_dir'], exist_ok=True)
            entries[task['name']] = entry
        env = Env(entries)
        write_env(env, filename=spec['filename'], fmt='pickle')
        out[case['id']] = {name: digest(pickle.loads(pickle.dumps(dict(entry))))
                           for name, entry in env.items()}
    return out


# --------------------------------------------------------------------------
# the next run: a fresh process that has imported only what reading needs

def read_side(spec):
    for mod in spec.get('preimport', []):
        __import__(mod)
    if spec['api'] == 'from_file':
        from valjean.cosette.env import Env
    else:
        from valjean.cambronne.common import read_env
    import logging
    logging.getLogger('valjean').setLevel(logging.CRITICAL)
    out = {'loaded_before': [m for m in PAYLOAD_MODULES if m in sys.modules], 'cases': {}}
    for case in spec['cases']:
        names = [task['name'] for task in case['tasks']]
        try:
            if spec['api'] == 'from_file':
                res = {}
                for name in names:
                    one = Env.from_file(os.path.join(case['root'], name, spec['filename']))
                    if one is not None:
                        for key, entry in one.items():
                            res[key] = entry
            else:
                res = read_env(root=case['root'], names=names, filename=spec['filename'], fmt='pickle')
            out['cases'][case['id']] = {'entries': {name: digest(dict(entry)) for name, entry in res.items()}}
        except BaseException as exc:  # noqa
            out['cases'][case['id']] = {'raise': type(exc).__name__ + ': ' + str(exc)[:200]}
    out['loaded_after'] = [m for m in PAYLOAD_MODULES if m in sys.modules]
    return out


def main():
    side, spec_path, out_path = sys.argv[1:4]
    with open(spec_path) as fil:
        spec = json.load(fil)
    res = write_side(spec) if side == 'write' else read_side(spec)
    with open(out_path, 'w') as fil:
        json.dump(res, fil)


if __name__ == '__main__':
    main()

'''C01: see harness/vp/schedcheck.py (shared driver of the scheduler checks) and
harness/vp/envapply.py (the merge of the update into the environment)'''
from vp import common, schedcheck, envapply


def run(ctx):
    common.import_repo()
    schedcheck.run(ctx, 'C01')
    envapply.run(ctx)     # the content of the update: Env.apply vs coq/Sched/EnvApply.v


def replay(ctx, path):
    import json
    common.import_repo()
    case = json.load(open(path)).get('case') or {}
    if 'envapply' in case:
        return envapply.replay(ctx, case['envapply'])
    return schedcheck.replay(ctx, path, 'C01')

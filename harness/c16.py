'''C16: the dependency graph mirrors a plain node/edge set under any edit history.

Implementation (valjean.cosette.depgraph / rlist) vs the Coq model C16/Model.v
on random edit histories over a world of graph objects ("registers"), plus an
independent oracle: a plain-Python set-of-nodes / set-of-edges reference that
is updated alongside and compared with EVERY register after EVERY step (this
is also the aliasing probe), brute-force reachability for sort / reduction /
closure / flatten.

Node keys: even 2i = plain node P[i]; odd 2r+1 = the graph object in register r.
'''
import json
import signal

from vp import common

IMPORTS = '''From Coq Require Import List.
From VV Require Import Lib.Base C16.Model.
Import ListNotations.
'''

EXC = {'ValueError': 0, 'KeyError': 1, 'DepGraphError': 2, 'IndexError': 3, 'RecursionError': 9}
NPLAIN = 8


# ---------------------------------------------------------------- reference
class Ref:
    '''the mathematical graph: a set of nodes and a set of edges (a, b): a depends on b'''

    def __init__(self, nodes=(), edges=()):
        self.n = set(nodes)
        self.e = set(edges)

    def copy(self):
        return Ref(self.n, self.e)

    def deps(self, a):
        return {y for (x, y) in self.e if x == a}

    def dees(self, b):
        return {x for (x, y) in self.e if y == b}

    def add_node(self, k):
        self.n.add(k)

    def remove_node(self, k):
        self.n.discard(k)
        self.e = {(x, y) for (x, y) in self.e if k not in (x, y)}

    def add_dep(self, a, b):
        self.n |= {a, b}
        self.e.add((a, b))

    def merge(self, other):
        self.n |= other.n
        self.e |= other.e

    def reach(self):
        '''pairs (a, b) with a path of length >= 1 from a to b'''
        succ = {a: set() for a in self.n}
        for a, b in self.e:
            succ[a].add(b)
        out = set()
        for a in self.n:
            seen, todo = set(), list(succ[a])
            while todo:
                x = todo.pop()
                if x not in seen:
                    seen.add(x)
                    todo.extend(succ[x])
            out |= {(a, b) for b in seen}
        return out

    def cyclic(self):
        return any(a == b for a, b in self.reach())

    def snap(self):
        return [sorted(self.n), sorted(self.e)]


def ref_graft(g, k, sub):
    '''the mathematical meaning of graft: the node k is replaced by the graph it is'''
    deps, dees = g.deps(k), g.dees(k)
    g.remove_node(k)
    inits = {x for x in sub.n if not sub.dees(x)}
    terms = {x for x in sub.n if not sub.deps(x)}
    g.merge(sub)
    for dep in deps:
        for term in terms:
            g.add_dep(term, dep)
    for dee in dees:
        for init in inits:
            g.add_dep(dee, init)
    if not sub.n:
        for dee in dees:
            for dep in deps:
                if dee != k and dep != k and dee != dep:   # never a self-dependency
                    g.add_dep(dee, dep)


def is_g(k):
    return k % 2 == 1


def contains_cycle(world):
    '''is there a graph that (transitively) contains itself as a node?'''
    cont = {r: {k // 2 for k in g.n if is_g(k)} for r, g in enumerate(world)}
    ref = Ref(cont.keys(), {(r, q) for r, qs in cont.items() for q in qs if q in cont})
    return ref.cyclic()


def leaves(world, r, seen=None):
    '''plain nodes of register r, recursively'''
    out = set()
    for k in world[r].n:
        if is_g(k):
            out |= leaves(world, k // 2)
        else:
            out.add(k)
    return out


def contained(world, r):
    '''all node keys (plain and nested) transitively contained in register r'''
    out, todo = set(), [r]
    while todo:
        q = todo.pop()
        for k in world[q].n:
            if k not in out:
                out.add(k)
                if is_g(k) and k // 2 < len(world):
                    todo.append(k // 2)
    return out


def virtual(world, r):
    '''ordering constraints of the nested graph in register r: every graph node q becomes
    a pair top(q) (after all of q) / bot(q) (before all of q)'''
    ref = Ref()

    def top(k):
        return ('t', k) if is_g(k) else k

    def bot(k):
        return ('b', k) if is_g(k) else k
    done = set()

    def expand(q):
        if q in done:
            return
        done.add(q)
        g = world[q]
        for k in g.n:
            ref.add_node(top(k))
            ref.add_node(bot(k))
            if is_g(k):
                ref.add_dep(top(k), bot(k))
                sub = world[k // 2]
                for x in sub.n:
                    ref.add_dep(top(k), top(x))
                    ref.add_dep(bot(x), bot(k))
                expand(k // 2)
        for a, b in g.e:
            ref.add_dep(bot(a), top(b))
    expand(r)
    return ref


# ---------------------------------------------------------------- generator
def gen_history(rng, length, corpus_prefix=None):
    '''choose operations against the reference only; returns the JSON op list'''
    ops = []
    world = []

    def emit(op):
        ops.append(op)
        apply_ref(world, op)

    emit(['new'])
    nsub = rng.choice([0, 1, 1, 2, 2, 3, 4])
    for _ in range(nsub):
        emit(['new'])
        r = len(world) - 1
        shape = rng.choice(['empty', 'empty', 'single', 'pair', 'chain', 'free'])
        pl = [2 * i for i in rng.sample(range(NPLAIN), 3)]
        if shape == 'single':
            emit(['add_node', r, pl[0]])
        elif shape == 'pair':
            emit(['add_dep', r, pl[0], pl[1]])
        elif shape == 'chain':
            emit(['add_dep', r, pl[0], pl[1]])
            emit(['add_dep', r, pl[1], pl[2]])
        elif shape == 'free':
            emit(['add_node', r, pl[0]])
            emit(['add_node', r, pl[1]])

    def any_key():
        if len(world) > 1 and rng.random() < 0.35:
            return 2 * rng.randrange(len(world)) + 1
        return 2 * rng.randrange(NPLAIN)

    def node_of(r, present=0.8):
        g = world[r]
        if g.n and rng.random() < present:
            return rng.choice(sorted(g.n))
        return any_key()

    for _ in range(length):
        r = 0 if rng.random() < 0.6 else rng.randrange(len(world))
        g = world[r]
        x = rng.random()
        if x < 0.14:
            op = ['add_node', r, any_key()]
        elif x < 0.36:
            op = ['add_dep', r, node_of(r, 0.6), node_of(r, 0.6)]
        elif x < 0.50:
            op = ['remove_node', r, node_of(r, 0.85)]
        elif x < 0.62:
            if g.e and rng.random() < 0.8:
                a, b = rng.choice(sorted(g.e))
            else:
                a, b = node_of(r), node_of(r)
            op = ['remove_dep', r, a, b]
        elif x < 0.66:
            op = ['merge', r, rng.randrange(len(world))]
        elif x < 0.69:
            op = ['plus', r, rng.randrange(len(world))]
        elif x < 0.73:
            op = ['copy', r]
        elif x < 0.75:
            op = ['invert', r]
        elif x < 0.78:
            op = ['new']
        elif x < 0.82:
            subs = sorted(k for k in g.n if is_g(k))
            if subs and rng.random() < 0.9:
                op = ['graft', r, rng.choice(subs)]
            else:
                op = ['graft', r, 2 * rng.randrange(len(world)) + 1]
        else:
            q = rng.choice(['q_deps', 'q_dependees', 'q_depends', 'q_eq', 'q_le', 'q_initial',
                            'q_terminal', 'q_sort', 'q_contains', 'q_len'])
            if q == 'q_deps':
                op = [q, r, node_of(r, 0.9), rng.random() < 0.3]
            elif q in ('q_dependees', 'q_contains'):
                op = [q, r, node_of(r, 0.9)]
            elif q == 'q_depends':
                op = [q, r, node_of(r, 0.9), node_of(r, 0.9), rng.random() < 0.4]
            elif q in ('q_eq', 'q_le'):
                op = [q, r, rng.randrange(len(world))]
            else:
                op = [q, r]
        if len(world) >= 7 and op[0] in ('new', 'copy', 'plus', 'invert'):
            continue
        trial = [g.copy() for g in world]
        apply_ref(trial, op)
        if contains_cycle(trial):
            continue
        if op[0] in ('add_dep', 'merge', 'graft') and trial[op[1]].cyclic() \
                and not world[op[1]].cyclic() and rng.random() < 0.8:
            continue          # keep most graphs acyclic
        emit(op)
    ops.append(['end', 0 if rng.random() < 0.7 else rng.randrange(len(world))])
    return ops


def apply_ref(world, op):
    '''mathematical effect of a mutator on the reference world; returns the exception
    class name or None'''
    kind = op[0]
    if kind == 'new':
        world.append(Ref())
    elif kind == 'add_node':
        world[op[1]].add_node(op[2])
    elif kind == 'remove_node':
        world[op[1]].remove_node(op[2])
    elif kind == 'add_dep':
        world[op[1]].add_dep(op[2], op[3])
    elif kind == 'remove_dep':
        g = world[op[1]]
        if op[2] not in g.n or op[3] not in g.n:
            return 'ValueError'
        if (op[2], op[3]) not in g.e:
            return 'KeyError'
        g.e.discard((op[2], op[3]))
    elif kind == 'merge':
        world[op[1]].merge(world[op[2]])
    elif kind == 'plus':
        new = world[op[1]].copy()
        new.merge(world[op[2]])
        world.append(new)
    elif kind == 'copy':
        world.append(world[op[1]].copy())
    elif kind == 'invert':
        g = world[op[1]]
        world.append(Ref(g.n, {(b, a) for a, b in g.e}))
    elif kind == 'graft':
        g = world[op[1]]
        if op[2] not in g.n:
            return 'ValueError'
        if not is_g(op[2]) or op[2] // 2 >= len(world) or op[2] // 2 == op[1]:
            return 'skip'
        ref_graft(g, op[2], world[op[2] // 2].copy())
    return None


# ---------------------------------------------------------------- running
class Endless(BaseException):
    pass


def _alarm(signum, frame):
    raise Endless()


class Runner:
    def __init__(self, ctx, case):
        from valjean.cosette.depgraph import DepGraph, DepGraphError  # noqa
        self.DepGraph = DepGraph
        self.ctx = ctx
        self.case = case
        self.plain = [f'n{i}' + '' for i in range(NPLAIN)]
        self.regs = []
        self.ref = []
        self.keyof = {id(p): 2 * i for i, p in enumerate(self.plain)}
        self.steps = []
        self.failed = False
        self.failures = []
        self.nontrivial = False

    # -- helpers
    def obj(self, k):
        return self.regs[k // 2] if is_g(k) else self.plain[k // 2]

    def key(self, o):
        return self.keyof[id(o)]

    def new_reg(self, g):
        self.keyof[id(g)] = 2 * len(self.regs) + 1
        self.regs.append(g)

    def fail(self, what, key):
        self.failed = True
        self.failures.append((what, key))

    def observe(self, g):
        '''canonical node list / edge list of a real graph, through __iter__'''
        ns, es = [], []
        for node, vals in g:
            ns.append(self.key(node))
            es += [(self.key(node), self.key(v)) for v in vals]
        return [sorted(ns), sorted(es)]

    def compare_world(self, after):
        '''every register must be the mathematical graph (nodes, dict(graph), dependencies,
        dependees, len, in)'''
        for r, (g, ref) in enumerate(zip(self.regs, self.ref)):
            try:
                ns, es = self.observe(g)
                want_n, want_e = ref.snap()
                if ns != want_n:
                    return self.fail(f'after {after}: graph {r} reports nodes {ns}, '
                                     f'mathematical graph has {want_n}', 'nodes')
                if es != [tuple(e) for e in want_e]:
                    return self.fail(f'after {after}: graph {r} reports edges {es}, '
                                     f'mathematical graph has {want_e}', 'edges')
                if sorted(self.key(n) for n in g.nodes()) != want_n or len(g) != len(want_n):
                    return self.fail(f'after {after}: nodes()/len of graph {r} wrong', 'nodes-len')
                for k in want_n:
                    o = self.obj(k)
                    if o not in g:
                        return self.fail(f'after {after}: node {k} not "in" graph {r}', 'contains')
                    dd = sorted(self.key(n) for n in g.dependencies(o))
                    if dd != sorted(ref.deps(k)):
                        return self.fail(f'after {after}: dependencies({k}) in graph {r} = {dd}, '
                                         f'want {sorted(ref.deps(k))}', 'dependencies')
                    de = sorted(self.key(n) for n in g.dependees(o))
                    if de != sorted(ref.dees(k)):
                        return self.fail(f'after {after}: dependees({k}) in graph {r} = {de}, '
                                         f'want {sorted(ref.dees(k))}', 'dependees')
            except Exception as exc:  # noqa
                return self.fail(f'after {after}: observing graph {r} raises '
                                 f'{type(exc).__name__}', 'observe-raises')
        return None

    # -- emitters
    @staticmethod
    def csnap(snap):
        return ('([' + '; '.join(map(str, snap[0])) + '], ['
                + '; '.join(f'({a},{b})' for a, b in snap[1]) + '])')

    @staticmethod
    def cres_keys(res):
        if isinstance(res, str):
            return f'(Raise {EXC.get(res, 7)})'
        return '(Ok [' + '; '.join(map(str, res)) + '])'

    @staticmethod
    def cres_bool(res):
        if isinstance(res, str):
            return f'(Raise {EXC.get(res, 7)})'
        return f'(Ok {common.cb(res)})'

    def mut(self, wop, exc, touched):
        rs = 'None' if exc is None else f'(Some {EXC.get(exc, 7)})'
        ts = '[' + '; '.join(f'({r}, {self.csnap(self.observe(self.regs[r]))})' for r in touched) + ']'
        self.steps.append(f'SMut ({wop}) {rs} {ts}')

    # -- one operation
    def step(self, op):
        kind = op[0]
        ctx = self.ctx
        DepGraph = self.DepGraph
        if kind in ('new', 'add_node', 'remove_node', 'add_dep', 'remove_dep', 'merge', 'plus',
                    'copy', 'invert', 'graft'):
            if kind != 'new' and op[1] >= len(self.regs):
                return
            if kind in ('merge', 'plus') and op[2] >= len(self.regs):
                return
            if kind in ('add_node', 'remove_node', 'add_dep', 'remove_dep', 'graft'):
                if any(is_g(k) and k // 2 >= len(self.regs) for k in op[2:]):
                    return
            trial = [g.copy() for g in self.ref]
            want_exc = apply_ref(trial, op)
            if want_exc == 'skip' or contains_cycle(trial):
                ctx.count('skipped_op')
                return
            exc = None
            touched = [op[1]] if kind != 'new' else []
            try:
                if kind == 'new':
                    self.new_reg(DepGraph())
                    wop = 'WNew'
                    touched = [len(self.regs) - 1]
                elif kind == 'add_node':
                    self.regs[op[1]].add_node(self.obj(op[2]))
                    wop = f'WAddNode {op[1]} {op[2]}'
                elif kind == 'remove_node':
                    self.regs[op[1]].remove_node(self.obj(op[2]))
                    wop = f'WRemoveNode {op[1]} {op[2]}'
                elif kind == 'add_dep':
                    self.regs[op[1]].add_dependency(self.obj(op[2]), on=self.obj(op[3]))
                    wop = f'WAddDep {op[1]} {op[2]} {op[3]}'
                elif kind == 'remove_dep':
                    wop = f'WRemoveDep {op[1]} {op[2]} {op[3]}'
                    self.regs[op[1]].remove_dependency(self.obj(op[2]), on=self.obj(op[3]))
                elif kind == 'merge':
                    wop = f'WMerge {op[1]} {op[2]}'
                    g = self.regs[op[1]]
                    g += self.regs[op[2]]
                    if g is not self.regs[op[1]]:
                        self.fail('+= returns another object', 'iadd-identity')
                elif kind == 'plus':
                    wop = f'WPlus {op[1]} {op[2]}'
                    self.new_reg(self.regs[op[1]] + self.regs[op[2]])
                    touched = [op[1], len(self.regs) - 1]
                elif kind == 'copy':
                    wop = f'WCopy {op[1]}'
                    self.new_reg(self.regs[op[1]].copy())
                    touched = [op[1], len(self.regs) - 1]
                elif kind == 'invert':
                    wop = f'WInvert {op[1]}'
                    self.new_reg(self.regs[op[1]].invert())
                    touched = [op[1], len(self.regs) - 1]
                elif kind == 'graft':
                    wop = f'WGraft {op[1]} {op[2]}'
                    self.regs[op[1]].graft(self.obj(op[2]))
            except Exception as err:  # noqa
                exc = type(err).__name__
            if len(self.regs) != len(trial):
                # a constructor raised: keep registers aligned
                return self.fail(f'{op} raises {exc}', 'constructor-raises')
            self.ref = trial
            ctx.count(kind)
            if exc != want_exc:
                self.fail(f'{op}: raises {exc}, the mathematical graph says {want_exc}', 'exception')
            self.compare_world(op)
            if self.failed:
                return
            try:
                self.mut(wop, exc, touched)
            except Exception:  # noqa
                self.fail(f'after {op}: observing raises', 'observe-raises')
            if kind in ('remove_node', 'graft', 'merge') and len(self.ref[op[1]].n) >= 2:
                self.nontrivial = True
            return
        # ---- queries
        r = op[1]
        if r >= len(self.regs):
            return
        g, ref = self.regs[r], self.ref[r]
        for k in [x for x in op[2:] if isinstance(x, int) and not isinstance(x, bool)]:
            if kind not in ('q_eq', 'q_le') and is_g(k) and k // 2 >= len(self.regs):
                return

        def call(fun):
            try:
                return fun()
            except Exception as err:  # noqa
                return type(err).__name__
        ctx.count(kind)
        if kind == 'q_deps':
            k, rec = op[2], bool(op[3])
            got = call(lambda: sorted(self.key(n) for n in g.dependencies(self.obj(k), recurse=rec)))
            if k not in ref.n:
                want = 'ValueError'
            elif rec:
                want = sorted(b for a, b in ref.reach() if a == k)
            else:
                want = sorted(ref.deps(k))
            if got != want:
                self.fail(f'{op}: dependencies = {got}, want {want}', 'q-dependencies')
            self.steps.append(f'SDeps {r} {k} {common.cb(rec)} {self.cres_keys(got)}')
        elif kind == 'q_dependees':
            k = op[2]
            got = call(lambda: sorted(self.key(n) for n in g.dependees(self.obj(k))))
            want = sorted(ref.dees(k)) if k in ref.n else 'ValueError'
            if got != want:
                self.fail(f'{op}: dependees = {got}, want {want}', 'q-dependees')
            self.steps.append(f'SDependees {r} {k} {self.cres_keys(got)}')
        elif kind == 'q_depends':
            a, b, rec = op[2], op[3], bool(op[4])
            if rec and ref.cyclic():
                ctx.count('skipped_query')
                return
            got = call(lambda: bool(g.depends(self.obj(a), self.obj(b), recurse=rec)))
            if a not in ref.n or b not in ref.n:
                want = 'ValueError'
            else:
                want = ((a, b) in ref.reach()) if rec else ((a, b) in ref.e)
            if got != want:
                self.fail(f'{op}: depends = {got}, want {want}', 'q-depends')
            self.steps.append(f'SDepends {r} {a} {b} {common.cb(rec)} {self.cres_bool(got)}')
        elif kind in ('q_eq', 'q_le'):
            r2 = op[2]
            if r2 >= len(self.regs):
                return
            h, ref2 = self.regs[r2], self.ref[r2]
            if kind == 'q_eq':
                got = call(lambda: bool(g == h))
                want = ref.n == ref2.n and ref.e == ref2.e
                name = 'SEq'
            else:
                got = call(lambda: bool(g <= h))
                want = ref.n <= ref2.n and ref.e <= ref2.e
                name = 'SLe'
            if got != want:
                self.fail(f'{op}: {got}, want {want}', kind)
            if isinstance(got, bool):
                self.steps.append(f'{name} {r} {r2} {common.cb(got)}')
        elif kind in ('q_initial', 'q_terminal'):
            if kind == 'q_initial':
                got = call(lambda: sorted(self.key(n) for n in g.initial()))
                want = sorted(x for x in ref.n if not ref.dees(x))
                name = 'SInitial'
            else:
                got = call(lambda: sorted(self.key(n) for n in g.terminal()))
                want = sorted(x for x in ref.n if not ref.deps(x))
                name = 'STerminal'
            if got != want:
                self.fail(f'{op}: {got}, want {want}', kind)
            if not isinstance(got, str):
                self.steps.append(f'{name} {r} [' + '; '.join(map(str, got)) + ']')
        elif kind == 'q_sort':
            self.sort(r, op)
        elif kind == 'q_contains':
            k = op[2]
            got = call(lambda: self.obj(k) in g)
            if got != (k in ref.n):
                self.fail(f'{op}: {got}', 'q-contains')
            if isinstance(got, bool):
                self.steps.append(f'SContains {r} {k} {common.cb(got)}')
        elif kind == 'q_len':
            got = call(lambda: len(g))
            if got != len(ref.n):
                self.fail(f'{op}: {got}', 'q-len')
            if isinstance(got, int):
                self.steps.append(f'SLen {r} {got}')

    def sort(self, r, op):
        g, ref = self.regs[r], self.ref[r]
        if any(is_g(k) for k in ref.n):
            self.ctx.count('skipped_query')     # graph objects are not hashable (marks dict)
            return
        try:
            got = [self.key(n) for n in g.topological_sort()]
        except Exception as err:  # noqa
            got = type(err).__name__
        if ref.cyclic():
            if got != 'DepGraphError':
                self.fail(f'{op}: cyclic graph, topological_sort gives {got}', 'sort-cyclic')
        elif isinstance(got, str):
            self.fail(f'{op}: acyclic graph, topological_sort raises {got}', 'sort-raises')
        else:
            where = {k: i for i, k in enumerate(got)}
            if sorted(got) != sorted(ref.n) or len(where) != len(got):
                self.fail(f'{op}: topological_sort {got} does not list every node once', 'sort-nodes')
            elif any(where[b] > where[a] for a, b in ref.e):
                self.fail(f'{op}: topological_sort {got} lists a node before a dependency', 'sort-order')
            if len(ref.e) >= 2:
                self.nontrivial = True
        self.steps.append(f'SSort {r} {self.cres_keys(got)}')

    # -- end of a history: flatten / sort / reduction / closure on copies
    def flatten_one_level(self, c):
        ctx = self.ctx
        before = [g.copy() for g in self.ref]
        try:
            self.regs[c].flatten(recurse=False)
            snap = self.observe(self.regs[c])
        except Exception as err:  # noqa
            return self.fail(f'flatten(recurse=False) of a copy raises {type(err).__name__}',
                             'flatten1-raises')
        after = [g.copy() for g in before]
        after[c] = Ref(snap[0], snap[1])
        ctx.count('flatten_one_level')
        plain = leaves(before, c)
        if leaves(after, c) != plain:
            return self.fail(f'flatten(recurse=False) of a copy: plain nodes {sorted(leaves(after, c))}, '
                             f'the nested graph has {sorted(plain)}', 'flatten1-nodes')
        # one level cannot keep a constraint through an empty graph that also sits two levels down
        direct = [k for k in before[c].n if is_g(k)]
        empties = [k for k in direct if not before[k // 2].n]
        deep = set()
        for sk in direct:
            for t in before[sk // 2].n:
                if is_g(t) and before[t // 2].n:
                    deep |= contained(before, t // 2)
        virt = virtual(before, c)
        if any(e in deep for e in empties) or virt.cyclic():
            ctx.count('flatten_one_level_unconstrained')
        else:
            want = {(a, b) for a, b in virt.reach() if a in plain and b in plain}
            got = {(a, b) for a, b in virtual(after, c).reach() if a in plain and b in plain}
            if want != got:
                return self.fail(f'flatten(recurse=False) of a copy: ordering constraints lost '
                                 f'{sorted(want - got)[:3]} / invented {sorted(got - want)[:3]}',
                                 'flatten1-order')
        self.ref[c] = after[c]
        self.compare_world('flatten(recurse=False)')
        return None

    def end(self, r, light=False):
        if r >= len(self.regs):
            r = 0
        ctx = self.ctx
        self.steps.append('SWorld [' + '; '.join(self.csnap(self.observe(g)) for g in self.regs) + ']')
        # ONE level only: flatten(recurse=False) of a copy (oracle only; the result may keep nested nodes)
        if any(is_g(k) for k in self.ref[r].n):
            self.step(['copy', r])
            if self.failed:
                return
            self.flatten_one_level(len(self.regs) - 1)
            if self.failed:
                return
        # flatten a copy
        self.step(['copy', r])
        if self.failed:
            return
        c = len(self.regs) - 1
        before = [g.copy() for g in self.ref]
        nested = any(is_g(k) for k in self.ref[c].n)
        try:
            out = self.regs[c].flatten()
            if out is not self.regs[c]:
                self.fail('flatten returns another object', 'flatten-identity')
            exc = None
        except Exception as err:  # noqa
            exc = type(err).__name__
        if exc:
            return self.fail(f'flatten of a copy of graph {r} raises {exc}', 'flatten-raises')
        try:
            snap = self.observe(self.regs[c])
        except Exception:  # noqa
            return self.fail(f'flatten of a copy of graph {r} has foreign nodes', 'flatten-nodes')
        flat = Ref(snap[0], snap[1])
        ctx.count('flatten_nested' if nested else 'flatten_plain')
        # oracle: nodes are the plain leaves, ordering constraints between plain nodes kept
        want_nodes = leaves(before, c)
        if flat.n != want_nodes:
            return self.fail(f'flatten of a copy of graph {r}: nodes {sorted(flat.n)}, plain nodes of '
                             f'the nested graph are {sorted(want_nodes)}', 'flatten-nodes')
        virt = virtual(before, c)
        if virt.cyclic():
            ctx.count('flatten_cyclic_constraints')
        else:
            vr = {(a, b) for a, b in virt.reach() if a in want_nodes and b in want_nodes}
            fr = flat.reach()
            if vr != fr:
                lost = sorted(vr - fr)[:3]
                extra = sorted(fr - vr)[:3]
                return self.fail(f'flatten of a copy of graph {r}: ordering constraints lost {lost} '
                                 f'/ invented {extra}', 'flatten-order')
            if nested:
                self.nontrivial = True
        self.ref[c] = flat
        self.compare_world('flatten')
        if self.failed:
            return
        self.steps.append(f'SFlat {c} {self.csnap(snap)}')
        # topological sort of the flattened graph
        self.sort(c, ['q_sort', c])
        if self.failed or light or flat.cyclic():
            if flat.cyclic():
                ctx.count('end_cyclic')
            return
        ctx.count('end_acyclic')
        reach = flat.reach()
        # transitive reduction of a copy
        self.step(['copy', c])
        if self.failed:
            return
        d = len(self.regs) - 1
        try:
            self.regs[d].transitive_reduction()
            red = Ref(*self.observe(self.regs[d]))
        except Exception as err:  # noqa
            return self.fail(f'transitive_reduction raises {type(err).__name__}', 'reduction-raises')
        want = {(a, b) for a, b in flat.e
                if not any((a, x) in reach and (x, b) in reach for x in flat.n)}
        if red.n != flat.n or red.reach() != reach:
            return self.fail(f'transitive_reduction changes reachability: {sorted(red.e)} from '
                             f'{sorted(flat.e)}', 'reduction-reach')
        if red.e != want:
            return self.fail(f'transitive_reduction is not the minimal edge set: {sorted(red.e)}, '
                             f'want {sorted(want)}', 'reduction-minimal')
        self.ref[d] = red
        self.compare_world('transitive_reduction')
        self.mut(f'WReduce {d}', None, [d, c])
        # transitive closure of a copy
        self.step(['copy', c])
        if self.failed:
            return
        e = len(self.regs) - 1
        try:
            self.regs[e].transitive_closure()
            clo = Ref(*self.observe(self.regs[e]))
        except Exception as err:  # noqa
            return self.fail(f'transitive_closure raises {type(err).__name__}', 'closure-raises')
        if clo.n != flat.n or clo.e != reach:
            return self.fail(f'transitive_closure is not the reachability relation: {sorted(clo.e)}, '
                             f'want {sorted(reach)}', 'closure')
        self.ref[e] = clo
        self.compare_world('transitive_closure')
        self.mut(f'WClose {e}', None, [e, c])

    def run(self):
        signal.signal(signal.SIGALRM, _alarm)
        for op in self.case:
            if self.failed:
                break
            signal.alarm(20)         # watchdog: an operation that does not end is a failure
            try:
                if op[0] in ('end', 'endflat'):
                    self.end(op[1], light=op[0] == 'endflat')
                else:
                    self.step(op)
            except Endless:
                self.fail(f'{op}: the operation does not terminate (20 s)', 'endless')
            finally:
                signal.alarm(0)
        return self


CORPUS = [
    # the defect of the pinned tree: A -> {} -> B
    [['new'], ['new'], ['add_dep', 0, 0, 3], ['add_dep', 0, 3, 2], ['end', 0]],
    # two distinct empty sub-graphs: <= by identity
    [['new'], ['new'], ['new'], ['add_node', 0, 0], ['add_node', 0, 3], ['add_node', 0, 5],
     ['copy', 0], ['add_dep', 0, 0, 3], ['add_dep', 3, 0, 5], ['q_le', 0, 3], ['q_le', 3, 0],
     ['q_eq', 0, 3], ['end', 0]],
    # removal in the middle, then edits that use the moved node
    [['new'], ['add_dep', 0, 0, 2], ['add_dep', 0, 2, 4], ['add_dep', 0, 4, 6], ['add_dep', 0, 6, 0],
     ['remove_node', 0, 2], ['q_dependees', 0, 6], ['add_dep', 0, 6, 4], ['remove_node', 0, 0],
     ['q_deps', 0, 6, False], ['remove_dep', 0, 6, 4], ['remove_dep', 0, 6, 4], ['end', 0]],
    # copies are independent
    [['new'], ['add_dep', 0, 0, 2], ['copy', 0], ['add_dep', 0, 0, 4], ['remove_dep', 1, 0, 2],
     ['invert', 0], ['add_dep', 2, 2, 4], ['plus', 0, 1], ['remove_node', 0, 0], ['end', 1]],
    # nested twice, an empty graph inside a graph
    [['new'], ['new'], ['new'], ['add_node', 1, 5], ['add_dep', 0, 0, 3], ['add_dep', 0, 3, 2],
     ['add_dep', 0, 2, 4], ['end', 0]],
    # chain in a sub-graph shared nodes with the outer graph
    [['new'], ['new'], ['add_dep', 1, 2, 4], ['add_dep', 1, 4, 6], ['add_dep', 0, 0, 3],
     ['add_dep', 0, 3, 8], ['add_dep', 0, 6, 10], ['graft', 0, 3], ['graft', 0, 3], ['end', 0]],
    # self-looped empty sub-graph, cyclic graphs
    [['new'], ['new'], ['add_dep', 0, 3, 3], ['add_dep', 0, 0, 3], ['end', 0]],
    [['new'], ['add_dep', 0, 0, 2], ['add_dep', 0, 2, 0], ['q_sort', 0], ['add_dep', 0, 4, 4],
     ['remove_node', 0, 2], ['q_sort', 0], ['end', 0]],
    [['new'], ['end', 0]],
    # an empty graph shared between two levels: 4 -> E in the outer graph, E -> 2 in a sub-graph
    [['new'], ['copy', 0], ['add_dep', 0, 2, 3], ['invert', 0], ['remove_node', 0, 2],
     ['add_dep', 0, 4, 3], ['add_node', 0, 5], ['end', 0]],
    # a self-dependent sub-graph holding an empty one (flatten must terminate)
    [['new'], ['new'], ['new'], ['add_node', 2, 3], ['add_dep', 0, 5, 5], ['add_dep', 0, 0, 5],
     ['end', 0]],
]


def shared_empty_cases():
    '''E (key 3, empty) at the top level and inside the non-empty sub-graph S (key 5: 4 -> E), every
    storage order of the top-level edges'''
    import itertools
    base = [['new'], ['new'], ['new'], ['add_dep', 2, 4, 3]]
    edits = [['add_dep', 0, 3, 2], ['add_dep', 0, 0, 5], ['add_dep', 0, 6, 3]]
    out = []
    for k in (2, 3):
        for perm in itertools.permutations(edits[:k]):
            out.append(base + [list(e) for e in perm] + [['end', 0]])
    return out


def gen_cases(ctx):
    rng = ctx.rng
    nrand = 800 if ctx.tier == "quick" else 20000
    cases = [list(c) for c in CORPUS] + shared_empty_cases()
    for _ in range(nrand):
        cases.append(gen_history(rng, rng.randint(1, 40)))
    return cases


class Probe:
    '''stand-in for the context while shrinking'''
    tier = 'quick'

    def count(self, *args, **kwargs):
        pass


def fails_with(case, key):
    runner = Runner(Probe(), case).run()
    return [w for w, k in runner.failures if k == key]


def shrink(case, key):
    '''greedy: drop operations while the same failure remains'''
    cur = list(case)
    changed = True
    budget = 400
    while changed and budget > 0:
        changed = False
        for i in range(len(cur) - 1, -1, -1):
            if cur[i][0] == 'new' and i == 0:
                continue
            trial = cur[:i] + cur[i + 1:]
            budget -= 1
            try:
                ok = bool(trial) and fails_with(trial, key)
            except Exception:  # noqa
                ok = False
            if ok:
                cur = trial
                changed = True
            if budget <= 0:
                break
    return cur


# ---------------------------------------------------------------- exhaustive streams
EXH_NESTED = 3          # key of the nested graph object (register 1)


def exh_alphabet(plain):
    '''the operation alphabet of the exhaustive history stream (all on graph 0);
    'last' = the most recently created graph object'''
    keys = plain + [EXH_NESTED]
    ops = [['add_node', 0, k] for k in keys] + [['remove_node', 0, k] for k in keys]
    ops += [['add_dep', 0, a, b] for a in keys for b in keys if a != b]
    ops += [['add_dep', 0, 0, 0], ['add_dep', 0, EXH_NESTED, EXH_NESTED]]
    ops += [['remove_dep', 0, a, b] for a in keys for b in keys if a != b]
    ops += [['merge', 0, 1], ['plus', 0, 1], ['copy', 0], ['invert', 0], ['graft', 0, EXH_NESTED],
            ['q_eq', 0, 'last'], ['q_le', 0, 'last'], ['q_le', 'last', 0]]
    return ops


def exh_histories(alphabet, length, prefix, first=None):
    '''every sequence of exactly `length` operations (optionally with a fixed first one)'''
    import itertools
    pools = [alphabet] * length
    if first is not None and length:
        pools = [[first]] + [alphabet] * (length - 1)
    for seq in itertools.product(*pools):
        nreg = sum(1 for op in prefix if op[0] == 'new')
        case = [list(op) for op in prefix]
        for op in seq:
            op = [nreg - 1 if x == 'last' else x for x in op]
            case.append(op)
            if op[0] in ('plus', 'copy', 'invert'):
                nreg += 1
        case.append(['endflat', 0])
        yield case


def gen_exhaustive(ctx):
    '''(cases, description, complete?)'''
    plain = [0, 2, 4]
    alphabet = exh_alphabet(plain)
    prefixes = {'empty': [['new'], ['new']], 'singleton': [['new'], ['new'], ['add_node', 1, 4]]}
    cases = []
    if ctx.tier == 'thorough':
        bound = 3
        for prefix in prefixes.values():
            for n in range(bound + 1):
                cases += exh_histories(alphabet, n, prefix)
        desc = (f'ALL edit histories of length <= {bound} over {len(alphabet)} operations '
                f'(3 plain nodes + 1 nested graph, empty and singleton) ending in flatten + sort of a '
                f'copy: {len(cases)} histories')
    else:
        bound = 2
        for prefix in prefixes.values():
            for n in range(bound + 1):
                cases += exh_histories(alphabet, n, prefix)
        first = alphabet[ctx.rng.randrange(len(alphabet))]
        variant = sorted(prefixes)[ctx.rng.randrange(2)]
        cases += exh_histories(alphabet, 3, prefixes[variant], first=first)
        desc = (f'ALL edit histories of length <= {bound} over {len(alphabet)} operations '
                f'(3 plain nodes + 1 nested graph, empty and singleton) and all of length 3 starting '
                f'with {first} on the {variant} nested graph (slice chosen from the seed), each ending '
                f'in flatten + sort of a copy: {len(cases)} histories')
    return cases, desc, bound


def digraph_pairs(n):
    return [(a, b) for a in range(n) for b in range(n) if a != b]


def digraph_case(n, mask):
    '''the edit history that builds the loop-free digraph `mask` on n nodes, sorts it and ends
    with flatten (trivial) / sort / reduction / closure of copies'''
    case = [['new']] + [['add_node', 0, 2 * i] for i in range(n)]
    for bit, (a, b) in enumerate(digraph_pairs(n)):
        if mask >> bit & 1:
            case.append(['add_dep', 0, 2 * a, 2 * b])
    return case + [['q_sort', 0], ['end', 0]]


def reach_bits(n, adj):
    r = list(adj)
    for k in range(n):
        for i in range(n):
            if r[i] >> k & 1:
                r[i] |= r[k]
    return r


def sweep_digraphs(args):
    '''REAL topological_sort / transitive_reduction / transitive_closure on every loop-free
    digraph with mask in [lo, hi) on n nodes, against brute force.  Returns
    (graphs, acyclic masks, failures)'''
    n, lo, hi = args
    from valjean.cosette.depgraph import DepGraph
    plain = [f'v{i}' + '' for i in range(n)]
    where = {id(p): i for i, p in enumerate(plain)}
    pairs = digraph_pairs(n)
    failures, acyclic = [], []

    def edges_of(g):
        return {(where[id(k)], where[id(v)]) for k, vs in g for v in vs}

    for mask in range(lo, hi):
        edges = [pairs[bit] for bit in range(len(pairs)) if mask >> bit & 1]
        adj = [0] * n
        for a, b in edges:
            adj[a] |= 1 << b
        reach = reach_bits(n, adj)
        cyclic = any(reach[i] >> i & 1 for i in range(n))
        try:
            g = DepGraph()
            for p in plain:
                g.add_node(p)
            for a, b in edges:
                g.add_dependency(plain[a], on=plain[b])
            try:
                order = [where[id(x)] for x in g.topological_sort()]
            except Exception as err:  # noqa
                order = type(err).__name__
            what = None
            if cyclic:
                if order != 'DepGraphError':
                    what = ('sort-cyclic', f'cyclic graph sorted as {order}')
            elif isinstance(order, str):
                what = ('sort-raises', f'acyclic graph: topological_sort raises {order}')
            else:
                at = {x: i for i, x in enumerate(order)}
                if sorted(order) != list(range(n)):
                    what = ('sort-nodes', f'topological_sort {order} does not list every node once')
                elif any(at[b] > at[a] for a, b in edges):
                    what = ('sort-order', f'topological_sort {order} lists a node before a dependency')
            if not cyclic and what is None:
                acyclic.append(mask)
                red = g.copy().transitive_reduction()
                want = {(a, b) for a, b in edges
                        if not any(reach[a] >> c & 1 and reach[c] >> b & 1 for c in range(n))}
                if edges_of(red) != want or len(red) != n:
                    what = ('reduction-minimal', f'transitive_reduction gives {sorted(edges_of(red))}, '
                                                 f'want {sorted(want)}')
                clo = g.copy().transitive_closure()
                want = {(a, b) for a in range(n) for b in range(n) if reach[a] >> b & 1}
                if edges_of(clo) != want or len(clo) != n:
                    what = ('closure', f'transitive_closure gives {sorted(edges_of(clo))}, '
                                       f'want {sorted(want)}')
                if edges_of(g) != set(edges):
                    what = ('edges', 'reduction / closure of a copy changed the original')
        except Exception as err:  # noqa
            what = ('observe-raises', f'raises {type(err).__name__}')
        if what and len(failures) < 5:
            failures.append((what[0], f'digraph {sorted(edges)} on {n} nodes: {what[1]}',
                             digraph_case(n, mask)))
    return hi - lo, acyclic, failures


# ---------------------------------------------------------------- large graphs
def large_edges(spec, safe_depth):
    '''(insertion order of the nodes, edges (a, b): a depends on b, cyclic?) of a large graph family;
    the first-stored node ("hub", position 0 of the RList) has many dependees that also have other
    dependencies'''
    import random
    rng = random.Random(spec['seed'])
    n, kind = spec['n'], spec['kind']
    if kind == 'chain':
        n = min(n, safe_depth)
        edges = [(i, i + 1) for i in range(n - 1)]
        order = list(range(n))
        if spec.get('first') == 'deep':
            order.reverse()
        elif spec.get('first') == 'random':
            rng.shuffle(order)
        return order, edges, False
    depth = spec['depth']
    bounds = [round(k * n / (depth + 1)) for k in range(depth + 2)]
    layers = [list(range(bounds[k], bounds[k + 1])) for k in range(depth + 1)]
    hub_layer = depth if spec.get('hub', 'bottom') == 'bottom' else max(1, depth // 2)
    hub = layers[hub_layer][0]
    edges = set()
    for lay in range(depth):
        for a in layers[lay]:
            for b in rng.sample(layers[lay + 1], min(len(layers[lay + 1]), rng.randint(1, 3))):
                edges.add((a, b))
            if lay < hub_layer and rng.random() < 0.3:
                edges.add((a, hub))
    cyclic = False
    if kind == 'cycle_first':
        top = layers[0][rng.randrange(len(layers[0]))]
        edges.add((top, hub))
        edges.add((hub, top))
        cyclic = True
    elif kind == 'cycle_else':
        a = layers[0][rng.randrange(len(layers[0]))]
        path = [a]
        while True:
            nxt = sorted(b for (x, b) in edges if x == path[-1] and b != hub)
            if not nxt:
                break
            path.append(nxt[0])
        if len(path) > 1:
            edges.add((path[-1], a))
            cyclic = True
    rest = [i for i in range(n) if i != hub]
    rng.shuffle(rest)
    first = spec.get('first', 'hub')
    order = [hub] + rest if first == 'hub' else rest[:n // 2] + [hub] + rest[n // 2:]
    return order, sorted(edges), cyclic


def kahn_acyclic(nodes, edges):
    indeg = {a: 0 for a in nodes}
    dependees = {a: [] for a in nodes}
    for a, b in edges:
        indeg[a] += 1
        dependees[b].append(a)
    todo = [a for a in nodes if indeg[a] == 0]
    seen = 0
    while todo:
        b = todo.pop()
        seen += 1
        for a in dependees[b]:
            indeg[a] -= 1
            if indeg[a] == 0:
                todo.append(a)
    return seen == len(nodes)


def run_large(spec):
    '''one large graph on the REAL DepGraph against plain sets: nodes, edges, dependencies, dependees,
    topological_sort, reduction/closure (layered, acyclic), removals; optionally under a lowered
    recursion limit ("large" for the code = more than limit // 2 nodes).  Returns
    (failures [(key, what)], counts, model steps or None)'''
    import inspect
    import random
    import sys
    from valjean.cosette.depgraph import DepGraph
    failures, counts = [], {}

    def fail(key, what):
        if len(failures) < 3:
            failures.append((key, f'large graph {json.dumps(spec)}: {what}'))

    old_limit = sys.getrecursionlimit()
    limit = spec.get('limit') or old_limit
    steps = None
    try:
        sys.setrecursionlimit(limit)
        safe = limit - len(inspect.stack()) - 25
        order, edges, cyclic = large_edges(spec, safe)
        n = len(order)
        rng = random.Random(spec['seed'] + 1)
        obj = {i: f'L{i}' + '' for i in order}
        name = {id(o): i for i, o in obj.items()}
        g = DepGraph()
        for i in order:
            g.add_node(obj[i])
        for a, b in edges:
            g.add_dependency(obj[a], on=obj[b])
        counts['large_graphs'] = 1
        counts[f'large_{spec["kind"]}_limit{limit}'] = 1
        counts['large_nodes'] = n
        assert kahn_acyclic(order, edges) != cyclic

        def check_graph(g, nodes, eset, label):
            got_n = [name[id(k)] for k in g.nodes()]
            got_e = {(name[id(k)], name[id(v)]) for k, vs in g for v in vs}
            if sorted(got_n) != sorted(nodes) or len(g) != len(nodes):
                return fail('large-nodes', f'{label}: {len(got_n)} nodes reported, {len(nodes)} expected')
            if got_e != eset:
                return fail('large-edges', f'{label}: edges lost {sorted(eset - got_e)[:3]} / '
                                           f'invented {sorted(got_e - eset)[:3]}')
            return None

        def check_sort(g, nodes, eset, cyc, label):
            try:
                got = [name[id(k)] for k in g.topological_sort()]
            except Exception as err:  # noqa
                got = type(err).__name__
            if cyc:
                if got != 'DepGraphError':
                    fail('large-sort-cyclic', f'{label}: cyclic graph with {len(nodes)} nodes, '
                                              f'topological_sort gives {str(got)[:60]}')
            elif isinstance(got, str):
                fail('large-sort-raises', f'{label}: acyclic graph with {len(nodes)} nodes, '
                                          f'topological_sort raises {got}')
            else:
                at = {k: i for i, k in enumerate(got)}
                if len(at) != len(got) or sorted(got) != sorted(nodes):
                    fail('large-sort-nodes', f'{label}: topological_sort does not list every one of '
                                             f'{len(nodes)} nodes once ({len(got)} entries)')
                else:
                    bad = [(a, b) for a, b in eset if at[b] > at[a]]
                    if bad:
                        fail('large-sort-order', f'{label}: topological_sort of {len(nodes)} nodes lists '
                                                 f'{len(bad)} nodes before a dependency, e.g. {bad[0]}')
            return got

        eset = set(edges)
        check_graph(g, order, eset, 'after building')
        got = check_sort(g, order, eset, cyclic, 'sort')
        # queries on a sample of nodes, the first-stored one included
        deps = {i: set() for i in order}
        dees = {i: set() for i in order}
        for a, b in edges:
            deps[a].add(b)
            dees[b].add(a)
        for i in [order[0]] + rng.sample(order, min(n, 40)):
            if {name[id(k)] for k in g.dependencies(obj[i])} != deps[i]:
                fail('large-dependencies', f'dependencies({i}) wrong')
            if {name[id(k)] for k in g.dependees(obj[i])} != dees[i]:
                fail('large-dependees', f'dependees({i}) wrong')
        for a, b in rng.sample(edges, min(len(edges), 20)):
            if not g.depends(obj[a], obj[b]) or (b, a) not in eset and g.depends(obj[b], obj[a]):
                fail('large-depends', f'depends({a}, {b}) wrong')
        # transitive operations on copies (layered acyclic graphs: few paths)
        if not cyclic and spec['kind'] == 'layered' and n <= 1200:
            reach = {}
            for a in sorted(order, reverse=True):          # edges go from lower to higher numbers
                reach[a] = set()
                for b in deps[a]:
                    reach[a] |= {b} | reach[b]
            red = g.copy().transitive_reduction()
            want = {(a, b) for a, b in eset if not any(b in reach[c] for c in deps[a] if c != b)}
            check_graph(red, order, want, 'transitive_reduction of a copy')
            clo = g.copy().transitive_closure()
            check_graph(clo, order, {(a, b) for a in order for b in reach[a]},
                        'transitive_closure of a copy')
            check_graph(g, order, eset, 'original after reduction / closure of copies')
            counts['large_transitive'] = 1
        # model correspondence on a sample: the same construction replayed inside Coq
        if spec.get('model') and not failures:
            snap = ('([' + '; '.join(str(2 * i) for i in order) + '], ['
                    + '; '.join(f'({2 * a},{2 * b})' for a, b in sorted(eset)) + '])')
            res = (f'(Raise {EXC.get(got, 7)})' if isinstance(got, str)
                   else '(Ok [' + '; '.join(str(2 * i) for i in got) + '])')
            steps = (['SMut (WNew) None []'] + [f'SMut (WAddNode 0 {2 * i}) None []' for i in order]
                     + [f'SMut (WAddDep 0 {2 * a} {2 * b}) None []' for a, b in edges]
                     + [f'SSort 0 {res}', f'SWorld [{snap}]'])
        # removals (swap with the last position), the first-stored node among them
        gone = set([order[0]] + rng.sample(order, min(n - 1, 15)))
        for i in sorted(gone, key=lambda k: rng.random()):
            g.remove_node(obj[i])
        left = [i for i in order if i not in gone]
        eleft = {(a, b) for a, b in eset if a not in gone and b not in gone}
        check_graph(g, left, eleft, 'after 16 removals')
        check_sort(g, left, eleft, not kahn_acyclic(left, eleft), 'sort after 16 removals')
    except Exception as err:  # noqa
        fail('large-raises', f'raises {type(err).__name__}: {str(err)[:80]}')
    finally:
        sys.setrecursionlimit(old_limit)
    return failures, counts, steps


def large_specs(ctx):
    rng = ctx.rng
    specs = []
    # interpreter default recursion limit: a few really large graphs
    specs += [{'kind': 'layered', 'n': 600, 'depth': 3}, {'kind': 'layered', 'n': 1100, 'depth': 5},
              {'kind': 'layered', 'n': 2500, 'depth': 6, 'hub': 'middle'},
              {'kind': 'layered', 'n': 700, 'depth': 4, 'first': 'middle'},
              {'kind': 'chain', 'n': 900, 'first': 'deep'}, {'kind': 'chain', 'n': 900, 'first': 'shallow'},
              {'kind': 'cycle_first', 'n': 600, 'depth': 4}, {'kind': 'cycle_first', 'n': 1100, 'depth': 3, 'hub': 'middle'},
              {'kind': 'cycle_else', 'n': 600, 'depth': 4}, {'kind': 'cycle_else', 'n': 1300, 'depth': 5}]
    # lowered recursion limit (200): "large" = more than 100 nodes, cheap, many variants
    nlow = 24 if ctx.tier == 'quick' else 300
    for k in range(nlow):
        kind = ['layered', 'layered', 'chain', 'cycle_first', 'cycle_else', 'layered'][k % 6]
        spec = {'kind': kind, 'n': rng.choice([101, 110, 130, 180, 300]), 'depth': rng.randint(3, 6),
                'hub': rng.choice(['bottom', 'middle']), 'limit': 200,
                'first': rng.choice(['hub', 'hub', 'middle']) if kind != 'chain'
                else rng.choice(['deep', 'shallow', 'random'])}
        if k < 4:
            spec['n'] = [101, 104, 102, 108][k]
            spec['model'] = True          # sampled: replayed on the Coq model as well
        specs.append(spec)
    for spec in specs:
        spec['seed'] = rng.randrange(1 << 30)
    return specs


class Tally:
    '''context of a worker process: counts only'''

    def __init__(self, tier):
        self.tier = tier
        self.dist = {}

    def count(self, key, n=1):
        self.dist[key] = self.dist.get(key, 0) + n


def run_chunk(args):
    tier, cases = args
    tally = Tally(tier)
    out = []
    for case in cases:
        runner = Runner(tally, case).run()
        out.append((runner.steps, runner.failures, runner.nontrivial))
    return out, tally.dist


def run_stream(ctx, pool, cases, items, reported, sample_every):
    '''implementation + oracle on every case (in the worker pool), failures shrunk and reported'''
    size = 200
    chunks = [(ctx.tier, cases[k:k + size]) for k in range(0, len(cases), size)]
    k = 0
    for out, dist in pool.imap(run_chunk, chunks):
        for key, n in dist.items():
            ctx.count(key, n)
        for steps, failures, nontrivial in out:
            case = cases[k]
            k += 1
            ctx.case_seen(case, nontrivial, sample_every=sample_every)
            for what, key in failures:
                small = case
                if reported.get(key, 0) < 2:          # shrink the first failures of each kind
                    small = shrink(case, key)
                    again = fails_with(small, key)
                    what = again[0] if again else what
                reported[key] = reported.get(key, 0) + 1
                ctx.oracle_failure(f'{what} :: {json.dumps(small)}', small, key=key)
            ctx.count('steps_compared_with_model', len(steps))
            items.append((case, steps))


def run(ctx):
    import multiprocessing
    common.import_repo()
    thorough = ctx.tier == 'thorough'
    cases = gen_cases(ctx)
    exh, exh_desc, _ = gen_exhaustive(ctx)
    # digraphs: implementation vs model on all loop-free digraphs with <= 4 nodes
    small = [digraph_case(n, mask) for n in range(4) for mask in range(1 << (n * (n - 1)))]
    nsmall = sum(1 << (n * (n - 1)) for n in range(5))
    items = []
    reported = {}
    import time
    times = {}
    t0 = time.time()
    with multiprocessing.get_context('fork').Pool(common.NPROC) as pool:
        run_stream(ctx, pool, cases, items, reported, 1999)
        nrandom = len(items)
        times['random_impl_s'] = round(time.time() - t0, 1)
        run_stream(ctx, pool, exh, items, reported, 30011)
        times['exhaustive_histories_impl_s'] = round(time.time() - t0, 1)
        run_stream(ctx, pool, small, items, reported, 4001)
        # 4 nodes: real vs brute force on all 4096; vs model on all (thorough) / on every acyclic
        # one and every 16th other (quick)
        acyclic4 = []
        for done, acyclic, failures in pool.imap(sweep_digraphs,
                                                 [(4, k, k + 512) for k in range(0, 4096, 512)]):
            acyclic4 += acyclic
            for key, what, case in failures:
                if reported.get(key, 0) < 3:
                    ctx.oracle_failure(f'{what} :: {json.dumps(case)}', case, key=key)
                reported[key] = reported.get(key, 0) + 1
        masks4 = range(4096) if thorough else sorted(set(acyclic4) | set(range(0, 4096, 16)))
        four = [digraph_case(4, m) for m in masks4]
        run_stream(ctx, pool, four, items, reported, 4001)
        # 5 nodes: the real sort / reduction / closure against brute force
        bits = 20
        if thorough:
            lo, hi = 0, 1 << bits
            desc5 = 'ALL 2^20 loop-free digraphs on 5 nodes'
        else:
            width = 1 << 15
            lo = ctx.rng.randrange(1 << (bits - 15)) * width
            hi = lo + width
            desc5 = f'the 2^15 loop-free digraphs on 5 nodes with masks in [{lo}, {hi}) (slice from the seed)'
        step = 1 << 12
        acyclic5, swept = [], 0
        for done, acyclic, failures in pool.imap(sweep_digraphs,
                                                 [(5, k, min(k + step, hi)) for k in range(lo, hi, step)]):
            swept += done
            acyclic5 += acyclic
            for key, what, case in failures:
                if reported.get(key, 0) < 3:
                    ctx.oracle_failure(f'{what} :: {json.dumps(case)}', case, key=key)
                reported[key] = reported.get(key, 0) + 1
        ctx.count('digraphs5_swept_real_vs_bruteforce', swept)
        ctx.count('digraphs5_acyclic', len(acyclic5))
        # ... and implementation vs model on every acyclic one of them + a stride of the cyclic ones
        five = [digraph_case(5, m) for m in acyclic5]
        five += [digraph_case(5, m) for m in range(lo, hi, 211)]
        times['digraph_sweep_impl_s'] = round(time.time() - t0, 1)
        run_stream(ctx, pool, five, items, reported, 9973)
        # large graphs (size-dependent code paths), default and lowered recursion limit
        specs = large_specs(ctx)
        nlarge_model = 0
        for spec, (failures, counts, steps) in zip(specs, pool.imap(run_large, specs)):
            for key, n in counts.items():
                if key == 'large_nodes':
                    ctx.dist['large_max_nodes'] = max(ctx.dist.get('large_max_nodes', 0), n)
                else:
                    ctx.count(key, n)
            ctx.case_seen({'large': spec}, True, sample_every=7)
            for key, what in failures:
                ctx.oracle_failure(f'{what} :: large', {'large': spec}, key=key)
            if steps:
                items.append(({'large': spec}, steps))
                nlarge_model += 1
    times['all_impl_s'] = round(time.time() - t0, 1)
    ctx.evaluations += swept
    ctx.rule = ('three streams. (1) random edit histories (1-40 operations, 35 % removals, 8 plain nodes + '
                'nested graph objects incl. empty/singleton ones, up to 7 graph objects alive, queries '
                'interleaved) ending in flatten / sort / reduction / closure of copies. (2) EXHAUSTIVE: '
                + exh_desc + '. (3) EXHAUSTIVE: real topological_sort / transitive_reduction / '
                f'transitive_closure vs brute force on ALL {nsmall} loop-free digraphs with <= 4 nodes, vs model '
                f'on {len(small) + len(four)} of them (all with <= 3 nodes; 4 nodes: '
                + ('all' if thorough else 'every acyclic one and every 16th other')
                + f'); vs brute force on {desc5}, vs model on every acyclic one of them and '
                'every 211th other. non-trivial = a removal, merge or graft on a graph with >= 2 nodes, '
                'or a sort with >= 2 edges, or a nested flatten; distinct by op list. (4) LARGE graphs (size-dependent '
                f'code paths): {len(specs)} graphs with 600-2500 nodes at the default recursion limit and 101-300 nodes '
                'under sys.setrecursionlimit(200) (wide layered DAGs of depth 3-6, chains below the recursion '
                'limit, a cycle through the first-stored node, a cycle elsewhere): sort, nodes, edges, '
                'dependencies, dependees, reduction/closure, removals against plain sets; 4 of them also on the model')
    ctx.extra['large_graphs'] = {'graphs': len(specs), 'replayed_on_model': nlarge_model,
                                 'max_nodes': ctx.dist.get('large_max_nodes')}
    ctx.extra['exhaustive'] = True
    ctx.extra['exhaustive_bounds'] = {
        'edit_histories': exh_desc, 'edit_histories_enumerated': len(exh),
        'digraphs_le4_real_vs_bruteforce': nsmall, 'digraphs_le4_real_vs_model': len(small) + len(four),
        'digraphs_le4_model_complete': thorough,
        'digraphs5_real_vs_bruteforce': swept, 'digraphs5_complete': thorough,
        'digraphs5_real_vs_model': len(five)}
    # model side: long random histories in small shards, the short exhaustive ones in big shards
    # shards of about equal work (number of steps): one wave on 16 cores in the quick tier; the
    # sampled large graphs two per shard
    nsmallcases = len(items) - nlarge_model
    total = sum(len(st) for _, st in items[:nsmallcases])
    budget = max(total // 14, 1) if not thorough else 4500
    bounds, acc, start = [], 0, 0
    for k in range(nsmallcases):
        acc += len(items[k][1])
        if acc >= budget or k + 1 - start >= 600:
            bounds.append((start, k + 1))
            start, acc = k + 1, 0
    if start < nsmallcases:
        bounds.append((start, nsmallcases))
    bounds += [(k, min(k + 2, len(items))) for k in range(nsmallcases, len(items), 2)]
    shards, owner = [], []
    for start, stop in bounds:
        chunk = items[start:stop]
        body = ';\n '.join('[' + ';\n  '.join(steps) + ']' for _, steps in chunk)
        shards.append('Definition cases : list (list step) :=\n [' + body + '].\n'
                      'Eval vm_compute in bad_indices (map check_case cases).')
        owner.append(start)
    outs = common.coq_eval(ctx.pid, IMPORTS, shards)
    for k, out in zip(owner, outs):
        for i in common.parse_nat_list(out):
            case, steps = items[k + i]
            ctx.mismatch(f'history of {len(case)} operations: the model does not reproduce what the '
                         f'implementation reported', case)
    times['with_model_s'] = round(time.time() - t0, 1)
    ctx.extra['model_shards'] = len(shards)
    ctx.extra['cumulative_wall_s'] = times
    ctx.assumptions = ['nodes are identified by object identity (id()); distinct-but-equal plain '
                       'objects are outside the model',
                       'python sets / dicts of the reference are the ground truth of the oracle',
                       'topological_sort is not exercised on graphs that still contain graph '
                       'objects as nodes (they are unhashable: TypeError by design)']


def replay(ctx, path):
    common.import_repo()
    data = json.load(open(path))
    case = data['case']
    if isinstance(case, dict) and 'large' in case:
        failures, counts, _ = run_large(case['large'])
        print('large graph:', json.dumps(case['large']), counts)
        for key, what in failures:
            print('oracle:', key, what)
        return 0
    runner = Runner(ctx, case).run()
    for op in case:
        print('op:', json.dumps(op))
    for g, ref in zip(runner.regs, runner.ref):
        try:
            print('impl:', runner.observe(g), ' reference:', ref.snap())
        except Exception as exc:  # noqa
            print('impl: observation raises', type(exc).__name__, ' reference:', ref.snap())
    body = ('Eval vm_compute in check_case [' + ';\n '.join(runner.steps) + '].')
    print('model agrees with the implementation on every step:',
          common.coq_eval(ctx.pid, IMPORTS, [body])[0].strip())
    for what, key in runner.failures:
        print('oracle:', what)
    return 0

(* C08: proofs about the model of dataset arithmetic. *)
From Coq Require Import List ZArith Bool Arith String Lia.
From Flocq Require Import IEEE754.BinarySingleNaN.
From VV Require Import Lib.Base Lib.B64 C08.Model.
Import ListNotations.

Lemma copy_same d : run_op d OCopy = Ok d.
Proof. reflexivity. Qed.

(* C08: structure of the results (shape, bins, name kept; well-formedness along
   every finite chain), values, and the sign of the errors along chains. *)
From Coq Require Import List ZArith Bool Arith Lia.
From Flocq Require Import IEEE754.BinarySingleNaN.
From VV Require Import Lib.Base Lib.B64 C08.Model C08.ProofsFloat.
Import ListNotations.

(* ---- lists ---- *)

Lemma zipw_length {X Y Z} (f : X -> Y -> Z) l1 l2 :
  length (zipw f l1 l2) = Nat.min (length l1) (length l2).
Proof. revert l2; induction l1 as [|a r IH]; intros [|b r2]; cbn; auto. Qed.

Lemma zipw_Forall {X Y Z} (f : X -> Y -> Z) (P : Z -> Prop) l1 l2 :
  (forall a b, In a l1 -> In b l2 -> P (f a b)) -> Forall P (zipw f l1 l2).
Proof.
  revert l2; induction l1 as [|a r IH]; intros [|b r2] H; cbn; constructor.
  - apply H; now left.
  - apply IH. intros x y Hx Hy. apply H; now right.
Qed.

Lemma zipw_nth {X Y Z} (f : X -> Y -> Z) l1 l2 k dx dy dz :
  k < length l1 -> k < length l2 ->
  nth k (zipw f l1 l2) dz = f (nth k l1 dx) (nth k l2 dy).
Proof.
  revert l2 k; induction l1 as [|a r IH]; intros [|b r2] [|k] H1 H2; cbn in *; try lia; auto.
  apply IH; lia.
Qed.

Lemma combine_nth_pair {X Y} (l1 : list X) (l2 : list Y) k dx dy :
  length l1 = length l2 -> nth k (combine l1 l2) (dx, dy) = (nth k l1 dx, nth k l2 dy).
Proof. intros H. now apply combine_nth. Qed.

Lemma nat_list_eqb_eq (l1 l2 : list nat) : list_eqb Nat.eqb l1 l2 = true <-> l1 = l2.
Proof. apply list_eqb_spec. intros a b. apply Nat.eqb_eq. Qed.

(* ---- broadcasting moves cells around, it invents none ---- *)

Lemma In_chunks {X} k n : forall (l row : list X) x, In row (chunks k n l) -> In x row -> In x l.
Proof.
  induction n as [|n IH]; cbn; intros l row x H Hx; [contradiction|].
  destruct H as [H|H]; [subst; eapply In_firstn; eauto | eapply In_skipn, IH; eauto].
Qed.

Lemma bc_In {X} sh : forall tgt (data : list X) x, In x (bc sh tgt data) -> In x data.
Proof.
  induction sh as [|n sh IH]; intros [|t tgt] data x; cbn; auto.
  destruct (Nat.eqb n t).
  - rewrite in_flat_map. intros (row & Hr & Hx). eapply In_chunks; eauto.
  - rewrite in_concat. intros (l & Hl & Hx). apply repeat_spec in Hl. subst. eauto.
Qed.

Lemma bcast_In {X} sh tgt (data : list X) x : In x (bcast sh tgt data) -> In x data.
Proof. apply bc_In. Qed.

(* ---- the constructor ---- *)

Lemma dims_okb_ok {X} sh : forall bs : list (list X), dims_okb sh bs = true ->
  length bs = length sh /\ Forall2 (fun n b => length b = n \/ length b = S n) sh bs.
Proof.
  induction sh as [|n sh IH]; intros [|b bs]; cbn; try discriminate.
  - split; constructor.
  - rewrite andb_true_iff, orb_true_iff, !Nat.eqb_eq. intros [Hb H].
    destruct (IH _ H). split; [lia|constructor; auto].
Qed.

(* whatever __init__ accepts is the dataset made of its arguments, and well formed *)
Lemma ctor_spec vsh v esh e m bn nm wh x :
  ctor vsh v esh e m bn nm wh = Ok x -> x = mk_ds vsh v e m bn nm wh /\ wf x.
Proof.
  unfold ctor.
  match goal with |- (if ?c then _ else _) = _ -> _ => destruct c eqn:E end; [|discriminate].
  intros H; inversion H; subst; clear H. split; [reflexivity|].
  rewrite !andb_true_iff in E. destruct E as ((((E1 & E2) & E3) & E4) & E5).
  apply Nat.eqb_eq in E2, E3. unfold wf; cbn. repeat split; auto.
  - intros l Hl; subst m. now apply Nat.eqb_eq.
  - destruct bn as [|b bn']; [now left|]. right. now apply dims_okb_ok.
Qed.

(* ---- one arithmetic operation ---- *)

Lemma consistent_shape d d2 : consistent d d2 = true -> shape d2 = shape d.
Proof. unfold consistent. rewrite andb_true_iff. intros [H _]. now apply nat_list_eqb_eq. Qed.

Lemma or_mask_length m1 m2 n :
  (forall m, m1 = Some m -> length m = n) -> (forall m, m2 = Some m -> length m = n) ->
  forall m, or_mask m1 m2 = Some m -> length m = n.
Proof.
  intros H1 H2 m. destruct m1 as [a|], m2 as [b|]; cbn; intros E; inversion E; subst; auto.
  rewrite zipw_length, (H1 a eq_refl), (H2 b eq_refl). apply Nat.min_id.
Qed.

(* an ndarray operand of another shape: the broadcast result, as far as
   __init__ accepts it *)
Lemma binop_arr_other o d sh a x :
  list_eqb Nat.eqb sh (shape d) = false -> binop o d (RArr sh a) = Ok x ->
  exists bs, bshape (shape d) sh = Some bs /\ wf x /\ shape x = bs
    /\ value x = zipw (cell_val o) (bcast (shape d) bs (value d)) (bcast sh bs a)
    /\ (error x = error d \/
        error x = zipw (cell_err_dc o) (bcast (shape d) bs (error d)) (bcast sh bs a))
    /\ bins x = bins d /\ name x = name d.
Proof.
  intros Es. cbn. rewrite Es. destruct (bshape (shape d) sh) as [bs|]; [|discriminate].
  intros E. exists bs. split; [reflexivity|].
  destruct o; apply ctor_spec in E; destruct E as [-> Hw]; cbn; auto 10.
Qed.

Lemma binop_arr_broadcast o d sh a x :
  sh <> shape d -> binop o d (RArr sh a) = Ok x ->
  exists bs, bshape (shape d) sh = Some bs /\ wf x /\ shape x = bs
    /\ value x = zipw (cell_val o) (bcast (shape d) bs (value d)) (bcast sh bs a)
    /\ (error x = error d \/
        error x = zipw (cell_err_dc o) (bcast (shape d) bs (error d)) (bcast sh bs a))
    /\ bins x = bins d /\ name x = name d.
Proof.
  intros Hs. apply binop_arr_other.
  destruct (list_eqb Nat.eqb sh (shape d)) eqn:Es; [|reflexivity].
  now apply nat_list_eqb_eq in Es.
Qed.

(* the result has the bins and name of the left operand, and its shape unless an
   ndarray of another shape was broadcast against it *)
Definition same_shape_rhs (d : ds) (r : rhs) : Prop :=
  match r with RArr sh _ => sh = shape d | _ => True end.

Lemma binop_keeps o d r x :
  binop o d r = Ok x ->
  bins x = bins d /\ name x = name d /\ (same_shape_rhs d r -> shape x = shape d).
Proof.
  destruct r as [c|sh a|d2].
  - cbn. intros E; inversion E; subst; cbn; auto.
  - destruct (list_eqb Nat.eqb sh (shape d)) eqn:Es.
    + cbn. rewrite Es. intros E; inversion E; subst; cbn; auto.
    + intros E. destruct (binop_arr_other _ _ _ _ _ Es E) as (bs & _ & _ & _ & _ & _ & Hb & Hn).
      repeat split; auto. cbn. intros ->.
      assert (list_eqb Nat.eqb (shape d) (shape d) = true) by now apply nat_list_eqb_eq.
      congruence.
  - cbn. destruct (negb _); [discriminate|]. intros E; inversion E; subst; cbn; auto.
Qed.

Lemma binop_wf o d r x : wf d -> wf_rhs r -> binop o d r = Ok x -> wf x.
Proof.
  intros (Hv & He & Hm & Hb) Hr.
  destruct r as [c|sh a|d2].
  - cbn. intros E; inversion E; subst; clear E. unfold wf; cbn. rewrite !map_length. auto.
  - destruct (list_eqb Nat.eqb sh (shape d)) eqn:Es.
    + cbn. rewrite Es. apply nat_list_eqb_eq in Es. subst sh. cbn in Hr.
      intros E; inversion E; subst; clear E. unfold wf; cbn.
      rewrite !zipw_length, Hv, He, Hr, Nat.min_id. auto.
    + intros E. now destruct (binop_arr_other _ _ _ _ _ Es E) as (bs & _ & Hw & _).
  - cbn. destruct (consistent d d2) eqn:Ec; cbn; [|discriminate].
    apply consistent_shape in Ec. destruct Hr as (Hv2 & He2 & Hm2 & _). rewrite Ec in *.
    intros E; inversion E; subst; clear E. unfold wf; cbn.
    rewrite !zipw_length, !combine_length, Hv, He, Hv2, He2, !Nat.min_id.
    repeat split; auto. now apply or_mask_length.
Qed.

(* value of the result: the plain array operation, cell by cell *)
Lemma binop_value_num o d c x :
  binop o d (RNum c) = Ok x -> value x = map (fun v => cell_val o v c) (value d).
Proof. cbn. intros E; now inversion E. Qed.

Lemma binop_value_cells o d r x k :
  wf d -> wf_rhs r -> same_shape_rhs d r -> binop o d r = Ok x -> k < prod (shape d) ->
  nth k (value x) fzero
  = cell_val o (nth k (value d) fzero)
               (match r with
                | RNum c => c
                | RArr _ a => nth k a fzero
                | RDs d2 => nth k (value d2) fzero
                end).
Proof.
  intros (Hv & He & Hm & Hb) Hr Hs.
  destruct r as [c|sh a|d2]; cbn.
  - intros E Hk; inversion E; subst; clear E; cbn.
    rewrite <- Hv in Hk.
    rewrite (nth_indep _ fzero (cell_val o fzero c)) by now rewrite map_length.
    now rewrite (map_nth (fun v => cell_val o v c)).
  - cbn in Hs. subst sh.
    assert (Es : list_eqb Nat.eqb (shape d) (shape d) = true) by now apply nat_list_eqb_eq.
    rewrite Es. cbn in Hr.
    intros E Hk; inversion E; subst; clear E; cbn. apply zipw_nth; lia.
  - destruct (consistent d d2) eqn:Ec; cbn; [|discriminate].
    apply consistent_shape in Ec. destruct Hr as (Hv2 & He2 & Hm2 & _). rewrite Ec in *.
    intros E Hk; inversion E; subst; clear E; cbn. apply zipw_nth; lia.
Qed.

Definition op_fn (o : bop) : b64 -> b64 -> b64 :=
  match o with Add => fadd | Sub => fsub | Mul => fmul | Div => fdiv end.

Lemma cell_val_is_op o v1 v2 : cell_val o v1 v2 = op_fn o v1 v2.
Proof. destruct o; reflexivity. Qed.

Lemma cell_val_ieee o v1 v2 :
  cell_val o v1 v2 = match o with Add => fadd v1 v2 | Sub => fsub v1 v2
                                | Mul => fmul v1 v2 | Div => fdiv v1 v2 end.
Proof. destruct o; reflexivity. Qed.

(* error cells, dataset (op) dataset: the formula [err_dd] on the four cells *)
Lemma binop_error_cells_ds o d d2 x k :
  wf d -> wf d2 -> binop o d (RDs d2) = Ok x -> k < prod (shape d) ->
  nth k (error x) fzero
  = eval B64A (err_dd o) (mkenv (nth k (value d) fzero) (nth k (error d) fzero)
                                (nth k (value d2) fzero) (nth k (error d2) fzero)).
Proof.
  intros (Hv & He & Hm & Hb) (Hv2 & He2 & Hm2 & _). cbn.
  destruct (consistent d d2) eqn:Ec; cbn; [|discriminate].
  apply consistent_shape in Ec. rewrite Ec in *.
  intros E Hk; inversion E; subst; clear E; cbn.
  rewrite (zipw_nth _ _ _ _ (fzero, fzero) (fzero, fzero)) by (rewrite combine_length; lia).
  rewrite !combine_nth_pair by lia. reflexivity.
Qed.

(* a constant factor scales every error by its magnitude *)
Lemma binop_error_const_mul d c x :
  binop Mul d (RNum c) = Ok x -> error x = map (fun e => fmul e (fabs c)) (error d).
Proof. cbn. intros E; now inversion E. Qed.

Lemma binop_error_const_div d c x :
  binop Div d (RNum c) = Ok x -> error x = map (fun e => fdiv e (fabs c)) (error d).
Proof. cbn. intros E; now inversion E. Qed.

Lemma binop_error_const_factor d c x :
  (binop Mul d (RNum c) = Ok x -> error x = map (fun e => fmul e (fabs c)) (error d)) /\
  (binop Div d (RNum c) = Ok x -> error x = map (fun e => fdiv e (fabs c)) (error d)).
Proof. split; [apply binop_error_const_mul | apply binop_error_const_div]. Qed.

Lemma binop_error_const_shift o d c x :
  o = Add \/ o = Sub -> binop o d (RNum c) = Ok x -> error x = error d.
Proof. intros [-> | ->]; cbn; intros E; inversion E; cbn; apply map_id. Qed.

Lemma binop_const_sign_irrelevant o d c :
  match binop o d (RNum c), binop o d (RNum (fneg c)) with
  | Ok x, Ok y => error x = error y
  | _, _ => False
  end.
Proof.
  cbn. apply map_ext. intros e. symmetry. apply cell_err_const_sign_irrelevant.
Qed.

(* ---- sign of the errors ---- *)

Lemma binop_error_sign_ds o d d2 x :
  binop o d (RDs d2) = Ok x -> Forall (fun e => Bsign e = false) (error x).
Proof.
  cbn. destruct (negb _); [discriminate|]. intros E; inversion E; subst; clear E; cbn.
  apply zipw_Forall. intros a b _ _. apply cell_err_dd_sign.
Qed.

Lemma binop_error_not_neg o d r x :
  Forall not_neg (error d) -> binop o d r = Ok x -> Forall not_neg (error x).
Proof.
  intros Hd. destruct r as [c|sh a|d2].
  - cbn. intros E; inversion E; subst; clear E; cbn.
    apply Forall_map. eapply Forall_impl; [|exact Hd]. intros e He. now apply cell_err_dc_not_neg.
  - destruct (list_eqb Nat.eqb sh (shape d)) eqn:Es.
    + cbn. rewrite Es. intros E; inversion E; subst; clear E; cbn.
      apply zipw_Forall. intros e c He _. apply cell_err_dc_not_neg.
      rewrite Forall_forall in Hd. now apply Hd.
    + intros E. destruct (binop_arr_other _ _ _ _ _ Es E) as (bs & _ & _ & _ & _ & [He|He] & _);
        rewrite He; [exact Hd|].
      apply zipw_Forall. intros e c Hin _. apply cell_err_dc_not_neg.
      rewrite Forall_forall in Hd. apply Hd. eapply bcast_In; eauto.
  - intros E. eapply Forall_impl; [|exact (binop_error_sign_ds _ _ _ _ E)].
    intros e. apply Bsign_false_not_neg.
Qed.

(* ---- copy, mask, squeeze ---- *)

Lemma prod_filter_unit sh : prod (filter (fun n => negb (Nat.eqb n 1)) sh) = prod sh.
Proof.
  induction sh as [|n sh IH]; cbn; [reflexivity|].
  destruct (Nat.eqb n 1) eqn:E; cbn [negb].
  - apply Nat.eqb_eq in E; subst. fold (prod (filter (fun n0 => negb (Nat.eqb n0 1)) sh)). rewrite IH.
    unfold prod. lia.
  - cbn [fold_right]. fold (prod (filter (fun n0 => negb (Nat.eqb n0 1)) sh)). rewrite IH. reflexivity.
Qed.

Lemma drop_unit_map {X Y} (f : X -> Y) sh l : map f (drop_unit sh l) = drop_unit sh (map f l).
Proof.
  revert l; induction sh as [|n sh IH]; intros [|x l]; cbn; auto.
  destruct (Nat.eqb n 1); cbn; now rewrite IH.
Qed.

Lemma drop_unit_ok sh (bs : list (list b64)) :
  length bs = length sh ->
  Forall2 (fun n b => length b = n \/ length b = S n) sh bs ->
  let sh' := filter (fun n => negb (Nat.eqb n 1)) sh in
  length (drop_unit sh bs) = length sh' /\
  Forall2 (fun n b => length b = n \/ length b = S n) sh' (drop_unit sh bs).
Proof.
  intros _ H. induction H as [|n b sh bs Hnb H IH]; cbn; [split; constructor|].
  destruct (Nat.eqb n 1); cbn; [exact IH|].
  destruct IH as [IH1 IH2]. split; [now rewrite IH1 | now constructor].
Qed.

Lemma squeeze_wf d : wf d -> wf (squeeze d).
Proof.
  intros (Hv & He & Hm & Hb). unfold wf, squeeze; cbn. rewrite prod_filter_unit.
  repeat split; auto.
  rewrite drop_unit_map. destruct Hb as [Hb | [Hl Hf]].
  - left. rewrite Hb. now destruct (shape d).
  - right. now apply drop_unit_ok.
Qed.

Lemma mask_wf d m x : wf d -> run_op d (OMask m) = Ok x -> wf x.
Proof.
  intros (Hv & He & Hm & Hb). cbn. destruct (Nat.eqb _ _) eqn:El; [|discriminate].
  apply Nat.eqb_eq in El. intros E; inversion E; subst; clear E.
  unfold wf; cbn. repeat split; auto.
  apply or_mask_length; [exact Hm|]. intros m' E; inversion E; subst. now rewrite El.
Qed.

(* a mask leaves every cell, the bins, the name alone *)
Lemma mask_keeps d m x :
  run_op d (OMask m) = Ok x ->
  shape x = shape d /\ value x = value d /\ error x = error d /\ bins x = bins d
  /\ name x = name d /\ what x = what d.
Proof. cbn. destruct (Nat.eqb _ _); [|discriminate]. intros E; inversion E; cbn; auto 10. Qed.

(* copy: same content, no component aliases the original *)
Lemma copy_spec d :
  run_op d OCopy = Ok d /\ prov_of OCopy = mk_prov Fresh Fresh Fresh.
Proof. split; reflexivity. Qed.

(* every value or error array computed by an operation is a new array *)
Lemma computed_value_fresh o r :
  p_value (prov_of (OBin o r)) = Fresh /\ p_value (prov_of (OAug o r)) = Fresh.
Proof. destruct o, r; split; reflexivity. Qed.

(* an augmented assignment has the value semantics of the plain operator *)
Lemma aug_is_bin d o r : run_op d (OAug o r) = run_op d (OBin o r).
Proof. reflexivity. Qed.

(* ---- chains ---- *)

Definition wf_op (o : op) : Prop :=
  match o with OBin _ r | OAug _ r => wf_rhs r | _ => True end.

Lemma run_op_wf d o x : wf d -> wf_op o -> run_op d o = Ok x -> wf x.
Proof.
  intros Hd Ho. destruct o as [b r|b r| |m|].
  - now apply binop_wf.
  - now apply binop_wf.
  - cbn. intros E; inversion E; now subst.
  - now apply mask_wf.
  - cbn. intros E; inversion E; subst. now apply squeeze_wf.
Qed.

Theorem chain_wf ops : forall d x,
  wf d -> Forall wf_op ops -> run_chain d ops = Ok x -> wf x.
Proof.
  induction ops as [|o ops IH]; intros d x Hd Hops; cbn.
  - intros E; inversion E; now subst.
  - inversion Hops as [|? ? Ho Hr]; subst.
    destruct (run_op d o) as [d'|c] eqn:E1; [|discriminate].
    apply IH; [eapply run_op_wf; eauto | exact Hr].
Qed.

Theorem chain_error_not_neg ops : forall d x,
  Forall not_neg (error d) -> run_chain d ops = Ok x -> Forall not_neg (error x).
Proof.
  induction ops as [|o ops IH]; intros d x Hd; cbn.
  - intros E; inversion E; now subst.
  - destruct (run_op d o) as [d'|c] eqn:E1; [|discriminate].
    apply IH. destruct o as [b r|b r| |m|]; cbn in E1.
    + eapply binop_error_not_neg; eauto.
    + eapply binop_error_not_neg; eauto.
    + inversion E1; now subst.
    + destruct (Nat.eqb _ _); [|discriminate]. inversion E1; now subst.
    + inversion E1; now subst.
Qed.

(* the bins of a result are bins of the left operand: all of them, unless a
   squeeze dropped those of unit dimensions *)
Inductive sublist {X} : list X -> list X -> Prop :=
| sub_nil : sublist [] []
| sub_keep x l1 l2 : sublist l1 l2 -> sublist (x :: l1) (x :: l2)
| sub_drop x l1 l2 : sublist l1 l2 -> sublist l1 (x :: l2).

Lemma sublist_refl {X} (l : list X) : sublist l l.
Proof. induction l; now constructor. Qed.

Lemma sublist_nil {X} (l : list X) : sublist [] l.
Proof. induction l; now constructor. Qed.

Lemma sublist_trans {X} (l1 l2 l3 : list X) : sublist l1 l2 -> sublist l2 l3 -> sublist l1 l3.
Proof.
  intros H12 H23. revert l1 H12. induction H23 as [|x l2 l3 H IH|x l2 l3 H IH]; intros l1 H12.
  - exact H12.
  - inversion H12; subst; [apply sub_keep | apply sub_drop]; now apply IH.
  - apply sub_drop. now apply IH.
Qed.

Lemma drop_unit_sublist {X} sh (l : list X) : sublist (drop_unit sh l) l.
Proof.
  revert l; induction sh as [|n sh IH]; intros [|x l]; cbn; try apply sublist_nil.
  destruct (Nat.eqb n 1); [apply sub_drop | apply sub_keep]; apply IH.
Qed.

Definition is_squeeze (o : op) : bool := match o with OSqueeze => true | _ => false end.

(* operations that can change the shape: squeeze, and an ndarray operand (numpy
   broadcasting may enlarge the value when __init__ accepts the result) *)
Definition may_reshape (o : op) : bool :=
  match o with OSqueeze | OBin _ (RArr _ _) | OAug _ (RArr _ _) => true | _ => false end.

Lemma run_op_keeps d o x :
  run_op d o = Ok x ->
  name x = name d /\ sublist (bins x) (bins d) /\
  (is_squeeze o = false -> bins x = bins d) /\
  (may_reshape o = false -> shape x = shape d).
Proof.
  destruct o as [b r|b r| |m|]; intros E.
  - destruct (binop_keeps _ _ _ _ E) as (Hb & Hn & Hs). rewrite Hb.
    repeat split; auto using sublist_refl.
    intros Hr. apply Hs. destruct r; cbn in *; auto; discriminate.
  - destruct (binop_keeps _ _ _ _ E) as (Hb & Hn & Hs). rewrite Hb.
    repeat split; auto using sublist_refl.
    intros Hr. apply Hs. destruct r; cbn in *; auto; discriminate.
  - cbn in E; inversion E; subst. repeat split; auto using sublist_refl.
  - destruct (mask_keeps _ _ _ E) as (Hs & _ & _ & Hb & Hn & _). rewrite Hb.
    repeat split; auto using sublist_refl.
  - cbn in E; inversion E; subst; cbn.
    repeat split; [apply drop_unit_sublist | discriminate | discriminate].
Qed.

Theorem chain_keeps ops : forall d x,
  run_chain d ops = Ok x ->
  name x = name d /\ sublist (bins x) (bins d) /\
  (forallb (fun o => negb (is_squeeze o)) ops = true -> bins x = bins d) /\
  (forallb (fun o => negb (may_reshape o)) ops = true -> shape x = shape d).
Proof.
  induction ops as [|o ops IH]; intros d x; cbn.
  - intros E; inversion E; subst. repeat split; auto using sublist_refl.
  - destruct (run_op d o) as [d'|c] eqn:E1; [|discriminate]. intros E.
    destruct (run_op_keeps _ _ _ E1) as (Hn1 & Hs1 & Hb1 & Hk1).
    destruct (IH _ _ E) as (Hn & Hs & Hb & Hk).
    split; [congruence|]. split; [eapply sublist_trans; eauto|].
    split; rewrite andb_true_iff, negb_true_iff; intros [Ho Hr].
    + rewrite (Hb Hr). now apply Hb1.
    + rewrite (Hk Hr). now apply Hk1.
Qed.

(* a chain never hands back one of its inputs modified: results are new
   records, and [run_chain] has no access to anything but its arguments.  What
   can be stated: running a chain twice from the same dataset gives the same
   result (no hidden state). This is trivial in Gallina and recorded only for
   the reader; the real claim is validated by snapshots in the driver. *)

(* C08: sign of the propagated errors, on Flocq binary64 itself. *)
From Coq Require Import List ZArith Bool Arith Reals Lra.
From Flocq Require Import Core IEEE754.BinarySingleNaN.
From VV Require Import Lib.Base Lib.B64 C08.Model.
Import ListNotations.

Local Notation nanb := BinarySingleNaN.is_nan.

Lemma nan_is_nan (x : b64) : nanb x = true -> x = B754_nan.
Proof. destruct x; simpl; congruence. Qed.

Lemma overflow_is_inf (r : b64) s :
  B2SF r = binary_overflow 53 1024 mode_NE s -> r = B754_infinity s.
Proof. destruct r; simpl; unfold binary_overflow; simpl; congruence. Qed.

(* ---- sign of a product, quotient, sum, square root ---- *)

Lemma Bsign_fmul x y :
  Bsign (fmul x y) = if nanb (fmul x y) then false else xorb (Bsign x) (Bsign y).
Proof.
  unfold fmul. generalize (Bmult_correct 53 1024 P53 P1024 mode_NE x y).
  destruct Rlt_bool.
  - intros (_ & _ & H). destruct (nanb _) eqn:E; [now rewrite (nan_is_nan _ E)| now apply H].
  - intros H. now rewrite (overflow_is_inf _ _ H).
Qed.

Lemma finite_B2R_nonzero s m e H : B2R (B754_finite s m e H : b64) <> 0%R.
Proof.
  simpl. intros E. apply eq_0_F2R in E. now destruct s.
Qed.

Lemma Bsign_fdiv x y :
  Bsign (fdiv x y) = if nanb (fdiv x y) then false else xorb (Bsign x) (Bsign y).
Proof.
  destruct y as [sy|sy| |sy my ey Hy];
    try (destruct x as [sx|sx| |sx mx ex Hx]; reflexivity).
  unfold fdiv.
  generalize (Bdiv_correct 53 1024 P53 P1024 mode_NE x _ (finite_B2R_nonzero sy my ey Hy)).
  destruct Rlt_bool.
  - intros (_ & _ & H). destruct (nanb _) eqn:E; [now rewrite (nan_is_nan _ E)| now apply H].
  - intros H. now rewrite (overflow_is_inf _ _ H).
Qed.

Lemma Bsign_false_B2R (x : b64) : Bsign x = false -> (0 <= B2R x)%R.
Proof.
  destruct x as [s|s| |s m e H]; simpl; intros E; try apply Rle_refl.
  subst s. now apply F2R_ge_0.
Qed.

Lemma Bsign_fadd_nonneg x y :
  Bsign x = false -> Bsign y = false -> Bsign (fadd x y) = false.
Proof.
  intros Hx Hy.
  destruct (is_finite x) eqn:Fx; [destruct (is_finite y) eqn:Fy|].
  - unfold fadd. generalize (Bplus_correct 53 1024 P53 P1024 mode_NE x y Fx Fy).
    destruct Rlt_bool.
    + intros (_ & _ & H). rewrite H.
      pose proof (Bsign_false_B2R x Hx). pose proof (Bsign_false_B2R y Hy).
      destruct (Rcompare_spec (B2R x + B2R y) 0); [lra| now rewrite Hx, Hy | reflexivity].
    + intros (H & _). rewrite (overflow_is_inf _ _ H). exact Hx.
  - destruct x as [sx|sx| |sx mx ex Hx0], y as [sy|sy| |sy my ey Hy0];
      simpl in *; try discriminate; try reflexivity; subst; reflexivity.
  - destruct x as [sx|sx| |sx mx ex Hx0], y as [sy|sy| |sy my ey Hy0];
      simpl in *; try discriminate; try reflexivity; subst; reflexivity.
Qed.

Lemma Bsign_fsqrt x : Bsign x = false -> Bsign (fsqrt x) = false.
Proof.
  intros Hx. unfold fsqrt.
  destruct (Bsqrt_correct 53 1024 P53 P1024 mode_NE x) as (_ & _ & H).
  destruct (nanb (Bsqrt mode_NE x)) eqn:E; [now rewrite (nan_is_nan _ E)|].
  now rewrite H.
Qed.

Lemma Bsign_fsq x : Bsign (fsq x) = false.
Proof.
  unfold fsq. rewrite Bsign_fmul. destruct (nanb _); [reflexivity|apply xorb_nilpotent].
Qed.

(* ---- "not negative": flt x 0 = false ---- *)

Lemma not_neg_char (x : b64) :
  not_neg x <-> match x with
                | B754_infinity true | B754_finite true _ _ _ => False
                | _ => True
                end.
Proof.
  unfold not_neg, flt, fcmp, Bcompare.
  destruct x as [s|s| |s m e H]; simpl; try destruct s; simpl; split; try easy.
Qed.

Lemma Bsign_false_not_neg (x : b64) : Bsign x = false -> not_neg x.
Proof. intros H. apply not_neg_char. destruct x as [s|s| |s m e H0]; simpl in *; subst; auto. Qed.

(* e * |c| and e / |c| are not negative when e is not *)
Lemma not_neg_mul_abs e c : not_neg e -> not_neg (fmul e (fabs c)).
Proof.
  intros He. apply not_neg_char in He.
  destruct e as [s|s| |s m ex H].
  - apply not_neg_char. destruct c as [sc|sc| |sc mc ec Hc]; exact I.
  - destruct s; [contradiction|]. apply Bsign_false_not_neg. rewrite Bsign_fmul.
    destruct (nanb _); [reflexivity|]. unfold fabs. now rewrite Bsign_Babs.
  - apply not_neg_char. exact I.
  - destruct s; [contradiction|]. apply Bsign_false_not_neg. rewrite Bsign_fmul.
    destruct (nanb _); [reflexivity|]. unfold fabs. now rewrite Bsign_Babs.
Qed.

Lemma not_neg_div_abs e c : not_neg e -> not_neg (fdiv e (fabs c)).
Proof.
  intros He. apply not_neg_char in He.
  destruct e as [s|s| |s m ex H].
  - apply not_neg_char. destruct c as [sc|sc| |sc mc ec Hc]; exact I.
  - destruct s; [contradiction|]. apply Bsign_false_not_neg. rewrite Bsign_fdiv.
    destruct (nanb _); [reflexivity|]. unfold fabs. now rewrite Bsign_Babs.
  - apply not_neg_char. exact I.
  - destruct s; [contradiction|]. apply Bsign_false_not_neg. rewrite Bsign_fdiv.
    destruct (nanb _); [reflexivity|]. unfold fabs. now rewrite Bsign_Babs.
Qed.

(* ---- the error cells of the model ---- *)

(* dataset (op) dataset: sqrt of a sum of two squares, whatever the inputs *)
Lemma cell_err_dd_sign o c1 c2 : Bsign (cell_err_dd o c1 c2) = false.
Proof.
  destruct o; unfold cell_err_dd; simpl;
    apply Bsign_fsqrt, Bsign_fadd_nonneg; apply Bsign_fsq.
Qed.

Lemma cell_err_dc_not_neg o e c : not_neg e -> not_neg (cell_err_dc o e c).
Proof.
  intros He. destruct o; unfold cell_err_dc; simpl; auto using not_neg_mul_abs, not_neg_div_abs.
Qed.

(* a constant factor: the error is scaled by the magnitude, bit for bit the
   same for c and -c, and (without overflow) it is the rounded e * |c| *)
Lemma cell_err_mul_const e c : cell_err_dc Mul e c = fmul e (fabs c).
Proof. reflexivity. Qed.

Lemma cell_err_div_const e c : cell_err_dc Div e c = fdiv e (fabs c).
Proof. reflexivity. Qed.

Lemma cell_err_const_sign_irrelevant o e c : cell_err_dc o e (fneg c) = cell_err_dc o e c.
Proof. destruct o; unfold cell_err_dc; simpl; unfold fabs, fneg; now rewrite ?Babs_Bopp. Qed.

Lemma cell_err_mul_const_R e c :
  Rlt_bool (Rabs (round radix2 (SpecFloat.fexp 53 1024) (round_mode mode_NE)
                        (B2R e * Rabs (B2R c)))) (bpow radix2 1024) = true ->
  B2R (cell_err_dc Mul e c)
  = round radix2 (SpecFloat.fexp 53 1024) (round_mode mode_NE) (B2R e * Rabs (B2R c)).
Proof.
  intros H. rewrite cell_err_mul_const. unfold fmul, fabs.
  generalize (Bmult_correct 53 1024 P53 P1024 mode_NE e (Babs c)).
  rewrite B2R_Babs, H. now intros (E & _).
Qed.

Lemma cell_err_div_const_R e c :
  B2R c <> 0%R ->
  Rlt_bool (Rabs (round radix2 (SpecFloat.fexp 53 1024) (round_mode mode_NE)
                        (B2R e / Rabs (B2R c)))) (bpow radix2 1024) = true ->
  B2R (cell_err_dc Div e c)
  = round radix2 (SpecFloat.fexp 53 1024) (round_mode mode_NE) (B2R e / Rabs (B2R c)).
Proof.
  intros Hc H. rewrite cell_err_div_const. unfold fdiv, fabs.
  assert (Hc' : B2R (Babs c) <> 0%R) by (rewrite B2R_Babs; now apply Rabs_no_R0).
  generalize (Bdiv_correct 53 1024 P53 P1024 mode_NE e (Babs c) Hc').
  rewrite B2R_Babs, H. now intros (E & _).
Qed.

(* C08: compact float literals for the generated cases files.  A 64-bit pattern
   is shipped as its sign bit and the low 63 bits in a primitive integer (one
   kernel node instead of a 64-constructor [positive]); only the generated
   files use this, no theorem does. *)
From Coq Require Import List ZArith Uint63.
From VV Require Import Lib.B64.
Import ListNotations.

Inductive fbits := Pf (n : int) | Nf (n : int).     (* sign bit clear / set *)

Definition fbits_Z (x : fbits) : Z :=
  match x with
  | Pf n => Uint63.to_Z n
  | Nf n => (9223372036854775808 + Uint63.to_Z n)%Z
  end.

Definition fq (l : list fbits) : list b64 := map (fun x => of_bits (fbits_Z x)) l.
Definition f1 (x : fbits) : b64 := of_bits (fbits_Z x).

(* C08: the hypotheses of the theorems are met by concrete, non-trivial data;
   witnesses that the unrepaired formulas violated the statement. *)
From Coq Require Import List ZArith Bool Arith String Reals Lra.
From Flocq Require Import IEEE754.BinarySingleNaN.
From VV Require Import Lib.Base Lib.B64 C08.Model C08.ProofsFloat C08.ProofsReal C08.Proofs.
Import ListNotations.
Local Open Scope string_scope.

(* 1.0 -2.0 3.0 0.5 / 0.1 0.2 0.3 0.05, 2x2, edges along "e", centres along "t" *)
Definition d0 : ds :=
  mk_ds [2; 2]%nat
        (fl [4607182418800017408; 13835058055282163712; 4613937818241073152; 4602678819172646912]%Z)
        (fl [4591870180066957722; 4596373779694328218; 4599075939470750515; 4587366580439587226]%Z)
        None
        [("e", fl [0; 4607182418800017408; 4611686018427387904]%Z);
         ("t", fl [4602678819172646912; 4609434218613702656]%Z)]
        "ds1" "spam".

(* a second dataset without bins, 1x4 shaped one for squeeze *)
Definition d1 : ds :=
  mk_ds [2; 2]%nat
        (fl [4626322717216342016; 4626604192193052672; 13850257704024539136; 4627167142146473984]%Z)
        (fl [4600877379321698714; 4600877379321698714; 4600877379321698714; 4600877379321698714]%Z)
        None [] "ds2" "egg".

Definition minus_two : b64 := of_bits 13835058055282163712.
Definition tenth : b64 := of_bits 4591870180066957722.

Example d0_wf : wf d0.
Proof.
  unfold wf. repeat split; try (vm_compute; reflexivity); [intros m E; discriminate|].
  right. split; [reflexivity|]. constructor; [right; vm_compute; reflexivity|].
  constructor; [left; vm_compute; reflexivity|constructor].
Qed.

Example d1_wf : wf d1.
Proof. unfold wf. repeat split; try (vm_compute; reflexivity); [intros m E; discriminate|now left]. Qed.

Example d0_errors_not_neg : Forall not_neg (error d0).
Proof. repeat constructor; vm_compute; reflexivity. Qed.

Definition chain0 : list op :=
  [OBin Mul (RNum minus_two); OCopy; OBin Div (RDs d1); OMask [false; true; false; false];
   OBin Sub (RArr [2; 2]%nat (value d1)); OSqueeze; OBin Add (RDs d1)].

Example chain0_ops_wf : Forall wf_op chain0.
Proof. repeat constructor; cbn; auto; apply d1_wf. Qed.

Example chain0_runs :
  match run_chain d0 chain0 with
  | Ok x => List.length (value x) = 4%nat /\ shape x = [2; 2]%nat
  | Raise _ => False
  end.
Proof. vm_compute. split; reflexivity. Qed.

(* incompatible operands do raise *)
Example chain_raises : run_chain d0 [OBin Add (RArr [3]%nat [])] = Raise 1%nat.
Proof. vm_compute. reflexivity. Qed.

(* an ndarray that would broadcast the value up: a (1,2) dataset with bins and a
   (3,2) array.  + keeps the (1,2) error: __init__ refuses; * broadcasts the
   error too but the bins no longer fit: refused as well; without bins * gives
   a well-formed (3,2) dataset.  Nothing ill-formed is ever returned. *)
Definition row : ds :=
  mk_ds [1; 2]%nat (fl [4607182418800017408; 13835058055282163712]%Z)
        (fl [4591870180066957722; 4596373779694328218]%Z) None
        [("e", fl [4602678819172646912]%Z); ("t", fl [0; 4607182418800017408; 4611686018427387904]%Z)]
        "row" "spam".
Definition row_nobins : ds :=
  mk_ds [1; 2]%nat (value row) (error row) None [] "row" "spam".
Definition arr32 : rhs :=
  RArr [3; 2]%nat (fl [4607182418800017408; 4611686018427387904; 4613937818241073152;
                       13835058055282163712; 4602678819172646912; 0]%Z).

Example broadcast_up_add_raises : binop Add row_nobins arr32 = Raise 1%nat.
Proof. vm_compute. reflexivity. Qed.
Example broadcast_up_mul_with_bins_raises : binop Mul row arr32 = Raise 1%nat.
Proof. vm_compute. reflexivity. Qed.
Example broadcast_up_mul_without_bins :
  match binop Mul row_nobins arr32 with
  | Ok x => shape x = [3; 2]%nat /\ List.length (value x) = 6%nat /\ List.length (error x) = 6%nat
  | Raise _ => False
  end.
Proof. vm_compute. repeat split; reflexivity. Qed.

(* the repaired constant factor on a concrete cell: 0.1 * |-2| = 0.2 > 0 *)
Example const_factor_example :
  to_bits (cell_err_dc Mul tenth minus_two) = 4596373779694328218%Z.
Proof. vm_compute. reflexivity. Qed.

(* the unrepaired formula (error * other) gave a negative error on that cell *)
Example old_const_factor_refuted : ~ not_neg (fmul tenth minus_two).
Proof. unfold not_neg. vm_compute. discriminate. Qed.

Example old_const_divisor_refuted : ~ not_neg (fdiv tenth minus_two).
Proof. unfold not_neg. vm_compute. discriminate. Qed.

(* the old copy() handed the bins arrays on; in terms of the model's
   provenance that is [Shared] for the bins, which is not what copy promises *)
Example old_copy_bins_refuted : mk_prov Fresh Fresh Shared <> prov_of OCopy.
Proof. discriminate. Qed.

(* over R: 3 and 4 give 5, and the relative form has inhabitants *)
Example errR_add_3_4 : errR_dd Add 1 3 2 4 = 5%R.
Proof.
  unfold errR_dd; simpl. replace (3 * 3 + 4 * 4)%R with (Rsqr 5) by (unfold Rsqr; ring).
  apply sqrt_Rsqr. lra.
Qed.

Example relative_form_applies :
  (errR_dd Mul 2 3 5 4 / Rabs (valR Mul 2 5))%R = sqrt (Rsqr (3 / 2) + Rsqr (4 / 5)).
Proof. apply errR_mul_div_relative; [now left | lra | lra]. Qed.

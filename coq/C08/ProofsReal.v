(* C08: over R, the error formulas of the model (the very expression trees the
   binary64 model evaluates) are the first-order propagation of uncorrelated
   errors. *)
From Coq Require Import Reals Lra.
From Flocq Require Import IEEE754.BinarySingleNaN.
From VV Require Import Lib.Base Lib.B64 C08.Model.
Local Open Scope R_scope.

Definition RA : arith R := mk_arith R Rplus Rminus Rmult Rdiv sqrt Rabs.

Definition valR (o : bop) (v1 v2 : R) : R := eval RA (val_expr o) (mkenv v1 0 v2 0).
Definition errR_dd (o : bop) (v1 e1 v2 e2 : R) : R := eval RA (err_dd o) (mkenv v1 e1 v2 e2).
Definition errR_dc (o : bop) (e1 c : R) : R := eval RA (err_dc o) (mkenv 0 e1 c 0).

(* partial derivatives of the value with respect to the left and right operand *)
Definition d1 (o : bop) (v1 v2 : R) : R :=
  match o with Add | Sub => 1 | Mul => v2 | Div => / v2 end.
Definition d2 (o : bop) (v1 v2 : R) : R :=
  match o with Add => 1 | Sub => -1 | Mul => v1 | Div => - v1 / (v2 * v2) end.

Lemma dlim_ext f g x l :
  (forall y, f y = g y) -> derivable_pt_lim f x l -> derivable_pt_lim g x l.
Proof.
  intros H D eps Heps. destruct (D eps Heps) as [delta Hd]. exists delta.
  intros h Hh1 Hh2. rewrite <- !H. now apply Hd.
Qed.

Lemma dlim_linear a b v : derivable_pt_lim (fun x => a * x + b) v a.
Proof.
  intros eps Heps. exists (mkposreal 1 Rlt_0_1). intros h Hh _.
  replace ((a * (v + h) + b - (a * v + b)) / h - a) with 0 by (field; exact Hh).
  rewrite Rabs_R0; exact Heps.
Qed.

Lemma valR_partial_left o v1 v2 :
  (o = Div -> v2 <> 0) ->
  derivable_pt_lim (fun x => valR o x v2) v1 (d1 o v1 v2).
Proof.
  intros Hv. unfold valR. destruct o; simpl.
  - apply dlim_ext with (fun x => 1 * x + v2); [intros; ring|apply dlim_linear].
  - apply dlim_ext with (fun x => 1 * x + - v2); [intros; ring|apply dlim_linear].
  - apply dlim_ext with (fun x => v2 * x + 0); [intros; ring|apply dlim_linear].
  - apply dlim_ext with (fun x => / v2 * x + 0); [intros; unfold Rdiv; ring|apply dlim_linear].
Qed.

Lemma valR_partial_right o v1 v2 :
  (o = Div -> v2 <> 0) ->
  derivable_pt_lim (fun y => valR o v1 y) v2 (d2 o v1 v2).
Proof.
  intros Hv. unfold valR. destruct o; simpl.
  - apply dlim_ext with (fun y => 1 * y + v1); [intros; ring|apply dlim_linear].
  - apply dlim_ext with (fun y => -1 * y + v1); [intros; ring|apply dlim_linear].
  - apply dlim_ext with (fun y => v1 * y + 0); [intros; ring|apply dlim_linear].
  - specialize (Hv eq_refl).
    replace (- v1 / (v2 * v2)) with ((0 * id v2 - 1 * fct_cte v1 v2) / Rsqr (id v2))
      by (unfold id, fct_cte, Rsqr; field; exact Hv).
    apply dlim_ext with (fct_cte v1 / id)%F; [reflexivity|].
    apply (derivable_pt_lim_div (fct_cte v1) id);
      [apply derivable_pt_lim_const|apply derivable_pt_lim_id|exact Hv].
Qed.

(* the model's formula = sqrt((df/dv1 * e1)^2 + (df/dv2 * e2)^2) *)
Lemma errR_dd_first_order o v1 e1 v2 e2 :
  (o = Div -> v2 <> 0) ->
  errR_dd o v1 e1 v2 e2 = sqrt (Rsqr (d1 o v1 v2 * e1) + Rsqr (d2 o v1 v2 * e2)).
Proof.
  intros Hv. unfold errR_dd, Rsqr. destruct o; simpl; f_equal; try ring.
  specialize (Hv eq_refl). field. exact Hv.
Qed.

(* sums and differences: quadratic sum of the absolute errors *)
Lemma errR_add_sub o v1 e1 v2 e2 :
  o = Add \/ o = Sub -> errR_dd o v1 e1 v2 e2 = sqrt (Rsqr e1 + Rsqr e2).
Proof. intros [-> | ->]; reflexivity. Qed.

(* products and quotients: quadratic sum of the relative errors *)
Lemma errR_mul_div_relative o v1 e1 v2 e2 :
  o = Mul \/ o = Div -> v1 <> 0 -> v2 <> 0 ->
  errR_dd o v1 e1 v2 e2 / Rabs (valR o v1 v2) = sqrt (Rsqr (e1 / v1) + Rsqr (e2 / v2)).
Proof.
  intros Ho H1 H2.
  assert (Hp : valR o v1 v2 <> 0).
  { destruct Ho as [-> | ->]; unfold valR; simpl.
    - now apply Rmult_integral_contrapositive_currified.
    - unfold Rdiv. apply Rmult_integral_contrapositive_currified; [exact H1|now apply Rinv_neq_0_compat]. }
  rewrite <- (sqrt_Rsqr_abs (valR o v1 v2)).
  unfold errR_dd.
  assert (Hpos : 0 < Rsqr (valR o v1 v2)) by now apply Rsqr_pos_lt.
  destruct Ho as [-> | ->]; simpl eval.
  - rewrite <- sqrt_div_alt by exact Hpos. f_equal. unfold valR, Rsqr; simpl. field. now split.
  - rewrite <- sqrt_div_alt by exact Hpos. f_equal. unfold valR, Rsqr; simpl. field. now split.
Qed.

(* a constant factor scales the error by its magnitude; a shift leaves it alone *)
Lemma errR_const o e1 c :
  errR_dc o e1 c = match o with Add | Sub => e1 | Mul => e1 * Rabs c | Div => e1 / Rabs c end.
Proof. destruct o; reflexivity. Qed.

(* and a constant is a dataset without error: the same formula *)
Lemma errR_dd_const o v1 e1 c :
  0 <= e1 -> (o = Div -> c <> 0) -> errR_dd o v1 e1 c 0 = errR_dc o e1 c.
Proof.
  intros He Hc. unfold errR_dd, errR_dc. destruct o; simpl.
  - rewrite Rmult_0_l, Rplus_0_r. now apply sqrt_square.
  - rewrite Rmult_0_l, Rplus_0_r. now apply sqrt_square.
  - replace (e1 * c * (e1 * c) + 0 * v1 * (0 * v1)) with (Rsqr (e1 * c)) by (unfold Rsqr; ring).
    rewrite sqrt_Rsqr_abs, Rabs_mult. f_equal. now apply Rabs_right, Rle_ge.
  - specialize (Hc eq_refl).
    replace (e1 / c * (e1 / c) + v1 * 0 / (c * c) * (v1 * 0 / (c * c))) with (Rsqr (e1 / c))
      by (unfold Rsqr; field; exact Hc).
    rewrite sqrt_Rsqr_abs. unfold Rdiv. rewrite Rabs_mult, Rabs_inv. f_equal.
    now apply Rabs_right, Rle_ge.
Qed.

(* the three statements together *)
Lemma errR_dd_propagation o v1 e1 v2 e2 :
  (o = Div -> v2 <> 0) ->
  derivable_pt_lim (fun x => valR o x v2) v1 (d1 o v1 v2) /\
  derivable_pt_lim (fun y => valR o v1 y) v2 (d2 o v1 v2) /\
  errR_dd o v1 e1 v2 e2 = sqrt (Rsqr (d1 o v1 v2 * e1) + Rsqr (d2 o v1 v2 * e2)).
Proof.
  intros H. repeat split;
    [now apply valR_partial_left | now apply valR_partial_right | now apply errR_dd_first_order].
Qed.

Lemma errR_const_both o e1 c :
  errR_dc o e1 c = match o with Add | Sub => e1 | Mul => e1 * Rabs c | Div => e1 / Rabs c end
  /\ forall v1, 0 <= e1 -> (o = Div -> c <> 0) -> errR_dd o v1 e1 c 0 = errR_dc o e1 c.
Proof. split; [apply errR_const | intros v1; apply errR_dd_const]. Qed.

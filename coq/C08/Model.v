(* C08: Dataset arithmetic (+ - * /), copy, mask, squeeze.
   Model of valjean/eponine/dataset.py: __add__, __sub__, __mul__, __truediv__,
   _check_datasets_consistency, copy, mask, squeeze (as repaired: a constant
   factor scales the error by its magnitude, copy() copies the bins arrays).

   Arrays are (shape, flat data in C order).  The per-cell formulas are
   expression trees ([expr]) with one evaluator parameterised by the arithmetic
   ([eval]): instantiated with Flocq binary64 here (what the correspondence
   runs) and with R in Proofs.v (what the propagation laws are stated on). *)
From Coq Require Import List ZArith Bool Arith String.
From Flocq Require Import IEEE754.BinarySingleNaN.
From VV Require Import Lib.Base Lib.B64.
Import ListNotations.
Local Open Scope string_scope.

(* ------------------------------------------------------------------ *)
(* per-cell formulas                                                    *)

Inductive var := V1 | E1 | V2 | E2.      (* left value/error, right value/error *)

Inductive expr :=
| X (v : var)
| EAdd (a b : expr) | ESub (a b : expr) | EMul (a b : expr) | EDiv (a b : expr)
| ESq (a : expr)                         (* a ** 2, numpy: a * a *)
| ESqrt (a : expr)
| EAbs (a : expr).

Record arith (T : Type) := mk_arith {
  a_add : T -> T -> T; a_sub : T -> T -> T; a_mul : T -> T -> T; a_div : T -> T -> T;
  a_sqrt : T -> T; a_abs : T -> T }.
Arguments a_add {T}. Arguments a_sub {T}. Arguments a_mul {T}. Arguments a_div {T}.
Arguments a_sqrt {T}. Arguments a_abs {T}.

Definition env (T : Type) := var -> T.

Fixpoint eval {T} (A : arith T) (e : expr) (rho : env T) : T :=
  match e with
  | X v => rho v
  | EAdd a b => a_add A (eval A a rho) (eval A b rho)
  | ESub a b => a_sub A (eval A a rho) (eval A b rho)
  | EMul a b => a_mul A (eval A a rho) (eval A b rho)
  | EDiv a b => a_div A (eval A a rho) (eval A b rho)
  | ESq a => let x := eval A a rho in a_mul A x x
  | ESqrt a => a_sqrt A (eval A a rho)
  | EAbs a => a_abs A (eval A a rho)
  end.

Inductive bop := Add | Sub | Mul | Div.

(* value of the result: the plain array operation *)
Definition val_expr (o : bop) : expr :=
  match o with
  | Add => EAdd (X V1) (X V2)
  | Sub => ESub (X V1) (X V2)
  | Mul => EMul (X V1) (X V2)
  | Div => EDiv (X V1) (X V2)
  end.

(* error, dataset (op) dataset *)
Definition err_dd (o : bop) : expr :=
  match o with
  | Add | Sub => ESqrt (EAdd (ESq (X E1)) (ESq (X E2)))
  | Mul => ESqrt (EAdd (ESq (EMul (X E1) (X V2))) (ESq (EMul (X E2) (X V1))))
  | Div => ESqrt (EAdd (ESq (EDiv (X E1) (X V2)))
                       (ESq (EDiv (EMul (X V1) (X E2)) (ESq (X V2)))))
  end.

(* error, dataset (op) number-or-array; V2 is the number / array cell *)
Definition err_dc (o : bop) : expr :=
  match o with
  | Add | Sub => X E1
  | Mul => EMul (X E1) (EAbs (X V2))
  | Div => EDiv (X E1) (EAbs (X V2))
  end.

Definition B64A : arith b64 := mk_arith b64 fadd fsub fmul fdiv fsqrt fabs.

Definition mkenv {T} (v1 e1 v2 e2 : T) : env T :=
  fun x => match x with V1 => v1 | E1 => e1 | V2 => v2 | E2 => e2 end.

(* ------------------------------------------------------------------ *)
(* datasets                                                             *)

Record ds := mk_ds {
  shape : list nat;
  value : list b64;                    (* C order, prod shape cells *)
  error : list b64;
  mask  : option (list bool);          (* None: plain ndarray; Some m: numpy.ma *)
  bins  : list (string * list b64);    (* [] or one named array per dimension *)
  name  : string;
  what  : string }.

Definition prod (l : list nat) : nat := fold_right Nat.mul 1%nat l.

Fixpoint zipw {X Y Z} (f : X -> Y -> Z) (l1 : list X) (l2 : list Y) : list Z :=
  match l1, l2 with
  | a :: r1, b :: r2 => f a b :: zipw f r1 r2
  | _, _ => []
  end.

(* right operand *)
Inductive rhs :=
| RNum (c : b64)                           (* int or float *)
| RArr (sh : list nat) (a : list b64)      (* ndarray of shape sh (numpy broadcasting is
                                              modelled: [bshape], [bcast]) *)
| RDs (d : ds).

(* ---- numpy broadcasting ---- *)

(* n chunks of size k *)
Fixpoint chunks {X} (k n : nat) (l : list X) : list (list X) :=
  match n with
  | O => []
  | S n' => firstn k l :: chunks k n' (skipn k l)
  end.

(* shapes aligned on the right: reversed lists, dimension by dimension *)
Fixpoint bshape_rev (r1 r2 : list nat) : option (list nat) :=
  match r1, r2 with
  | [], r | r, [] => Some r
  | a :: t1, b :: t2 =>
      match bshape_rev t1 t2 with
      | None => None
      | Some t => if Nat.eqb a b then Some (a :: t)
                  else if Nat.eqb a 1 then Some (b :: t)
                  else if Nat.eqb b 1 then Some (a :: t)
                  else None
      end
  end.

(* numpy.broadcast_shapes; None: "operands could not be broadcast together" *)
Definition bshape (s1 s2 : list nat) : option (list nat) :=
  option_map (@rev nat) (bshape_rev (rev s1) (rev s2)).

(* data of shape sh (same rank as tgt, every dimension equal or 1) seen with shape tgt *)
Fixpoint bc {X} (sh tgt : list nat) (data : list X) : list X :=
  match sh, tgt with
  | n :: sh', t :: tgt' =>
      if Nat.eqb n t then flat_map (bc sh' tgt') (chunks (prod sh') n data)
      else List.concat (repeat (bc sh' tgt' data) t)
  | _, _ => data
  end.

(* numpy.broadcast_to: missing leading dimensions count as 1 *)
Definition bcast {X} (sh tgt : list nat) (data : list X) : list X :=
  bc (repeat 1%nat (List.length tgt - List.length sh) ++ sh) tgt data.

(* ---- Dataset.__init__: value and error of the same shape; bins absent or
        one per dimension with n or n+1 entries.  numpy arrays carry their
        shape, the lists of the model do not: the list lengths are checked
        against the shapes as well (never false for the implementation) ---- *)
Fixpoint dims_okb {X} (sh : list nat) (bs : list (list X)) : bool :=
  match sh, bs with
  | [], [] => true
  | n :: sh', b :: bs' =>
      (Nat.eqb (List.length b) n || Nat.eqb (List.length b) (S n)) && dims_okb sh' bs'
  | _, _ => false
  end.

Definition ctor (vsh : list nat) (v : list b64) (esh : list nat) (e : list b64)
           (m : option (list bool)) (bn : list (string * list b64)) (nm wh : string) : res ds :=
  if list_eqb Nat.eqb vsh esh
     && Nat.eqb (List.length v) (prod vsh) && Nat.eqb (List.length e) (prod vsh)
     && match m with Some l => Nat.eqb (List.length l) (prod vsh) | None => true end
     && match bn with [] => true | _ => dims_okb vsh (map snd bn) end
  then Ok {| shape := vsh; value := v; error := e; mask := m; bins := bn; name := nm; what := wh |}
  else Raise 1%nat.

(* numpy.array_equal on 1-d float arrays: same length, all cells == *)
Definition arr_equal (a b : list b64) : bool :=
  Nat.eqb (List.length a) (List.length b) && forallb (fun p => feq (fst p) (snd p)) (combine a b).

(* _check_datasets_consistency (zip semantics: the shorter bins list decides) *)
Definition consistent (d o : ds) : bool :=
  list_eqb Nat.eqb (shape o) (shape d)
  && match bins o with
     | [] => true
     | _ => forallb (fun p => String.eqb (fst (fst p)) (fst (snd p))) (combine (bins d) (bins o))
            && forallb (fun p => arr_equal (snd (fst p)) (snd (snd p))) (combine (bins d) (bins o))
     end.

Definition or_mask (m1 m2 : option (list bool)) : option (list bool) :=
  match m1, m2 with
  | None, m | m, None => m
  | Some a, Some b => Some (zipw orb a b)
  end.

Definition op_sym (o : bop) : string :=
  match o with Add => "+" | Sub => "-" | Mul => "*" | Div => "/" end.

Definition new_what (o : bop) (w1 w2 : string) : string :=
  match o with
  | Add | Sub => if String.eqb w2 w1 then w1 else w1 ++ op_sym o ++ w2
  | Mul | Div => w1 ++ op_sym o ++ w2
  end.

Definition cell_val (o : bop) (v1 v2 : b64) : b64 :=
  eval B64A (val_expr o) (mkenv v1 fzero v2 fzero).
Definition cell_err_dc (o : bop) (e1 c : b64) : b64 :=
  eval B64A (err_dc o) (mkenv fzero e1 c fzero).
Definition cell_err_dd (o : bop) (c1 c2 : b64 * b64) : b64 :=
  eval B64A (err_dd o) (mkenv (fst c1) (snd c1) (fst c2) (snd c2)).

(* exception classes: 0 = TypeError, 1 = ValueError, 9 = any other *)
Definition binop (o : bop) (d : ds) (r : rhs) : res ds :=
  match r with
  | RNum c =>
      Ok {| shape := shape d;
            value := map (fun v => cell_val o v c) (value d);
            error := map (fun e => cell_err_dc o e c) (error d);
            mask := mask d; bins := bins d; name := name d; what := what d |}
  | RArr sh a =>
      if list_eqb Nat.eqb sh (shape d) then
      Ok {| shape := shape d;
            value := zipw (cell_val o) (value d) a;
            error := zipw (cell_err_dc o) (error d) a;
            mask := mask d; bins := bins d; name := name d; what := what d |}
      else
      match bshape (shape d) sh with
      | None => Raise 1%nat                  (* numpy cannot broadcast *)
      | Some bs =>
          (* the value takes the broadcast shape; + and - hand the error on as it
             is, * and / broadcast it too; __init__ then accepts or rejects *)
          let ab := bcast sh bs a in
          let v := zipw (cell_val o) (bcast (shape d) bs (value d)) ab in
          match o with
          | Add | Sub => ctor bs v (shape d) (error d) (mask d) (bins d) (name d) (what d)
          | Mul | Div =>
              ctor bs v bs (zipw (cell_err_dc o) (bcast (shape d) bs (error d)) ab)
                   (option_map (bcast (shape d) bs) (mask d)) (bins d) (name d) (what d)
          end
      end
  | RDs d2 =>
      if negb (consistent d d2) then Raise 1%nat
      else
      Ok {| shape := shape d;
            value := zipw (cell_val o) (value d) (value d2);
            error := zipw (cell_err_dd o) (combine (value d) (error d))
                                          (combine (value d2) (error d2));
            mask := or_mask (mask d) (mask d2);
            bins := bins d; name := name d; what := new_what o (what d) (what d2) |}
  end.

(* copy(): same content (freshness is in [prov_of]) *)
Definition copy (d : ds) : ds := d.

(* mask(m): numpy.ma.masked_array(value, m) keeps an existing mask (keep_mask) *)
Definition mask_ds (d : ds) (m : list bool) : ds :=
  {| shape := shape d; value := value d; error := error d;
     mask := or_mask (mask d) (Some m);
     bins := bins d; name := name d; what := what d |}.

Fixpoint drop_unit {X} (sh : list nat) (l : list X) : list X :=
  match sh, l with
  | n :: sh', x :: l' => if Nat.eqb n 1 then drop_unit sh' l' else x :: drop_unit sh' l'
  | _, _ => []
  end.

Definition squeeze (d : ds) : ds :=
  {| shape := filter (fun n => negb (Nat.eqb n 1)) (shape d);
     value := value d; error := error d; mask := mask d;
     bins := drop_unit (shape d) (bins d);
     name := name d; what := what d |}.

Inductive op :=
| OBin (o : bop) (r : rhs)
| OAug (o : bop) (r : rhs)      (* x op= y.  Dataset has no in-place operators: Python rebinds
                                   x to (x op y); the observable result is that of OBin *)
| OCopy
| OMask (m : list bool)
| OSqueeze.

Definition run_op (d : ds) (o : op) : res ds :=
  match o with
  | OBin b r | OAug b r => binop b d r
  | OCopy => Ok (copy d)
  | OMask m => if Nat.eqb (List.length m) (List.length (value d)) then Ok (mask_ds d m)
               else Raise 9%nat       (* numpy.ma.MaskError *)
  | OSqueeze => Ok (squeeze d)
  end.

(* a chain stops at the first exception *)
Fixpoint run_chain (d : ds) (ops : list op) : res ds :=
  match ops with
  | [] => Ok d
  | o :: rest => match run_op d o with
                 | Ok d' => run_chain d' rest
                 | Raise c => Raise c
                 end
  end.

(* ------------------------------------------------------------------ *)
(* provenance: may a component of the result alias operand data?        *)

Inductive src := Fresh | Shared.
Record prov := mk_prov { p_value : src; p_error : src; p_bins : src }.

Definition prov_bin (o : bop) (r : rhs) : prov :=
  match r, o with
  | RDs _, _ => mk_prov Fresh Fresh Shared
  | _, Add | _, Sub => mk_prov Fresh Shared Shared
  | _, _ => mk_prov Fresh Fresh Shared
  end.

Definition prov_of (o : op) : prov :=
  match o with
  | OCopy => mk_prov Fresh Fresh Fresh
  | OBin b r | OAug b r => prov_bin b r
  | OMask _ => mk_prov Shared Shared Shared
  | OSqueeze => mk_prov Shared Shared Shared
  end.

(* ------------------------------------------------------------------ *)
(* well-formedness                                                      *)

Definition bins_ok (sh : list nat) (bs : list (list b64)) : Prop :=
  bs = [] \/ (List.length bs = List.length sh /\
              Forall2 (fun n b => List.length b = n \/ List.length b = S n) sh bs).

Definition wf (d : ds) : Prop :=
  List.length (value d) = prod (shape d)
  /\ List.length (error d) = prod (shape d)
  /\ (forall m, mask d = Some m -> List.length m = prod (shape d))
  /\ bins_ok (shape d) (map snd (bins d)).

Definition wf_rhs (r : rhs) : Prop :=
  match r with
  | RNum _ => True
  | RArr sh a => List.length a = prod sh
  | RDs d => wf d
  end.

(* "not negative": NaN, zeros of either sign and positive numbers *)
Definition not_neg (x : b64) : Prop := flt x fzero = false.

(* ------------------------------------------------------------------ *)
(* what a cases file evaluates                                          *)

Definition is_fin (x : b64) : bool := match x with B754_zero _ | B754_finite _ _ _ _ => true | _ => false end.

(* errors are compared up to 2^-40 relative (hypot-style reformulations stay
   quiet), exactly when one side is not finite *)
Definition close_err (x y : b64) : bool :=
  same_bits x y
  || (is_fin x && is_fin y
      && fle (fabs (fsub x y))
             (fmul (of_bits 4427038433705197568)     (* 2^-40 *)
                   (if fle (fabs x) (fabs y) then fabs y else fabs x))).

Fixpoint cells_match (cmp : b64 -> b64 -> bool) (hide : list bool) (l1 l2 : list b64) : bool :=
  match l1, l2 with
  | [], [] => true
  | a :: r1, b :: r2 =>
      match hide with
      | h :: hr => (h || cmp a b) && cells_match cmp hr r1 r2
      | [] => cmp a b && cells_match cmp [] r1 r2
      end
  | _, _ => false
  end.

Fixpoint implb_list (l1 l2 : list bool) : bool :=
  match l1, l2 with
  | [], [] => true
  | a :: r1, b :: r2 => implb a b && implb_list r1 r2
  | _, _ => false
  end.

(* model mask included in the implementation's mask (numpy.ma adds the cells
   whose result is not finite); without a mask on the model side there must be
   none on the implementation side *)
Definition mask_match (mm im : option (list bool)) : bool :=
  match mm, im with
  | None, None => true
  | Some a, Some b => implb_list a b
  | _, _ => false
  end.

Definition bins_eqb (b1 b2 : list (string * list b64)) : bool :=
  list_eqb (fun p q => String.eqb (fst p) (fst q) && list_eqb same_bits (snd p) (snd q)) b1 b2.

(* m: model result, i: implementation result; cells hidden by the
   implementation's mask are not compared *)
(* propagated error: compared numerically when the model's value is finite;
   when it is not (division by a zero value, infinite or NaN inputs) only the
   sign claim of the property is compared *)
Definition err_ok (m i : b64) : bool :=
  if is_fin m then close_err m i else negb (flt i fzero).

(* values: the same number (numpy.ma arithmetic loses the sign of a zero) *)
Definition val_ok (m i : b64) : bool := same_bits m i || feq m i.

Definition ds_match (m i : ds) : bool :=
  let hide := match mask i with Some h => h | None => [] end in
  list_eqb Nat.eqb (shape m) (shape i)
  && mask_match (mask m) (mask i)
  && cells_match val_ok hide (value m) (value i)
  && cells_match err_ok hide (error m) (error i)
  && bins_eqb (bins m) (bins i)
  && String.eqb (name m) (name i)
  && String.eqb (what m) (what i).

(* literals of the generated cases files *)
Definition fl (l : list Z) : list b64 := map of_bits l.

(* printable form of a model result, for replays *)
Definition ds_show (d : ds) :=
  (shape d, map to_bits (value d), map to_bits (error d), mask d,
   map (fun p => (fst p, map to_bits (snd p))) (bins d), name d, what d).
Definition res_show (r : res ds) :=
  match r with Ok d => inl (ds_show d) | Raise c => inr c end.

Definition is_fresh (s : src) : bool := match s with Fresh => true | Shared => false end.

(* shares = (value, error, bins) of the result share memory with some array of
   an operand, as observed with numpy.shares_memory *)
Definition prov_match (p : prov) (shares : bool * bool * bool) : bool :=
  let '(sv, se, sb) := shares in
  implb (is_fresh (p_value p)) (negb sv)
  && implb (is_fresh (p_error p)) (negb se)
  && implb (is_fresh (p_bins p)) (negb sb).

Definition check_case (c : ds * op * res ds * (bool * bool * bool)) : bool :=
  let '(d, o, impl, shares) := c in
  match run_op d o, impl with
  | Ok m, Ok i => ds_match m i && prov_match (prov_of o) shares
  | Raise _, Raise _ => true      (* the property distinguishes no exception class *)
  | _, _ => false
  end.

(* CPython's slice.indices(n) for unit step, and list slicing. *)
From Coq Require Import List ZArith Bool Arith Lia.
From VV Require Import Lib.Base.
Import ListNotations.
Local Open Scope Z_scope.

(* PySlice_AdjustIndices for step = 1 *)
Definition adjust (x : option Z) (n : Z) (dflt : Z) : Z :=
  match x with
  | None => dflt
  | Some v => if v <? 0 then Z.max (v + n) 0 else Z.min v n
  end.

Definition slice_indices (start stop : option Z) (n : nat) : nat * nat :=
  let zn := Z.of_nat n in
  (Z.to_nat (adjust start zn 0), Z.to_nat (adjust stop zn zn)).

Definition py_slice {A} (l : list A) (start stop : option Z) : list A :=
  let '(s, e) := slice_indices start stop (length l) in sel l s e.

Lemma slice_indices_bounds start stop n s e :
  slice_indices start stop n = (s, e) -> (s <= n /\ e <= n)%nat.
Proof.
  unfold slice_indices, adjust. intros H; inversion H; subst; clear H.
  split.
  - destruct start as [v|]; [destruct (v <? 0) eqn:E|]; lia.
  - destruct stop as [v|]; [destruct (v <? 0) eqn:E|]; lia.
Qed.

Lemma py_slice_length {A} (l : list A) start stop s e :
  slice_indices start stop (length l) = (s, e) ->
  length (py_slice l start stop) = (e - s)%nat.
Proof.
  intros H. unfold py_slice. rewrite H. rewrite sel_length.
  apply slice_indices_bounds in H. lia.
Qed.

(* IEEE-754 binary64 as Flocq's computable BinarySingleNaN.binary_float 53 1024.
   The harness ships floats as their 64-bit patterns (Z); all NaNs are one NaN. *)
From Coq Require Import ZArith Bool List.
From Flocq Require IEEE754.Binary IEEE754.Bits.
From Flocq Require Import Core.Zaux IEEE754.BinarySingleNaN.
Import ListNotations.

Definition b64 := binary_float 53 1024.

Definition P53 : FLX.Prec_gt_0 53 := eq_refl.
Definition P1024 : Prec_lt_emax 53 1024 := eq_refl.

Definition of_bits (z : Z) : b64 := Binary.B2BSN 53 1024 (Bits.b64_of_bits z).

Definition canon_nan_bits : Z := 9221120237041090560.   (* 0x7ff8000000000000 *)

Definition to_bits (x : b64) : Z :=
  match x with
  | B754_nan => canon_nan_bits
  | B754_zero s => if s then 9223372036854775808%Z else 0%Z
  | B754_infinity s => if s then 18442240474082181120%Z else 9218868437227405312%Z
  | B754_finite s m e _ =>
      let sb := (if s then 9223372036854775808 else 0)%Z in
      if (Zpos m <? 4503599627370496)%Z        (* 2^52: subnormal *)
      then (sb + Zpos m)%Z
      else (sb + (e + 1075) * 4503599627370496 + (Zpos m - 4503599627370496))%Z
  end.

Definition fadd : b64 -> b64 -> b64 := @Bplus 53 1024 P53 P1024 mode_NE.
Definition fsub : b64 -> b64 -> b64 := @Bminus 53 1024 P53 P1024 mode_NE.
Definition fmul : b64 -> b64 -> b64 := @Bmult 53 1024 P53 P1024 mode_NE.
Definition fdiv : b64 -> b64 -> b64 := @Bdiv 53 1024 P53 P1024 mode_NE.
Definition fsqrt : b64 -> b64 := @Bsqrt 53 1024 P53 P1024 mode_NE.
Definition fabs : b64 -> b64 := @Babs 53 1024.
Definition fneg : b64 -> b64 := @Bopp 53 1024.
Definition fsq (x : b64) : b64 := fmul x x.

Definition fcmp : b64 -> b64 -> option comparison := @Bcompare 53 1024.
Definition flt (x y : b64) : bool := match fcmp x y with Some Lt => true | _ => false end.
Definition fle (x y : b64) : bool := match fcmp x y with Some Lt | Some Eq => true | _ => false end.
Definition fgt (x y : b64) : bool := flt y x.
Definition fge (x y : b64) : bool := fle y x.
Definition feq (x y : b64) : bool := match fcmp x y with Some Eq => true | _ => false end.
Definition fne (x y : b64) : bool := negb (feq x y).
Definition is_nan (x : b64) : bool := match x with B754_nan => true | _ => false end.
Definition is_zero (x : b64) : bool := match x with B754_zero _ => true | _ => false end.
Definition is_inf (x : b64) : bool := match x with B754_infinity _ => true | _ => false end.

Definition fzero : b64 := B754_zero false.
Definition fnan : b64 := B754_nan.

(* same value up to NaN canonicalisation: equality of canonical bit patterns *)
Definition same_bits (x y : b64) : bool := Z.eqb (to_bits x) (to_bits y).

(* relative closeness used for reductions (numpy pairwise sums): |x-y| <= 2^-40 * max(|x|,|y|),
   or both NaN, or identical *)
Definition close (x y : b64) : bool :=
  same_bits x y
  || fle (fabs (fsub x y))
         (fmul (of_bits 4427038433705197568)     (* 2^-40 *)
               (if fle (fabs x) (fabs y) then fabs y else fabs x)).

Definition fsum (l : list b64) : b64 := fold_left fadd l fzero.

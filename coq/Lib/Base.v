(* Shared helpers for the generated cases files and the models. *)
From Coq Require Import String Ascii.
From Coq Require Import List ZArith NArith Bool Arith Lia.
Import ListNotations.

(* strings given as byte codes (used by the harness for non-printable text) *)
Definition bs (l : list N) : string :=
  fold_right (fun c s => String (ascii_of_N c) s) EmptyString l.

(* indices of the [false] entries: the only thing a cases file prints *)
Fixpoint bad_from (k : nat) (l : list bool) : list nat :=
  match l with
  | [] => []
  | b :: r => if b then bad_from (S k) r else k :: bad_from (S k) r
  end.
Definition bad_indices (l : list bool) : list nat := bad_from 0 l.

Lemma bad_from_nil k l : bad_from k l = [] <-> forallb (fun b => b) l = true.
Proof.
  revert k; induction l as [|b r IH]; intros k; cbn; [tauto|].
  destruct b; cbn; [apply IH|]. split; discriminate.
Qed.

(* exceptions are values *)
Inductive res (A : Type) : Type := Ok (a : A) | Raise (cls : nat).
Arguments Ok {A} a.
Arguments Raise {A} cls.

Fixpoint list_eqb {A} (eqb : A -> A -> bool) (l1 l2 : list A) : bool :=
  match l1, l2 with
  | [], [] => true
  | a :: r1, b :: r2 => eqb a b && list_eqb eqb r1 r2
  | _, _ => false
  end.

Lemma list_eqb_spec {A} (eqb : A -> A -> bool)
      (H : forall a b, eqb a b = true <-> a = b) l1 l2 :
  list_eqb eqb l1 l2 = true <-> l1 = l2.
Proof.
  revert l2; induction l1 as [|a r IH]; intros [|b r2]; cbn; try (split; congruence).
  rewrite andb_true_iff, H, IH. split; [intros [-> ->]; reflexivity | intros E; inversion E; auto].
Qed.

Definition option_eqb {A} (eqb : A -> A -> bool) (o1 o2 : option A) : bool :=
  match o1, o2 with
  | None, None => true
  | Some a, Some b => eqb a b
  | _, _ => false
  end.

Definition sel {A} (l : list A) (s e : nat) : list A := firstn (e - s) (skipn s l).

Lemma sel_length {A} (l : list A) s e :
  length (sel l s e) = Nat.min (e - s) (length l - s).
Proof. unfold sel. rewrite firstn_length, skipn_length. reflexivity. Qed.

Lemma sel_nth {A} (l : list A) s e j d :
  j < e - s -> nth j (sel l s e) d = nth (s + j) l d.
Proof.
  unfold sel. revert s e j; induction l as [|a r IH]; intros s e j Hj.
  - rewrite skipn_nil, firstn_nil. destruct j; destruct (s + _); reflexivity.
  - destruct s.
    + cbn [skipn Nat.add]. revert j Hj. generalize (a :: r) as l.
      induction (e - 0) as [|k IHk]; intros l j Hj; [lia|].
      destruct l as [|x l]; [destruct j; reflexivity|].
      destruct j; cbn; [reflexivity|]. apply IHk. lia.
    + cbn [skipn]. replace (S s + j) with (S (s + j)) by lia. cbn [nth].
      replace (e - S s) with ((e - 1) - s) by lia. apply IH. lia.
Qed.

Lemma skipn_skipn {A} (l : list A) a b : skipn a (skipn b l) = skipn (b + a) l.
Proof.
  revert l; induction b as [|b IH]; intros l; cbn [Nat.add]; [reflexivity|].
  destruct l as [|x l]; [now rewrite !skipn_nil|]. cbn [skipn]. apply IH.
Qed.

Lemma In_firstn {A} (x : A) n l : In x (firstn n l) -> In x l.
Proof.
  revert l; induction n as [|n IH]; intros [|a l] H; cbn in *; try contradiction.
  destruct H as [H|H]; [left; exact H | right; apply IH, H].
Qed.

Lemma In_skipn {A} (x : A) n l : In x (skipn n l) -> In x l.
Proof.
  revert l; induction n as [|n IH]; intros [|a l] H; cbn in *; try contradiction; auto.
Qed.

Lemma In_sel {A} (x : A) l s e : In x (sel l s e) -> In x l.
Proof. unfold sel. intros H. eapply In_skipn, In_firstn, H. Qed.

Lemma Forall2_length {A B} (R : A -> B -> Prop) l1 l2 : Forall2 R l1 l2 -> length l1 = length l2.
Proof. induction 1; cbn; congruence. Qed.

(* C15: generated tasks correspond one-to-one to what was asked for.
   Model of (after the fix commits in /repo)
     valjean/cosette/use.py      Use.get_task and the class-level Use._CACHE
     valjean/cosette/run.py      RunTaskFactory.make and the per-factory cache
     valjean/cosette/task.py     close_dependency_graph
     valjean/cambronne/common.py check_unique_task_names, collect_tasks

   Tasks are numbered in creation order (index into the task table; Python
   object identity).  Functions, keys, keyword names, argument values are
   small naturals ("atoms"); task and function NAMES are strings because the
   generated task names are built from them.

   The process-wide Use._CACHE and the caches of all factories are one list of
   (request, task) entries: a Use entry is found by the whole request, a
   factory entry by (factory, task name) and then compared with the request. *)
From Coq Require Import String Ascii List Arith Bool Lia.
From VV Require Import Lib.Base.
Import ListNotations.

Definition tid := nat.
Definition atom := nat.

(* ---- canonical finite sets / dictionaries ---- *)
Fixpoint ins (x : nat) (l : list nat) : list nat :=
  match l with
  | [] => [x]
  | y :: r => if x <? y then x :: l else if x =? y then l else y :: ins x r
  end.
(* set(...) of task objects: strictly increasing list of task numbers *)
Definition canon (l : list nat) : list nat := fold_right ins [] l.

(* dict update d[k] = v on a key-sorted association list *)
Fixpoint kins {V} (x : nat * V) (l : list (nat * V)) : list (nat * V) :=
  match l with
  | [] => [x]
  | y :: r => if fst x <? fst y then x :: l
              else if fst x =? fst y then x :: r else y :: kins x r
  end.
(* a dict given by its items (distinct keys, any order) *)
Definition norm_kw {V} (l : list (nat * V)) : list (nat * V) := fold_right kins [] l.
(* d = base.copy(); d.update(upd) *)
Definition merge_kw {V} (base upd : list (nat * V)) : list (nat * V) :=
  fold_right kins (norm_kw base) upd.

(* sorted(names) *)
Fixpoint sins (x : string) (l : list string) : list string :=
  match l with
  | [] => [x]
  | y :: r => if String.leb x y then x :: l else y :: sins x r
  end.
Definition ssort (l : list string) : list string := fold_right sins [] l.

(* ---- requests ---- *)
Definition inj := (tid * option atom)%type.        (* (task, key); key None = whole section *)

(* a Use object at the time get_task is called *)
Record ureq := mk_ureq {
  u_fid : nat;                       (* identity of the innermost wrapped function *)
  u_args : list inj;                 (* inj_args, in storage order *)
  u_kwargs : list (atom * inj);      (* inj_kwargs items *)
  u_soft : bool;                     (* deps_type == 'soft' *)
  u_ser : bool                       (* serialize *)
}.

(* the arguments of RunTaskFactory.make *)
Record rreq := mk_rreq {
  r_name : option string;
  r_extra : list atom;
  r_kwargs : list (atom * atom);
  r_sub : list (atom * atom);        (* subprocess_args *)
  r_deps : list tid;
  r_soft : list tid
}.

(* what a factory compares a cached task with *)
Record rkey := mk_rkey {
  k_extra : list atom;
  k_kw : list (atom * atom);         (* factory kwargs updated with the call's *)
  k_sub : list (atom * atom);
  k_deps : list tid;                 (* set(deps) *)
  k_soft : list tid
}.

Record factory := mk_fac {
  f_name : string;
  f_deps : list tid;
  f_soft : list tid;
  f_kwargs : list (atom * atom);
  f_tmpl : list atom                 (* default_args = ['{k}' for k in f_tmpl] *)
}.

(* resolved request = what the created task does *)
Inductive rq :=
| RUse (r : ureq)                              (* kwargs normalised *)
| RRun (f : nat) (nm : string) (k : rkey).

Definition rq_eq_dec : forall a b : rq, {a = b} + {a <> b}.
Proof. repeat decide equality. Defined.

Record task := mk_task {
  t_name : string;
  t_hard : list tid;                 (* depends_on *)
  t_soft : list tid;                 (* soft_depends_on *)
  t_beh : option rq                  (* None: a task made by hand (not generated) *)
}.

Record state := mk_state {
  tasks : list task;
  cache : list (rq * tid)
}.

Section Model.
Variable fnames : list string.                         (* function id -> __name__ *)
Variable facs : list factory.
Variable hash : string -> list atom -> list (atom * atom) -> string.   (* det_hash *)

Definition fname (f : nat) : string := nth f fnames EmptyString.
Definition fac_dflt := mk_fac EmptyString [] [] [] [].
Definition fac (f : nat) : factory := nth f facs fac_dflt.

Definition name_of (tbl : list task) (t : tid) : string :=
  match nth_error tbl t with Some tk => t_name tk | None => EmptyString end.

Definition norm_u (r : ureq) : ureq :=
  mk_ureq (u_fid r) (u_args r) (norm_kw (u_kwargs r)) (u_soft r) (u_ser r).

(* set(value[0] for value in chain(inj_kwargs.values(), inj_args)) *)
Definition injected (r : ureq) : list tid :=
  canon (map (fun kv => fst (snd kv)) (u_kwargs r) ++ map fst (u_args r)).

Definition dot (a b : string) : string := String.append a (String.append "."%string b).

Definition use_name (tbl : list task) (r : ureq) : string :=
  if u_soft r then fname (u_fid r)
  else match injected r with
       | [] => fname (u_fid r)
       | deps => dot (String.concat ","%string (ssort (map (name_of tbl) deps))) (fname (u_fid r))
       end.

Definition resolve_run (f : nat) (r : rreq) : rq :=
  let kw := merge_kw (f_kwargs (fac f)) (r_kwargs r) in
  let base := match r_name r with Some n => n | None => hash (f_name (fac f)) (r_extra r) kw end in
  RRun f (dot base (f_name (fac f)))
       (mk_rkey (r_extra r) kw (norm_kw (r_sub r)) (canon (r_deps r)) (canon (r_soft r))).

(* the attributes of the task created for a resolved request *)
Definition hard_of (q : rq) : list tid :=
  match q with
  | RUse r => if u_soft r then [] else injected r
  | RRun f _ k => canon (f_deps (fac f) ++ k_deps k)
  end.
Definition soft_of (q : rq) : list tid :=
  match q with
  | RUse r => if u_soft r then injected r else []
  | RRun f _ k => canon (f_soft (fac f) ++ k_soft k)
  end.
Definition rq_name (tbl : list task) (q : rq) : string :=
  match q with RUse r => use_name tbl r | RRun _ nm _ => nm end.

Definition new_task (st : state) (q : rq) : state * res tid :=
  let t := length (tasks st) in
  (mk_state (tasks st ++ [mk_task (rq_name (tasks st) q) (hard_of q) (soft_of q) (Some q)])
            (cache st ++ [(q, t)]),
   Ok t).

(* the tasks a request mentions are existing objects *)
Definition rq_wf (n : nat) (q : rq) : bool := forallb (fun t => t <? n) (hard_of q ++ soft_of q).

(* Use.get_task; Raise 1 stands for "cannot be written in Python" *)
Definition use_get (st : state) (r0 : ureq) : state * res tid :=
  let q := RUse (norm_u r0) in
  if negb (rq_wf (length (tasks st)) q) then (st, Raise 1)
  else match find (fun e => if rq_eq_dec (fst e) q then true else false) (cache st) with
       | Some (_, t) => (st, Ok t)
       | None => new_task st q
       end.

Definition same_slot (f : nat) (nm : string) (q : rq) : bool :=
  match q with
  | RRun f' nm' _ => (f' =? f) && String.eqb nm' nm
  | RUse _ => false
  end.

(* RunTaskFactory.make; Raise 0 = ValueError (name reused for another request) *)
Definition make (st : state) (f : nat) (r : rreq) : state * res tid :=
  let q := resolve_run f r in
  if negb (rq_wf (length (tasks st)) q) then (st, Raise 1)
  else match q with
  | RRun _ nm _ =>
      match find (fun e => same_slot f nm (fst e)) (cache st) with
      | Some (q', t) => if rq_eq_dec q' q then (st, Ok t) else (st, Raise 0)
      | None => new_task st q
      end
  | RUse _ => (st, Raise 1)
  end.

Inductive op := OUse (r : ureq) | OMake (f : nat) (r : rreq).

Definition resolve (o : op) : rq :=
  match o with OUse r => RUse (norm_u r) | OMake f r => resolve_run f r end.

Definition step (st : state) (o : op) : state * res tid :=
  match o with OUse r => use_get st r | OMake f r => make st f r end.

Fixpoint run (st : state) (ops : list op) : state * list (res tid) :=
  match ops with
  | [] => (st, [])
  | o :: rest => let '(st1, x) := step st o in
                 let '(st2, xs) := run st1 rest in (st2, x :: xs)
  end.

(* ---- what the generated task does when executed ---- *)
(* PythonTask.do of a Use task: the function is called with the values found
   under (task name, key), positional ones in reverse storage order *)
Definition call_use (tbl : list task) (r : ureq)
  : nat * list (string * option atom) * list (atom * (string * option atom)) * bool :=
  (u_fid r,
   map (fun i => (name_of tbl (fst i), snd i)) (rev (u_args r)),
   map (fun kv => (fst kv, (name_of tbl (fst (snd kv)), snd (snd kv)))) (u_kwargs r),
   u_ser r).

Definition lookup_kw (k : atom) (l : list (atom * atom)) : option atom :=
  option_map snd (find (fun kv => fst kv =? k) l).

(* RunTask: formatted default arguments, extra arguments, subprocess arguments *)
Definition call_run (f : nat) (k : rkey) : list (option atom) * list atom * list (atom * atom) :=
  (map (fun a => lookup_kw a (k_kw k)) (f_tmpl (fac f)), k_extra k, k_sub k).

End Model.

(* ---- close_dependency_graph, check_unique_task_names, collect_tasks ---- *)
Definition succs (tbl : list task) (t : tid) : list tid :=
  match nth_error tbl t with Some tk => t_hard tk ++ t_soft tk | None => [] end.

Definition memb (x : nat) (l : list nat) : bool := existsb (Nat.eqb x) l.

(* one round of the while loop: the not yet seen dependencies of the queue *)
Definition fresh (tbl : list task) (all queue : list tid) : list tid :=
  nodup Nat.eq_dec (filter (fun x => negb (memb x all)) (flat_map (succs tbl) queue)).

Fixpoint close (fuel : nat) (tbl : list task) (all queue : list tid) : option (list tid) :=
  match queue with
  | [] => Some all
  | _ => match fuel with
         | O => None
         | S f => let new := fresh tbl all queue in close f tbl (all ++ new) new
         end
  end.

Definition close_deps (tbl : list task) (roots : list tid) : option (list tid) :=
  let q := nodup Nat.eq_dec roots in close (S (length tbl)) tbl q q.

Definition smemb (x : string) (l : list string) : bool := existsb (String.eqb x) l.

(* some name is met a second time *)
Fixpoint has_dup (seen : list string) (l : list string) : bool :=
  match l with
  | [] => false
  | x :: r => if smemb x seen then true else has_dup (x :: seen) r
  end.

Definition names_clash (tbl : list task) (l : list tid) : bool :=
  has_dup [] (map (fun t => match nth_error tbl t with Some tk => t_name tk | None => EmptyString end) l).

(* collect_tasks on the list returned by job(): Raise 0 = ValueError *)
Definition collect (tbl : list task) (roots : list tid) : res (list tid) :=
  match close_deps tbl roots with
  | None => Raise 9
  | Some l => if names_clash tbl l then Raise 0 else Ok (canon l)
  end.

(* ---- what a cases file evaluates ---- *)
Inductive call :=
| CUse (f : nat) (pos : list (string * option atom)) (kw : list (atom * (string * option atom))) (ser : bool)
| CRun (fmt : list (option atom)) (extra : list atom) (sub : list (atom * atom)).

Definition call_eq_dec : forall a b : call, {a = b} + {a <> b}.
Proof. repeat decide equality. Defined.

(* observation of a returned task: number, name, depends_on, soft_depends_on, call *)
Definition obs := (tid * string * list tid * list tid * call)%type.

Definition obs_eq_dec : forall a b : obs, {a = b} + {a <> b}.
Proof. repeat decide equality; apply call_eq_dec. Defined.

Definition htable := list (string * list atom * list (atom * atom) * string).

Definition hash_of (tb : htable) (s : string) (e : list atom) (kw : list (atom * atom)) : string :=
  match find (fun x => match x with (s', e', kw', _) =>
                String.eqb s' s && list_eqb Nat.eqb e' e
                && list_eqb (fun a b : atom * atom => (fst a =? fst b) && (snd a =? snd b)) kw' kw
              end) tb with
  | Some (_, _, _, h) => h
  | None => EmptyString
  end.

Definition observe (fnames : list string) (facs : list factory) (tbl : list task) (t : tid) : option obs :=
  match nth_error tbl t with
  | Some tk =>
      match t_beh tk with
      | Some (RUse r) => Some (t, t_name tk, t_hard tk, t_soft tk,
                               match call_use tbl r with (f, p, k, s) => CUse f p k s end)
      | Some (RRun f _ k) => Some (t, t_name tk, t_hard tk, t_soft tk,
                                   match call_run facs f k with (a, b, c) => CRun a b c end)
      | None => None
      end
  | None => None
  end.

Record case := mk_case {
  c_base : list task;
  c_fnames : list string;
  c_facs : list factory;
  c_hash : htable;
  c_steps : list (op * res obs);            (* operation, what the implementation returned *)
  c_collect : list (list tid * res (list tid))
}.

Fixpoint check_steps (fnames : list string) (facs : list factory) (tb : htable)
         (st : state) (steps : list (op * res obs)) : bool * state :=
  match steps with
  | [] => (true, st)
  | (o, want) :: rest =>
      let '(st1, got) := step fnames facs (hash_of tb) st o in
      let ok := match got, want with
                | Ok t, Ok w => match observe fnames facs (tasks st1) t with
                                | Some g => if obs_eq_dec g w then true else false
                                | None => false
                                end
                | Raise a, Raise b => a =? b
                | _, _ => false
                end in
      if ok then check_steps fnames facs tb st1 rest else (false, st1)
  end.

Definition res_list_eqb (a b : res (list tid)) : bool :=
  match a, b with
  | Ok x, Ok y => list_eqb Nat.eqb x y
  | Raise x, Raise y => x =? y
  | _, _ => false
  end.

Definition check_case (c : case) : bool :=
  let '(ok, st) := check_steps (c_fnames c) (c_facs c) (c_hash c)
                               (mk_state (c_base c) []) (c_steps c) in
  ok && forallb (fun qw => res_list_eqb (collect (tasks st) (fst qw)) (snd qw)) (c_collect c).

(* C15: close_dependency_graph returns exactly the tasks reachable through hard
   and soft dependencies, each once; check_unique_task_names rejects exactly
   the lists in which two entries have the same name. *)
From Coq Require Import String Ascii List Arith Bool Lia Relations.
From VV Require Import Lib.Base C15.Model.
Import ListNotations.

Lemma NoDup_app_intro {A} (l1 l2 : list A) :
  NoDup l1 -> NoDup l2 -> (forall x, In x l1 -> In x l2 -> False) -> NoDup (l1 ++ l2).
Proof.
  induction l1 as [|a l1 IH]; intros H1 H2 Hd; cbn; [exact H2|].
  inversion H1; subst. constructor.
  - intros Hin. apply in_app_or in Hin. destruct Hin as [Hin|Hin]; [contradiction|].
    apply (Hd a); [left; reflexivity|exact Hin].
  - apply IH; [assumption|assumption|]. intros x Hx. apply Hd. right. exact Hx.
Qed.

Section Closure.
Variable tbl : list task.

Definition edge (a b : tid) : Prop := In b (succs tbl a).
Definition reach (roots : list tid) (x : tid) : Prop :=
  exists r, In r roots /\ clos_refl_trans tid edge r x.

(* every dependency is a task of the table *)
Definition graph_wf : Prop := forall a b, edge a b -> b < length tbl.

Lemma memb_In x l : memb x l = true <-> In x l.
Proof.
  unfold memb. rewrite existsb_exists. split.
  - intros (y & Hy & He). apply Nat.eqb_eq in He. now subst.
  - intros H. exists x. split; [exact H|apply Nat.eqb_refl].
Qed.

Lemma fresh_In all queue x :
  In x (fresh tbl all queue) <-> (~ In x all /\ exists q, In q queue /\ edge q x).
Proof.
  unfold fresh. rewrite nodup_In, filter_In, in_flat_map. split.
  - intros ((q & Hq & Hx) & Hm). split.
    + intros Hin. apply memb_In in Hin. rewrite Hin in Hm. discriminate.
    + exists q. split; assumption.
  - intros (Hn & q & Hq & Hx). split; [exists q; split; assumption|].
    destruct (memb x all) eqn:Hm; [|reflexivity]. apply memb_In in Hm. contradiction.
Qed.

Lemma fresh_NoDup all queue : NoDup (fresh tbl all queue).
Proof. apply NoDup_nodup. Qed.

Record cinv (roots all queue : list tid) : Prop := mk_cinv {
  ci_nodup : NoDup all;
  ci_queue : incl queue all;
  ci_bound : forall x, In x all -> x < length tbl;
  ci_closed : forall x y, In x all -> ~ In x queue -> edge x y -> In y all;
  ci_sound : forall x, In x all -> reach roots x;
  ci_roots : incl roots all
}.

Lemma cinv_step roots all queue :
  graph_wf -> cinv roots all queue ->
  cinv roots (all ++ fresh tbl all queue) (fresh tbl all queue).
Proof.
  intros Hwf [Hnd Hq Hb Hc Hs Hr]. constructor.
  - apply NoDup_app_intro; [exact Hnd|apply fresh_NoDup|].
    intros x Hx Hf. apply fresh_In in Hf. tauto.
  - apply incl_appr, incl_refl.
  - intros x Hx. apply in_app_or in Hx. destruct Hx as [Hx|Hx]; [auto|].
    apply fresh_In in Hx. destruct Hx as (_ & q & _ & He). eapply Hwf, He.
  - intros x y Hx Hnq He. apply in_app_or in Hx. destruct Hx as [Hx|Hx]; [|contradiction].
    destruct (in_dec Nat.eq_dec y all) as [Hy|Hy]; [apply in_or_app; left; exact Hy|].
    destruct (in_dec Nat.eq_dec x queue) as [Hxq|Hxq].
    + apply in_or_app. right. apply fresh_In. split; [exact Hy|]. exists x. split; assumption.
    + exfalso. apply Hy. eapply Hc; eassumption.
  - intros x Hx. apply in_app_or in Hx. destruct Hx as [Hx|Hx]; [auto|].
    apply fresh_In in Hx. destruct Hx as (_ & q & Hq' & He).
    destruct (Hs q (Hq q Hq')) as (r & Hr' & Hrt). exists r. split; [exact Hr'|].
    eapply rt_trans; [exact Hrt|apply rt_step, He].
  - apply incl_appl, Hr.
Qed.

Lemma NoDup_bounded_length (l : list nat) n :
  NoDup l -> (forall x, In x l -> x < n) -> length l <= n.
Proof.
  intros Hnd Hb. rewrite <- (seq_length n 0). apply NoDup_incl_length; [exact Hnd|].
  intros x Hx. apply in_seq. specialize (Hb x Hx). lia.
Qed.

Lemma cinv_done roots all :
  cinv roots all [] -> NoDup all /\ (forall x, In x all <-> reach roots x).
Proof.
  intros Hci. split; [apply (ci_nodup _ _ _ Hci)|].
  intros x. split; [apply (ci_sound _ _ _ Hci)|].
  intros (r & Hr & Hrt). apply (ci_roots _ _ _ Hci) in Hr.
  apply clos_rt_rt1n in Hrt. induction Hrt as [|a b c Hab _ IHc]; [exact Hr|].
  apply IHc. eapply (ci_closed _ _ _ Hci); [exact Hr|intros []|exact Hab].
Qed.

Lemma close_spec fuel : forall roots all queue,
  graph_wf -> cinv roots all queue ->
  length tbl < fuel + length all ->
  exists l, close fuel tbl all queue = Some l /\ NoDup l /\
            (forall x, In x l <-> reach roots x).
Proof.
  induction fuel as [|f IH]; intros roots all queue Hwf Hci Hfuel.
  - exfalso. pose proof (NoDup_bounded_length _ _ (ci_nodup _ _ _ Hci) (ci_bound _ _ _ Hci)).
    cbn in Hfuel. eapply Nat.lt_irrefl, Nat.lt_le_trans; eassumption.
  - destruct queue as [|q0 queue'] eqn:Hqe.
    + cbn. exists all. split; [reflexivity|]. apply cinv_done, Hci.
    + assert (Hne : queue <> []) by (rewrite Hqe; discriminate).
      rewrite <- Hqe in *. clear Hqe.
      assert (Hstep := cinv_step _ _ _ Hwf Hci).
      replace (close (S f) tbl all queue)
        with (close f tbl (all ++ fresh tbl all queue) (fresh tbl all queue))
        by (destruct queue; [congruence|reflexivity]).
      destruct (fresh tbl all queue) as [|n0 new'] eqn:Hfr.
      * (* nothing new: the next round stops whatever the fuel *)
        exists (all ++ []). split; [destruct f; reflexivity|]. apply cinv_done, Hstep.
      * apply IH; [exact Hwf|exact Hstep|]. rewrite app_length. cbn [length].
        unfold tid in *. lia.
Qed.

(* closure_complete_once; the fuel used by close_deps is S (number of tasks) *)
Theorem closure_complete_once roots :
  graph_wf -> (forall r, In r roots -> r < length tbl) ->
  exists l, close_deps tbl roots = Some l /\ NoDup l /\
            (forall x, In x l <-> reach roots x).
Proof.
  intros Hwf Hr. unfold close_deps.
  set (q := nodup Nat.eq_dec roots).
  destruct (close_spec (S (length tbl)) q q q Hwf) as (l & Hl & Hnd & Hx).
  - constructor.
    + apply NoDup_nodup.
    + apply incl_refl.
    + intros x Hin. apply nodup_In in Hin. auto.
    + intros x y Hin Hn. contradiction.
    + intros x Hin. exists x. split; [exact Hin|apply rt_refl].
    + apply incl_refl.
  - lia.
  - exists l. split; [exact Hl|]. split; [exact Hnd|].
    intros x. rewrite Hx. unfold reach. split; intros (r & Hin & Hrt); exists r; (split; [|exact Hrt]).
    + apply nodup_In in Hin. exact Hin.
    + apply nodup_In. exact Hin.
Qed.

End Closure.

(* ---- unique names ---- *)
Lemma smemb_In x l : smemb x l = true <-> In x l.
Proof.
  unfold smemb. rewrite existsb_exists. split.
  - intros (y & Hy & He). apply String.eqb_eq in He. now subst.
  - intros H. exists x. split; [exact H|apply String.eqb_refl].
Qed.

Lemma has_dup_spec l : forall seen,
  has_dup seen l = true <->
  (exists i x, nth_error l i = Some x /\ In x seen) \/
  (exists i j x, i < j /\ nth_error l i = Some x /\ nth_error l j = Some x).
Proof.
  induction l as [|a l IH]; intros seen; cbn [has_dup].
  - split; [discriminate|]. intros [(i & x & H & _)|(i & j & x & _ & H & _)]; destruct i; discriminate.
  - destruct (smemb a seen) eqn:Hm.
    + split; [intros _|reflexivity]. left. exists 0, a. split; [reflexivity|apply smemb_In, Hm].
    + rewrite IH. split.
      * intros [(i & x & Hn & Hin)|(i & j & x & Hlt & Hi & Hj)].
        -- destruct Hin as [<-|Hin].
           ++ right. exists 0, (S i), a. repeat split; [lia|exact Hn].
           ++ left. exists (S i), x. split; assumption.
        -- right. exists (S i), (S j), x. repeat split; [lia|assumption|assumption].
      * intros [(i & x & Hn & Hin)|(i & j & x & Hlt & Hi & Hj)].
        -- destruct i as [|i]; cbn in Hn.
           ++ inversion Hn; subst. apply smemb_In in Hin. congruence.
           ++ left. exists i, x. split; [exact Hn|right; exact Hin].
        -- destruct j as [|j]; [lia|]. cbn in Hj. destruct i as [|i]; cbn in Hi.
           ++ inversion Hi; subst. left. exists j, x. split; [exact Hj|left; reflexivity].
           ++ right. exists i, j, x. repeat split; [lia|assumption|assumption].
Qed.

Lemma nth_error_map_inv {A B} (f : A -> B) l i y :
  nth_error (map f l) i = Some y -> exists x, nth_error l i = Some x /\ f x = y.
Proof.
  revert i; induction l as [|a l IH]; intros [|i] H; cbn in H; try discriminate.
  - inversion H. exists a. split; reflexivity.
  - apply IH, H.
Qed.

Lemma nth_error_map_some {A B} (f : A -> B) l i x :
  nth_error l i = Some x -> nth_error (map f l) i = Some (f x).
Proof.
  revert i; induction l as [|a l IH]; intros [|i] H; cbn in *; try discriminate.
  - inversion H. reflexivity.
  - apply IH, H.
Qed.

Definition tname (tbl : list task) (t : tid) : string :=
  match nth_error tbl t with Some tk => t_name tk | None => EmptyString end.

(* unique_names_rejects: on a list of distinct tasks (what the closure
   returns) the check fails exactly when two different tasks have one name *)
Theorem unique_names_rejects tbl l :
  NoDup l ->
  (names_clash tbl l = true <->
   exists a b, In a l /\ In b l /\ a <> b /\ tname tbl a = tname tbl b).
Proof.
  intros Hnd. unfold names_clash. fold (tname tbl). rewrite has_dup_spec. split.
  - intros [(i & x & _ & [])|(i & j & x & Hlt & Hi & Hj)].
    apply nth_error_map_inv in Hi. apply nth_error_map_inv in Hj.
    destruct Hi as (a & Ha & <-). destruct Hj as (b & Hb & Hx).
    exists a, b. repeat split; try (eapply nth_error_In; eassumption); [|unfold tname; symmetry; exact Hx].
    intros ->. rewrite NoDup_nth_error in Hnd.
    unfold tid in *. assert (i = j); [|lia]. apply Hnd; [apply nth_error_Some; intros E; rewrite E in Ha; discriminate|rewrite Ha, Hb; reflexivity].
  - intros (a & b & Ha & Hb & Hne & Hn). right.
    apply In_nth_error in Ha. apply In_nth_error in Hb.
    destruct Ha as [i Hi]. destruct Hb as [j Hj].
    assert (i <> j) by (intros ->; congruence).
    destruct (lt_dec i j).
    + exists i, j, (tname tbl a). repeat split; [assumption| |].
      * apply nth_error_map_some, Hi.
      * rewrite Hn. apply nth_error_map_some, Hj.
    + exists j, i, (tname tbl a). repeat split; [lia| |].
      * rewrite Hn. apply nth_error_map_some, Hj.
      * apply nth_error_map_some, Hi.
Qed.

(* C15: the hypotheses of the theorems are met by concrete, non-trivial data,
   and the behaviour of the unfixed caches violated the statement. *)
From Coq Require Import String Ascii List Arith Bool Lia Relations.
From VV Require Import Lib.Base C15.Model C15.Proofs C15.ProofsClosure C15.ProofsHistory.
Import ListNotations.
Open Scope string_scope.

Definition base2 := [mk_task "a" [1] [] None; mk_task "b" [] [0] None].   (* a cycle a -> b ~> a *)
Definition fn := ["f"; "f"; "<lambda>"; "<lambda>"].
Definition fcs := [mk_fac "echo" [0] [] [(0, 0); (1, 1)] [0; 1]].
Definition hsh (s : string) (e : list atom) (k : list (atom * atom)) : string := "h".

Definition u (f : nat) (t : tid) (k : option atom) := mk_ureq f [(t, k)] [] false false.
Definition mk (n : option string) (e : list atom) (d : list tid) := mk_rreq n e [] [] d [].

(* two lambdas on a, the same request again, different keys, a map on top, two
   unnamed make calls that differ in deps only, a named clash *)
Definition hist :=
  [OUse (u 2 0 (Some 0)); OUse (u 3 0 (Some 0)); OUse (u 2 0 (Some 0)); OUse (u 2 0 (Some 1));
   OUse (u 0 2 (Some 0));
   OMake 0 (mk None [1] [0]); OMake 0 (mk None [1] [1]); OMake 0 (mk None [1] [0]);
   OMake 0 (mk (Some "t") [1] []); OMake 0 (mk (Some "t") [2] [])].

Example base2_hand_made : forall tk, In tk base2 -> t_beh tk = None.
Proof. intros tk [<-|[<-|[]]]; reflexivity. Qed.

Example base2_gwf : gwf base2.
Proof.
  intros t tk d Hn Hd. destruct t as [|[|t]]; cbn in Hn; try (destruct t; discriminate);
    inversion Hn; subst; cbn in Hd; destruct Hd as [<-|[]]; cbn; lia.
Qed.

Example hist_results :
  snd (run fn fcs hsh (mk_state base2 []) hist)
  = [Ok 2; Ok 3; Ok 2; Ok 4; Ok 5; Ok 6; Raise 0; Ok 6; Ok 7; Raise 0].
Proof. vm_compute. reflexivity. Qed.

(* same name, different tasks: a.<lambda> twice *)
Example hist_names :
  map t_name (tasks (fst (run fn fcs hsh (mk_state base2 []) hist)))
  = ["a"; "b"; "a.<lambda>"; "a.<lambda>"; "a.<lambda>"; "a.<lambda>.f"; "h.echo"; "t.echo"].
Proof. vm_compute. reflexivity. Qed.

(* collecting: the cycle terminates, each task once; a name clash is rejected *)
Example hist_collect :
  let tbl := tasks (fst (run fn fcs hsh (mk_state base2 []) hist)) in
  collect tbl [5; 5] = Ok [0; 1; 2; 5] /\ collect tbl [2; 3] = Raise 0 /\ collect tbl [0] = Ok [0; 1].
Proof. vm_compute. repeat split. Qed.

(* ---- the unfixed caches (keyed by the task name only) ---- *)
Definition use_get_old (fnames : list string) (facs : list factory) (st : state) (r0 : ureq)
  : state * res tid :=
  let q := RUse (norm_u r0) in
  let nm := rq_name fnames (tasks st) q in
  match find (fun e => String.eqb (rq_name fnames (tasks st) (fst e)) nm) (cache st) with
  | Some (_, t) => (st, Ok t)
  | None => new_task fnames facs st q
  end.

(* two lambdas on the same task silently shared the first task *)
Example use_cache_refuted :
  let '(st1, x1) := use_get_old fn fcs (mk_state base2 []) (u 2 0 (Some 0)) in
  let '(_, x2) := use_get_old fn fcs st1 (u 3 0 (Some 0)) in
  x1 = Ok 2 /\ x2 = Ok 2 /\ RUse (norm_u (u 2 0 (Some 0))) <> RUse (norm_u (u 3 0 (Some 0))).
Proof. vm_compute. repeat split. discriminate. Qed.

Definition make_old (hash : string -> list atom -> list (atom * atom) -> string)
  (fnames : list string) (facs : list factory) (st : state) (f : nat) (r : rreq) : state * res tid :=
  match resolve_run facs hash f r with
  | RRun _ nm _ as q =>
      match find (fun e => same_slot f nm (fst e)) (cache st) with
      | Some (_, t) => (st, Ok t)
      | None => new_task fnames facs st q
      end
  | _ => (st, Raise 1)
  end.

(* make ignored the dependencies: the second request got the first task *)
Example factory_cache_refuted :
  let '(st1, x1) := make_old hsh fn fcs (mk_state base2 []) 0 (mk None [1] [0]) in
  let '(_, x2) := make_old hsh fn fcs st1 0 (mk None [1] [1]) in
  x1 = Ok 2 /\ x2 = Ok 2 /\
  resolve_run fcs hsh 0 (mk None [1] [0]) <> resolve_run fcs hsh 0 (mk None [1] [1]).
Proof. vm_compute. repeat split. discriminate. Qed.

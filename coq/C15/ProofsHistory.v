(* C15: the task table built by any history is a well-formed graph, so that
   collecting (closure + unique names) is total and exact on it; errors of the
   factory are explicit name clashes only. *)
From Coq Require Import String Ascii List Arith Bool Lia Relations.
From VV Require Import Lib.Base C15.Model C15.Proofs C15.ProofsClosure.
Import ListNotations.

Section History.
Variable fnames : list string.
Variable facs : list factory.
Variable hash : string -> list atom -> list (atom * atom) -> string.

Notation step := (step fnames facs hash).
Notation run := (run fnames facs hash).
Notation resolve := (resolve facs hash).
Notation new_task := (new_task fnames facs).

Definition gwf (tbl : list task) : Prop :=
  forall t tk d, nth_error tbl t = Some tk -> In d (t_hard tk ++ t_soft tk) -> d < length tbl.

Lemma gwf_graph_wf tbl : gwf tbl -> graph_wf tbl.
Proof.
  intros H a b He. unfold edge, succs in He.
  destruct (nth_error tbl a) as [tk|] eqn:Hn; [|destruct He]. eapply H; eassumption.
Qed.

Lemma new_task_gwf st q :
  gwf (tasks st) -> rq_wf facs (length (tasks st)) q = true -> gwf (tasks (fst (new_task st q))).
Proof.
  intros Hg Hw. unfold Model.new_task. cbn [fst tasks]. intros t tk d Hn Hd.
  rewrite app_length. cbn [length].
  destruct (lt_dec t (length (tasks st))) as [Hlt|Hge].
  - rewrite nth_error_app1 in Hn by exact Hlt. specialize (Hg _ _ _ Hn Hd). lia.
  - assert (Ht : t < length (tasks st ++ [mk_task (rq_name fnames (tasks st) q) (hard_of facs q) (soft_of facs q) (Some q)]))
      by (apply nth_error_Some; congruence).
    rewrite app_length in Ht. cbn in Ht. assert (t = length (tasks st)) by lia. subst t.
    rewrite nth_error_app2 in Hn by lia. rewrite Nat.sub_diag in Hn. cbn in Hn.
    inversion Hn; subst tk. cbn in Hd. unfold rq_wf in Hw. rewrite forallb_forall in Hw.
    specialize (Hw _ Hd). apply Nat.ltb_lt in Hw. lia.
Qed.

Lemma step_gwf st o st' x : gwf (tasks st) -> step st o = (st', x) -> gwf (tasks st').
Proof.
  intros Hg Hs. destruct o as [r|f r]; cbn [Model.step] in Hs.
  - unfold use_get in Hs.
    destruct (rq_wf facs (length (tasks st)) (RUse (norm_u r))) eqn:Hw; cbn [negb] in Hs;
      [|inversion Hs; subst; exact Hg].
    destruct (find _ (cache st)) as [[q' t]|].
    + inversion Hs; subst. exact Hg.
    + pose proof (new_task_gwf st _ Hg Hw) as H.
      destruct (new_task st (RUse (norm_u r))) as [st2 x2]. inversion Hs; subst. exact H.
  - unfold make in Hs.
    destruct (rq_wf facs (length (tasks st)) (resolve_run facs hash f r)) eqn:Hw; cbn [negb] in Hs;
      [|inversion Hs; subst; exact Hg].
    destruct (resolve_run facs hash f r) as [|f' nm k] eqn:Hq; [inversion Hs; subst; exact Hg|].
    destruct (find _ (cache st)) as [[q' t]|].
    + destruct (rq_eq_dec q' (RRun f' nm k)); inversion Hs; subst; exact Hg.
    + pose proof (new_task_gwf st _ Hg Hw) as H.
      destruct (new_task st (RRun f' nm k)) as [st2 x2]. inversion Hs; subst. exact H.
Qed.

Lemma run_gwf ops : forall st stf res,
  gwf (tasks st) -> run st ops = (stf, res) -> gwf (tasks stf).
Proof.
  induction ops as [|o ops IH]; intros st stf res Hg Hr; cbn [Model.run] in Hr.
  - inversion Hr; subst. exact Hg.
  - destruct (step st o) as [st1 x] eqn:Hs. destruct (run st1 ops) as [st2 xs] eqn:Hr2.
    inversion Hr; subst. eapply IH; [|exact Hr2]. eapply step_gwf; eassumption.
Qed.

(* collecting after any history: total, each reachable task once *)
Theorem collect_after_history base ops stf res roots :
  gwf base -> run (mk_state base []) ops = (stf, res) ->
  (forall r, In r roots -> r < length (tasks stf)) ->
  exists l, close_deps (tasks stf) roots = Some l /\ NoDup l /\
            (forall x, In x l <-> reach (tasks stf) roots x) /\
            (collect (tasks stf) roots = Raise 0 <->
             exists a b, In a l /\ In b l /\ a <> b /\ tname (tasks stf) a = tname (tasks stf) b).
Proof.
  intros Hb Hr Hroots.
  assert (Hg : gwf (tasks stf)) by (eapply (run_gwf ops (mk_state base [])); [exact Hb|exact Hr]).
  destruct (closure_complete_once (tasks stf) roots (gwf_graph_wf _ Hg) Hroots) as (l & Hl & Hnd & Hx).
  exists l. repeat split; try assumption; try (apply Hx; assumption).
  - unfold collect. rewrite Hl. intros H. apply (unique_names_rejects _ _ Hnd).
    destruct (names_clash (tasks stf) l); [reflexivity|discriminate].
  - unfold collect. rewrite Hl. intros H. apply (unique_names_rejects _ _ Hnd) in H. rewrite H. reflexivity.
Qed.

(* ---- explicit errors ---- *)
Lemma step_cache st o st' x :
  step st o = (st', x) ->
  cache st' = cache st \/ exists t, x = Ok t /\ cache st' = cache st ++ [(resolve o, t)].
Proof.
  intros Hs. destruct o as [r|f r]; cbn [Model.step] in Hs.
  - unfold use_get in Hs. destruct (negb _); [inversion Hs; subst; left; reflexivity|].
    destruct (find _ (cache st)) as [[q' t]|]; [inversion Hs; subst; left; reflexivity|].
    unfold Model.new_task in Hs. inversion Hs; subst. right. eexists. split; reflexivity.
  - unfold make in Hs. destruct (negb _); [inversion Hs; subst; left; reflexivity|].
    cbn [Model.resolve].
    destruct (resolve_run facs hash f r) as [|f' nm k] eqn:Hq; [inversion Hs; subst; left; reflexivity|].
    destruct (find _ (cache st)) as [[q' t]|].
    + destruct (rq_eq_dec q' (RRun f' nm k)); inversion Hs; subst; left; reflexivity.
    + unfold Model.new_task in Hs. inversion Hs; subst. right. eexists. split; reflexivity.
Qed.

Lemma run_errors ops : forall st stf res j oj,
  inv facs st -> run st ops = (stf, res) ->
  nth_error ops j = Some oj -> nth_error res j = Some (Raise 0) ->
  clash st (resolve oj) \/
  exists i oi ti, i < j /\ nth_error ops i = Some oi /\ nth_error res i = Some (Ok ti) /\
                  ckey (resolve oi) = ckey (resolve oj) /\ resolve oi <> resolve oj.
Proof.
  induction ops as [|o ops IH]; intros st stf res j oj Hinv Hr Hoj Hx; cbn [Model.run] in Hr.
  - destruct j; discriminate.
  - destruct (step st o) as [st1 x] eqn:Hs. destruct (run st1 ops) as [st2 xs] eqn:Hr2.
    inversion Hr; subst.
    destruct (step_inv fnames facs hash _ _ _ _ Hinv Hs) as (Hi1 & _ & _ & Ho).
    destruct j as [|j]; cbn in Hoj, Hx.
    + inversion Hoj; inversion Hx; subst. left. cbn in Ho. apply Ho.
    + destruct (IH _ _ _ _ _ Hi1 Hr2 Hoj Hx) as [(q' & t & Hin & Hk & Hne)|(i & oi & ti & Hlt & Hoi & Hxi & Hk & Hne)].
      * destruct (step_cache _ _ _ _ Hs) as [Hc|(t0 & -> & Hc)]; rewrite Hc in Hin.
        -- left. exists q', t. repeat split; assumption.
        -- apply in_app_or in Hin. destruct Hin as [Hin|[Hin|[]]].
           ++ left. exists q', t. repeat split; assumption.
           ++ inversion Hin; subst. right. exists 0, o, t. repeat split; try assumption; try reflexivity. lia.
      * right. exists (S i), oi, ti. repeat split; try assumption. lia.
Qed.

(* a ValueError of make is always a reuse of a (factory, task name) slot that
   an earlier, successful and different request occupies *)
Theorem explicit_error_only_on_clash base ops stf res j oj :
  (forall tk, In tk base -> t_beh tk = None) ->
  run (mk_state base []) ops = (stf, res) ->
  nth_error ops j = Some oj -> nth_error res j = Some (Raise 0) ->
  exists i oi ti, i < j /\ nth_error ops i = Some oi /\ nth_error res i = Some (Ok ti) /\
                  ckey (resolve oi) = ckey (resolve oj) /\ resolve oi <> resolve oj.
Proof.
  intros Hb Hr Hoj Hx.
  destruct (run_errors _ _ _ _ _ _ (inv_empty facs _ Hb) Hr Hoj Hx) as [(q' & t & [] & _)|H].
  exact H.
Qed.

(* Use.get_task never raises that error *)
Theorem use_never_rejected st r : snd (use_get fnames facs st r) <> Raise 0.
Proof.
  unfold use_get. destruct (negb _); [discriminate|].
  destruct (find _ (cache st)) as [[q' t]|]; discriminate.
Qed.

End History.

(* C15: proofs about the cache machine (Use.get_task / RunTaskFactory.make). *)
From Coq Require Import String Ascii List Arith Bool Lia.
From VV Require Import Lib.Base C15.Model.
Import ListNotations.

Section Cache.
Variable fnames : list string.
Variable facs : list factory.
Variable hash : string -> list atom -> list (atom * atom) -> string.

Notation step := (step fnames facs hash).
Notation run := (run fnames facs hash).
Notation resolve := (resolve facs hash).
Notation hard_of := (hard_of facs).
Notation soft_of := (soft_of facs).
Notation new_task := (new_task fnames facs).

(* what a cache lookup goes by: the whole request for Use, (factory, task
   name) for a factory *)
Definition ckey (q : rq) : ureq + (nat * string) :=
  match q with RUse r => inl r | RRun f nm _ => inr (f, nm) end.

(* task number t of the table was generated for the resolved request q *)
Definition made_for (st : state) (t : tid) (q : rq) : Prop :=
  exists tk, nth_error (tasks st) t = Some tk /\ t_beh tk = Some q /\
             t_hard tk = hard_of q /\ t_soft tk = soft_of q.

(* the invariant: the cache maps a slot to the request that created its task *)
Record inv (st : state) : Prop := mk_inv {
  inv_in : forall q t, In (q, t) (cache st) -> made_for st t q;
  inv_tab : forall t tk q, nth_error (tasks st) t = Some tk -> t_beh tk = Some q ->
                           In (q, t) (cache st);
  inv_fun : forall q q' t t', In (q, t) (cache st) -> In (q', t') (cache st) ->
                              ckey q = ckey q' -> q = q' /\ t = t'
}.

Definition clash (st : state) (q : rq) : Prop :=
  exists q' t, In (q', t) (cache st) /\ ckey q' = ckey q /\ q' <> q.

Lemma made_for_app st l c t q :
  made_for st t q -> made_for (mk_state (tasks st ++ l) c) t q.
Proof.
  intros (tk & H1 & H2). exists tk. split; [|exact H2]. cbn.
  rewrite nth_error_app1; [exact H1|]. apply nth_error_Some. congruence.
Qed.

Lemma new_task_inv st q :
  inv st -> (forall q' t, In (q', t) (cache st) -> ckey q' <> ckey q) ->
  inv (fst (new_task st q)) /\ In (q, length (tasks st)) (cache (fst (new_task st q))).
Proof.
  intros [Hin Htab Hfun] Hnew. unfold Model.new_task. cbn [fst]. split.
  - constructor; cbn [tasks cache].
    + intros q0 t H. apply in_app_or in H. destruct H as [H|[H|[]]].
      * apply made_for_app, Hin, H.
      * inversion H; subst. eexists. split.
        -- cbn. rewrite nth_error_app2 by lia. rewrite Nat.sub_diag. reflexivity.
        -- cbn. repeat split; reflexivity.
    + intros t tk q0 Hn Hb.
      assert (Hlt : t < length (tasks st ++ [mk_task (rq_name fnames (tasks st) q) (hard_of q) (soft_of q) (Some q)]))
        by (apply nth_error_Some; congruence).
      rewrite app_length in Hlt. cbn in Hlt.
      destruct (Nat.eq_dec t (length (tasks st))) as [->|Hne].
      * rewrite nth_error_app2 in Hn by lia. rewrite Nat.sub_diag in Hn. cbn in Hn.
        inversion Hn; subst. cbn in Hb. inversion Hb; subst. apply in_or_app. right. left. reflexivity.
      * rewrite nth_error_app1 in Hn by lia. apply in_or_app. left. eapply Htab; eassumption.
    + intros q1 q2 t1 t2 H1 H2 Hk.
      apply in_app_or in H1. apply in_app_or in H2.
      destruct H1 as [H1|[H1|[]]]; destruct H2 as [H2|[H2|[]]].
      * eapply Hfun; eassumption.
      * inversion H2; subst. exfalso. eapply Hnew; eassumption.
      * inversion H1; subst. exfalso. eapply Hnew; [eassumption|]. symmetry. exact Hk.
      * inversion H1; inversion H2; subst. split; reflexivity.
  - cbn. apply in_or_app. right. left. reflexivity.
Qed.

Lemma new_task_shape st q :
  tasks (fst (new_task st q)) = tasks st ++ [mk_task (rq_name fnames (tasks st) q) (hard_of q) (soft_of q) (Some q)]
  /\ cache (fst (new_task st q)) = cache st ++ [(q, length (tasks st))]
  /\ snd (new_task st q) = Ok (length (tasks st)).
Proof. unfold Model.new_task. cbn. repeat split. Qed.

(* outcome of one request *)
Definition outcome_ok (st st' : state) (o : op) (x : res tid) : Prop :=
  match x with
  | Ok t => In (resolve o, t) (cache st')
  | Raise 0 => clash st (resolve o) /\ st' = st
  | Raise _ => st' = st
  end.

Lemma resolve_run_shape f r : exists nm k, resolve_run facs hash f r = RRun f nm k.
Proof. unfold resolve_run. eexists. eexists. reflexivity. Qed.

Ltac same_state :=
  split; [assumption|split; [exists []; now rewrite app_nil_r|split; [apply incl_refl|]]].

Lemma step_inv st o st' x :
  inv st -> step st o = (st', x) ->
  inv st' /\ (exists l, tasks st' = tasks st ++ l) /\ incl (cache st) (cache st') /\
  outcome_ok st st' o x.
Proof.
  intros Hinv Hs. destruct o as [r|f r]; cbn [Model.step] in Hs.
  - unfold use_get in Hs.
    destruct (negb (rq_wf facs (length (tasks st)) (RUse (norm_u r)))) eqn:Hwf.
    { inversion Hs; subst. same_state. reflexivity. }
    set (q := RUse (norm_u r)) in *.
    destruct (find _ (cache st)) as [[q' t]|] eqn:Hf.
    + inversion Hs; subst. apply find_some in Hf. destruct Hf as [Hin Hp]. cbn in Hp.
      destruct (rq_eq_dec q' q) as [->|]; [|discriminate].
      same_state. exact Hin.
    + assert (Hnew : forall q' t, In (q', t) (cache st) -> ckey q' <> ckey q).
      { intros q' t Hin Hk. pose proof (find_none _ _ Hf _ Hin) as Hp. cbn in Hp.
        destruct (rq_eq_dec q' q) as [|Hne]; [discriminate|]. apply Hne.
        destruct q' as [r'|]; cbn in Hk; [|discriminate]. unfold q. congruence. }
      destruct (new_task_inv st q Hinv Hnew) as [Hi Hc].
      destruct (new_task_shape st q) as (Ht & Hca & Hr).
      destruct (new_task st q) as [st2 x2] eqn:Hn. cbn [fst snd] in *. inversion Hs; subst.
      split; [assumption|]. split; [eexists; exact Ht|].
      split; [rewrite Hca; apply incl_appl, incl_refl|]. exact Hc.
  - unfold make in Hs.
    destruct (negb (rq_wf facs (length (tasks st)) (resolve_run facs hash f r))) eqn:Hwf.
    { inversion Hs; subst. same_state. reflexivity. }
    destruct (resolve_run_shape f r) as (nm & k & Hq).
    unfold outcome_ok. cbn [Model.resolve]. rewrite Hq in *.
    destruct (find _ (cache st)) as [[q' t]|] eqn:Hf.
    + apply find_some in Hf. destruct Hf as [Hin Hp]. cbn in Hp.
      assert (Hk : ckey q' = ckey (RRun f nm k)).
      { destruct q' as [|f' nm' k']; cbn in Hp; [discriminate|].
        apply andb_true_iff in Hp. destruct Hp as [H1 H2].
        apply Nat.eqb_eq in H1. apply String.eqb_eq in H2. subst. reflexivity. }
      destruct (rq_eq_dec q' (RRun f nm k)) as [->|Hne]; inversion Hs; subst.
      * same_state. exact Hin.
      * same_state. split; [|reflexivity]. exists q', t. repeat split; assumption.
    + assert (Hnew : forall q' t, In (q', t) (cache st) -> ckey q' <> ckey (RRun f nm k)).
      { intros q' t Hin Hk. pose proof (find_none _ _ Hf _ Hin) as Hp. cbn in Hp.
        destruct q' as [|f' nm' k']; cbn in Hk; [discriminate|]. inversion Hk; subst.
        cbn in Hp. rewrite Nat.eqb_refl, String.eqb_refl in Hp. discriminate. }
      destruct (new_task_inv st _ Hinv Hnew) as [Hi Hc].
      destruct (new_task_shape st (RRun f nm k)) as (Ht & Hca & Hr).
      destruct (new_task st (RRun f nm k)) as [st2 x2] eqn:Hn. cbn [fst snd] in *. inversion Hs; subst.
      split; [assumption|]. split; [eexists; exact Ht|].
      split; [rewrite Hca; apply incl_appl, incl_refl|]. exact Hc.
Qed.

Lemma inv_empty base : (forall tk, In tk base -> t_beh tk = None) -> inv (mk_state base []).
Proof.
  intros Hb. constructor; cbn.
  - intros ? ? [].
  - intros t tk q Hn Hq. apply nth_error_In in Hn. rewrite (Hb _ Hn) in Hq. discriminate.
  - intros ? ? ? ? [].
Qed.

(* the history *)
Lemma run_sound ops : forall st stf res,
  inv st -> run st ops = (stf, res) ->
  inv stf /\ (exists l, tasks stf = tasks st ++ l) /\ incl (cache st) (cache stf) /\
  length res = length ops /\
  forall i o t, nth_error ops i = Some o -> nth_error res i = Some (Ok t) ->
                In (resolve o, t) (cache stf).
Proof.
  induction ops as [|o ops IH]; intros st stf res Hinv Hr; cbn [Model.run] in Hr.
  - inversion Hr; subst. same_state. split; [reflexivity|].
    intros [|i] ? ? H; discriminate.
  - destruct (step st o) as [st1 x] eqn:Hs. destruct (run st1 ops) as [st2 xs] eqn:Hr2.
    inversion Hr; subst.
    destruct (step_inv _ _ _ _ Hinv Hs) as (Hi1 & [l1 Hl1] & Hc1 & Ho).
    destruct (IH _ _ _ Hi1 Hr2) as (Hi2 & [l2 Hl2] & Hc2 & Hlen & Hres).
    split; [assumption|].
    split; [exists (l1 ++ l2); rewrite Hl2, Hl1, app_assoc; reflexivity|].
    split; [eapply incl_tran; eassumption|].
    split; [cbn; congruence|].
    intros [|i] o' t Ho' Hx; cbn in Ho', Hx.
    + inversion Ho'; inversion Hx; subst. apply Hc2. exact Ho.
    + eapply Hres; eassumption.
Qed.

(* ---- the theorems ---- *)

(* every generated task is, at the end of the history (hence at any later
   time: the table only grows), the task of the request it was returned for *)
Theorem cache_sound_behaves base ops stf res i o t :
  (forall tk, In tk base -> t_beh tk = None) ->
  run (mk_state base []) ops = (stf, res) ->
  nth_error ops i = Some o -> nth_error res i = Some (Ok t) ->
  made_for stf t (resolve o).
Proof.
  intros Hb Hr Ho Hx.
  destruct (run_sound _ _ _ _ (inv_empty _ Hb) Hr) as (Hi & _ & _ & _ & Hres).
  apply (inv_in _ Hi). eapply Hres; eassumption.
Qed.

(* two requests are served by the same task exactly when they are the same
   (resolved) request *)
Theorem cache_sound_one_to_one base ops stf res i j oi oj ti tj :
  (forall tk, In tk base -> t_beh tk = None) ->
  run (mk_state base []) ops = (stf, res) ->
  nth_error ops i = Some oi -> nth_error res i = Some (Ok ti) ->
  nth_error ops j = Some oj -> nth_error res j = Some (Ok tj) ->
  (ti = tj <-> resolve oi = resolve oj).
Proof.
  intros Hb Hr Hoi Hxi Hoj Hxj.
  destruct (run_sound _ _ _ _ (inv_empty _ Hb) Hr) as (Hi & _ & _ & _ & Hres).
  pose proof (Hres _ _ _ Hoi Hxi) as Hci. pose proof (Hres _ _ _ Hoj Hxj) as Hcj.
  split.
  - intros ->. destruct (inv_in _ Hi _ _ Hci) as (tk1 & Hn1 & Hb1 & _).
    destruct (inv_in _ Hi _ _ Hcj) as (tk2 & Hn2 & Hb2 & _). congruence.
  - intros He. rewrite He in Hci. eapply (inv_fun _ Hi); [exact Hci|exact Hcj|reflexivity].
Qed.

(* a generated task is never one of the hand-made tasks *)
Theorem cache_sound_fresh base ops stf res i o t :
  (forall tk, In tk base -> t_beh tk = None) ->
  run (mk_state base []) ops = (stf, res) ->
  nth_error ops i = Some o -> nth_error res i = Some (Ok t) ->
  length base <= t.
Proof.
  intros Hb Hr Ho Hx.
  destruct (cache_sound_behaves _ _ _ _ _ _ _ Hb Hr Ho Hx) as (tk & Hn & Hq & _).
  destruct (run_sound _ _ _ _ (inv_empty _ Hb) Hr) as (_ & [l Hl] & _ & _ & _).
  cbn in Hl. rewrite Hl in Hn. destruct (le_lt_dec (length base) t) as [|Hlt]; [assumption|].
  rewrite nth_error_app1 in Hn by assumption. apply nth_error_In in Hn.
  rewrite (Hb _ Hn) in Hq. discriminate.
Qed.

End Cache.

(* C11: the Tripoli-4 listing scanner (valjean/eponine/tripoli4/scan.py:
   Scanner._get_collres, _check_input_data, _is_end_flag, _add_time,
   _set_counters_and_flags, BatchResultScanner, PhEmEpBalanceOutput,
   HomogMatOutput) as a line-fed state machine, and Parser (parse.py:
   __init__, _check_scan, parse_from_number/index, _parse_listing_worker,
   _time_consistency) on top of it, as they are after the fix commits
   (IndexError/ValueError of the scanner -> ScannerException; an end flag is
   only recognised on a newline-terminated line; missing scan time ->
   ParserException).

   Lines are stored in the blocks through a tag of arbitrary type L: the
   theorems use the line itself (L = str), the per-run correspondence check
   uses the index of the line content in a table (L = nat), which makes the
   comparison of 100 kB blocks cheap.

   Not modelled (not observable by C11 and without influence on the control
   flow): warning/error counters, normalend, required batches, number of
   tasks, packet length, random generator state, the *content* of the
   photon/electron balance and of the homogenised-material dump (the lines
   they divert from the result block are modelled). *)
From Coq Require Import List ZArith NArith Bool Arith Lia Ascii String.
From VV Require Import C11.Pystr.
Import ListNotations.
Local Open Scope Z_scope.

(* ---- keywords ---- *)
Definition kw_slashes := Eval compute in lit "//".
Definition kw_bangs := Eval compute in lit "!!!".
Definition kw_WARNING := Eval compute in lit "WARNING".
Definition kw_ERROR := Eval compute in lit "ERROR".
Definition kw_FATAL := Eval compute in lit "FATAL ERROR".
Definition kw_PARTIAL := Eval compute in lit "PARTIAL EDITION".
Definition kw_BATCH := Eval compute in lit "BATCH".
Definition kw_underscore := Eval compute in lit "_".
Definition kw_THIS := Eval compute in lit "THIS".
Definition kw_tasks := Eval compute in lit "number of tasks is".
Definition kw_BPS := Eval compute in lit "BATCH_PER_SIMULATOR".
Definition kw_PACKET := Eval compute in lit "PACKET_LENGTH".
Definition kw_init := Eval compute in lit "initialization time".
Definition kw_RESULTS := Eval compute in lit "RESULTS ARE GIVEN".
Definition kw_nbatch := Eval compute in lit " number of batch".
Definition kw_batchnum := Eval compute in lit " batch number :".
Definition kw_time := Eval compute in lit "time".
Definition kw_sim := Eval compute in lit "simulation time".
Definition kw_exp := Eval compute in lit "exploitation time".
Definition kw_ela := Eval compute in lit "elapsed time".
Definition kw_edition := Eval compute in lit "Edition after batch number".
Definition kw_hash64 := Eval compute in
  lit "################################################################".
Definition kw_dumphomog := Eval compute in lit "DUMP HOMOGENIZED MATERIAL".
Definition kw_nbused := Eval compute in lit "number of batches used".
Definition kw_Total := Eval compute in lit "Total".
Definition kw_dumptot := Eval compute in lit "dump total section :".
Definition kw_dumpabs := Eval compute in lit "dump absorption section :".
Definition kw_corr := Eval compute in
  lit "correlation between absorption and total cross section".

(* ---- exceptions as values ---- *)
Inductive pyexn := IndexError | ValueError | KeyError.
Inductive res (A : Type) := OkS (a : A) | ErrS (e : pyexn).
Arguments OkS {A} a.
Arguments ErrS {A} e.

Inductive err := ScannerExc | ParserExc | Other (e : pyexn).
Inductive outcome (A : Type) := Ok (a : A) | Err (e : err).
Arguments Ok {A} a.
Arguments Err {A} e.

Inductive eflag := FSim | FExp | FEla.
Inductive tval := TInt (z : Z) | NotATime.

Definition eflag_eqb (a b : eflag) : bool :=
  match a, b with FSim, FSim | FExp, FExp | FEla, FEla => true | _, _ => false end.
Definition tval_eqb (a b : tval) : bool :=
  match a, b with
  | TInt x, TInt y => Z.eqb x y
  | NotATime, NotATime => true
  | _, _ => false
  end.
Definition tkey := (eflag * Z)%type.
Definition tkey_eqb (a b : tkey) : bool := eflag_eqb (fst a) (fst b) && Z.eqb (snd a) (snd b).

(* int(line.split()[i]) *)
Definition int_of_tok (t : option str) : res Z :=
  match t with
  | None => ErrS IndexError
  | Some t => match py_int t with None => ErrS ValueError | Some z => OkS z end
  end.
Definition int_at (toks : list str) (i : nat) : res Z := int_of_tok (nth_error toks i).
Definition int_last (toks : list str) : res Z := int_of_tok (last_opt toks).

(* _is_end_flag with the default flags (Parser never passes a user flag) *)
Definition is_end_flag (l : str) : option eflag :=
  if negb (ends_nl l) then None
  else if negb (contains kw_time l) then None
  else if contains kw_sim l then Some FSim
  else if contains kw_exp l then Some FExp
  else if contains kw_ela l then Some FEla
  else None.

(* ---- insertion-ordered dictionaries (OrderedDict / dict) ---- *)
Section Od.
Context {K V : Type} (eqb : K -> K -> bool).
Fixpoint od_get (d : list (K * V)) (k : K) : option V :=
  match d with
  | [] => None
  | (k', v) :: r => if eqb k k' then Some v else od_get r k
  end.
(* d[k] = v : an existing key keeps its position *)
Fixpoint od_set (d : list (K * V)) (k : K) (v : V) : list (K * V) :=
  match d with
  | [] => [(k, v)]
  | (k', v') :: r => if eqb k k' then (k, v) :: r else (k', v') :: od_set r k v
  end.
End Od.

Section Scan.
Context {L : Type}.

(* HomogMatOutput: in_dump, counting, nb_groups, nb_corr_lines *)
Record hm := mk_hm { h_in : bool; h_counting : bool; h_groups : nat; h_corr : nat }.

(* BatchResultScanner *)
Record bscan := mk_bs {
  b_number : Z; b_current : Z; b_greater : Z;
  b_result : list L;           (* reversed *)
  b_para : bool;
  b_inph : bool; b_phcount : nat;     (* PhEmEpBalanceOutput.in_phemep, count *)
  b_hm : hm
}.

Definition new_bscan (current : Z) (para : bool) (tag : L) : bscan :=
  mk_bs (-1) current 0 [tag] para false 0 (mk_hm false false 0 0).

Definition homog_count (h : hm) (l : str) : res hm :=
  match (if h_counting h
         then if (0 <? h_corr h)%nat then OkS (h_groups h, S (h_corr h))
              else match l with
                   | [] => ErrS IndexError                      (* line[0] *)
                   | c :: _ => OkS (if is_digit c then S (h_groups h) else h_groups h, h_corr h)
                   end
         else OkS (h_groups h, h_corr h)) with
  | ErrS e => ErrS e
  | OkS (g, c) =>
      OkS (if contains kw_dumptot l then mk_hm (h_in h) true g c
           else if contains kw_dumpabs l then mk_hm (h_in h) false g c
           else if contains kw_corr l then mk_hm (h_in h) true g (S c)
           else if (g <? c)%nat then mk_hm false false g c
           else mk_hm (h_in h) (h_counting h) g c)
  end.

Definition set_number (b : bscan) (z : Z) : bscan :=
  mk_bs z (b_current b) (b_greater b) (b_result b) (b_para b) (b_inph b) (b_phcount b) (b_hm b).
Definition set_greater (b : bscan) (z : Z) : bscan :=
  mk_bs (b_number b) (b_current b) z (b_result b) (b_para b) (b_inph b) (b_phcount b) (b_hm b).
Definition set_ph (b : bscan) (i : bool) (n : nat) : bscan :=
  mk_bs (b_number b) (b_current b) (b_greater b) (b_result b) (b_para b) i n (b_hm b).
Definition set_hm (b : bscan) (h : hm) : bscan :=
  mk_bs (b_number b) (b_current b) (b_greater b) (b_result b) (b_para b) (b_inph b) (b_phcount b) h.
Definition push_line (b : bscan) (tag : L) : bscan :=
  mk_bs (b_number b) (b_current b) (b_greater b) (tag :: b_result b) (b_para b) (b_inph b)
        (b_phcount b) (b_hm b).

(* BatchResultScanner.build_result *)
Definition br_patterns (b : bscan) (toks : list str) (l : str) : res bscan :=
  if contains kw_edition l then
    match int_last toks with ErrS e => ErrS e | OkS z => OkS (set_number b z) end
  else if contains kw_hash64 l && negb (b_inph b) then OkS (set_ph b true (b_phcount b))
  else if contains kw_dumphomog l then
    OkS (set_hm b (mk_hm true (h_counting (b_hm b)) (h_groups (b_hm b)) (h_corr (b_hm b))))
  else OkS b.

Definition br_greater (b : bscan) (toks : list str) (l : str) : res bscan :=
  if b_para b && contains kw_nbused l then
    match int_at toks 4 with
    | ErrS e => ErrS e
    | OkS z => OkS (if b_greater b <? z then set_greater b z else b)
    end
  else OkS b.

Definition br_store (b : bscan) (tag : L) (l : str) : res bscan :=
  if b_inph b then
    OkS (if contains kw_Total l
         then let n := S (b_phcount b) in set_ph b (negb (Nat.eqb n 3)) n
         else b)
  else if h_in (b_hm b) then
    match homog_count (b_hm b) l with ErrS e => ErrS e | OkS h => OkS (set_hm b h) end
  else OkS (push_line b tag).

Definition build_result (b : bscan) (tag : L) (l : str) : res bscan :=
  let toks := split_ws l in
  match br_patterns b toks l with
  | ErrS e => ErrS e
  | OkS b1 =>
      match br_greater b1 toks l with
      | ErrS e => ErrS e
      | OkS b2 => br_store b2 tag l
      end
  end.

(* check_batch_number followed by batch_counts['number'] *)
Definition checked_number (b : bscan) : Z :=
  if b_para b then Z.max (b_number b) (b_greater b) else Z.max (b_number b) (b_current b).

(* ---- Scanner ---- *)
Definition block := list L.
Definition tev := (tkey * tval * bool)%type.     (* key, time, partial at that moment *)

Record st := mk_st {
  s_para : bool; s_partial : bool; s_fatal : bool;
  s_init : option Z;                  (* times['initialization_time'] *)
  s_cur : Z;                          (* current_batch *)
  s_bs : option bscan;                (* _batch_scan *)
  s_coll : list (Z * block);          (* _collres *)
  s_times : list (tkey * tval);       (* times[flag][batch], flattened *)
  (* history variables (not in the code): what was stored, oldest last *)
  s_stores : list (Z * block);
  s_tevs : list tev
}.

Definition init_st : st := mk_st false false false None 0 None [] [] [] [].

Definition set_bs (s : st) (b : option bscan) : st :=
  mk_st (s_para s) (s_partial s) (s_fatal s) (s_init s) (s_cur s) b (s_coll s) (s_times s)
        (s_stores s) (s_tevs s).
Definition set_cur (s : st) (z : Z) : st :=
  mk_st (s_para s) (s_partial s) (s_fatal s) (s_init s) z (s_bs s) (s_coll s) (s_times s)
        (s_stores s) (s_tevs s).
Definition set_para (s : st) : st :=
  mk_st true (s_partial s) (s_fatal s) (s_init s) (s_cur s) (s_bs s) (s_coll s) (s_times s)
        (s_stores s) (s_tevs s).
Definition set_init (s : st) (z : Z) : st :=
  mk_st (s_para s) (s_partial s) (s_fatal s) (Some z) (s_cur s) (s_bs s) (s_coll s) (s_times s)
        (s_stores s) (s_tevs s).
Definition set_pf (s : st) (partial fatal : bool) : st :=
  mk_st (s_para s) partial fatal (s_init s) (s_cur s) (s_bs s) (s_coll s) (s_times s)
        (s_stores s) (s_tevs s).

(* _set_counters_and_flags (flags only) *)
Definition set_flags (s : st) (l : str) : st :=
  if contains kw_WARNING l then s
  else if contains kw_ERROR l then
    (if contains kw_FATAL l then set_pf s (s_partial s) true else s)
  else if contains kw_PARTIAL l then set_pf s true (s_fatal s)
  else s.

(* one time event applied to the times dictionary: setdefault, then
   overwritten when different and the edition is partial *)
Definition apply_tev (times : list (tkey * tval)) (e : tev) : list (tkey * tval) :=
  let '(k, tv, ow) := e in
  match od_get tkey_eqb times k with
  | None => od_set tkey_eqb times k tv
  | Some old => if tval_eqb old tv then times
                else if ow then od_set tkey_eqb times k tv else times
  end.

Definition last_key (d : list (Z * block)) : option Z := option_map fst (last_opt d).

(* _add_time *)
Definition add_time (s : st) (f : eflag) (l : str) : res st :=
  let bn := match last_key (s_coll s) with Some k => k | None => 0 end in
  match last_opt (split_ws l) with
  | None => ErrS IndexError
  | Some t =>
      match (if all_digits t
             then match py_int t with Some z => OkS (TInt z) | None => ErrS ValueError end
             else OkS NotATime) with
      | ErrS e => ErrS e
      | OkS tv =>
          let e := ((f, bn), tv, s_partial s) in
          OkS (mk_st (s_para s) (s_partial s) (s_fatal s) (s_init s) (s_cur s) (s_bs s)
                     (s_coll s) (apply_tev (s_times s) e) (s_stores s) (e :: s_tevs s))
      end
  end.

(* self._collres[batch_number] = ...; _batch_scan = None *)
Definition store_block (s : st) (bn : Z) (blk : block) : st :=
  mk_st (s_para s) (s_partial s) (s_fatal s) (s_init s) (s_cur s) None
        (od_set Z.eqb (s_coll s) bn blk) (s_times s) ((bn, blk) :: s_stores s) (s_tevs s).

(* _check_input_data *)
Definition check_input (s : st) (l : str) : res st :=
  let toks := split_ws l in
  if contains kw_BATCH l && negb (contains kw_underscore l) && negb (contains kw_THIS l) then
    match index_of kw_BATCH toks with
    | None => ErrS ValueError
    | Some i =>
        if (1 <? List.length toks)%nat
        then match int_at toks (S i) with ErrS e => ErrS e | OkS _ => OkS s end
        else OkS s
    end
  else if contains kw_tasks l then
    match int_at toks 5 with ErrS e => ErrS e | OkS _ => OkS (set_para s) end
  else if contains kw_BPS l then
    match int_at toks 1 with ErrS e => ErrS e | OkS _ => OkS s end
  else if contains kw_PACKET l then
    match index_of kw_PACKET toks with
    | None => ErrS ValueError
    | Some i =>
        if s_para s
        then match int_at toks (S i) with ErrS e => ErrS e | OkS _ => OkS s end
        else OkS s
    end
  else if contains kw_init l then
    match int_at toks 3 with ErrS e => ErrS e | OkS z => OkS (set_init s z) end
  else OkS s.

(* body of the loop of _get_collres for one line *)
Definition step (s0 : st) (tag : L) (l : str) : res st :=
  if startswith kw_slashes (lstrip l) then OkS s0
  else if startswith kw_bangs (lstrip l) then OkS s0
  else
    let s := set_flags s0 l in
    match s_bs s with
    | Some b =>
        match build_result b tag l with
        | ErrS e => ErrS e
        | OkS b' =>
            match is_end_flag l with
            | Some f => add_time (store_block s (checked_number b') (rev (b_result b'))) f l
            | None => OkS (set_bs s (Some b'))
            end
        end
    | None =>
        if s_fatal s then OkS s
        else match s_init s with
        | None => check_input s l
        | Some _ =>
            if contains kw_RESULTS l
            then OkS (set_bs s (Some (new_bscan (s_cur s) (s_para s) tag)))
            else if (s_partial s && startswith kw_nbatch l) || startswith kw_batchnum l
            then match int_last (split_ws l) with
                 | ErrS e => ErrS e
                 | OkS z => OkS (set_cur s z)
                 end
            else match is_end_flag l with
                 | Some f =>
                     let chk := match last_key (s_coll s) with
                                | Some k => Z.eqb (s_cur s) k
                                | None => false
                                end in
                     if negb (s_para s) && negb chk then OkS s else add_time s f l
                 | None => OkS s
                 end
        end
    end.

Fixpoint run (s : st) (ls : list (L * str)) : res st :=
  match ls with
  | [] => OkS s
  | (t, l) :: r => match step s t l with OkS s' => run s' r | ErrS e => ErrS e end
  end.

(* end of _get_collres *)
Definition finish (s : st) : outcome st :=
  match s_coll s, s_bs s with
  | [], Some _ => Err ScannerExc
  | _, _ => Ok s
  end.

(* Scanner(fname) on the pinned tree: exceptions of the loop escape *)
Definition scan_raw (ls : list (L * str)) : outcome st :=
  match run init_st ls with ErrS e => Err (Other e) | OkS s => finish s end.

(* Scanner(fname) now: except (IndexError, ValueError) -> ScannerException *)
Definition convert (e : pyexn) : err :=
  match e with IndexError | ValueError => ScannerExc | KeyError => Other KeyError end.

Definition close_scan (r : res st) : outcome st :=
  match r with ErrS e => Err (convert e) | OkS s => finish s end.

Definition scan (ls : list (L * str)) : outcome st := close_scan (run init_st ls).

(* ---- Parser ---- *)
Section Parse.
Variable payload : Type.      (* what the grammar returns besides batch_data's time *)
Variable ptime : Type.        (* the time the grammar read (a float) *)
Variable time_ne : ptime -> tval -> bool.     (* bdata[time_key] != scan time *)

Inductive perr := PE_Parser | PE_Other (e : pyexn).
(* result of gram.parseString(block) as far as Parser looks at it:
   exception class; 'batch_data' present; first key containing 'time' (None:
   none, Some None: a key that is not one of the three end flags) *)
Inductive presult :=
| PRaise (e : perr)
| PRes (has_bd : bool) (tm : option (option eflag * ptime)) (p : payload).

Variable parse_block : block -> presult.

Inductive selector := Last | Number (b : Z).     (* parse_from_index(-1) / parse_from_number(b) *)

Record result := mk_result {
  r_payload : payload;
  r_batch : Z;
  r_times : list (eflag * tval)       (* batch_data times that are defined for the batch *)
}.

Definition batch_times (s : st) (bn : Z) : list (eflag * tval) :=
  flat_map (fun f => match od_get tkey_eqb (s_times s) (f, bn) with
                     | Some tv => [(f, tv)]
                     | None => []
                     end) [FSim; FExp; FEla].

Definition parse_scanned (s : st) (sel : selector) : outcome result :=
  match s_coll s with
  | [] => Err ParserExc                           (* _check_scan *)
  | _ =>
      let bn := match sel with
                | Number b => b
                | Last => match last_key (s_coll s) with Some k => k | None => 0 end
                end in
      match od_get Z.eqb (s_coll s) bn with
      | None => Err (Other KeyError)                (* documented: no such edition *)
      | Some blk =>
          match parse_block blk with
          | PRaise PE_Parser => Err ParserExc
          | PRaise (PE_Other e) => Err (Other e)
          | PRes false _ _ => Err ParserExc
          | PRes true None _ => Err ParserExc
          | PRes true (Some (None, _)) _ => Err ParserExc
          | PRes true (Some (Some f, v)) p =>
              match od_get tkey_eqb (s_times s) (f, bn) with
              | None => Err ParserExc
              | Some tv =>
                  if time_ne v tv && negb (s_partial s) then Err ParserExc
                  else Ok (mk_result p bn (batch_times s bn))
              end
          end
      end
  end.

Definition open_and_parse (ls : list (L * str)) (sel : selector) : outcome result :=
  match scan ls with
  | Err ScannerExc => Err ParserExc
  | Err e => Err e
  | Ok s => parse_scanned s sel
  end.
End Parse.
End Scan.

Arguments bscan : clear implicits.
Arguments st : clear implicits.
Arguments block : clear implicits.
Arguments tev : clear implicits.

(* a text as the list of its lines, each tagged with itself *)
Definition self_tagged (t : str) : list (str * str) := map (fun l => (l, l)) (split_lines t).
Definition scan_text (t : str) : outcome (st str) := scan (self_tagged t).
Definition scan_text_raw (t : str) : outcome (st str) := scan_raw (self_tagged t).

(* =====================================================================
   What a generated cases file evaluates (L = nat: index of the line
   content in the table [uniq]).
   ===================================================================== *)
Definition nl : ascii := ascii_of_N 10.

Fixpoint scanl (s : res (st N)) (ls : list (N * str)) : list (res (st N)) :=
  s :: match ls with
       | [] => []
       | (t, l) :: r => scanl (match s with OkS s0 => step s0 t l | ErrS e => ErrS e end) r
       end.

(* observation of the real Scanner for one prefix *)
Inductive obs :=
| OErr (cls : nat)                (* 0: ScannerException, 1: anything else *)
| OOk (coll : list (Z * nat))     (* batch -> id in the table of block contents *)
      (times : list (nat * Z * option Z))   (* flag (0 sim, 1 exp, 2 ela), batch, time (None: "Not a time") *)
      (init : option Z) (partial para : bool).

(* observation of gram.parseString on the block and of Parser on the prefix *)
Inductive gobs :=
| GRaise (cls : nat)              (* 0: ParseException / builder exceptions, 1: anything else *)
| GRes (has_bd : bool) (tm : option (option nat * bool)).   (* time key, differs from the scan time *)
Inductive pobs :=
| PErr (cls : nat)                (* 0: ParserException, 1: KeyError (no such edition), 2: anything else *)
| POk (bn : Z) (times : list (nat * option Z)).

Definition flag_of (n : nat) : eflag := match n with 0%nat => FSim | 1%nat => FExp | _ => FEla end.
Definition nat_of_flag (f : eflag) : nat := match f with FSim => 0 | FExp => 1 | FEla => 2 end.
Definition tval_of (o : option Z) : tval := match o with Some z => TInt z | None => NotATime end.

Definition check_times (m : list (tkey * tval)) (o : list (nat * Z * option Z)) : bool :=
  Nat.eqb (List.length m) (List.length o)
  && forallb (fun e => let '(f, b, t) := e in
                match od_get tkey_eqb m (flag_of f, b) with
                | Some tv => tval_eqb tv (tval_of t)
                | None => false
                end) o.

Definition list_eqb2 {A B} (eqb : A -> B -> bool) :=
  fix go (l1 : list A) (l2 : list B) : bool :=
    match l1, l2 with
    | [], [] => true
    | a :: r1, b :: r2 => eqb a b && go r1 r2
    | _, _ => false
    end.

Definition check_coll (blocks : list (list N)) (m : list (Z * list N)) (o : list (Z * nat)) : bool :=
  list_eqb2 (fun (a : Z * list N) (b : Z * nat) =>
              Z.eqb (fst a) (fst b)
              && match nth_error blocks (snd b) with
                 | Some blk => list_eqb N.eqb (snd a) blk
                 | None => false
                 end) m o.

Definition check_scan (blocks : list (list N)) (m : outcome (st N)) (o : obs) : bool :=
  match m, o with
  | Err ScannerExc, OErr 0 => true
  | Err (Other _), OErr 1 => true
  | Ok s, OOk coll times init partial para =>
      check_coll blocks (s_coll s) coll && check_times (s_times s) times
      && opt_eqb Z.eqb (s_init s) init
      && Bool.eqb (s_partial s) partial && Bool.eqb (s_para s) para
  | _, _ => false
  end.

Definition gobs_presult (g : gobs) : presult unit bool :=
  match g with
  | GRaise 0 => PRaise unit bool PE_Parser
  | GRaise _ => PRaise unit bool (PE_Other ValueError)
  | GRes bd tm => PRes unit bool bd (option_map (fun p => (option_map flag_of (fst p), snd p)) tm) tt
  end.

Definition check_parse (m : outcome (result unit)) (o : pobs) : bool :=
  match m, o with
  | Err ParserExc, PErr 0 => true
  | Err (Other KeyError), PErr 1 => true
  | Err (Other _), PErr 2 => true
  | Ok r, POk bn times =>
      Z.eqb (r_batch unit r) bn
      && list_eqb2 (fun (a : eflag * tval) (b : nat * option Z) =>
                     Nat.eqb (nat_of_flag (fst a)) (fst b) && tval_eqb (snd a) (tval_of (snd b)))
                  (r_times unit r) times
  | _, _ => false
  end.

(* one case: the prefix made of k complete lines and the first j bytes of line
   k (j = 0: cut at a line boundary); what the scanner did (index into the
   table of distinct observations); for a parser case also the selector, what
   the grammar did on the block and what Parser did *)
Definition case := (N * N * N)%type.
Definition pcase := (N * N * N * (option Z * gobs * pobs))%type.

Definition model_prefix (states : list (res (st N))) (lines : list (N * str)) (ptag : N)
           (k0 j0 : N) : res (st N) :=
  let k := N.to_nat k0 in
  let j := N.to_nat j0 in
  match nth_error states k with
  | None => ErrS KeyError                       (* malformed case *)
  | Some r =>
      match j with
      | O => r
      | _ => match r, nth_error lines k with
             | OkS s, Some (_, l) => step s ptag (firstn j l)
             | ErrS e, _ => ErrS e
             | _, None => ErrS KeyError
             end
      end
  end.

Definition check_case (blocks : list (list N)) (obss : list obs) states lines ptag (c : case) : bool :=
  let '(k, j, o) := c in
  match nth_error obss (N.to_nat o) with
  | None => false
  | Some o => check_scan blocks (close_scan (model_prefix states lines ptag k j)) o
  end.

Definition check_pcase (blocks : list (list N)) (obss : list obs) states lines ptag (c : pcase) : bool :=
  let '(k, j, o, (sel, g, p)) := c in
  let r := model_prefix states lines ptag k j in
  check_case blocks obss states lines ptag (k, j, o)
  && check_parse
       (match close_scan r with
        | Err ScannerExc => Err ParserExc
        | Err e => Err e
        | Ok s => parse_scanned unit bool (fun v _ => v) (fun _ => gobs_presult g) s
                                (match sel with Some b => Number b | None => Last end)
        end) p.

(* uniq: distinct line contents without their newline; cids: the listing as
   indices into uniq; last_nl: the listing ends with a newline *)
Definition tagged_lines (uniq : list bstr) (cids : list N) (last_nl : bool) : list (N * str) :=
  let table := map lit_b uniq in
  let n := List.length cids in
  let fix go (i : nat) (l : list N) : list (N * str) :=
      match l with
      | [] => []
      | c :: r =>
          let body := nth (N.to_nat c) table [] in
          (if Nat.eqb (S i) n && negb last_nl then (N.of_nat (S (List.length uniq)), body)
           else (c, body ++ [nl])) :: go (S i) r
      end in
  go O cids.

Definition check_listing (uniq : list bstr) (cids : list N) (last_nl : bool)
           (blocks : list (list N)) (obss : list obs) (cases : list case) (pcases : list pcase)
  : list bool :=
  let lines := tagged_lines uniq cids last_nl in
  let states := scanl (OkS init_st) lines in
  map (check_case blocks obss states lines (N.of_nat (List.length uniq))) cases
  ++ map (check_pcase blocks obss states lines (N.of_nat (List.length uniq))) pcases.

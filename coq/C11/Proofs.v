(* C11: proofs about the scanner / parser model. *)
From Coq Require Import List ZArith NArith Bool Arith Lia Ascii String.
From VV Require Import C11.Pystr C11.Model.
Import ListNotations.
Local Open Scope Z_scope.

(* ------------------------------------------------------------------ *)
(* lines of a text and of its prefixes *)

Lemma split_lines_nil t : split_lines t = [] -> t = [].
Proof.
  destruct t as [|c r]; [reflexivity|]. cbn.
  destruct (is_nl c); [discriminate|]. destruct (split_lines r); discriminate.
Qed.

(* the lines of a prefix P of P ++ S are complete lines of P ++ S followed by
   at most one non-empty line without newline *)
Lemma split_lines_prefix (P S : str) :
  exists ls tl rest,
    split_lines P = ls ++ tl /\ split_lines (P ++ S) = ls ++ rest /\
    (tl = [] \/ exists part, tl = [part] /\ no_nl part /\ part <> []).
Proof.
  induction P as [|c P IH].
  - exists [], [], (split_lines S). cbn. auto.
  - destruct IH as (ls & tl & rest & HP & HF & Htl).
    cbn [app split_lines]. destruct (is_nl c) eqn:Hc.
    + exists ([c] :: ls), tl, rest. rewrite HP, HF. cbn. auto.
    + rewrite HP, HF. destruct ls as [|l ls].
      * (* no complete line in P yet *)
        cbn [app]. destruct Htl as [-> | (part & -> & Hnn & Hne)].
        -- exists [], [[c]], (match rest with [] => [[c]] | l :: r => (c :: l) :: r end).
           cbn. repeat split; auto. right. exists [c]. repeat split; [|discriminate].
           intros x [<-|[]]. exact Hc.
        -- exists [], [c :: part], (match rest with [] => [[c]] | l :: r => (c :: l) :: r end).
           cbn. repeat split; auto. right. exists (c :: part). repeat split; [|discriminate].
           intros x [<-|Hx]; [exact Hc | apply Hnn, Hx].
      * exists ((c :: l) :: ls), tl, rest. cbn. auto.
Qed.

Lemma last_opt_app {A} (l : list A) (x : A) : last_opt (l ++ [x]) = Some x.
Proof. unfold last_opt. rewrite rev_app_distr. reflexivity. Qed.

Lemma last_opt_In {A} (l : list A) (x : A) : last_opt l = Some x -> In x l.
Proof.
  unfold last_opt. destruct (rev l) as [|y r] eqn:E; [discriminate|].
  intros H; inversion H; subst. apply in_rev. rewrite E. left; reflexivity.
Qed.

Lemma no_nl_not_ends (l : str) : no_nl l -> ends_nl l = false.
Proof.
  intros H. unfold ends_nl. destruct (last_opt l) as [c|] eqn:E; [|reflexivity].
  apply H, last_opt_In, E.
Qed.

Lemma no_nl_no_flag (l : str) : no_nl l -> is_end_flag l = None.
Proof. intros H. unfold is_end_flag. rewrite (no_nl_not_ends l H). reflexivity. Qed.

(* ------------------------------------------------------------------ *)
(* ordered dictionaries *)

Section OdLemmas.
Context {K V : Type} (eqb : K -> K -> bool).
Hypothesis eqb_spec : forall a b, eqb a b = true <-> a = b.

Lemma eqb_refl_ k : eqb k k = true.
Proof. apply eqb_spec. reflexivity. Qed.

Lemma eqb_neq a b : a <> b -> eqb a b = false.
Proof. intros H. destruct (eqb a b) eqn:E; [|reflexivity]. apply eqb_spec in E. contradiction. Qed.

Lemma od_get_set_same (d : list (K * V)) k v : od_get eqb (od_set eqb d k v) k = Some v.
Proof.
  induction d as [|[k' v'] r IH]; cbn.
  - rewrite eqb_refl_. reflexivity.
  - destruct (eqb k k') eqn:E; cbn.
    + rewrite eqb_refl_. reflexivity.
    + rewrite E. exact IH.
Qed.

Lemma od_get_set_other (d : list (K * V)) k k' v :
  k <> k' -> od_get eqb (od_set eqb d k' v) k = od_get eqb d k.
Proof.
  intros Hne. induction d as [|[k2 v2] r IH]; cbn.
  - rewrite (eqb_neq _ _ Hne). reflexivity.
  - destruct (eqb k' k2) eqn:E; cbn.
    + apply eqb_spec in E; subst k2. rewrite (eqb_neq _ _ Hne). reflexivity.
    + destruct (eqb k k2); [reflexivity | exact IH].
Qed.

Lemma od_set_not_nil (d : list (K * V)) k v : od_set eqb d k v <> [].
Proof. destruct d as [|[k' v'] r]; cbn; [discriminate|]. destruct (eqb k k'); discriminate. Qed.

Lemma od_get_In (d : list (K * V)) k v : In (k, v) d -> od_get eqb d k <> None.
Proof.
  induction d as [|[k' v'] r IH]; cbn; [tauto|].
  intros [H|H].
  - inversion H; subst. rewrite eqb_refl_. discriminate.
  - destruct (eqb k k'); [discriminate | apply IH, H].
Qed.
End OdLemmas.

Lemma tkey_eqb_spec (a b : tkey) : tkey_eqb a b = true <-> a = b.
Proof.
  destruct a as [f1 z1], b as [f2 z2]. unfold tkey_eqb. cbn.
  rewrite andb_true_iff, Z.eqb_eq. split.
  - intros [H1 ->]. destruct f1, f2; cbn in H1; congruence.
  - intros H; inversion H; subst. split; [destruct f2; reflexivity | reflexivity].
Qed.

Lemma apply_tev_other (d : list (tkey * tval)) (e : tev) (k : tkey) :
  fst (fst e) <> k -> od_get tkey_eqb (apply_tev d e) k = od_get tkey_eqb d k.
Proof.
  destruct e as [[k' tv] ow]. cbn [fst]. intros Hne. unfold apply_tev.
  destruct (od_get tkey_eqb d k') as [old|].
  - destruct (tval_eqb old tv); [reflexivity|]. destruct ow; [|reflexivity].
    apply od_get_set_other; [apply tkey_eqb_spec | congruence].
  - apply od_get_set_other; [apply tkey_eqb_spec | congruence].
Qed.

(* the dictionaries as functions of the history (newest event first) *)
Definition coll_of {L} (stores : list (Z * block L)) : list (Z * block L) :=
  fold_right (fun e d => od_set Z.eqb d (fst e) (snd e)) [] stores.
Definition times_of (tevs : list tev) : list (tkey * tval) :=
  fold_right (fun e d => apply_tev d e) [] tevs.

Lemma coll_of_app {L} (a old : list (Z * block L)) (k : Z) :
  (forall e, In e a -> fst e <> k) ->
  od_get Z.eqb (coll_of (a ++ old)) k = od_get Z.eqb (coll_of old) k.
Proof.
  induction a as [|e a IH]; cbn; intros H; [reflexivity|].
  rewrite od_get_set_other; [apply IH; intros; apply H; right; assumption | apply Z.eqb_eq |].
  intros ->. apply (H e); [left; reflexivity | reflexivity].
Qed.

Lemma times_of_app (a old : list tev) (k : tkey) :
  (forall e, In e a -> fst (fst e) <> k) ->
  od_get tkey_eqb (times_of (a ++ old)) k = od_get tkey_eqb (times_of old) k.
Proof.
  induction a as [|e a IH]; cbn; intros H; [reflexivity|].
  rewrite apply_tev_other; [apply IH; intros; apply H; right; assumption|].
  apply H. left; reflexivity.
Qed.

(* ------------------------------------------------------------------ *)
(* the scanner *)

Section ScanProofs.
Context {L : Type}.
Notation st := (st L).
Notation bscan := (bscan L).
Implicit Types s : st.

(* s' extends the history of s *)
Definition ext (s s' : st) : Prop :=
  (exists a, s_stores s' = a ++ s_stores s) /\
  (exists b, s_tevs s' = b ++ s_tevs s) /\
  (s_partial s = true -> s_partial s' = true).

Lemma ext_refl s : ext s s.
Proof. repeat split; try (exists []; reflexivity); auto. Qed.

Lemma ext_trans s1 s2 s3 : ext s1 s2 -> ext s2 s3 -> ext s1 s3.
Proof.
  intros ([a1 H1] & [b1 H2] & H3) ([a2 H4] & [b2 H5] & H6). repeat split.
  - exists (a2 ++ a1). rewrite H4, H1, app_assoc. reflexivity.
  - exists (b2 ++ b1). rewrite H5, H2, app_assoc. reflexivity.
  - auto.
Qed.

(* the dictionaries are those of the history *)
Definition inv (s : st) : Prop :=
  s_coll s = coll_of (s_stores s) /\ s_times s = times_of (s_tevs s).

(* same history and dictionaries *)
Definition same_hist (s s' : st) : Prop :=
  s_stores s' = s_stores s /\ s_tevs s' = s_tevs s /\ s_coll s' = s_coll s /\
  s_times s' = s_times s /\ (s_partial s = true -> s_partial s' = true).

Lemma same_hist_ext s s' : same_hist s s' -> ext s s'.
Proof.
  intros (H1 & H2 & _ & _ & H5). repeat split; auto; exists []; cbn; auto.
Qed.

Lemma same_hist_inv s s' : same_hist s s' -> inv s -> inv s'.
Proof. intros (H1 & H2 & H3 & H4 & _) [I1 I2]. split; congruence. Qed.

Lemma same_hist_refl s : same_hist s s.
Proof. repeat split; auto. Qed.

Lemma same_hist_trans s1 s2 s3 : same_hist s1 s2 -> same_hist s2 s3 -> same_hist s1 s3.
Proof.
  intros (A1 & A2 & A3 & A4 & A5) (B1 & B2 & B3 & B4 & B5).
  repeat split; try congruence. auto.
Qed.

Lemma set_flags_same s l : same_hist s (set_flags s l).
Proof.
  unfold set_flags.
  destruct (contains kw_WARNING l); [apply same_hist_refl|].
  destruct (contains kw_ERROR l).
  - destruct (contains kw_FATAL l); [|apply same_hist_refl]. repeat split; auto.
  - destruct (contains kw_PARTIAL l); [|apply same_hist_refl]. repeat split; auto.
Qed.

Lemma check_input_same s l s' : check_input s l = OkS s' -> same_hist s s'.
Proof.
  unfold check_input. intros H.
  repeat match type of H with
         | (if ?c then _ else _) = _ => destruct c
         | match ?x with _ => _ end = _ => destruct x
         end;
    try discriminate; inversion H; subst; repeat split; auto.
Qed.

Lemma add_time_ok s f l s' :
  add_time s f l = OkS s' ->
  exists e, s_stores s' = s_stores s /\ s_tevs s' = e :: s_tevs s /\
            s_coll s' = s_coll s /\ s_times s' = apply_tev (s_times s) e /\
            s_partial s' = s_partial s /\ s_bs s' = s_bs s.
Proof.
  unfold add_time. intros H.
  destruct (last_opt (split_ws l)) as [t|]; [|discriminate].
  match type of H with match ?x with _ => _ end = _ => destruct x as [tv|] end; [|discriminate].
  inversion H; subst; cbn. eexists. repeat split.
Qed.

Lemma add_time_ext s f l s' : add_time s f l = OkS s' -> ext s s'.
Proof.
  intros H. destruct (add_time_ok _ _ _ _ H) as (e & H1 & H2 & _ & _ & H5 & _).
  repeat split; [exists []; auto | exists [e]; auto | congruence].
Qed.

Lemma add_time_inv s f l s' : add_time s f l = OkS s' -> inv s -> inv s'.
Proof.
  intros H [I1 I2]. destruct (add_time_ok _ _ _ _ H) as (e & H1 & H2 & H3 & H4 & _ & _).
  split; [congruence|]. rewrite H4, H2, I2. reflexivity.
Qed.

Lemma store_block_ext s bn blk : ext s (store_block s bn blk).
Proof. repeat split; cbn; [exists [(bn, blk)]; auto | exists []; auto | auto]. Qed.

Lemma store_block_inv s bn blk : inv s -> inv (store_block s bn blk).
Proof. intros [I1 I2]. split; cbn; [rewrite I1; reflexivity | exact I2]. Qed.

Lemma set_bs_same s b : same_hist s (set_bs s b).
Proof. repeat split; auto. Qed.
Lemma set_cur_same s z : same_hist s (set_cur s z).
Proof. repeat split; auto. Qed.

(* one line: the history grows, the dictionaries follow it *)
Lemma step_ext_inv s t l s' : step s t l = OkS s' -> ext s s' /\ (inv s -> inv s').
Proof.
  unfold step. intros H.
  destruct (startswith kw_slashes (lstrip l)); [inversion H; subst; split; [apply ext_refl|auto]|].
  destruct (startswith kw_bangs (lstrip l)); [inversion H; subst; split; [apply ext_refl|auto]|].
  pose proof (set_flags_same s l) as Hf. set (s1 := set_flags s l) in *.
  assert (Hgoal : ext s1 s' /\ (inv s1 -> inv s')).
  2:{ destruct Hgoal as [G1 G2]. split.
      - eapply ext_trans; [apply same_hist_ext, Hf | exact G1].
      - intros I. apply G2. eapply same_hist_inv; eauto. }
  clearbody s1. clear Hf s.
  destruct (s_bs s1) as [b|] eqn:Hbs.
  - destruct (build_result b t l) as [b'|e]; [|discriminate].
    destruct (is_end_flag l) as [f|].
    + split.
      * eapply ext_trans; [apply store_block_ext | eapply add_time_ext; exact H].
      * intros I. eapply add_time_inv; [exact H | apply store_block_inv, I].
    + inversion H; subst. split; [apply same_hist_ext, set_bs_same|].
      apply same_hist_inv, set_bs_same.
  - destruct (s_fatal s1); [inversion H; subst; split; [apply ext_refl|auto]|].
    destruct (s_init s1).
    2:{ apply check_input_same in H. split; [apply same_hist_ext, H | apply same_hist_inv, H]. }
    destruct (contains kw_RESULTS l).
    { inversion H; subst. split; [apply same_hist_ext, set_bs_same | apply same_hist_inv, set_bs_same]. }
    destruct ((s_partial s1 && startswith kw_nbatch l) || startswith kw_batchnum l).
    { destruct (int_last (split_ws l)); [|discriminate]. inversion H; subst.
      split; [apply same_hist_ext, set_cur_same | apply same_hist_inv, set_cur_same]. }
    destruct (is_end_flag l) as [f|]; [|inversion H; subst; split; [apply ext_refl|auto]].
    match type of H with (if ?c then _ else _) = _ => destruct c end;
      [inversion H; subst; split; [apply ext_refl|auto]|].
    split; [eapply add_time_ext, H | eapply add_time_inv, H].
Qed.

(* a line that is not an end flag (in particular an unterminated last line)
   stores nothing *)
Lemma step_no_flag s t l s' :
  is_end_flag l = None -> step s t l = OkS s' -> same_hist s s'.
Proof.
  unfold step. intros Hnf H. rewrite Hnf in H.
  destruct (startswith kw_slashes (lstrip l)); [inversion H; subst; apply same_hist_refl|].
  destruct (startswith kw_bangs (lstrip l)); [inversion H; subst; apply same_hist_refl|].
  apply (same_hist_trans s (set_flags s l) s'); [apply set_flags_same|].
  set (s1 := set_flags s l) in *. clearbody s1.
  destruct (s_bs s1) as [b|].
  - destruct (build_result b t l); [|discriminate]. inversion H; subst. apply set_bs_same.
  - destruct (s_fatal s1); [inversion H; subst; apply same_hist_refl|].
    destruct (s_init s1); [|eapply check_input_same, H].
    destruct (contains kw_RESULTS l); [inversion H; subst; apply set_bs_same|].
    destruct ((s_partial s1 && startswith kw_nbatch l) || startswith kw_batchnum l).
    { destruct (int_last (split_ws l)); [|discriminate]. inversion H; subst. apply set_cur_same. }
    inversion H; subst. apply same_hist_refl.
Qed.

Lemma run_app s a b :
  run s (a ++ b) = match run s a with OkS s' => run s' b | ErrS e => ErrS e end.
Proof.
  revert s; induction a as [|[t l] a IH]; intros s; cbn; [reflexivity|].
  destruct (step s t l); [apply IH | reflexivity].
Qed.

Lemma run_ext_inv s ls s' : run s ls = OkS s' -> ext s s' /\ (inv s -> inv s').
Proof.
  revert s; induction ls as [|[t l] ls IH]; intros s; cbn.
  - intros H; inversion H; subst. split; [apply ext_refl | auto].
  - destruct (step s t l) as [s1|] eqn:E; [|discriminate]. intros H.
    destruct (step_ext_inv _ _ _ _ E) as [E1 E2]. destruct (IH _ H) as [F1 F2].
    split; [eapply ext_trans; eauto | auto].
Qed.

Lemma init_inv : inv (@init_st L).
Proof. split; reflexivity. Qed.

(* ---- exception classes ---- *)
Definition not_key (e : pyexn) : Prop := e <> KeyError.

Lemma int_of_tok_err o e : int_of_tok o = ErrS e -> not_key e.
Proof.
  unfold int_of_tok. destruct o as [t|]; [destruct (py_int t)|]; intros H; inversion H; unfold not_key; discriminate.
Qed.

Lemma br_patterns_err (b : bscan) toks l e : br_patterns b toks l = ErrS e -> not_key e.
Proof.
  unfold br_patterns, int_last. intros H.
  destruct (contains kw_edition l).
  - destruct (int_of_tok (last_opt toks)) eqn:E; [discriminate|].
    inversion H; subst. eapply int_of_tok_err, E.
  - destruct (contains kw_hash64 l && negb (b_inph b)); [discriminate|].
    destruct (contains kw_dumphomog l); discriminate.
Qed.

Lemma br_greater_err (b : bscan) toks l e : br_greater b toks l = ErrS e -> not_key e.
Proof.
  unfold br_greater, int_at. intros H.
  destruct (b_para b && contains kw_nbused l); [|discriminate].
  destruct (int_of_tok (nth_error toks 4)) eqn:E; [discriminate|].
  inversion H; subst. eapply int_of_tok_err, E.
Qed.

Lemma homog_count_err h l e : homog_count h l = ErrS e -> not_key e.
Proof.
  unfold homog_count. intros H.
  destruct (h_counting h).
  - destruct (0 <? h_corr h)%nat.
    + discriminate.
    + destruct l as [|c r]; [inversion H; unfold not_key; discriminate | discriminate].
  - discriminate.
Qed.

Lemma br_store_err (b : bscan) t l e : br_store b t l = ErrS e -> not_key e.
Proof.
  unfold br_store. intros H.
  destruct (b_inph b); [discriminate|].
  destruct (h_in (b_hm b)); [|discriminate].
  destruct (homog_count (b_hm b) l) eqn:E; [discriminate|].
  inversion H; subst. eapply homog_count_err, E.
Qed.

Lemma build_result_err (b : bscan) t l e : build_result b t l = ErrS e -> not_key e.
Proof.
  unfold build_result. intros H.
  destruct (br_patterns b (split_ws l) l) as [b1|e1] eqn:E1.
  - destruct (br_greater b1 (split_ws l) l) as [b2|e2] eqn:E2.
    + eapply br_store_err, H.
    + inversion H; subst. eapply br_greater_err, E2.
  - inversion H; subst. eapply br_patterns_err, E1.
Qed.

Lemma add_time_err s f l e : add_time (L:=L) s f l = ErrS e -> not_key e.
Proof.
  unfold add_time. intros H.
  destruct (last_opt (split_ws l)) as [t|]; [|inversion H; unfold not_key; discriminate].
  destruct (all_digits t); [destruct (py_int t)|]; inversion H; unfold not_key; discriminate.
Qed.

Lemma int_at_err toks i e : int_at toks i = ErrS e -> not_key e.
Proof. apply int_of_tok_err. Qed.

Lemma check_input_err s l e : check_input (L:=L) s l = ErrS e -> not_key e.
Proof.
  unfold check_input. intros H.
  destruct (contains kw_BATCH l && negb (contains kw_underscore l) && negb (contains kw_THIS l)).
  { destruct (index_of kw_BATCH (split_ws l)); [|inversion H; unfold not_key; discriminate].
    destruct (1 <? List.length (split_ws l))%nat; [|discriminate].
    destruct (int_at (split_ws l) (S n)) eqn:E; [discriminate|].
    inversion H; subst. eapply int_at_err, E. }
  destruct (contains kw_tasks l).
  { destruct (int_at (split_ws l) 5) eqn:E; [discriminate|].
    inversion H; subst. eapply int_at_err, E. }
  destruct (contains kw_BPS l).
  { destruct (int_at (split_ws l) 1) eqn:E; [discriminate|].
    inversion H; subst. eapply int_at_err, E. }
  destruct (contains kw_PACKET l).
  { destruct (index_of kw_PACKET (split_ws l)); [|inversion H; unfold not_key; discriminate].
    destruct (s_para s); [|discriminate].
    destruct (int_at (split_ws l) (S n)) eqn:E; [discriminate|].
    inversion H; subst. eapply int_at_err, E. }
  destruct (contains kw_init l); [|discriminate].
  destruct (int_at (split_ws l) 3) eqn:E; [discriminate|].
  inversion H; subst. eapply int_at_err, E.
Qed.

Lemma step_err s t l e : step s t l = ErrS e -> not_key e.
Proof.
  unfold step. intros H.
  destruct (startswith kw_slashes (lstrip l)); [discriminate|].
  destruct (startswith kw_bangs (lstrip l)); [discriminate|].
  set (s1 := set_flags s l) in *. clearbody s1.
  destruct (s_bs s1) as [b|].
  - destruct (build_result b t l) as [b'|e'] eqn:E.
    + destruct (is_end_flag l); [eapply add_time_err, H | discriminate].
    + inversion H; subst. eapply build_result_err, E.
  - destruct (s_fatal s1); [discriminate|].
    destruct (s_init s1); [|eapply check_input_err, H].
    destruct (contains kw_RESULTS l); [discriminate|].
    destruct ((s_partial s1 && startswith kw_nbatch l) || startswith kw_batchnum l).
    { unfold int_last in H. destruct (int_of_tok (last_opt (split_ws l))) eqn:E; [discriminate|].
      inversion H; subst. eapply int_of_tok_err, E. }
    destruct (is_end_flag l); [|discriminate].
    match type of H with (if ?c then _ else _) = _ => destruct c end; [discriminate|].
    eapply add_time_err, H.
Qed.

Lemma run_err s ls e : run s ls = ErrS e -> not_key e.
Proof.
  revert s; induction ls as [|[t l] ls IH]; intros s; cbn; [discriminate|].
  destruct (step s t l) eqn:E; [apply IH|]. intros H; inversion H; subst. eapply step_err, E.
Qed.

(* Scanner(...) never fails with anything but ScannerException *)
Lemma scan_never_other (ls : list (L * str)) e : scan ls <> Err (Other e).
Proof.
  unfold scan, close_scan. destruct (run init_st ls) as [s|e'] eqn:E.
  - unfold finish. destruct (s_coll s); destruct (s_bs s); discriminate.
  - apply run_err in E. destruct e'; cbn; try discriminate. exfalso. apply E. reflexivity.
Qed.

Lemma scan_cases (ls : list (L * str)) :
  scan ls = Err ScannerExc \/ exists s, scan ls = Ok s.
Proof.
  destruct (scan ls) as [s|e] eqn:E; [right; eauto|].
  destruct e as [| |e]; [left; reflexivity | | exfalso; eapply scan_never_other, E].
  unfold scan, close_scan in E. destruct (run init_st ls) as [s|e'].
  - unfold finish in E. destruct (s_coll s); destruct (s_bs s); discriminate.
  - destruct e'; discriminate.
Qed.

Lemma scan_ok_run ls s : scan ls = Ok s -> run init_st ls = OkS s.
Proof.
  unfold scan, close_scan. destruct (run init_st ls) as [s0|e]; [|destruct e; discriminate].
  unfold finish. destruct (s_coll s0); destruct (s_bs s0); intros H; inversion H; reflexivity.
Qed.

Lemma scan_ok_inv ls s : scan ls = Ok s -> inv s.
Proof. intros H. apply scan_ok_run, run_ext_inv in H. apply H, init_inv. Qed.

End ScanProofs.

(* ------------------------------------------------------------------ *)
(* prefixes of a text *)

Lemma self_tagged_prefix (P S : str) :
  exists ls tl rest,
    self_tagged P = ls ++ tl /\ self_tagged (P ++ S) = ls ++ rest /\
    (tl = [] \/ exists part, tl = [(part, part)] /\ no_nl part).
Proof.
  destruct (split_lines_prefix P S) as (ls & tl & rest & HP & HF & Htl).
  exists (map (fun l => (l, l)) ls), (map (fun l => (l, l)) tl), (map (fun l => (l, l)) rest).
  unfold self_tagged. rewrite HP, HF, !map_app. repeat split.
  destruct Htl as [-> | (part & -> & Hnn & _)]; [left; reflexivity|].
  right. exists part. split; [reflexivity | exact Hnn].
Qed.

(* history of s' extends the history of s (nothing said about flags) *)
Definition hist_prefix {L} (s s' : st L) : Prop :=
  (exists a, s_stores s' = a ++ s_stores s) /\ (exists b, s_tevs s' = b ++ s_tevs s).

(* for EVERY text F = P ++ S: scanning the prefix P fails with the scanner's
   own exception, or succeeds with a history (blocks stored, times recorded,
   newest first) that is the oldest part of the history of F: everything P
   stored, F stored identically and in the same order before anything else;
   the dictionaries (_collres, times) are functions of the history *)
Theorem prefix_scan_safe (P S : str) :
  (forall e, scan_text P <> Err (Other e)) /\
  (scan_text P = Err ScannerExc \/
   exists sP, scan_text P = Ok sP /\ inv sP /\
     forall sF, scan_text (P ++ S) = Ok sF -> hist_prefix sP sF /\ inv sF).
Proof.
  split; [intros e; apply scan_never_other|].
  destruct (scan_cases (self_tagged P)) as [H | [sP HsP]]; [left; exact H|].
  right. exists sP. split; [exact HsP|]. split; [eapply scan_ok_inv, HsP|].
  intros sF HsF. split; [|eapply scan_ok_inv, HsF].
  unfold scan_text in *. apply scan_ok_run in HsP. apply scan_ok_run in HsF.
  destruct (self_tagged_prefix P S) as (ls & tl & rest & EP & EF & Htl).
  rewrite EP, run_app in HsP. rewrite EF, run_app in HsF.
  destruct (run init_st ls) as [s0|] eqn:E0; [|discriminate].
  apply run_ext_inv in HsF. destruct HsF as [([a Ha] & [b Hb] & _) _].
  destruct Htl as [-> | (part & -> & Hnn)].
  - cbn in HsP. inversion HsP; subst. split; eauto.
  - cbn in HsP. destruct (step s0 part part) as [s1|] eqn:E1; [|discriminate].
    inversion HsP; subst s1.
    apply step_no_flag in E1; [|apply no_nl_no_flag, Hnn].
    destruct E1 as (H1 & H2 & _). split.
    + exists a. rewrite H1. exact Ha.
    + exists b. rewrite H2. exact Hb.
Qed.

Lemma prefix_hist (P S : str) sP sF :
  scan_text P = Ok sP -> scan_text (P ++ S) = Ok sF ->
  hist_prefix sP sF /\ inv sP /\ inv sF.
Proof.
  intros HP HF. destruct (prefix_scan_safe P S) as [_ [H | (sP' & H1 & H2 & H3)]].
  - congruence.
  - assert (sP' = sP) by congruence. subst sP'. destruct (H3 _ HF). auto.
Qed.

(* dictionary reading of the history: a block that the prefix holds for batch
   k is the block the complete text holds for k, unless the complete text
   stores batch k again after the cut *)
Theorem prefix_blocks_agree (P S : str) sP sF k blk :
  scan_text P = Ok sP -> scan_text (P ++ S) = Ok sF ->
  od_get Z.eqb (s_coll sP) k = Some blk ->
  (forall a, s_stores sF = a ++ s_stores sP -> forall e, In e a -> fst e <> k) ->
  od_get Z.eqb (s_coll sF) k = Some blk.
Proof.
  intros HP HF Hget Hno. destruct (prefix_hist _ _ _ _ HP HF) as (([a Ha] & _) & [IP _] & [IF_ _]).
  rewrite IF_, Ha, coll_of_app; [rewrite <- IP; exact Hget | apply Hno, Ha].
Qed.

Theorem prefix_times_agree (P S : str) sP sF k tv :
  scan_text P = Ok sP -> scan_text (P ++ S) = Ok sF ->
  od_get tkey_eqb (s_times sP) k = Some tv ->
  (forall c, s_tevs sF = c ++ s_tevs sP -> forall e, In e c -> fst (fst e) <> k) ->
  od_get tkey_eqb (s_times sF) k = Some tv.
Proof.
  intros HP HF Hget Hno. destruct (prefix_hist _ _ _ _ HP HF) as ((_ & [c Hc]) & [_ IP] & [_ IF_]).
  rewrite IF_, Hc, times_of_app; [rewrite <- IP; exact Hget | apply Hno, Hc].
Qed.

(* when the cut is at a line boundary the flags are monotone too (a cut inside
   a line announcing a PARTIAL EDITION is the only way for the prefix to be
   "partial" while the complete text, whose line continues, is not) *)
Lemma ends_nl_cons c (P : str) : P <> [] -> ends_nl (c :: P) = ends_nl P.
Proof.
  intros Hne. unfold ends_nl, last_opt. cbn [rev].
  destruct (rev P) as [|y r] eqn:E; [|reflexivity].
  exfalso. apply Hne. apply (f_equal (@rev _)) in E. rewrite rev_involutive in E. exact E.
Qed.

Lemma split_lines_boundary (P S : str) :
  P = [] \/ ends_nl P = true -> split_lines (P ++ S) = split_lines P ++ split_lines S.
Proof.
  induction P as [|c P IH]; [reflexivity|]. intros [H|H]; [discriminate|].
  destruct P as [|d P'].
  - cbn in H. cbn. unfold ends_nl, last_opt in H. cbn in H. rewrite H. reflexivity.
  - rewrite ends_nl_cons in H by discriminate.
    assert (Hne : d :: P' <> []) by discriminate.
    remember (d :: P') as Q eqn:EQ. clear EQ.
    change ((c :: Q) ++ S) with (c :: (Q ++ S)).
    cbn [split_lines]. rewrite IH by (right; exact H).
    destruct (is_nl c); [reflexivity|].
    destruct (split_lines Q) as [|l ls] eqn:E; [apply split_lines_nil in E; contradiction|].
    reflexivity.
Qed.

Theorem prefix_flags_monotone_at_boundary (P S : str) sP sF :
  P = [] \/ ends_nl P = true ->
  scan_text P = Ok sP -> scan_text (P ++ S) = Ok sF ->
  s_partial sP = true -> s_partial sF = true.
Proof.
  intros Hb HP HF. unfold scan_text in *. apply scan_ok_run in HP. apply scan_ok_run in HF.
  unfold self_tagged in HF. rewrite (split_lines_boundary P S Hb), map_app, run_app in HF.
  unfold self_tagged in HP. rewrite HP in HF. apply run_ext_inv in HF. apply HF.
Qed.

(* ------------------------------------------------------------------ *)
(* Parser on top of the scanner *)

Section ParseProofs.
Variables (payload ptime : Type) (time_ne : ptime -> tval -> bool).
Variable parse_block : block str -> presult payload ptime.
Notation oap := (open_and_parse payload ptime time_ne parse_block).
Notation psc := (parse_scanned payload ptime time_ne parse_block).

Lemma parse_scanned_ok (s : st str) b r :
  psc s (Number b) = Ok r <->
  exists blk f v p tv,
    od_get Z.eqb (s_coll s) b = Some blk /\
    parse_block blk = PRes payload ptime true (Some (Some f, v)) p /\
    od_get tkey_eqb (s_times s) (f, b) = Some tv /\
    time_ne v tv && negb (s_partial s) = false /\
    r = mk_result payload p b (batch_times s b).
Proof.
  unfold parse_scanned. split.
  - intros H. destruct (s_coll s) as [|x c] eqn:Ec; [discriminate|].
    destruct (od_get Z.eqb (x :: c) b) as [blk|]; [|discriminate].
    destruct (parse_block blk) as [[|e]|bd tm p] eqn:Epb; try discriminate.
    destruct bd; [|discriminate]. destruct tm as [[[f|] v]|]; try discriminate.
    destruct (od_get tkey_eqb (s_times s) (f, b)) as [tv|] eqn:Et; [|discriminate].
    destruct (time_ne v tv && negb (s_partial s)) eqn:En; [discriminate|].
    inversion H; subst. exists blk, f, v, p, tv. repeat split; auto.
  - intros (blk & f & v & p & tv & H1 & H2 & H3 & H4 & ->).
    destruct (s_coll s) as [|x c] eqn:Ec; [discriminate|].
    rewrite H1, H2, H3, H4. reflexivity.
Qed.

(* the edition b is complete in the prefix: the rest of the text neither
   stores a block for batch b again nor records a time for batch b *)
Definition edition_closed (sP sF : st str) (b : Z) : Prop :=
  (forall a, s_stores sF = a ++ s_stores sP -> forall e, In e a -> fst e <> b) /\
  (forall c, s_tevs sF = c ++ s_tevs sP -> forall e, In e c -> snd (fst (fst e)) <> b).

Lemma batch_times_agree (P S : str) sP sF b :
  scan_text P = Ok sP -> scan_text (P ++ S) = Ok sF ->
  edition_closed sP sF b -> batch_times sF b = batch_times sP b.
Proof.
  intros HP HF [_ Hc]. destruct (prefix_hist _ _ _ _ HP HF) as ((_ & [c Ec]) & [_ IP] & [_ IF_]).
  unfold batch_times. rewrite IF_, IP, Ec.
  assert (Hk : forall f, od_get tkey_eqb (times_of (c ++ s_tevs sP)) (f, b)
                         = od_get tkey_eqb (times_of (s_tevs sP)) (f, b)).
  { intros f. apply times_of_app. intros e He Heq. apply (Hc c Ec e He). rewrite Heq. reflexivity. }
  cbn [flat_map]. rewrite !Hk. reflexivity.
Qed.

(* a successful parse of edition b of the prefix is the parse of edition b of
   the complete text: same payload (the grammar is a function of the block),
   same batch, same times *)
Theorem prefix_parse_identical (P S : str) sP sF b r :
  scan_text P = Ok sP -> scan_text (P ++ S) = Ok sF ->
  edition_closed sP sF b ->
  (s_partial sP = true -> s_partial sF = true) ->
  oap (self_tagged P) (Number b) = Ok r ->
  oap (self_tagged (P ++ S)) (Number b) = Ok r.
Proof.
  intros HP HF Hcl Hpart H. pose proof HP as HP'. pose proof HF as HF'.
  unfold scan_text in HP', HF'. unfold open_and_parse in *. rewrite HP' in H. rewrite HF'.
  apply parse_scanned_ok in H. destruct H as (blk & f & v & p & tv & H1 & H2 & H3 & H4 & ->).
  apply parse_scanned_ok. exists blk, f, v, p, tv. repeat split.
  - apply (prefix_blocks_agree P S sP sF b blk HP HF H1). apply Hcl.
  - exact H2.
  - apply (prefix_times_agree P S sP sF (f, b) tv HP HF H3). intros c Ec e He Heq.
    destruct Hcl as [_ Hc]. apply (Hc c Ec e He). rewrite Heq. reflexivity.
  - apply andb_false_iff in H4. apply andb_false_iff. destruct H4 as [H4|H4]; [left; exact H4|].
    right. apply negb_false_iff in H4. apply negb_false_iff. auto.
  - rewrite (batch_times_agree P S sP sF b HP HF Hcl). reflexivity.
Qed.

(* Parser(path).parse_from_number/index never fails with anything but
   ParserException, except: KeyError for an edition the listing does not hold
   (documented), and whatever the grammar itself raises on a stored block *)
Theorem open_and_parse_errors (ls : list (str * str)) sel e :
  oap ls sel = Err (Other e) ->
  exists s, scan ls = Ok s /\
    ((exists b, sel = Number b /\ od_get Z.eqb (s_coll s) b = None /\ e = KeyError) \/
     (exists bn blk, od_get Z.eqb (s_coll s) bn = Some blk /\
                     parse_block blk = PRaise payload ptime (PE_Other e))).
Proof.
  unfold open_and_parse. destruct (scan ls) as [s|e0] eqn:Es.
  2:{ destruct e0 as [| |e0]; try discriminate. exfalso. eapply scan_never_other, Es. }
  intros H. exists s. split; [reflexivity|]. unfold parse_scanned in H.
  destruct (s_coll s) as [|x c] eqn:Ec; [discriminate|].
  set (bn := match sel with Number b => b | Last =>
              match last_key (x :: c) with Some k => k | None => 0 end end) in *.
  destruct (od_get Z.eqb (x :: c) bn) as [blk|] eqn:Eg.
  - right. exists bn, blk. split; [exact Eg|].
    destruct (parse_block blk) as [[|e1]|bd tm p]; try discriminate.
    + inversion H; subst. reflexivity.
    + exfalso. destruct bd; [|discriminate]. destruct tm as [[[f|] v]|]; try discriminate.
      destruct (od_get tkey_eqb (s_times s) (f, bn)); [|discriminate].
      destruct (time_ne v t && negb (s_partial s)); discriminate.
  - inversion H; subst e. destruct sel as [|b].
    + exfalso. unfold bn, last_key in Eg.
      destruct (last_opt (x :: c)) as [[k v]|] eqn:El.
      * cbn [option_map fst] in Eg. apply last_opt_In in El.
        exact (od_get_In Z.eqb Z.eqb_eq (x :: c) k v El Eg).
      * unfold last_opt in El. destruct (rev (x :: c)) eqn:Er; [|discriminate].
        apply (f_equal (@List.length _)) in Er. rewrite rev_length in Er. discriminate.
    + left. exists b. auto.
Qed.
End ParseProofs.

(* ------------------------------------------------------------------ *)
(* the block stored for an edition is the text between its start flag and
   its end flag (used by C10: scanner's blocks keyed by batch) *)
Section BlockProofs.
Context {L : Type}.

Definition not_comment (l : str) : Prop :=
  startswith kw_slashes (lstrip l) = false /\ startswith kw_bangs (lstrip l) = false.

(* no start of a photon/electron balance or homogenised-material dump: such
   lines (and what follows them) are diverted from the block *)
Definition not_diverting (l : str) : Prop :=
  contains kw_hash64 l = false /\ contains kw_dumphomog l = false.

Definition plain_line (l : str) : Prop :=
  not_comment l /\ not_diverting l /\ is_end_flag l = None.

Lemma build_result_plain (b : bscan L) t l b' :
  b_inph b = false -> h_in (b_hm b) = false -> not_diverting l ->
  build_result b t l = OkS b' ->
  b_result b' = t :: b_result b /\ b_inph b' = false /\ h_in (b_hm b') = false.
Proof.
  intros Hph Hhm [Hh Hd] H. unfold build_result in H.
  destruct (br_patterns b (split_ws l) l) as [b1|] eqn:E1; [|discriminate].
  destruct (br_greater b1 (split_ws l) l) as [b2|] eqn:E2; [|discriminate].
  assert (P1 : b_result b1 = b_result b /\ b_inph b1 = false /\ h_in (b_hm b1) = false).
  { unfold br_patterns in E1. rewrite Hh, Hd in E1. cbn [andb] in E1.
    destruct (contains kw_edition l).
    - destruct (int_last (split_ws l)); inversion E1; subst. cbn. auto.
    - inversion E1; subst. auto. }
  destruct P1 as (R1 & I1 & M1).
  assert (P2 : b_result b2 = b_result b /\ b_inph b2 = false /\ h_in (b_hm b2) = false).
  { unfold br_greater in E2. destruct (b_para b1 && contains kw_nbused l).
    - destruct (int_at (split_ws l) 4); inversion E2; subst.
      destruct (b_greater b1 <? a)%Z; cbn; auto.
    - inversion E2; subst. auto. }
  destruct P2 as (R2 & I2 & M2).
  unfold br_store in H. rewrite I2, M2 in H. inversion H; subst. cbn. rewrite R2. auto.
Qed.

Lemma run_body (s : st L) (b : bscan L) (body : list (L * str)) s' :
  s_bs s = Some b -> b_inph b = false -> h_in (b_hm b) = false ->
  (forall t l, In (t, l) body -> plain_line l) ->
  run s body = OkS s' ->
  exists b', s_bs s' = Some b' /\ b_result b' = rev (map fst body) ++ b_result b /\
             b_inph b' = false /\ h_in (b_hm b') = false /\
             s_stores s' = s_stores s /\ s_coll s' = s_coll s.
Proof.
  revert s b; induction body as [|[t l] body IH]; intros s b Hbs Hph Hhm Hpl H.
  - cbn in H. inversion H; subst. exists b. cbn. repeat split; auto.
  - cbn [run] in H. destruct (step s t l) as [s1|] eqn:E; [|discriminate].
    destruct (Hpl t l (or_introl eq_refl)) as ((Hc1 & Hc2) & Hnd & Hnf).
    unfold step in E. rewrite Hc1, Hc2 in E.
    pose proof (set_flags_same s l) as (F1 & F2 & F3 & F4 & _).
    assert (Hbs1 : s_bs (set_flags s l) = Some b).
    { unfold set_flags. destruct (contains kw_WARNING l); [exact Hbs|].
      destruct (contains kw_ERROR l); [destruct (contains kw_FATAL l); exact Hbs|].
      destruct (contains kw_PARTIAL l); exact Hbs. }
    rewrite Hbs1, Hnf in E.
    destruct (build_result b t l) as [b1|] eqn:Eb; [|discriminate]. inversion E; subst s1. clear E.
    destruct (build_result_plain b t l b1 Hph Hhm Hnd Eb) as (R & I & M).
    destruct (IH (set_bs (set_flags s l) (Some b1)) b1 eq_refl I M
                 (fun t' l' H' => Hpl t' l' (or_intror H')) H)
      as (b' & B1 & B2 & B3 & B4 & B5 & B6).
    exists b'. repeat split; auto.
    + rewrite B2, R. cbn [map fst rev]. rewrite <- app_assoc. reflexivity.
    + rewrite B5. cbn. exact F1.
    + rewrite B6. cbn. exact F3.
Qed.

Theorem scan_blocks_keyed_by_batch (s0 : st L) t0 l0 body te le f s' :
  s_bs s0 = None -> s_fatal (set_flags s0 l0) = false -> s_init s0 <> None ->
  not_comment l0 -> contains kw_RESULTS l0 = true ->
  (forall t l, In (t, l) body -> plain_line l) ->
  not_comment le -> not_diverting le -> is_end_flag le = Some f ->
  run s0 ((t0, l0) :: body ++ [(te, le)]) = OkS s' ->
  exists bn, s_stores s' = (bn, t0 :: map fst body ++ [te]) :: s_stores s0 /\
             od_get Z.eqb (s_coll s') bn = Some (t0 :: map fst body ++ [te]).
Proof.
  intros Hbs Hfat Hinit [Hc1 Hc2] Hres Hpl [Hd1 Hd2] Hnd Hf H.
  cbn [run] in H. destruct (step s0 t0 l0) as [s1|] eqn:E0; [|discriminate].
  unfold step in E0. rewrite Hc1, Hc2 in E0.
  pose proof (set_flags_same s0 l0) as (F1 & F2 & F3 & F4 & _).
  assert (Hbs1 : s_bs (set_flags s0 l0) = None).
  { unfold set_flags. destruct (contains kw_WARNING l0); [exact Hbs|].
    destruct (contains kw_ERROR l0); [destruct (contains kw_FATAL l0); exact Hbs|].
    destruct (contains kw_PARTIAL l0); exact Hbs. }
  assert (Hinit1 : s_init (set_flags s0 l0) = s_init s0).
  { unfold set_flags. destruct (contains kw_WARNING l0); [reflexivity|].
    destruct (contains kw_ERROR l0); [destruct (contains kw_FATAL l0); reflexivity|].
    destruct (contains kw_PARTIAL l0); reflexivity. }
  rewrite Hbs1, Hfat, Hinit1 in E0. destruct (s_init s0) as [z|]; [|contradiction].
  rewrite Hres in E0. inversion E0; subst s1. clear E0.
  rewrite run_app in H.
  set (s1 := set_bs (set_flags s0 l0) (Some (new_bscan (s_cur (set_flags s0 l0)) (s_para (set_flags s0 l0)) t0))) in *.
  destruct (run s1 body) as [s2|] eqn:E1; [|discriminate].
  destruct (run_body s1 _ body s2 eq_refl eq_refl eq_refl Hpl E1) as (b2 & B1 & B2 & B3 & B4 & B5 & B6).
  cbn [run] in H. destruct (step s2 te le) as [s3|] eqn:E2; [|discriminate]. inversion H; subst s3. clear H.
  unfold step in E2. rewrite Hd1, Hd2 in E2.
  assert (Hbs2 : s_bs (set_flags s2 le) = Some b2).
  { unfold set_flags. destruct (contains kw_WARNING le); [exact B1|].
    destruct (contains kw_ERROR le); [destruct (contains kw_FATAL le); exact B1|].
    destruct (contains kw_PARTIAL le); exact B1. }
  rewrite Hbs2, Hf in E2.
  destruct (build_result b2 te le) as [b3|] eqn:Eb; [|discriminate].
  destruct (build_result_plain b2 te le b3 B3 B4 Hnd Eb) as (R & _ & _).
  destruct (add_time_ok _ _ _ _ E2) as (e & A1 & _ & A3 & _).
  exists (checked_number b3).
  assert (Hblk : rev (b_result b3) = t0 :: map fst body ++ [te]).
  { rewrite R, B2. cbn [new_bscan b_result]. cbn [rev]. rewrite rev_app_distr, rev_involutive.
    cbn. reflexivity. }
  pose proof (set_flags_same s2 le) as (G1 & _ & G3 & _).
  split.
  - rewrite A1. cbn [store_block s_stores]. rewrite Hblk, G1, B5. unfold s1. cbn. rewrite F1. reflexivity.
  - rewrite A3. cbn [store_block s_coll]. rewrite Hblk.
    apply (od_get_set_same Z.eqb Z.eqb_eq).
Qed.
End BlockProofs.

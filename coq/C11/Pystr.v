(* The few CPython string functions the Tripoli-4 scanner uses, on strings as
   lists of bytes (the utf-8 bytes of the decoded text; bytes >= 128 are
   opaque: neither white space nor digits).  Every function here is compared
   with CPython on generated strings by harness/c11.py on each run. *)
From Coq Require Import List ZArith NArith Bool Arith Lia Ascii String.
From Coq Require Import Strings.Byte.
Import ListNotations.

Definition str := list ascii.

Definition code (c : ascii) : N := N_of_ascii c.

(* str.isspace() for one ASCII character: \t \n \v \f \r \x1c..\x1f and space *)
Definition is_ws (c : ascii) : bool :=
  let n := code c in
  ((9 <=? n) && (n <=? 13) || (28 <=? n) && (n <=? 32))%N.

Definition is_nl (c : ascii) : bool := (code c =? 10)%N.

Definition is_digit (c : ascii) : bool :=
  let n := code c in ((48 <=? n) && (n <=? 57))%N.

Definition digit_val (c : ascii) : Z := Z.of_N (code c) - 48.

(* s.startswith(p) *)
Fixpoint startswith (p s : str) : bool :=
  match p, s with
  | [], _ => true
  | a :: p', b :: s' => Ascii.eqb a b && startswith p' s'
  | _ :: _, [] => false
  end.

(* sub in s *)
Fixpoint contains (sub s : str) : bool :=
  startswith sub s ||
  match s with
  | [] => false
  | _ :: r => contains sub r
  end.

(* s.lstrip() *)
Fixpoint lstrip (s : str) : str :=
  match s with
  | c :: r => if is_ws c then lstrip r else s
  | [] => []
  end.

(* s.split() *)
Fixpoint split_ws_aux (cur_rev : str) (s : str) : list str :=
  match s with
  | [] => match cur_rev with [] => [] | _ => [rev cur_rev] end
  | c :: r =>
      if is_ws c
      then match cur_rev with
           | [] => split_ws_aux [] r
           | _ => rev cur_rev :: split_ws_aux [] r
           end
      else split_ws_aux (c :: cur_rev) r
  end.
Definition split_ws (s : str) : list str := split_ws_aux [] s.

(* s.isdigit() (ASCII) *)
Definition all_digits (s : str) : bool :=
  match s with [] => false | _ => forallb is_digit s end.

Fixpoint str_eqb (a b : str) : bool :=
  match a, b with
  | [], [] => true
  | x :: a', y :: b' => Ascii.eqb x y && str_eqb a' b'
  | _, _ => false
  end.

(* l.index(x): position of the first element equal to x *)
Fixpoint index_of (x : str) (l : list str) : option nat :=
  match l with
  | [] => None
  | y :: r => if str_eqb x y then Some O
              else match index_of x r with Some i => Some (S i) | None => None end
  end.

(* l[-1] *)
Definition last_opt {A} (l : list A) : option A :=
  match rev l with [] => None | x :: _ => Some x end.

(* int(s), base 10, None = ValueError.
   white space stripped by int(): space \t \n \v \f \r ; optional sign; digits
   with single underscores between digits; at most 4300 digits
   (sys.get_int_max_str_digits() of CPython 3.12). *)
Definition is_int_ws (c : ascii) : bool :=
  let n := code c in ((9 <=? n) && (n <=? 13) || (n =? 32))%N.

Fixpoint lstrip_int (s : str) : str :=
  match s with
  | c :: r => if is_int_ws c then lstrip_int r else s
  | [] => []
  end.
Definition strip_int (s : str) : str := rev (lstrip_int (rev (lstrip_int s))).

(* after a digit: more digits, or an underscore that must be followed by a digit *)
Fixpoint int_digits (acc : Z) (n : nat) (s : str) : option (Z * nat) :=
  match s with
  | [] => Some (acc, n)
  | c :: r =>
      if is_digit c then int_digits (acc * 10 + digit_val c) (S n) r
      else if (code c =? 95)%N then
        match r with
        | d :: r' => if is_digit d then int_digits (acc * 10 + digit_val d) (S n) r' else None
        | [] => None
        end
      else None
  end.

Definition max_str_digits : nat := 4300.

(* number of digits, None when the shape is wrong (cheap first pass: the value
   of an over-long numeral is never computed) *)
Fixpoint int_count (n : nat) (s : str) : option nat :=
  match s with
  | [] => Some n
  | c :: r =>
      if is_digit c then int_count (S n) r
      else if (code c =? 95)%N then
        match r with
        | d :: r' => if is_digit d then int_count (S n) r' else None
        | [] => None
        end
      else None
  end.

Definition int_unsigned (s : str) : option Z :=
  match s with
  | c :: r =>
      if is_digit c then
        match int_count 1 r with
        | Some n => if (n <=? max_str_digits)%nat
                    then option_map fst (int_digits (digit_val c) 1 r) else None
        | None => None
        end
      else None
  | [] => None
  end.

Definition py_int (s0 : str) : option Z :=
  match strip_int s0 with
  | c :: r =>
      if (code c =? 45)%N then option_map Z.opp (int_unsigned r)
      else if (code c =? 43)%N then int_unsigned r
      else int_unsigned (c :: r)
  | [] => None
  end.

(* iteration over a text file: lines with their terminator kept *)
Fixpoint split_lines (t : str) : list str :=
  match t with
  | [] => []
  | c :: r =>
      if is_nl c then [c] :: split_lines r
      else match split_lines r with
           | [] => [[c]]
           | l :: ls => (c :: l) :: ls
           end
  end.

Definition ends_nl (l : str) : bool :=
  match last_opt l with Some c => is_nl c | None => false end.

Definition no_nl (l : str) : Prop := forall c, In c l -> is_nl c = false.

Definition lit (x : string) : str := list_ascii_of_string x.

(* compact literals for the generated cases files: a byte per character
   instead of eight booleans (the listings are embedded once per file) *)
Inductive bstr := BS (l : list byte).
Definition bstr_bytes (b : bstr) : list byte := match b with BS l => l end.
Declare Scope bstr_scope.
Delimit Scope bstr_scope with bs.
String Notation bstr BS bstr_bytes : bstr_scope.
Definition lit_b (b : bstr) : str := map ascii_of_byte (bstr_bytes b).
Definition bsn (l : list N) : bstr :=
  BS (map (fun n => match Byte.of_N n with Some b => b | None => x00 end) l).

(* ---- validation against CPython (evaluated by the driver) ---- *)
Inductive pyq :=
| QSplit (x : string) (r : list string)
| QLstrip (x : string) (r : string)
| QContains (sub x : string) (r : bool)
| QStarts (p x : string) (r : bool)
| QIsdigit (x : string) (r : bool)
| QInt (x : string) (r : option Z)
| QLines (x : string) (r : list string)
| QIndex (x : string) (l : list string) (r : option nat).

Definition list_eqb {A} (eqb : A -> A -> bool) :=
  fix go (l1 l2 : list A) : bool :=
    match l1, l2 with
    | [], [] => true
    | a :: r1, b :: r2 => eqb a b && go r1 r2
    | _, _ => false
    end.

Definition opt_eqb {A} (eqb : A -> A -> bool) (a b : option A) : bool :=
  match a, b with
  | None, None => true
  | Some x, Some y => eqb x y
  | _, _ => false
  end.

Definition check_pyq (q : pyq) : bool :=
  match q with
  | QSplit x r => list_eqb str_eqb (split_ws (lit x)) (map lit r)
  | QLstrip x r => str_eqb (lstrip (lit x)) (lit r)
  | QContains sub x r => Bool.eqb (contains (lit sub) (lit x)) r
  | QStarts p x r => Bool.eqb (startswith (lit p) (lit x)) r
  | QIsdigit x r => Bool.eqb (all_digits (lit x)) r
  | QInt x r => opt_eqb Z.eqb (py_int (lit x)) r
  | QLines x r => list_eqb str_eqb (split_lines (lit x)) (map lit r)
  | QIndex x l r => opt_eqb Nat.eqb (index_of (lit x) (map lit l)) r
  end.

(* The hypotheses of the C11 theorems are met by concrete listings, and the
   behaviour of the pinned tree violated the statement. *)
From Coq Require Import List ZArith NArith Bool Arith Lia Ascii String.
From VV Require Import C11.Pystr C11.Model C11.Proofs.
Import ListNotations.
Local Open Scope Z_scope.
Local Open Scope string_scope.

Definition NL : string := String (ascii_of_N 10) EmptyString.
Definition txt (lines : list string) : str := lit (String.concat NL lines ++ NL).

Definition head_lines : list string :=
  [" BATCH 10"; " initialization time (s): 7"; " batch number : 5";
   " RESULTS ARE GIVEN FOR SOURCE INTENSITY : 1.000000e+00"; " keff = 1.0";
   " Edition after batch number : 5"; " simulation time (s) : 27"].
Definition tail_lines : list string :=
  [" batch number : 10"; " RESULTS ARE GIVEN FOR SOURCE INTENSITY : 1.000000e+00";
   " Edition after batch number : 10"; " simulation time (s) : 61"; " NORMAL COMPLETION"].

Definition P1 : str := txt head_lines.                       (* one complete edition *)
Definition S1 : str := txt tail_lines.
(* the prefix that stops inside the digits of the second end-flag time *)
Definition P2 : str := (P1 ++ lit (String.concat NL
  [" batch number : 10"; " RESULTS ARE GIVEN FOR SOURCE INTENSITY : 1.000000e+00";
   " Edition after batch number : 10"; " simulation time (s) : 6"]))%list.

Definition keys (o : outcome (st str)) : option (list Z * list (tkey * tval)) :=
  match o with Ok s => Some (map fst (s_coll s), s_times s) | Err _ => None end.

Example full_scan : keys (scan_text (P1 ++ S1)%list)
  = Some ([5; 10], [((FSim, 5), TInt 27); ((FSim, 10), TInt 61)]).
Proof. vm_compute. reflexivity. Qed.

Example prefix_scan : keys (scan_text P1) = Some ([5], [((FSim, 5), TInt 27)]).
Proof. vm_compute. reflexivity. Qed.

(* cut inside the end-flag time: the second edition is not stored (with the
   pinned tree it was stored with time 6) *)
Example cut_in_end_flag : keys (scan_text P2) = Some ([5], [((FSim, 5), TInt 27)]).
Proof. vm_compute. reflexivity. Qed.

(* cut inside the first edition: the scanner's own exception *)
Example cut_in_first_edition :
  scan_text (lit (String.concat NL (firstn 5 head_lines))) = Err ScannerExc.
Proof. vm_compute. reflexivity. Qed.

(* the pinned tree: cut after "initialization time (s):" -> bare IndexError;
   " batch number :" -> bare ValueError *)
Example other_exception_refuted :
  scan_text_raw (lit " BATCH 10" ++ lit NL ++ lit " initialization time (s):")%list = Err (Other IndexError)
  /\ scan_text_raw (txt (firstn 2 head_lines) ++ lit " batch number :")%list = Err (Other ValueError).
Proof. split; vm_compute; reflexivity. Qed.

Example now_scanner_exception :
  scan_text (lit " BATCH 10" ++ lit NL ++ lit " initialization time (s):")%list = Err ScannerExc.
Proof. vm_compute. reflexivity. Qed.

(* hypotheses of prefix_parse_identical for edition 5 of P1 inside P1 ++ S1,
   with a grammar that reads the time of the last line *)
Definition toy_parse (blk : block str) : presult nat Z :=
  match last_opt blk with
  | Some l => match is_end_flag l, last_opt (split_ws l) with
              | Some f, Some t => match py_int t with
                                  | Some z => PRes nat Z true (Some (Some f, z)) (List.length blk)
                                  | None => PRaise nat Z PE_Parser
                                  end
              | _, _ => PRaise nat Z PE_Parser
              end
  | None => PRaise nat Z PE_Parser
  end.
Definition toy_ne (v : Z) (tv : tval) : bool := negb (tval_eqb (TInt v) tv).

Example parse_prefix_ok :
  open_and_parse nat Z toy_ne toy_parse (self_tagged P1) (Number 5)
  = Ok (mk_result nat 4%nat 5 [(FSim, TInt 27)]).
Proof. vm_compute. reflexivity. Qed.

Example edition_closed_ok :
  exists sP sF, scan_text P1 = Ok sP /\ scan_text (P1 ++ S1)%list = Ok sF /\
                edition_closed sP sF 5 /\ (s_partial sP = true -> s_partial sF = true).
Proof.
  destruct (scan_text P1) as [sP|] eqn:EP; [|vm_compute in EP; discriminate].
  destruct (scan_text (P1 ++ S1)%list) as [sF|] eqn:EF; [|vm_compute in EF; discriminate].
  exists sP, sF. split; [reflexivity|]. split; [reflexivity|].
  vm_compute in EP. vm_compute in EF. inversion EP; subst sP. inversion EF; subst sF.
  split; [split|].
  - cbn. intros a Ha e He. destruct a as [|x [|y a]]; cbn in Ha.
    + discriminate.
    + inversion Ha; subst. destruct He as [<-|[]]. cbn. discriminate.
    + apply (f_equal (@List.length _)) in Ha. cbn in Ha. rewrite app_length in Ha. cbn in Ha. lia.
  - cbn. intros c Hc e He. destruct c as [|x [|y c]]; cbn in Hc.
    + discriminate.
    + inversion Hc; subst. destruct He as [<-|[]]. cbn. discriminate.
    + apply (f_equal (@List.length _)) in Hc. cbn in Hc. rewrite app_length in Hc. cbn in Hc. lia.
  - cbn. discriminate.
Qed.

(* Functional specification, by paths, of the model of Env.apply
   (Sched/EnvApply.v): what every path reads after a successful merge, the
   update is readable, nothing else changes, when the merge fails. *)
From Coq Require Import List Bool Arith Lia.
From VV Require Import Sched.EnvApply.
Import ListNotations.

Local Arguments merge : simpl never.
Lemma merge_leaf n old : merge (Leaf n) old = Some (Leaf n).
Proof. reflexivity. Qed.
Lemma merge_dict_leaf l m :
  merge (Dict l) (Leaf m) = match l with [] => Some (Leaf m) | _ :: _ => None end.
Proof. reflexivity. Qed.
Lemma merge_dict_dict l ol :
  merge (Dict l) (Dict ol) = match merge_items merge l ol with
                             | Some res => Some (Dict res)
                             | None => None
                             end.
Proof. reflexivity. Qed.

(* ================= lookup / set ================= *)
Lemma lookup_set_same k v l : lookup k (set k v l) = Some v.
Proof.
  induction l as [|[k' v'] r IH]; simpl.
  - now rewrite Nat.eqb_refl.
  - destruct (Nat.eqb k' k) eqn:E; simpl; rewrite E; auto.
Qed.
Lemma lookup_set_other k k0 v l : k <> k0 -> lookup k (set k0 v l) = lookup k l.
Proof.
  intros H. induction l as [|[k' v'] r IH]; simpl.
  - destruct (Nat.eqb_spec k0 k); [congruence|reflexivity].
  - destruct (Nat.eqb_spec k' k0); simpl.
    + subst. destruct (Nat.eqb_spec k0 k); [congruence|reflexivity].
    + destruct (Nat.eqb k' k); auto.
Qed.
Lemma set_same k v l : lookup k l = Some v -> set k v l = l.
Proof.
  induction l as [|[k' v'] r IH]; simpl; [discriminate|].
  destruct (Nat.eqb k' k); intros H; [now inversion H | now rewrite IH].
Qed.
Lemma lookup_In k l v : lookup k l = Some v -> In (k, v) l.
Proof.
  induction l as [|[k' v'] r IH]; simpl; [discriminate|].
  destruct (Nat.eqb_spec k' k); intros H; [inversion H; subst; auto | auto].
Qed.
Lemma lookup_none_notin k l : lookup k l = None -> ~ In k (map fst l).
Proof.
  induction l as [|[k' v'] r IH]; simpl; [tauto|].
  destruct (Nat.eqb_spec k' k); [discriminate|]. intros H [E|I]; [congruence | now apply IH].
Qed.
Lemma notin_lookup_none k l : ~ In k (map fst l) -> lookup k l = None.
Proof.
  induction l as [|[k' v'] r IH]; simpl; auto.
  intros H. destruct (Nat.eqb_spec k' k); [tauto | apply IH; tauto].
Qed.

(* ================= well-formedness ================= *)
Lemma nodupb_NoDup l : nodupb l = true -> NoDup l.
Proof.
  induction l as [|x r IH]; simpl; intros H; constructor; apply andb_true_iff in H as [H1 H2]; auto.
  intros Hin. apply negb_true_iff in H1.
  assert (existsb (Nat.eqb x) r = true); [|congruence].
  apply existsb_exists. exists x. split; auto. apply Nat.eqb_refl.
Qed.
Lemma wf_keys l : wf (Dict l) = true -> NoDup (map fst l).
Proof. simpl. intros H. apply andb_true_iff in H as [H _]. now apply nodupb_NoDup. Qed.
Lemma wf_In l k v : wf (Dict l) = true -> In (k, v) l -> wf v = true.
Proof.
  simpl. intros H Hin. apply andb_true_iff in H as [_ H].
  eapply forallb_forall in H; eauto. exact H.
Qed.
Lemma wf_lookup l k v : wf (Dict l) = true -> lookup k l = Some v -> wf v = true.
Proof. intros H E. apply (wf_In l k v H). now apply lookup_In. Qed.
Lemma wf_tail x l : wf (Dict (x :: l)) = true -> wf (Dict l) = true.
Proof.
  simpl. intros H. apply andb_true_iff in H as [H1 H2].
  apply andb_true_iff in H1 as [_ H1]. apply andb_true_iff in H2 as [_ H2].
  now rewrite H1, H2.
Qed.

(* ================= one level of the merge ================= *)
(* what the loop leaves at key k, when it succeeds *)
Definition level (l acc : list (nat * val)) (k : nat) : option val :=
  match lookup k l with
  | None => lookup k acc
  | Some (Leaf n) => Some (Leaf n)
  | Some (Dict u') => match lookup k acc with
                      | Some o => merge (Dict u') o
                      | None => Some (Dict u')
                      end
  end.

Lemma merge_items_level l : NoDup (map fst l) ->
  forall acc res, merge_items merge l acc = Some res -> forall k, lookup k res = level l acc k.
Proof.
  unfold level. induction l as [|[k0 v0] r IH]; simpl; intros Hd acc res H k.
  - now inversion H.
  - inversion Hd as [|? ? Hn Hd']; subst.
    assert (G : forall x, merge_items merge r (set k0 x acc) = Some res ->
                lookup k res = if Nat.eqb k0 k then Some x
                               else match lookup k r with
                                    | None => lookup k acc
                                    | Some (Leaf n) => Some (Leaf n)
                                    | Some (Dict u') => match lookup k acc with
                                                        | Some o => merge (Dict u') o
                                                        | None => Some (Dict u')
                                                        end
                                    end).
    { intros x Hx. rewrite (IH Hd' _ _ Hx k). destruct (Nat.eqb_spec k0 k) as [<-|Hne].
      - rewrite (notin_lookup_none _ _ Hn). apply lookup_set_same.
      - rewrite lookup_set_other by auto. reflexivity. }
    destruct v0 as [n|u'].
    + rewrite (G _ H). now destruct (Nat.eqb k0 k).
    + destruct (lookup k0 acc) as [o|] eqn:Lo.
      * destruct (merge (Dict u') o) as [m|] eqn:Mg; [|discriminate].
        rewrite (G _ H). destruct (Nat.eqb_spec k0 k) as [<-|]; auto. now rewrite Lo.
      * rewrite (G _ H). destruct (Nat.eqb_spec k0 k) as [<-|]; auto. now rewrite Lo.
Qed.

(* the loop fails exactly when the recursive merge of some entry fails *)
Lemma merge_items_none l : NoDup (map fst l) ->
  forall acc, merge_items merge l acc = None <->
              exists k u' o, lookup k l = Some (Dict u') /\ lookup k acc = Some o
                             /\ merge (Dict u') o = None.
Proof.
  induction l as [|[k0 v0] r IH]; simpl; intros Hd acc.
  - split; [discriminate | intros (k & u' & o & H & _); discriminate].
  - inversion Hd as [|? ? Hn Hd']; subst.
    assert (G : forall x,
      (exists k u' o, lookup k r = Some (Dict u') /\ lookup k (set k0 x acc) = Some o
                      /\ merge (Dict u') o = None)
      <-> (exists k u' o, k0 <> k /\ lookup k r = Some (Dict u') /\ lookup k acc = Some o
                          /\ merge (Dict u') o = None)).
    { intros x. split.
      - intros (k & u' & o & H1 & H2 & H3). exists k, u', o.
        assert (k0 <> k) by (intros <-; rewrite (notin_lookup_none _ _ Hn) in H1; discriminate).
        rewrite lookup_set_other in H2 by auto. auto.
      - intros (k & u' & o & Hne & H1 & H2 & H3). exists k, u', o.
        rewrite lookup_set_other by auto. auto. }
    assert (Tail : forall x,
      merge_items merge r (set k0 x acc) = None <->
      exists k u' o, (if Nat.eqb k0 k then Some v0 else lookup k r) = Some (Dict u')
                     /\ lookup k acc = Some o /\ merge (Dict u') o = None /\ k0 <> k).
    { intros x. rewrite (IH Hd'), G. split; intros (k & u' & o & H); exists k, u', o.
      - destruct H as (Hne & H1 & H2 & H3). destruct (Nat.eqb_spec k0 k); [congruence|auto].
      - destruct H as (H1 & H2 & H3 & Hne). destruct (Nat.eqb_spec k0 k); [congruence|auto]. }
    destruct v0 as [n|u0].
    + rewrite Tail. split; intros (k & u' & o & H); exists k, u', o.
      * tauto.
      * destruct (Nat.eqb_spec k0 k); [destruct H as (H & _); discriminate | tauto].
    + destruct (lookup k0 acc) as [o0|] eqn:Lo.
      * destruct (merge (Dict u0) o0) as [m|] eqn:Mg.
        -- rewrite Tail. split; intros (k & u' & o & H); exists k, u', o; [tauto|].
           destruct (Nat.eqb_spec k0 k) as [<-|]; [|tauto].
           destruct H as (H1 & H2 & H3). inversion H1; subst. congruence.
        -- split; auto. intros _. exists k0, u0, o0. now rewrite Nat.eqb_refl.
      * rewrite Tail. split; intros (k & u' & o & H); exists k, u', o; [tauto|].
        destruct (Nat.eqb_spec k0 k) as [<-|]; [|tauto].
        destruct H as (_ & H2 & _). congruence.
Qed.

(* ================= (a) the specification by paths ================= *)
Lemma get_path_leaf n p x : get_path (Leaf n) p = Some x -> p = [] /\ x = Leaf n.
Proof. destruct p; simpl; intros H; inversion H; auto. Qed.

Theorem apply_spec :
  forall p u old e', wf u = true -> merge u old = Some e' -> get_path e' p = spec u old p.
Proof.
  induction p as [|k rest IH]; intros u old e' W M.
  - simpl. now rewrite M.
  - destruct u as [n|l].
    + rewrite merge_leaf in M. inversion M; subst. reflexivity.
    + destruct old as [m|ol].
      * rewrite merge_dict_leaf in M. destruct l; [|discriminate]. inversion M; subst. reflexivity.
      * rewrite merge_dict_dict in M.
        destruct (merge_items merge l ol) as [res|] eqn:G; [|discriminate]. inversion M; subst.
        simpl. rewrite (merge_items_level l (wf_keys _ W) _ _ G k). unfold level.
        destruct (lookup k l) as [[n|u']|] eqn:Lk; auto.
        destruct (lookup k ol) as [o|] eqn:Lo; auto.
        destruct (merge (Dict u') o) as [m|] eqn:Mg.
        -- apply IH; auto. eapply wf_lookup; eauto.
        -- exfalso. assert (N : merge_items merge l ol = None); [|congruence].
           apply merge_items_none; [now apply wf_keys|]. eauto 6.
Qed.

(* the form for the environment: both are dictionaries *)
Corollary apply_spec_dict :
  forall u old e', wf (Dict u) = true -> merge (Dict u) (Dict old) = Some e' ->
  forall p, get_path e' p = spec (Dict u) (Dict old) p.
Proof. intros. now apply apply_spec. Qed.

(* ================= (b) corollaries ================= *)
(* every leaf of the update is read at the same path afterwards *)
Theorem update_readable :
  forall p u old e' n, wf u = true -> merge u old = Some e' ->
  get_path u p = Some (Leaf n) -> get_path e' p = Some (Leaf n).
Proof.
  induction p as [|k rest IH]; intros u old e' n W M R.
  - simpl in R. inversion R; subst. rewrite merge_leaf in M. inversion M. reflexivity.
  - rewrite (apply_spec _ _ _ _ W M).
    destruct u as [x|l]; [discriminate|]. simpl in *.
    destruct (lookup k l) as [[x|u']|] eqn:Lk; [exact R | | discriminate].
    destruct (lookup_val k old) as [o|] eqn:Lo; [|exact R].
    destruct old as [m|ol]; [discriminate|]. simpl in Lo. rewrite merge_dict_dict in M.
    destruct (merge_items merge l ol) as [res|] eqn:G; [|discriminate].
    destruct (merge (Dict u') o) as [mm|] eqn:Mg.
    + rewrite <- (apply_spec rest (Dict u') o mm); eauto using wf_lookup.
    + exfalso. assert (N : merge_items merge l ol = None); [|congruence].
      apply merge_items_none; [now apply wf_keys|]. eauto 6.
Qed.

(* a top-level key that the update does not mention keeps its old value, whatever is below it *)
Theorem apply_frame_top :
  forall u old e' k rest, wf (Dict u) = true -> merge (Dict u) (Dict old) = Some e' ->
  lookup k u = None -> get_path e' (k :: rest) = get_path (Dict old) (k :: rest).
Proof.
  intros u old e' k rest W M L. rewrite (apply_spec _ _ _ _ W M). simpl. now rewrite L.
Qed.

Lemma untouched_none p : forall u, untouched u p = true -> get_path u p = None.
Proof.
  induction p as [|k rest IH]; intros u H; simpl in *; [discriminate|].
  destruct u as [n|l]; [discriminate|].
  destruct (lookup k l) as [[n|u']|]; try discriminate; auto.
Qed.

(* more generally: a path that leaves the update is unchanged *)
Theorem apply_frame :
  forall p u old e', wf u = true -> merge u old = Some e' ->
  untouched u p = true -> get_path e' p = get_path old p.
Proof.
  induction p as [|k rest IH]; intros u old e' W M U; [discriminate|].
  rewrite (apply_spec _ _ _ _ W M). simpl in *.
  destruct u as [n|l]; [discriminate|]. simpl.
  destruct (lookup k l) as [[n|u']|] eqn:Lk; [discriminate | | reflexivity].
  destruct old as [m|ol]; simpl.
  - now apply untouched_none.
  - destruct (lookup k ol) as [o|] eqn:Lo; [|now apply untouched_none].
    rewrite merge_dict_dict in M. destruct (merge_items merge l ol) as [res|] eqn:G; [|discriminate].
    destruct (merge (Dict u') o) as [mm|] eqn:Mg.
    + rewrite <- (apply_spec rest (Dict u') o mm); eauto using wf_lookup.
    + exfalso. assert (N : merge_items merge l ol = None); [|congruence].
      apply merge_items_none; [now apply wf_keys|]. eauto 6.
Qed.

(* ---------- when does the call raise ---------- *)
Inductive clash : val -> val -> Prop :=
| clash_here x l m : clash (Dict (x :: l)) (Leaf m)
| clash_deep l ol k u' o :
    lookup k l = Some (Dict u') -> lookup k ol = Some o -> clash (Dict u') o ->
    clash (Dict l) (Dict ol).

(* induction on values through the lists *)
Fixpoint vsize (v : val) : nat :=
  match v with
  | Leaf _ => 1
  | Dict l => S (fold_right (fun kv a => vsize (snd kv) + a) 0 l)
  end.
Lemma vsize_In k v l : In (k, v) l -> vsize v < vsize (Dict l).
Proof.
  simpl. induction l as [|[k' v'] r IH]; simpl; [tauto|].
  intros [E|H]; [inversion E; subst; lia | specialize (IH H); lia].
Qed.

Lemma merge_none_clash : forall n u old, vsize u <= n -> wf u = true ->
  (merge u old = None <-> clash u old).
Proof.
  induction n as [|n IH]; intros u old Hs W.
  - destruct u; simpl in Hs; lia.
  - destruct u as [x|l].
    + rewrite merge_leaf. split; [discriminate | intros H; inversion H].
    + destruct old as [m|ol].
      * rewrite merge_dict_leaf.
        destruct l; split; try discriminate; try constructor; auto. intros H; inversion H.
      * rewrite merge_dict_dict. assert (E : merge_items merge l ol = None <-> clash (Dict l) (Dict ol)).
        { rewrite (merge_items_none l (wf_keys _ W)). split.
          - intros (k & u' & o & H1 & H2 & H3). eapply clash_deep; eauto.
            apply (IH (Dict u') o); auto.
            + pose proof (vsize_In _ _ _ (lookup_In _ _ _ H1)). lia.
            + eapply wf_lookup; eauto.
          - intros H. inversion H; subst. exists k, u', o. repeat split; auto.
            apply (IH (Dict u') o); auto.
            + pose proof (vsize_In _ _ _ (lookup_In _ _ _ H2)). lia.
            + eapply wf_lookup; eauto. }
        destruct (merge_items merge l ol); split; intros H; try discriminate; auto.
        -- apply E in H. discriminate.
        -- now apply E.
Qed.

Lemma clash_path u old :
  clash u old <-> exists p x l m, get_path u p = Some (Dict (x :: l)) /\ get_path old p = Some (Leaf m).
Proof.
  split.
  - induction 1 as [x l m | l ol k u' o H1 H2 _ (p & x & l' & m & P1 & P2)].
    + exists [], x, l, m. auto.
    + exists (k :: p), x, l', m. simpl. now rewrite H1, H2.
  - intros (p & x & l & m & P1 & P2). revert u old P1 P2.
    induction p as [|k rest IH]; intros u old P1 P2; simpl in *.
    + inversion P1; inversion P2; subst. constructor.
    + destruct u as [n|ul]; [discriminate|]. destruct old as [n|ol]; [discriminate|].
      destruct (lookup k ul) as [v|] eqn:L1; [|discriminate].
      destruct (lookup k ol) as [o|] eqn:L2; [|discriminate].
      destruct v as [n|u'].
      * apply get_path_leaf in P1 as [_ P1]. discriminate.
      * eapply clash_deep; eauto.
Qed.

(* the call raises iff some non-empty dictionary of the update meets a leaf of the environment *)
Theorem apply_fails_only_on_leaf_clash :
  forall u old, wf u = true ->
  (merge u old = None <->
   exists p x l m, get_path u p = Some (Dict (x :: l)) /\ get_path old p = Some (Leaf m)).
Proof.
  intros u old W. rewrite <- clash_path. now apply (merge_none_clash (vsize u)).
Qed.

(* ---------- idempotence ---------- *)
Lemma merge_items_fix res l : NoDup (map fst l) ->
  (forall k v, lookup k l = Some v ->
     match v with
     | Leaf n => lookup k res = Some (Leaf n)
     | Dict u' => exists m, lookup k res = Some m /\ merge (Dict u') m = Some m
     end) ->
  merge_items merge l res = Some res.
Proof.
  induction l as [|[k0 v0] r IH]; simpl; intros Hd H; auto.
  inversion Hd as [|? ? Hn Hd']; subst.
  assert (Hr : forall k v, lookup k r = Some v ->
     match v with
     | Leaf n => lookup k res = Some (Leaf n)
     | Dict u' => exists m, lookup k res = Some m /\ merge (Dict u') m = Some m
     end).
  { intros k v L. apply H. destruct (Nat.eqb_spec k0 k) as [<-|]; auto.
    rewrite (notin_lookup_none _ _ Hn) in L. discriminate. }
  specialize (H k0 v0). rewrite Nat.eqb_refl in H. specialize (H eq_refl).
  destruct v0 as [n|u0].
  - rewrite set_same by auto. auto.
  - destruct H as (m & L & M). rewrite L, M, set_same by auto. auto.
Qed.

Lemma merge_self : forall n u, vsize u <= n -> wf u = true -> merge u u = Some u.
Proof.
  induction n as [|n IH]; intros u Hs W; [destruct u; simpl in Hs; lia|].
  destruct u as [x|l]; [reflexivity|]. rewrite merge_dict_dict.
  rewrite (merge_items_fix l l); auto using wf_keys.
  intros k v L. destruct v as [x|u']; auto. exists (Dict u'). split; auto.
  apply IH; [|eapply wf_lookup; eauto].
  pose proof (vsize_In _ _ _ (lookup_In _ _ _ L)). lia.
Qed.

Lemma merge_idem_n : forall n u old e', vsize u <= n -> wf u = true ->
  merge u old = Some e' -> merge u e' = Some e'.
Proof.
  induction n as [|n IH]; intros u old e' Hs W M; [destruct u; simpl in Hs; lia|].
  destruct u as [x|l]; [rewrite merge_leaf in *; auto|].
  destruct old as [m|ol].
  - rewrite merge_dict_leaf in M. destruct l; [|discriminate]. inversion M; subst. reflexivity.
  - rewrite merge_dict_dict in M.
    destruct (merge_items merge l ol) as [res|] eqn:G; [|discriminate]. inversion M; subst.
    rewrite merge_dict_dict. rewrite (merge_items_fix res l); auto using wf_keys.
    intros k v L. rewrite (merge_items_level l (wf_keys _ W) _ _ G k). unfold level. rewrite L.
    destruct v as [x|u']; auto.
    assert (Su : vsize (Dict u') <= n) by (pose proof (vsize_In _ _ _ (lookup_In _ _ _ L)); lia).
    assert (Wu : wf (Dict u') = true) by (eapply wf_lookup; eauto).
    destruct (lookup k ol) as [o|] eqn:Lo.
    + destruct (merge (Dict u') o) as [mm|] eqn:Mg.
      * exists mm. split; auto. eapply IH; eauto.
      * exfalso. assert (N : merge_items merge l ol = None); [|congruence].
        apply merge_items_none; [now apply wf_keys|]. eauto 6.
    + exists (Dict u'). split; auto. now apply (merge_self n).
Qed.

(* applying the same update twice is the same as applying it once *)
Theorem apply_idempotent :
  forall u old e', wf u = true -> merge u old = Some e' -> merge u e' = Some e'.
Proof. intros u old e' W M. now apply (merge_idem_n (vsize u) u old e'). Qed.

(* ---------- the canonical form used by the correspondence check keeps the content ---------- *)
Lemma lookup_insert_kv k k0 v l :
  lookup k (insert_kv k0 v l) = if Nat.eqb k0 k then Some v else lookup k l.
Proof.
  induction l as [|[k' v'] r IH]; simpl; auto.
  destruct (Nat.leb_spec k0 k'); simpl; auto.
  rewrite IH. destruct (Nat.eqb_spec k0 k); auto.
  destruct (Nat.eqb_spec k' k); auto. lia.
Qed.
Lemma lookup_sort_kvs k l : lookup k (sort_kvs l) = lookup k l.
Proof.
  induction l as [|[k0 v0] r IH]; simpl; auto. now rewrite lookup_insert_kv, IH.
Qed.
Lemma lookup_map_norm k l :
  lookup k (map (fun kv => (fst kv, norm (snd kv))) l) = option_map norm (lookup k l).
Proof.
  induction l as [|[k0 v0] r IH]; simpl; auto. destruct (Nat.eqb k0 k); auto.
Qed.

Theorem norm_get_path :
  forall p v, get_path (norm v) p = option_map norm (get_path v p).
Proof.
  induction p as [|k rest IH]; intros v; [reflexivity|].
  destruct v as [n|l]; [reflexivity|]. simpl.
  rewrite lookup_sort_kvs, lookup_map_norm. destruct (lookup k l); simpl; auto.
Qed.

(* two values with the same canonical form hold the same leaves at the same paths *)
Corollary norm_eq_same_leaves :
  forall a b, norm a = norm b ->
  forall p n, get_path a p = Some (Leaf n) <-> get_path b p = Some (Leaf n).
Proof.
  assert (G : forall a b, norm a = norm b -> forall p n,
              get_path a p = Some (Leaf n) -> get_path b p = Some (Leaf n)).
  { intros a b E p n H. pose proof (norm_get_path p a) as Ha. pose proof (norm_get_path p b) as Hb.
    rewrite E, Hb, H in Ha. simpl in Ha.
    destruct (get_path b p) as [[m|l]|]; simpl in Ha; inversion Ha; reflexivity. }
  intros a b E p n. split; apply G; auto.
Qed.

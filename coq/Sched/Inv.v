(* Structural invariants of the scheduler model (design.d/Sched-proof-plan.md):
   Inv-struct, Inv-flight, Inv-junk, Inv-clock, Inv-entry (+ a light form of
   Inv-count, enough to know that every task is settled when the master has
   returned), as one record [inv c e0 st0 clk s], with [inv_init], [inv_step],
   [inv_reachable]; and the lemma library they rest on. *)
From Coq Require Import List Bool Arith Lia Permutation.
From VV Require Import Sched.Model Sched.Defs.
Import ListNotations.

(* ================= upd ================= *)
Lemma upd_same {X} (f : nat -> X) k v : upd f k v k = v.
Proof. unfold upd. now rewrite Nat.eqb_refl. Qed.
Lemma upd_other {X} (f : nat -> X) k v j : j <> k -> upd f k v j = f j.
Proof. unfold upd. intros H. apply Nat.eqb_neq in H. now rewrite H. Qed.
Lemma upd_eq_cases {X} (f : nat -> X) k v j :
  (j = k /\ upd f k v j = v) \/ (j <> k /\ upd f k v j = f j).
Proof.
  destruct (Nat.eq_dec j k); [left|right]; subst; now rewrite ?upd_same, ?upd_other.
Qed.

(* ================= statuses ================= *)
Lemma status_eqb_eq a b : status_eqb a b = true <-> a = b.
Proof. destruct a, b; simpl; split; congruence. Qed.
Lemma status_eqb_refl a : status_eqb a a = true.
Proof. now destruct a. Qed.
Lemma is_st_eq e st t : is_st e st t = true <-> stat e t = st.
Proof. unfold is_st. apply status_eqb_eq. Qed.
Lemma is_st_false e st t : is_st e st t = false <-> stat e t <> st.
Proof.
  unfold is_st. split.
  - intros H E. rewrite E, status_eqb_refl in H. discriminate.
  - intros H. destruct (status_eqb (stat e t) st) eqn:E; auto. apply status_eqb_eq in E. contradiction.
Qed.
Lemma absent_false e t : absent e t = false <-> exists st, est (e t) = Some st.
Proof.
  unfold absent. destruct (est (e t)); split; intros H; try discriminate; eauto.
  destruct H; discriminate.
Qed.
Lemma stat_some e t st : est (e t) = Some st -> stat e t = st.
Proof. unfold stat. now intros ->. Qed.
Lemma final_at_iff e d :
  final_at e d = true <-> exists st, est (e d) = Some st /\ is_final st = true.
Proof.
  unfold final_at, absent, stat. destruct (est (e d)) as [st|]; simpl; split.
  - intros H; eauto.
  - intros (st' & E & H). now inversion E; subst.
  - discriminate.
  - intros (st' & E & _); discriminate.
Qed.
Lemma final_at_ext e e' d : e' d = e d -> final_at e' d = final_at e d.
Proof. unfold final_at, absent, stat. now intros ->. Qed.

Lemma est_set_same e t st : est (set_status e t st t) = Some st.
Proof. unfold set_status. now rewrite upd_same. Qed.
Lemma set_status_other e t st x : x <> t -> set_status e t st x = e x.
Proof. unfold set_status. intros; now rewrite upd_other. Qed.
Lemma stat_set_same e t st : stat (set_status e t st) t = st.
Proof. unfold stat. now rewrite est_set_same. Qed.
Lemma is_st_set_same e t a b : is_st (set_status e t a) b t = status_eqb a b.
Proof. unfold is_st. now rewrite stat_set_same. Qed.
Lemma is_st_set_other e t a b d : d <> t -> is_st (set_status e t a) b d = is_st e b d.
Proof. unfold is_st, stat. intros; now rewrite set_status_other. Qed.
Lemma absent_set_same e t a : absent (set_status e t a) t = false.
Proof. unfold absent. now rewrite est_set_same. Qed.
Lemma absent_set_other e t a d : d <> t -> absent (set_status e t a) d = absent e d.
Proof. unfold absent. intros; now rewrite set_status_other. Qed.

Definition payload_eq (x y : entry) : Prop := ever x = ever y /\ esc x = esc y /\ eec x = eec y.
Lemma payload_eq_refl x : payload_eq x x.
Proof. now repeat split. Qed.
Lemma payload_eq_trans x y z : payload_eq x y -> payload_eq y z -> payload_eq x z.
Proof. unfold payload_eq. intuition congruence. Qed.
Lemma payload_set_same e t st : payload_eq (set_status e t st t) (e t).
Proof. unfold set_status. rewrite upd_same. now repeat split. Qed.

(* ================= lists ================= *)
Lemma existsb_false {A} (f : A -> bool) l :
  existsb f l = false -> forall x, In x l -> f x = false.
Proof.
  intros H x Hx. destruct (f x) eqn:E; auto.
  assert (existsb f l = true) by (apply existsb_exists; eauto). congruence.
Qed.

Lemma NoDup_app_iff {A} (a b : list A) :
  NoDup (a ++ b) <-> NoDup a /\ NoDup b /\ (forall x, In x a -> ~ In x b).
Proof.
  induction a as [|x a IH]; simpl.
  - split; [intros H; repeat split; auto; constructor | tauto].
  - split.
    + intros H. inversion H as [|? ? Hn Hd]; subst. apply IH in Hd as (Ha & Hb & Hab).
      repeat split; auto.
      * constructor; auto. intros Hx; apply Hn, in_app_iff; auto.
      * intros y [<-|Hy] Hyb; [apply Hn, in_app_iff; auto | eapply Hab; eauto].
    + intros (Ha & Hb & Hab). inversion Ha; subst. constructor.
      * rewrite in_app_iff. intros [?|?]; [contradiction | eapply Hab; eauto].
      * apply IH. repeat split; auto.
Qed.

Inductive sublist {A} : list A -> list A -> Prop :=
| sl_nil : sublist [] []
| sl_cons x l1 l2 : sublist l1 l2 -> sublist (x :: l1) (x :: l2)
| sl_skip x l1 l2 : sublist l1 l2 -> sublist l1 (x :: l2).

Lemma sublist_refl {A} (l : list A) : sublist l l.
Proof. induction l; constructor; auto. Qed.
Lemma sublist_nil_l {A} (l : list A) : sublist [] l.
Proof. induction l; constructor; auto. Qed.
Lemma sublist_trans {A} (l1 l2 l3 : list A) : sublist l1 l2 -> sublist l2 l3 -> sublist l1 l3.
Proof.
  intros H12 H23. revert l1 H12. induction H23; intros l0 H12.
  - auto.
  - inversion H12; subst; constructor; auto.
  - constructor; auto.
Qed.
Lemma sublist_In {A} (l1 l2 : list A) : sublist l1 l2 -> forall x, In x l1 -> In x l2.
Proof. induction 1; simpl; intuition. Qed.
Lemma sublist_NoDup {A} (l1 l2 : list A) : sublist l1 l2 -> NoDup l2 -> NoDup l1.
Proof.
  induction 1; intros Hd; auto.
  - inversion Hd; subst. constructor; auto. intros Hx; eapply sublist_In in Hx; eauto.
  - inversion Hd; auto.
Qed.
Lemma sublist_app_remove {A} (a b : list A) x : sublist (a ++ b) (a ++ x :: b).
Proof. induction a; simpl; constructor; auto using sublist_refl. Qed.
Lemma sublist_app_l {A} (a b : list A) : sublist a (a ++ b).
Proof. induction a; simpl; [apply sublist_nil_l | constructor; auto]. Qed.

Lemma pos_cons_neq x l t : x <> t -> pos (x :: l) t = S (pos l t).
Proof. simpl. intros H. apply Nat.eqb_neq in H. now rewrite H. Qed.
Lemma pos_cons_eq x l : pos (x :: l) x = 0.
Proof. simpl. now rewrite Nat.eqb_refl. Qed.

(* a sublist of a duplicate-free list keeps the relative order *)
Lemma sublist_pos_order (ord : list nat) l :
  sublist l ord -> NoDup ord ->
  forall a t b d, l = a ++ t :: b -> In d b -> pos ord t < pos ord d.
Proof.
  induction 1 as [|x l1 l2 Hs IH|x l1 l2 Hs IH]; intros Hd a t b d El Hb.
  - destruct a; discriminate.
  - inversion Hd as [|? ? Hn Hd']; subst.
    destruct a as [|y a]; simpl in El; inversion El; subst.
    + assert (In d l2) by (eapply sublist_In; eauto).
      rewrite pos_cons_eq, pos_cons_neq; [lia | congruence].
    + assert (In t l2) by (eapply sublist_In; eauto; apply in_app_iff; simpl; auto).
      assert (In d l2) by (eapply sublist_In; eauto; apply in_app_iff; simpl; auto).
      rewrite !pos_cons_neq by congruence. apply -> Nat.succ_lt_mono. eapply IH; eauto.
  - inversion Hd as [|? ? Hn Hd']; subst.
    assert (In t l2) by (eapply sublist_In; eauto; apply in_app_iff; simpl; auto).
    assert (In d l2) by (eapply sublist_In; eauto; apply in_app_iff; simpl; auto).
    rewrite !pos_cons_neq by congruence. apply -> Nat.succ_lt_mono. eapply IH; eauto.
Qed.

(* the topological argument: an earlier element of [ord] that is still in the
   list lies before the head of [todo] *)
Lemma sublist_earlier_in_acc (ord : list nat) acc t todo d :
  sublist (acc ++ t :: todo) ord -> NoDup ord ->
  In d (acc ++ t :: todo) -> pos ord d < pos ord t -> In d acc.
Proof.
  intros Hs Hd Hin Hlt. apply in_app_iff in Hin as [?|[<-|Hin]]; auto; [lia|].
  pose proof (sublist_pos_order _ _ Hs Hd _ _ _ _ eq_refl Hin). lia.
Qed.

Lemma queued_app q1 q2 : queued (q1 ++ q2) = queued q1 ++ queued q2.
Proof. induction q1 as [|[x|] q1 IH]; simpl; now rewrite ?IH. Qed.

(* flat_map over the workers when one worker's pc changes *)
Lemma flat_map_upd_notin (f : wpc -> list nat) wps w p l :
  ~ In w l -> flat_map (fun i => f (upd wps w p i)) l = flat_map (fun i => f (wps i)) l.
Proof.
  induction l as [|z l IH]; simpl; intros H; auto.
  rewrite upd_other, IH by intuition. reflexivity.
Qed.
Lemma flat_map_upd_perm (f : wpc -> list nat) wps w p l :
  NoDup l -> In w l ->
  Permutation (f (wps w) ++ flat_map (fun i => f (upd wps w p i)) l)
              (f p ++ flat_map (fun i => f (wps i)) l).
Proof.
  induction l as [|z l IH]; intros Hd Hin; [destruct Hin|].
  inversion Hd as [|? ? Hn Hd']; subst. simpl.
  destruct (Nat.eq_dec z w) as [->|Hne].
  - rewrite upd_same, flat_map_upd_notin by auto. apply Permutation_app_swap_app.
  - destruct Hin as [?|Hin]; [contradiction|]. rewrite upd_other by auto.
    rewrite Permutation_app_swap_app. rewrite (Permutation_app_swap_app (f p)).
    apply Permutation_app_head. auto.
Qed.
Lemma flat_map_upd_same (f : wpc -> list nat) wps w p l :
  f p = f (wps w) -> flat_map (fun i => f (upd wps w p i)) l = flat_map (fun i => f (wps i)) l.
Proof.
  intros H. apply flat_map_ext. intros a. destruct (upd_eq_cases wps w p a) as [[-> ->]|[_ ->]]; auto.
Qed.
Lemma in_flat_map_seq (f : nat -> list nat) n x :
  In x (flat_map f (seq 0 n)) <-> exists w, w < n /\ In x (f w).
Proof.
  rewrite in_flat_map. split; intros (w & Hw & Hx); exists w; split; auto.
  - apply in_seq in Hw; lia.
  - apply in_seq; lia.
Qed.

(* ================= decide / decide_waiting / publish ================= *)
Definition dec_status (r : decision) : option status :=
  match r with
  | RWaiting => Some WAITING | RPending => Some PENDING | RSkipped => Some SKIPPED | RNone => None
  end.

(* what a decision writes: only the status of the entry of t *)
Definition writes_status (e e' : nat -> entry) (t : nat) (st : status) : Prop :=
  (forall x, x <> t -> e' x = e x) /\ payload_eq (e' t) (e t) /\ est (e' t) = Some st.

Lemma writes_set e t st : writes_status e (set_status e t st) t st.
Proof.
  repeat split; try apply payload_set_same.
  - intros; now apply set_status_other.
  - apply est_set_same.
Qed.
Lemma writes_set2 e t a st : writes_status e (set_status (set_status e t a) t st) t st.
Proof.
  destruct (writes_set (set_status e t a) t st) as (H1 & H2 & H3).
  split; [|split]; auto.
  - intros x Hx. rewrite H1, set_status_other; auto.
  - eapply payload_eq_trans; eauto. apply payload_set_same.
Qed.
Lemma writes_set3 e t a b st :
  writes_status e (set_status (set_status (set_status e t a) t b) t st) t st.
Proof.
  destruct (writes_set2 (set_status e t a) t b st) as (H1 & H2 & H3).
  split; [|split]; auto.
  - intros x Hx. rewrite H1, set_status_other; auto.
  - eapply payload_eq_trans; eauto. apply payload_set_same.
Qed.

Lemma decide_waiting_spec c e t r e' :
  decide_waiting c e t = (r, e') ->
  exists st, dec_status r = Some st /\ e' = set_status e t st.
Proof.
  unfold decide_waiting. intros H.
  repeat match type of H with context[if ?b then _ else _] => destruct b end;
    inversion H; subst; simpl; eauto.
Qed.

Lemma decide_spec c e t r e' :
  decide c e t = (r, e') ->
  match dec_status r with
  | Some st => writes_status e e' t st
  | None => e' = e /\ est (e t) = Some DONE
  end.
Proof.
  unfold decide. intros H.
  destruct (is_st e DONE t && negb (absent e t) || is_st e WAITING t && negb (absent e t)) eqn:C1.
  - destruct (existsb _ (deps c t)); [inversion H; subst; simpl; apply writes_set|].
    destruct (is_st e DONE t) eqn:D.
    + destruct (existsb _ (deps c t)); [inversion H; subst; simpl; apply writes_set|].
      destruct (existsb _ (hdeps c t)).
      * apply decide_waiting_spec in H as (st & -> & ->). apply writes_set2.
      * assert (Hd : est (e t) = Some DONE).
        { simpl in C1. destruct (absent e t) eqn:A.
          - simpl in C1. rewrite andb_false_r in C1. discriminate.
          - apply absent_false in A as (st & E). apply is_st_eq in D.
            rewrite (stat_some _ _ _ E) in D. congruence. }
        destruct (last_end_time c e t); [destruct (esc (e t)); [destruct (Nat.leb _ _)|]|];
          inversion H; subst; simpl; auto using writes_set.
    + apply decide_waiting_spec in H as (st & -> & ->). apply writes_set.
  - destruct (existsb _ (deps c t)); [inversion H; subst; simpl; apply writes_set2|].
    rewrite is_st_set_same in H. simpl in H.
    apply decide_waiting_spec in H as (st & -> & ->). apply writes_set2.
Qed.

Lemma decide_other c e t r e' x : decide c e t = (r, e') -> x <> t -> e' x = e x.
Proof.
  intros H Hx. apply decide_spec in H. destruct (dec_status r).
  - now apply H.
  - now destruct H as [-> _].
Qed.
Lemma decide_payload c e t r e' : decide c e t = (r, e') -> payload_eq (e' t) (e t).
Proof.
  intros H. apply decide_spec in H. destruct (dec_status r).
  - apply H.
  - destruct H as [-> _]. apply payload_eq_refl.
Qed.
Lemma decide_waiting_other c e t r e' x : decide_waiting c e t = (r, e') -> x <> t -> e' x = e x.
Proof. intros H Hx. apply decide_waiting_spec in H as (st & _ & ->). now apply set_status_other. Qed.
Lemma publish_other c e t a b k x : x <> t -> publish c e t a b k x = e x.
Proof. unfold publish. intros; now rewrite upd_other. Qed.
Lemma publish_same c e t a b k :
  publish c e t a b k t = mkE (Some (if ok (oc c t) then DONE else FAILED))
                              (if has_upd (oc c t) then Some k else ever (e t)) (Some a) (Some b).
Proof. unfold publish. now rewrite upd_same. Qed.

Lemma decide_junk_free c e t r e' : junk_free e -> decide c e t = (r, e') -> junk_free e'.
Proof.
  intros J H x. pose proof (decide_spec _ _ _ _ _ H) as S.
  destruct r; simpl in S;
    try (destruct S as (S1 & _ & S3); destruct (Nat.eq_dec x t) as [->|Hx];
         [rewrite S3; discriminate | rewrite S1; auto]).
  destruct S as [-> _]; auto.
Qed.
Lemma publish_junk_free c e t a b k : junk_free e -> junk_free (publish c e t a b k).
Proof.
  intros J x. destruct (Nat.eq_dec x t) as [->|Hx].
  - rewrite publish_same. simpl. destruct (ok _); discriminate.
  - rewrite publish_other; auto.
Qed.

(* reading side of decide: RPending needs every dependency present and final *)
Lemma junk_free_final e d :
  junk_free e -> absent e d = false -> is_st e PENDING d = false -> is_st e WAITING d = false ->
  final_at e d = true.
Proof.
  intros J A P W. unfold final_at. rewrite A. simpl.
  apply absent_false in A as (st & E). pose proof (J d) as Jd.
  apply is_st_false in P, W. rewrite (stat_some _ _ _ E) in *.
  destruct st; simpl; congruence.
Qed.
Lemma final_of_forallb e d :
  absent e d = false -> is_st e DONE d || is_st e FAILED d || is_st e SKIPPED d = true ->
  final_at e d = true.
Proof.
  intros A H. unfold final_at. rewrite A. simpl. unfold is_st in H.
  destruct (stat e d); simpl in *; auto.
Qed.

Lemma decide_waiting_pending c e t e' :
  decide_waiting c e t = (RPending, e') ->
  (forall d, In d (deps c t) -> is_st e DONE d || is_st e FAILED d || is_st e SKIPPED d = true)
  /\ (forall d, In d (hdeps c t) -> is_st e FAILED d || is_st e SKIPPED d = false).
Proof.
  unfold decide_waiting. intros H.
  destruct (existsb _ (hdeps c t)) eqn:X; [discriminate|].
  destruct (forallb _ (deps c t)) eqn:Fa; [|discriminate].
  split.
  - intros d Hd. eapply forallb_forall in Fa; eauto.
  - intros d Hd. eapply existsb_false in X; eauto.
Qed.

Lemma decide_pending_deps c e t e' :
  junk_free e -> decide c e t = (RPending, e') ->
  forall d, In d (deps c t) -> d <> t -> final_at e d = true.
Proof.
  unfold decide. intros J H d Hd Hne.
  destruct (is_st e DONE t && negb (absent e t) || is_st e WAITING t && negb (absent e t)).
  - destruct (existsb _ (deps c t)) eqn:X1; [discriminate|].
    pose proof (existsb_false _ _ X1 d Hd) as X1d. apply orb_false_iff in X1d as [A P].
    destruct (is_st e DONE t).
    + destruct (existsb (is_st e WAITING) (deps c t)) eqn:X2; [discriminate|].
      pose proof (existsb_false _ _ X2 d Hd) as W. simpl in W.
      now apply junk_free_final.
    + apply decide_waiting_pending in H as [H _]. apply final_of_forallb; auto.
  - destruct (existsb _ (deps c t)) eqn:X1; [discriminate|].
    pose proof (existsb_false _ _ X1 d Hd) as X1d. apply orb_false_iff in X1d as [A P].
    rewrite absent_set_other in A by auto.
    rewrite is_st_set_same in H. simpl in H.
    apply decide_waiting_pending in H as [H _]. specialize (H d Hd).
    rewrite !is_st_set_other in H by auto. apply final_of_forallb; auto.
Qed.

Lemma decide_pending_hdeps c e t e' :
  decide c e t = (RPending, e') ->
  forall d, In d (hdeps c t) -> d <> t -> stat e d <> FAILED /\ stat e d <> SKIPPED.
Proof.
  unfold decide. intros H d Hd Hne.
  assert (G : is_st e FAILED d || is_st e SKIPPED d = false ->
              stat e d <> FAILED /\ stat e d <> SKIPPED).
  { intros G. apply orb_false_iff in G as [G1 G2]. now apply is_st_false in G1, G2. }
  apply G. clear G.
  destruct (is_st e DONE t && negb (absent e t) || is_st e WAITING t && negb (absent e t)).
  - destruct (existsb _ (deps c t)); [discriminate|].
    destruct (is_st e DONE t).
    + destruct (existsb _ (deps c t)); [discriminate|].
      destruct (existsb _ (hdeps c t)) eqn:X.
      * apply decide_waiting_pending in H as [_ H]. specialize (H d Hd).
        now rewrite !is_st_set_other in H by auto.
      * eapply existsb_false in X; eauto.
    + apply decide_waiting_pending in H as [_ H]. auto.
  - destruct (existsb _ (deps c t)); [discriminate|].
    rewrite is_st_set_same in H. simpl in H.
    apply decide_waiting_pending in H as [_ H]. specialize (H d Hd).
    now rewrite !is_st_set_other in H by auto.
Qed.

(* ================= step shapes ================= *)
Definition decide_state (s : state) (t : nat) (todo acc : list nat) (nb : nat) (r : decision)
           (e' : nat -> entry) : state :=
  mkS e' (queue s) (unfinished s) (cv_owner s) (cv_waiting s) (cv_notified s)
      (match r with
       | RWaiting => next_decide todo (acc ++ [t]) nb
       | RPending => MPut t todo acc nb
       | RSkipped | RNone => next_decide todo acc nb
       end) (wp s) (clock s) (started s).

(* the master is about to decide t: in a pass, or (variation that keeps the condition
   variable between two passes) at the end of a pass, starting the next one at once *)
Definition deciding (s : state) (t : nat) (todo acc : list nat) (nb : nat) : Prop :=
  mp s = MDecide (t :: todo) acc nb
  \/ (mp s = MCvRelLoop (t :: todo) /\ acc = [] /\ nb = length (t :: todo)).

Inductive mtrans (c : cfg) (s : state) : state -> Prop :=
| MT_start k : mp s = MStart k -> mtrans c s (set_mp (set_wp s k WBoot) (after_spawn c k))
| MT_acq l : mp s = MCvAcq l -> cv_owner s = None ->
    mtrans c s (mkS (env s) (queue s) (unfinished s) (Some 0) (cv_waiting s) (cv_notified s)
                    (MDecide l [] (length l)) (wp s) (clock s) (started s))
| MT_decide t todo acc nb r e' :
    mp s = MDecide (t :: todo) acc nb -> decide c (env s) t = (r, e') ->
    mtrans c s (mkS e' (queue s) (unfinished s) (cv_owner s) (cv_waiting s) (cv_notified s)
                    (match r with
                     | RWaiting => next_decide todo (acc ++ [t]) nb
                     | RPending => MPut t todo acc nb
                     | RSkipped | RNone => next_decide todo acc nb
                     end) (wp s) (clock s) (started s))
| MT_decide_alt t todo r e' :
    mp s = MCvRelLoop (t :: todo) -> decide c (env s) t = (r, e') ->
    mtrans c s (decide_state s t todo [] (length (t :: todo)) r e')
| MT_put t todo acc nb : mp s = MPut t todo acc nb ->
    mtrans c s (mkS (env s) (queue s ++ [Some t]) (S (unfinished s)) (cv_owner s) (cv_waiting s)
                    (cv_notified s) (next_decide todo acc nb) (wp s) (clock s) (started s))
| MT_relbreak : mp s = MCvRelBreak ->
    mtrans c s (mkS (env s) (queue s) (unfinished s) None (cv_waiting s) (cv_notified s) MQJoin (wp s)
                    (clock s) (started s))
| MT_relloop acc : mp s = MCvRelLoop acc ->
    mtrans c s (mkS (env s) (queue s) (unfinished s) None (cv_waiting s) (cv_notified s) (MCvAcq acc)
                    (wp s) (clock s) (started s))
| MT_wait acc : mp s = MCvWait acc ->
    mtrans c s (mkS (env s) (queue s) (unfinished s) None true false (MCvWake acc) (wp s)
                    (clock s) (started s))
| MT_wake acc : mp s = MCvWake acc -> cv_notified s = true -> cv_owner s = None ->
    mtrans c s (mkS (env s) (queue s) (unfinished s) (Some 0) false false (MCvRelLoop acc) (wp s)
                    (clock s) (started s))
| MT_qjoin : mp s = MQJoin -> unfinished s = 0 ->
    mtrans c s (set_mp s (if Nat.eqb (nworkers c) 0 then MReturned else MSentinel 0))
| MT_sentinel k : mp s = MSentinel k ->
    mtrans c s (mkS (env s) (queue s ++ [None]) (S (unfinished s)) (cv_owner s) (cv_waiting s)
                    (cv_notified s) (if Nat.eqb (S k) (nworkers c) then MJoinT 0 else MSentinel (S k))
                    (wp s) (clock s) (started s))
| MT_join k : mp s = MJoinT k -> wp s k = WExited ->
    mtrans c s (set_mp s (if Nat.eqb (S k) (nworkers c) then MReturned else MJoinT (S k))).

Inductive wtrans (c : cfg) (s : state) (w : nat) : state -> Prop :=
| WT_boot : wp s w = WBoot -> wtrans c s w (set_wp s w WGet)
| WT_get_none q : wp s w = WGet -> queue s = None :: q ->
    wtrans c s w (mkS (env s) q (unfinished s) (cv_owner s) (cv_waiting s) (cv_notified s) (mp s)
                      (upd (wp s) w WExited) (clock s) (started s))
| WT_get_some t q t0 : wp s w = WGet -> queue s = Some t :: q -> clock s <= t0 ->
    wtrans c s w (mkS (env s) q (unfinished s) (cv_owner s) (cv_waiting s) (cv_notified s) (mp s)
                      (upd (wp s) w (WStart t t0)) t0 (started s))
| WT_start t t0 t1 : wp s w = WStart t t0 -> clock s <= t1 ->
    wtrans c s w (mkS (env s) (queue s) (unfinished s) (cv_owner s) (cv_waiting s) (cv_notified s)
                      (mp s) (upd (wp s) w (WPublish t t0 t1 (S (started s t)))) t1
                      (upd (started s) t (S (started s t))))
| WT_publish t t0 t1 k : wp s w = WPublish t t0 t1 k ->
    wtrans c s w (mkS (publish c (env s) t t0 t1 k) (queue s) (unfinished s) (cv_owner s)
                      (cv_waiting s) (cv_notified s) (mp s) (upd (wp s) w WTaskDone) (clock s)
                      (started s))
| WT_taskdone u : wp s w = WTaskDone -> unfinished s = S u ->
    wtrans c s w (mkS (env s) (queue s) u (cv_owner s) (cv_waiting s) (cv_notified s) (mp s)
                      (upd (wp s) w WNAcq) (clock s) (started s))
| WT_nacq : wp s w = WNAcq -> cv_owner s = None ->
    wtrans c s w (mkS (env s) (queue s) (unfinished s) (Some (S w)) (cv_waiting s) (cv_notified s)
                      (mp s) (upd (wp s) w WNotify) (clock s) (started s))
| WT_notify : wp s w = WNotify ->
    wtrans c s w (mkS (env s) (queue s) (unfinished s) (cv_owner s) false
                      (cv_notified s || cv_waiting s) (mp s) (upd (wp s) w WNRel) (clock s)
                      (started s))
| WT_nrel : wp s w = WNRel ->
    wtrans c s w (mkS (env s) (queue s) (unfinished s) None (cv_waiting s) (cv_notified s) (mp s)
                      (upd (wp s) w WGet) (clock s) (started s)).

Lemma master_step_trans c s s' : master_step c s = Some s' -> mtrans c s s'.
Proof.
  unfold master_step. intros H. destruct (mp s) eqn:M; try discriminate.
  - inversion H; subst. now constructor.
  - destruct (cv_owner s) eqn:O; [discriminate|]. inversion H; subst. now constructor.
  - destruct todo as [|t todo]; [discriminate|].
    destruct (decide c (env s) t) as [r e'] eqn:D. inversion H; subst.
    destruct r; eapply MT_decide in D; eauto.
  - inversion H; subst. now constructor.
  - inversion H; subst. now constructor.
  - inversion H; subst. now constructor.
  - inversion H; subst. now constructor.
  - destruct (cv_notified s) eqn:N; simpl in H; [|discriminate].
    destruct (cv_owner s) eqn:O; [discriminate|]. inversion H; subst. now constructor.
  - destruct (Nat.eqb (unfinished s) 0) eqn:U; [|discriminate]. apply Nat.eqb_eq in U.
    inversion H; subst. now constructor.
  - inversion H; subst. now constructor.
  - destruct (wp s k) eqn:W; try discriminate. inversion H; subst. now constructor.
Qed.

Lemma worker_step_trans c s w now s' : worker_step c s w now = Some s' -> wtrans c s w s'.
Proof.
  unfold worker_step. intros H. destruct (wp s w) eqn:W; try discriminate.
  - inversion H; subst. now constructor.
  - destruct (queue s) as [|[t|] q] eqn:Q; try discriminate.
    + destruct now as [|t0 [|? ?]]; try discriminate.
      destruct (Nat.leb (clock s) t0) eqn:C; [|discriminate]. apply Nat.leb_le in C.
      inversion H; subst. now econstructor.
    + inversion H; subst. now econstructor.
  - destruct now as [|t1 [|? ?]]; try discriminate.
    destruct (Nat.leb (clock s) t1) eqn:C; [|discriminate]. apply Nat.leb_le in C.
    inversion H; subst. now econstructor.
  - inversion H; subst. now constructor.
  - destruct (unfinished s) eqn:U; [discriminate|]. inversion H; subst. now econstructor.
  - destruct (cv_owner s) eqn:O; [discriminate|]. inversion H; subst. now constructor.
  - inversion H; subst. now constructor.
  - inversion H; subst. now constructor.
Qed.

Lemma master_step_alt_trans c s s' : master_step_alt c s = Some s' -> mtrans c s s'.
Proof.
  unfold master_step_alt. intros H. destruct (mp s) eqn:M; try discriminate.
  destruct acc as [|t todo]; [discriminate|].
  unfold master_step in H. simpl in H.
  destruct (decide c (env s) t) as [r e'] eqn:D. inversion H; subst.
  destruct r; exact (MT_decide_alt c s t todo _ e' M D).
Qed.

Lemma step_trans c s tid now s' :
  step c s tid now = Some s' ->
  (tid = 0 /\ mtrans c s s') \/ (exists w, tid = S w /\ wtrans c s w s').
Proof.
  unfold step. intros H. destruct tid as [|w].
  - left. split; auto. destruct now as [|x [|y r]]; [|  |discriminate].
    + now apply master_step_trans.
    + now apply master_step_alt_trans.
  - right. exists w. split; auto.
    destruct (wp s w) eqn:W; destruct now; try discriminate;
      eapply worker_step_trans; eauto.
Qed.

(* ================= L, F ================= *)
Definition Fm (m : mpc) : list nat := match m with MPut t _ _ _ => [t] | _ => [] end.
Definition Fw (c : cfg) (wps : nat -> wpc) : list nat :=
  flat_map (fun w => held (wps w)) (seq 0 (nworkers c)).
Definition pass_acc (m : mpc) : list nat :=
  match m with MDecide _ acc _ | MPut _ _ acc _ => acc | _ => [] end.

Lemma F_eq c s : F c s = Fm (mp s) ++ queued (queue s) ++ Fw c (wp s).
Proof. reflexivity. Qed.
Lemma L_mp c s1 s2 : mp s1 = mp s2 -> L c s1 = L c s2.
Proof. unfold L. now intros ->. Qed.
Lemma L_next_decide c s todo acc nb : mp s = next_decide todo acc nb -> L c s = acc ++ todo.
Proof.
  unfold L, next_decide, pass_end. intros ->.
  destruct todo; [|reflexivity]. rewrite app_nil_r.
  destruct acc; [reflexivity|]. now destruct (Nat.eqb nb _).
Qed.
Lemma Fm_next_decide todo acc nb : Fm (next_decide todo acc nb) = [].
Proof.
  unfold next_decide, pass_end. destruct todo; [|reflexivity].
  destruct acc; [reflexivity|]. now destruct (Nat.eqb nb _).
Qed.
Lemma pass_acc_next_decide todo acc nb x : In x (pass_acc (next_decide todo acc nb)) -> In x acc.
Proof.
  unfold next_decide, pass_end. destruct todo; [|simpl; auto].
  destruct acc; [simpl; tauto|]. destruct (Nat.eqb nb _); simpl; tauto.
Qed.
Lemma deciding_L c s t todo acc nb : deciding s t todo acc nb -> L c s = acc ++ t :: todo.
Proof. unfold L. intros [->|(-> & -> & _)]; reflexivity. Qed.
Lemma deciding_Fm s t todo acc nb : deciding s t todo acc nb -> Fm (mp s) = [].
Proof. intros [->|(-> & _)]; reflexivity. Qed.
Lemma deciding_pass_acc s t todo acc nb x :
  deciding s t todo acc nb -> In x acc -> In x (pass_acc (mp s)).
Proof. intros [->|(_ & -> & _)]; simpl; [auto | intros []]. Qed.
Lemma In_Fw c wps x : In x (Fw c wps) <-> exists w, w < nworkers c /\ In x (held (wps w)).
Proof. unfold Fw. apply in_flat_map_seq. Qed.
Lemma In_F c s x :
  In x (F c s) <-> In x (Fm (mp s)) \/ In x (queued (queue s))
                   \/ exists w, w < nworkers c /\ In x (held (wp s w)).
Proof. rewrite F_eq, !in_app_iff, In_Fw. tauto. Qed.

Lemma Fw_upd_same c wps w p : held p = held (wps w) -> Fw c (upd wps w p) = Fw c wps.
Proof. intros H. unfold Fw. now apply flat_map_upd_same. Qed.
Lemma Fw_upd_ge c wps w p : nworkers c <= w -> Fw c (upd wps w p) = Fw c wps.
Proof.
  intros H. unfold Fw. apply flat_map_upd_notin. rewrite in_seq. lia.
Qed.
Lemma Fw_upd_perm c wps w p : w < nworkers c ->
  Permutation (held (wps w) ++ Fw c (upd wps w p)) (held p ++ Fw c wps).
Proof.
  intros H. unfold Fw. apply flat_map_upd_perm; [apply seq_NoDup | apply in_seq; lia].
Qed.
Lemma Fw_ext c wps wps' : (forall w, w < nworkers c -> held (wps' w) = held (wps w)) ->
  Fw c wps' = Fw c wps.
Proof.
  intros H. unfold Fw. generalize (seq 0 (nworkers c)) (fun w => proj1 (in_seq (nworkers c) 0 w)).
  induction l as [|z l IH]; simpl; intros Hl; auto.
  rewrite H, IH; auto. specialize (Hl z (or_introl eq_refl)). lia.
Qed.

Lemma Fw_none c : Fw c (fun _ => WNone) = [].
Proof. unfold Fw. induction (seq 0 (nworkers c)); simpl; auto. Qed.

Lemma flat_map_unique (f : nat -> list nat) l :
  NoDup (flat_map f l) ->
  forall x y t, In x l -> In y l -> In t (f x) -> In t (f y) -> x = y.
Proof.
  induction l as [|z l IH]; simpl; intros Hd x y t Hx Hy Hfx Hfy; [destruct Hx|].
  apply NoDup_app_iff in Hd as (_ & Hd & Hdis).
  destruct Hx as [<-|Hx], Hy as [<-|Hy]; auto.
  - exfalso. eapply Hdis; eauto. apply in_flat_map; eauto.
  - exfalso. eapply Hdis; eauto. apply in_flat_map; eauto.
  - eapply IH; eauto.
Qed.

(* a task is held by at most one worker *)
Lemma held_unique c s w1 w2 t :
  NoDup (F c s) -> w1 < nworkers c -> w2 < nworkers c ->
  In t (held (wp s w1)) -> In t (held (wp s w2)) -> w1 = w2.
Proof.
  rewrite F_eq. intros Hd H1 H2 I1 I2.
  apply NoDup_app_iff in Hd as (_ & Hd & _). apply NoDup_app_iff in Hd as (_ & Hd & _).
  unfold Fw in Hd.
  eapply (flat_map_unique (fun w => held (wp s w))); eauto; apply in_seq; lia.
Qed.

(* ================= counting ================= *)
Definition busy (p : wpc) : list nat :=
  match p with
  | WStart t _ | WPublish t _ _ _ => [t]
  | WTaskDone => [0]
  | _ => []
  end.
Definition Bw (c : cfg) (wps : nat -> wpc) : list nat :=
  flat_map (fun w => busy (wps w)) (seq 0 (nworkers c)).
Definition cnt (c : cfg) (s : state) : nat := length (queued (queue s)) + length (Bw c (wp s)).
Definition sent (c : cfg) (m : mpc) : nat :=
  match m with MSentinel k => k | MJoinT _ | MReturned => nworkers c | _ => 0 end.
Definition drained (m : mpc) : Prop :=
  match m with MSentinel _ | MJoinT _ | MReturned => True | _ => False end.

Lemma Bw_upd c wps w p : w < nworkers c ->
  length (Bw c (upd wps w p)) + length (busy (wps w)) = length (Bw c wps) + length (busy p).
Proof.
  intros H. unfold Bw.
  pose proof (flat_map_upd_perm busy wps w p (seq 0 (nworkers c)) (seq_NoDup _ _)) as P.
  specialize (P ltac:(apply in_seq; lia)). apply Permutation_length in P.
  rewrite !app_length in P. lia.
Qed.
Lemma Bw_none c : Bw c (fun _ => WNone) = [].
Proof. unfold Bw. induction (seq 0 (nworkers c)); simpl; auto. Qed.
Lemma Bw_nil_held c wps : Bw c wps = [] -> Fw c wps = [].
Proof.
  unfold Bw, Fw. induction (seq 0 (nworkers c)) as [|z l IH]; simpl; auto.
  intros H. apply app_eq_nil in H as [H1 H2]. rewrite IH by auto.
  destruct (wps z); simpl in *; auto; discriminate.
Qed.

(* ================= the invariant ================= *)
Definition clock_bounded (e : nat -> entry) (n : nat) : Prop :=
  forall t, (forall a, esc (e t) = Some a -> a <= n) /\ (forall b, eec (e t) = Some b -> b <= n).

Section Invariants.
Variable c : cfg.
Variable e0 : nat -> entry.
Variable st0 : nat -> nat.
Variable clk : nat.

Definition wp_ok (s : state) (p : wpc) : Prop :=
  match p with
  | WStart t a => a <= clock s
  | WPublish t a b k => k = S (st0 t) /\ started s t = S (st0 t) /\ a <= b /\ b <= clock s
  | _ => True
  end.

(* some worker is between the start of do() of t and the publication of its result *)
Definition pubs (s : state) (t : nat) : Prop :=
  exists w a b k, w < nworkers c /\ wp s w = WPublish t a b k.

(* t was executed (once) in this run and its result is published *)
Definition executed (s : state) (t : nat) : Prop :=
  started s t = S (st0 t)
  /\ exists a b, a <= b /\ b <= clock s
     /\ env s t = mkE (Some (if ok (oc c t) then DONE else FAILED))
                      (if has_upd (oc c t) then Some (S (st0 t)) else ever (e0 t))
                      (Some a) (Some b).

(* Inv-entry *)
Definition entry_ok (s : state) (t : nat) : Prop :=
  (pubs s t /\ payload_eq (env s t) (e0 t))
  \/ (~ pubs s t /\ started s t = st0 t /\ payload_eq (env s t) (e0 t)
      /\ (In t (L c s) -> est (env s t) = est (e0 t) \/ est (env s t) = Some WAITING)
      /\ (settled c s t -> est (env s t) = est (e0 t) \/ est (env s t) = Some SKIPPED))
  \/ (settled c s t /\ executed s t).

Record inv_core (s : state) : Prop := {
  inv_nodup : NoDup (L c s ++ F c s);                                        (* Inv-struct *)
  inv_sub : forall ord, order c = Some ord -> sublist (L c s) ord;
  inv_Ford : forall ord, order c = Some ord -> forall t, In t (F c s) -> In t ord;
  inv_acc : forall x, In x (pass_acc (mp s)) -> est (env s x) = Some WAITING;
  inv_flight : forall t, In t (F c s) ->                                     (* Inv-flight *)
      est (env s t) = Some PENDING
      /\ forall d, In d (deps c t) -> settled c s d /\ final_at (env s) d = true;
  inv_junk : junk_free (env s);                                              (* Inv-junk *)
  inv_clk : clk <= clock s;                                                  (* Inv-clock *)
  inv_wp : forall w, w < nworkers c -> wp_ok s (wp s w);
  inv_clock : clock_bounded e0 clk -> clock_bounded (env s) (clock s);
  inv_entry : forall t, entry_ok s t                                         (* Inv-entry *)
}.

Record inv_aux (s : state) : Prop := {
  inv_wnone : forall w, nworkers c <= w -> wp s w = WNone;
  inv_mstart : forall k, mp s = MStart k -> k < nworkers c /\ forall w, k <= w -> wp s w = WNone;
  inv_count : unfinished s = cnt c s + sent c (mp s);                        (* Inv-count, light *)
  inv_drained : drained (mp s) -> cnt c s = 0
}.

Record inv (s : state) : Prop := { inv_c : inv_core s; inv_a : inv_aux s }.

(* ---------- initial state ---------- *)
Lemma init_mp : wf_cfg c -> exists ord, order c = Some ord /\ mp (init c e0 st0 clk) = MStart 0.
Proof.
  intros (ord & Ho & _ & _ & _ & _ & Hw). exists ord. split; auto.
  unfold init. simpl. rewrite Ho. destruct (Nat.eqb_spec (nworkers c) 0); [lia|reflexivity].
Qed.

Lemma init_F : F c (init c e0 st0 clk) = [].
Proof.
  rewrite F_eq. replace (queue (init c e0 st0 clk)) with (@nil (option nat)) by reflexivity.
  replace (wp (init c e0 st0 clk)) with (fun _ : nat => WNone) by reflexivity.
  rewrite Fw_none. simpl. unfold init; simpl. destruct (order c) as [l|]; auto.
  destruct (Nat.eqb _ 0); auto. now destruct l.
Qed.

Lemma not_pubs_init t : ~ pubs (init c e0 st0 clk) t.
Proof. intros (w & a & b & k & _ & H). discriminate. Qed.

Lemma inv_init : wf_cfg c -> junk_free e0 -> inv (init c e0 st0 clk).
Proof.
  intros Hwf J. destruct (init_mp Hwf) as (ord & Ho & Hm).
  pose proof Hwf as (ord' & Ho' & Hnd & _ & _ & _ & Hw). rewrite Ho in Ho'. inversion Ho'; subst ord'.
  assert (HL : L c (init c e0 st0 clk) = ord) by (unfold L; now rewrite Hm, Ho).
  split; split.
  - rewrite HL, init_F, app_nil_r. auto.
  - intros o Ho2. rewrite Ho in Ho2. inversion Ho2; subst o. rewrite HL. apply sublist_refl.
  - intros o _ t. now rewrite init_F.
  - rewrite Hm. simpl. tauto.
  - intros t. now rewrite init_F.
  - exact J.
  - simpl. lia.
  - intros w _. simpl. exact I.
  - auto.
  - intros t. right; left. repeat split; auto using payload_eq_refl, not_pubs_init.
  - reflexivity.
  - intros k Hk. rewrite Hm in Hk. inversion Hk; subst. split; [lia|reflexivity].
  - rewrite Hm. unfold cnt. simpl. now rewrite Bw_none.
  - rewrite Hm. simpl. tauto.
Qed.

(* ---------- frame: steps that do not touch env / started / L, and keep F up to order ---------- *)
Definition is_pub (p : wpc) : Prop := match p with WPublish _ _ _ _ => True | _ => False end.

Lemma wp_ok_mono s s' p :
  started s' = started s -> clock s <= clock s' -> wp_ok s p -> wp_ok s' p.
Proof using.
  intros Hst Hc. destruct p; simpl; auto.
  - intros H. eapply Nat.le_trans; eauto.
  - rewrite Hst. intros (A & B & C1 & D). repeat split; auto. eapply Nat.le_trans; eauto.
Qed.

Lemma settled_iff s s' :
  L c s' = L c s -> (forall x, In x (F c s') <-> In x (F c s)) ->
  forall x, settled c s' x <-> settled c s x.
Proof using. intros HL HF x. unfold settled. rewrite HL, HF. reflexivity. Qed.

Lemma core_frame s s' :
  inv_core s ->
  env s' = env s -> started s' = started s -> clock s <= clock s' ->
  L c s' = L c s -> Permutation (F c s) (F c s') ->
  (forall x, In x (pass_acc (mp s')) -> In x (pass_acc (mp s))) ->
  (forall w, w < nworkers c ->
     wp s' w = wp s w \/ (~ is_pub (wp s' w) /\ ~ is_pub (wp s w) /\ wp_ok s' (wp s' w))) ->
  inv_core s'.
Proof.
  intros I Henv Hst Hclk HL HP Hacc Hwp.
  assert (HF : forall x, In x (F c s') <-> In x (F c s)).
  { intros x; split; apply Permutation_in; auto using Permutation_sym. }
  pose proof (settled_iff s s' HL HF) as Hset.
  assert (Hpubs : forall t, pubs s' t <-> pubs s t).
  { intros t; split; intros (w & a & b & k & Hw & E); destruct (Hwp w Hw) as [Eq|(N1 & N2 & _)].
    - rewrite Eq in E. exists w, a, b, k; auto.
    - rewrite E in N1. exfalso; apply N1; exact Logic.I.
    - rewrite <- Eq in E. exists w, a, b, k; auto.
    - rewrite E in N2. exfalso; apply N2; exact Logic.I. }
  split.
  - rewrite HL. eapply Permutation_NoDup; [apply Permutation_app_head; eauto | apply (inv_nodup _ I)].
  - rewrite HL. apply (inv_sub _ I).
  - intros ord Ho t Ht. apply HF in Ht. eapply inv_Ford; eauto.
  - intros x Hx. rewrite Henv. apply (inv_acc _ I); auto.
  - intros t Ht. apply HF in Ht. destruct (inv_flight _ I t Ht) as [H1 H2]. rewrite Henv.
    split; auto. intros d Hd. destruct (H2 d Hd). split; auto. now apply Hset.
  - rewrite Henv. apply (inv_junk _ I).
  - pose proof (inv_clk _ I). lia.
  - intros w Hw. destruct (Hwp w Hw) as [Eq|(_ & _ & Ok)]; auto.
    rewrite Eq. eapply wp_ok_mono; eauto. apply (inv_wp _ I); auto.
  - intros B t. rewrite Henv. destruct (inv_clock _ I B t) as [A1 A2].
    split; intros x Hx; [apply A1 in Hx | apply A2 in Hx]; lia.
  - intros t. destruct (inv_entry _ I t) as [[P Q]|[(NP & St & Pay & HLc & HSc)|[Se Ex]]].
    + left. rewrite Henv. split; auto. now apply Hpubs.
    + right; left. rewrite Henv, Hst, HL.
      split; [now rewrite Hpubs|]. do 3 (split; [assumption|]).
      intros Hs. now apply HSc, Hset.
    + right; right. split; [now apply Hset|].
      destruct Ex as (E1 & a & b & Hab & Hb & E2). unfold executed. rewrite Henv, Hst.
      split; auto. exists a, b. repeat split; auto. lia.
Qed.

(* ---------- helpers for the steps that write env / started ---------- *)
Lemma pubs_in_F s t : pubs s t -> In t (F c s).
Proof.
  intros (w & a & b & k & Hw & E). apply In_F. right; right. exists w. split; auto.
  rewrite E. simpl; auto.
Qed.

Lemma entry_ok_other s s' x :
  entry_ok s x -> env s' x = env s x -> started s' x = started s x -> clock s <= clock s' ->
  (pubs s' x <-> pubs s x) -> (In x (L c s') -> In x (L c s)) ->
  (settled c s' x <-> settled c s x) -> entry_ok s' x.
Proof.
  intros E Henv Hst Hclk Hp HL Hs.
  destruct E as [[P Q]|[(NP & St & Pay & HLc & HSc)|[Se Ex]]].
  - left. rewrite Henv. split; auto. now apply Hp.
  - right; left. rewrite Henv, Hst.
    split; [now rewrite Hp|]. do 3 (split; [auto|]). intros H. now apply HSc, Hs.
  - right; right. split; [now apply Hs|].
    destruct Ex as (E1 & a & b & Hab & Hb & E2). unfold executed. rewrite Henv, Hst.
    split; auto. exists a, b. repeat split; auto. lia.
Qed.

Lemma flight_other s s' x :
  (est (env s x) = Some PENDING
   /\ forall d, In d (deps c x) -> settled c s d /\ final_at (env s) d = true) ->
  env s' x = env s x ->
  (forall d, settled c s d -> settled c s' d /\ env s' d = env s d) ->
  est (env s' x) = Some PENDING
  /\ forall d, In d (deps c x) -> settled c s' d /\ final_at (env s') d = true.
Proof.
  intros [H1 H2] Hx Hd. rewrite Hx. split; auto.
  intros d Hin. destruct (H2 d Hin) as [S1 S2]. destruct (Hd d S1) as [S3 S4].
  split; auto. now rewrite (final_at_ext _ _ _ S4).
Qed.

Lemma clock_bounded_other (e e' : nat -> entry) n n' t :
  clock_bounded e n -> n <= n' -> (forall x, x <> t -> e' x = e x) ->
  ((forall a, esc (e' t) = Some a -> a <= n') /\ (forall b, eec (e' t) = Some b -> b <= n')) ->
  clock_bounded e' n'.
Proof.
  intros B Hn Ho Ht x. destruct (Nat.eq_dec x t) as [->|Hx]; auto.
  rewrite Ho by auto. destruct (B x) as [A1 A2].
  split; intros y Hy; [apply A1 in Hy | apply A2 in Hy]; lia.
Qed.

Lemma wf_order : wf_cfg c -> exists ord, order c = Some ord /\ NoDup ord
  /\ (forall t, In t ord <-> t < ntasks c)
  /\ (forall t d, In d (deps c t) -> In t ord -> In d ord /\ pos ord d < pos ord t).
Proof. intros (ord & H1 & H2 & H3 & H4 & _). exists ord; auto. Qed.

(* the facts about the head of todo that all four outcomes of decide share *)
Lemma decide_head_facts s t todo acc nb :
  inv_core s -> deciding s t todo acc nb ->
  L c s = acc ++ t :: todo /\ In t (L c s) /\ ~ In t (F c s) /\ ~ In t (acc ++ todo)
  /\ ~ pubs s t /\ ~ settled c s t
  /\ started s t = st0 t /\ payload_eq (env s t) (e0 t)
  /\ (est (env s t) = est (e0 t) \/ est (env s t) = Some WAITING).
Proof.
  intros I Hmp.
  assert (HL : L c s = acc ++ t :: todo) by (now apply (deciding_L c) in Hmp).
  assert (tL : In t (L c s)) by (rewrite HL; apply in_app_iff; simpl; auto).
  pose proof (inv_nodup _ I) as Hnd. apply NoDup_app_iff in Hnd as (HdL & HdF & Hdis).
  assert (tnF : ~ In t (F c s)) by auto.
  assert (tnp : ~ pubs s t) by (intros P; apply tnF, pubs_in_F; auto).
  assert (tns : ~ settled c s t) by (intros [S _]; auto).
  split; [auto|]. split; [auto|]. split; [auto|].
  split; [rewrite HL in HdL; now apply NoDup_remove_2 in HdL|].
  split; [auto|]. split; [auto|].
  destruct (inv_entry _ I t) as [[P _]|[(NP & St & Pay & HLc & HSc)|[Se _]]]; try contradiction.
  auto.
Qed.

Lemma pubs_ext s s' x : wp s' = wp s -> (pubs s' x <-> pubs s x).
Proof using. unfold pubs. intros ->. reflexivity. Qed.

(* one lemma for the four outcomes of decide on the head t of todo:
   W = t stays in L (WAITING), P = t goes in flight (PENDING), X = t is settled *)
Lemma core_decide_gen s s' t todo acc nb :
  wf_cfg c -> inv_core s -> deciding s t todo acc nb ->
  wp s' = wp s -> clock s' = clock s -> started s' = started s ->
  (forall x, x <> t -> env s' x = env s x) -> payload_eq (env s' t) (env s t) ->
  junk_free (env s') ->
  ( (L c s' = L c s /\ F c s' = F c s /\ est (env s' t) = Some WAITING
     /\ forall x, In x (pass_acc (mp s')) -> In x (acc ++ [t]))
    \/ (L c s' = acc ++ todo /\ F c s' = t :: F c s /\ est (env s' t) = Some PENDING
        /\ (forall d, In d (deps c t) -> d <> t -> final_at (env s) d = true)
        /\ forall x, In x (pass_acc (mp s')) -> In x acc)
    \/ (L c s' = acc ++ todo /\ F c s' = F c s
        /\ (est (env s' t) = Some SKIPPED \/ est (env s' t) = est (env s t) /\ est (env s t) = Some DONE)
        /\ forall x, In x (pass_acc (mp s')) -> In x acc) ) ->
  inv_core s'.
Proof.
  intros Hwf I Hmp Hwp Hclk Hst G1 G2 J' Mode.
  destruct (decide_head_facts _ _ _ _ _ I Hmp)
    as (HL & tL & tnF & tnat & tnp & tns & Hst0 & Hpay & Hest).
  destruct (wf_order Hwf) as (ord & Ho & Hnd & Hlt & Htopo).
  pose proof (inv_nodup _ I) as HndLF. pose proof (inv_sub _ I ord Ho) as Hsub.
  assert (Hacc : forall x, In x acc -> est (env s' x) = Some WAITING).
  { intros x Hx. assert (x <> t) by (intros ->; apply tnat, in_app_iff; auto).
    rewrite G1 by auto. apply (inv_acc _ I). eapply deciding_pass_acc; eauto. }
  (* L ∪ F only shrinks; nothing but t leaves L; nothing leaves F *)
  assert (Hmono : forall x, In x (L c s' ++ F c s') -> In x (L c s ++ F c s)).
  { intros x. rewrite HL. destruct Mode as [(E1 & E2 & _)|[(E1 & E2 & _)|(E1 & E2 & _)]];
      rewrite E1, E2, ?HL; simpl; rewrite !in_app_iff; simpl; rewrite ?in_app_iff; simpl; tauto. }
  assert (HLkeep : forall x, x <> t -> In x (L c s) -> In x (L c s')).
  { intros x Hx. rewrite HL. destruct Mode as [(E1 & _)|[(E1 & _)|(E1 & _)]];
      rewrite E1, ?HL, !in_app_iff; simpl; intuition congruence. }
  assert (HLsub : forall x, In x (L c s') -> In x (L c s)).
  { intros x. rewrite HL. destruct Mode as [(E1 & _)|[(E1 & _)|(E1 & _)]];
      rewrite E1, ?HL, !in_app_iff; simpl; tauto. }
  assert (HFkeep : forall x, In x (F c s) -> In x (F c s')).
  { intros x. destruct Mode as [(_ & E2 & _)|[(_ & E2 & _)|(_ & E2 & _)]];
      rewrite E2; simpl; auto. }
  assert (Hset1 : forall d, settled c s d -> settled c s' d /\ env s' d = env s d).
  { intros d Sd. split.
    - destruct Sd as [S1 S2]. split; intros H; (assert (In d (L c s ++ F c s))
        by (apply Hmono, in_app_iff; auto)); rewrite in_app_iff in *; tauto.
    - apply G1. intros ->. contradiction. }
  assert (Hset2 : forall x, x <> t -> settled c s' x -> settled c s x).
  { intros x Hx [S1 S2]. split; intros H; [apply S1, HLkeep | apply S2, HFkeep]; auto. }
  split.
  - (* nodup *)
    destruct Mode as [(E1 & E2 & _)|[(E1 & E2 & _)|(E1 & E2 & _)]]; rewrite E1, E2; auto.
    + rewrite HL in HndLF. rewrite <- app_assoc in *. simpl in HndLF.
      eapply Permutation_NoDup; [|exact HndLF]. apply Permutation_app_head.
      apply Permutation_middle.
    + rewrite HL in HndLF. rewrite <- app_assoc in *. simpl in HndLF.
      now apply NoDup_remove_1 in HndLF.
  - (* sub *)
    intros o Ho'. rewrite Ho in Ho'. inversion Ho'; subst o.
    destruct Mode as [(E1 & _)|[(E1 & _)|(E1 & _)]]; rewrite E1; auto;
      (eapply sublist_trans; [apply sublist_app_remove | rewrite <- HL; exact Hsub]).
  - (* Ford *)
    intros o Ho' x Hx.
    assert (In x (L c s ++ F c s)) by (apply Hmono, in_app_iff; auto).
    apply in_app_iff in H as [H|H]; [|eapply inv_Ford; eauto].
    rewrite Ho in Ho'. inversion Ho'; subst o. eapply sublist_In; eauto.
  - (* acc *)
    intros x Hx. destruct Mode as [(_ & _ & E3 & E4)|[(_ & _ & _ & _ & E4)|(_ & _ & _ & E4)]];
      apply E4 in Hx; auto.
    apply in_app_iff in Hx as [Hx|[<-|[]]]; auto.
  - (* flight *)
    intros x Hx.
    assert (Hold : In x (F c s) ->
                   est (env s' x) = Some PENDING
                   /\ forall d, In d (deps c x) -> settled c s' d /\ final_at (env s') d = true).
    { intros Hx'. apply (flight_other s s'); auto. apply (inv_flight _ I); auto.
      apply G1. intros ->; contradiction. }
    destruct Mode as [(_ & E2 & _)|[(E1 & E2 & E3 & E4 & _)|(_ & E2 & _)]];
      rewrite E2 in Hx; auto.
    destruct Hx as [<-|Hx]; auto. split; auto.
    intros d Hd. assert (tord : In t ord) by (eapply sublist_In; eauto).
    destruct (Htopo t d Hd tord) as [dord dlt].
    assert (dt : d <> t) by (intros ->; lia).
    pose proof (E4 d Hd dt) as Fd.
    assert (Sd : settled c s d).
    { apply final_at_iff in Fd as (st & Ed & Fin). split; intros Hin.
      - rewrite HL in Hin, Hsub.
        pose proof (sublist_earlier_in_acc _ _ _ _ _ Hsub Hnd Hin dlt) as Ha.
        assert (W : est (env s d) = Some WAITING)
          by (apply (inv_acc _ I); eapply deciding_pass_acc; eauto).
        rewrite W in Ed. inversion Ed; subst st. discriminate.
      - destruct (inv_flight _ I d Hin) as [P _]. rewrite P in Ed. inversion Ed; subst st.
        discriminate. }
    destruct (Hset1 d Sd) as [S1 S2]. split; auto. now rewrite (final_at_ext _ _ _ S2).
  - exact J'.
  - rewrite Hclk. apply (inv_clk _ I).
  - intros w Hw. rewrite Hwp. eapply wp_ok_mono; eauto; [lia|]. apply (inv_wp _ I); auto.
  - intros B. rewrite Hclk.
    apply (clock_bounded_other (env s) (env s') (clock s) (clock s) t); auto.
    + apply (inv_clock _ I B).
    + destruct G2 as (_ & -> & ->). apply (inv_clock _ I B t).
  - (* entry *)
    intros x. destruct (Nat.eq_dec x t) as [->|Hx].
    + right; left. rewrite Hst, Hst0.
      split; [now rewrite (pubs_ext s s' t Hwp)|]. split; [auto|].
      split; [eapply payload_eq_trans; eauto|].
      destruct Mode as [(E1 & E2 & E3 & _)|[(E1 & E2 & E3 & _)|(E1 & E2 & E3 & _)]].
      * split; [intros _; auto|]. intros [S1 _]. rewrite E1 in S1. contradiction.
      * split; [rewrite E1; intros; contradiction|].
        intros [_ S2]. rewrite E2 in S2. simpl in S2. tauto.
      * split; [rewrite E1; intros; contradiction|]. intros _.
        destruct E3 as [E3|[E3 E3']]; auto. rewrite E3. rewrite E3' in *.
        destruct Hest as [?|?]; [auto|discriminate].
    + apply (entry_ok_other s s'); auto using (inv_entry _ I).
      * now rewrite Hst.
      * lia.
      * now apply pubs_ext.
      * split; [now apply Hset2 | apply Hset1].
Qed.

(* ---------- a worker starts do() of t ---------- *)
Lemma core_wstart s w t t0 t1 :
  inv_core s -> w < nworkers c -> wp s w = WStart t t0 -> clock s <= t1 ->
  inv_core (mkS (env s) (queue s) (unfinished s) (cv_owner s) (cv_waiting s) (cv_notified s)
                (mp s) (upd (wp s) w (WPublish t t0 t1 (S (started s t)))) t1
                (upd (started s) t (S (started s t)))).
Proof.
  intros I Hw Wp Hclk. set (s' := mkS _ _ _ _ _ _ _ _ _ _).
  assert (HL : L c s' = L c s) by (apply L_mp; reflexivity).
  assert (HFeq : F c s' = F c s).
  { rewrite !F_eq. simpl. rewrite Fw_upd_same; auto. now rewrite Wp. }
  assert (HF : forall x, In x (F c s') <-> In x (F c s)) by (intros; now rewrite HFeq).
  pose proof (settled_iff s s' HL HF) as Hset.
  assert (tF : In t (F c s)).
  { apply In_F. right; right. exists w. split; auto. rewrite Wp; simpl; auto. }
  pose proof (inv_nodup _ I) as Hnd. apply NoDup_app_iff in Hnd as (HdL & HdF & Hdis).
  assert (Huniq : forall w', w' < nworkers c -> In t (held (wp s w')) -> w' = w).
  { intros w' Hw' Hin. eapply held_unique; eauto. rewrite Wp; simpl; auto. }
  assert (tnp : ~ pubs s t).
  { intros (w' & a & b & k & Hw' & E). assert (w' = w) by (apply Huniq; auto; rewrite E; simpl; auto).
    subst w'. congruence. }
  assert (Hst0 : started s t = st0 t /\ payload_eq (env s t) (e0 t)).
  { destruct (inv_entry _ I t) as [[P _]|[(NP & St & Pay & _)|[[_ Se] _]]]; try contradiction; auto. }
  destruct Hst0 as [Hst0 Hpay].
  split; try (rewrite ?HL, ?HFeq; apply I).
  - intros x Hx. rewrite HFeq in Hx. destruct (inv_flight _ I x Hx) as [H1 H2].
    split; auto. intros d Hd. destruct (H2 d Hd). split; auto. now apply Hset.
  - pose proof (inv_clk _ I). simpl. lia.
  - intros w' Hw'. simpl. destruct (upd_eq_cases (wp s) w (WPublish t t0 t1 (S (started s t))) w')
      as [[-> ->]|[Hne ->]].
    + simpl. rewrite upd_same. pose proof (inv_wp _ I w Hw) as Ok. rewrite Wp in Ok. simpl in Ok.
      repeat split; auto; lia.
    + pose proof (inv_wp _ I w' Hw') as Ok. destruct (wp s w') eqn:W'; simpl in *; auto; try lia.
      destruct (Nat.eq_dec t2 t) as [->|Hx].
      * exfalso. apply Hne, Huniq; auto. rewrite W'; simpl; auto.
      * rewrite upd_other by auto. intuition lia.
  - intros B x. simpl. destruct (inv_clock _ I B x) as [A1 A2].
    split; intros y Hy; [apply A1 in Hy | apply A2 in Hy]; lia.
  - intros x. destruct (Nat.eq_dec x t) as [->|Hx].
    + left. split; auto. exists w, t0, t1, (S (started s t)). split; auto. simpl. now rewrite upd_same.
    + apply (entry_ok_other s s'); auto using (inv_entry _ I).
      * simpl. now rewrite upd_other.
      * split; intros (w' & a & b & k & Hw' & E); exists w', a, b, k; split; auto; simpl in *.
        -- destruct (upd_eq_cases (wp s) w (WPublish t t0 t1 (S (started s t))) w')
             as [[-> E']|[Hne E']]; rewrite E' in E; auto. inversion E; subst; contradiction.
        -- rewrite upd_other; auto. intros ->. congruence.
Qed.

(* ---------- a worker publishes the result of t ---------- *)
Lemma F_publish_perm s w t a b k p :
  w < nworkers c -> wp s w = WPublish t a b k -> held p = [] ->
  forall e u co cw cn clk' st',
  Permutation (F c s)
     (t :: F c (mkS e (queue s) u co cw cn (mp s) (upd (wp s) w p) clk' st')).
Proof.
  intros Hw Wp Hp e u co cw cn clk' st'. rewrite !F_eq. simpl.
  pose proof (Fw_upd_perm c (wp s) w p Hw) as P. rewrite Wp, Hp in P. simpl in P.
  rewrite <- P. rewrite !app_assoc. apply Permutation_sym, Permutation_middle.
Qed.

Lemma core_wpublish s w t a b k :
  inv_core s -> w < nworkers c -> wp s w = WPublish t a b k ->
  inv_core (mkS (publish c (env s) t a b k) (queue s) (unfinished s) (cv_owner s)
                (cv_waiting s) (cv_notified s) (mp s) (upd (wp s) w WTaskDone) (clock s)
                (started s)).
Proof.
  intros I Hw Wp.
  pose proof (F_publish_perm s w t a b k WTaskDone Hw Wp eq_refl
                (publish c (env s) t a b k) (unfinished s) (cv_owner s) (cv_waiting s)
                (cv_notified s) (clock s) (started s)) as HP.
  set (s' := mkS _ _ _ _ _ _ _ _ _ _) in *.
  assert (HL : L c s' = L c s) by (apply L_mp; reflexivity).
  pose proof (inv_nodup _ I) as Hnd.
  assert (Hnd' : NoDup (L c s ++ t :: F c s')).
  { eapply Permutation_NoDup; [|exact Hnd]. now apply Permutation_app_head. }
  pose proof (NoDup_remove_1 _ _ _ Hnd') as Hnd1. pose proof (NoDup_remove_2 _ _ _ Hnd') as Hnd2.
  assert (tnL : ~ In t (L c s)) by (intros H; apply Hnd2, in_app_iff; auto).
  assert (tnF' : ~ In t (F c s')) by (intros H; apply Hnd2, in_app_iff; auto).
  assert (HF1 : forall x, In x (F c s') -> In x (F c s) /\ x <> t).
  { intros x Hx. split; [|intros ->; contradiction].
    eapply Permutation_in; [apply Permutation_sym; exact HP | right; auto]. }
  assert (HF2 : forall x, x <> t -> In x (F c s) -> In x (F c s')).
  { intros x Hx Hin. eapply Permutation_in in Hin; [|exact HP]. destruct Hin; congruence. }
  assert (tF : In t (F c s)).
  { eapply Permutation_in; [apply Permutation_sym; exact HP | left; auto]. }
  assert (Hset1 : forall d, settled c s d -> settled c s' d /\ env s' d = env s d).
  { intros d [S1 S2]. split.
    - split; [now rewrite HL | intros H; apply HF1 in H; tauto].
    - simpl. apply publish_other. intros ->; contradiction. }
  assert (Hset2 : forall x, x <> t -> settled c s' x -> settled c s x).
  { intros x Hx [S1 S2]. split; [now rewrite <- HL | intros H; apply S2, HF2; auto]. }
  pose proof (inv_wp _ I w Hw) as Ok. rewrite Wp in Ok. destruct Ok as (Hk & Hst & Hab & Hb).
  split.
  - now rewrite HL.
  - rewrite HL. apply (inv_sub _ I).
  - intros o Ho x Hx. apply HF1 in Hx as [Hx _]. eapply inv_Ford; eauto.
  - intros x Hx. simpl in Hx. simpl. rewrite publish_other; [apply (inv_acc _ I); auto|].
    intros ->. apply tnL. unfold L, pass_acc in *. destruct (mp s); simpl in Hx; try tauto;
      apply in_app_iff; auto.
  - intros x Hx. apply HF1 in Hx as [Hx Hne]. apply (flight_other s s'); auto.
    + apply (inv_flight _ I); auto.
    + simpl. now apply publish_other.
  - simpl. apply publish_junk_free, (inv_junk _ I).
  - apply (inv_clk _ I).
  - intros w' Hw'. simpl. destruct (upd_eq_cases (wp s) w WTaskDone w') as [[-> ->]|[Hne ->]].
    + exact Logic.I.
    + apply (wp_ok_mono s s'); auto. apply (inv_wp _ I); auto.
  - intros B. simpl. apply (clock_bounded_other (env s) _ (clock s) (clock s) t); auto.
    + apply (inv_clock _ I B).
    + intros; now apply publish_other.
    + rewrite publish_same. simpl. split; intros y Hy; inversion Hy; subst; lia.
  - intros x. destruct (Nat.eq_dec x t) as [->|Hx].
    + right; right. split; [split; [now rewrite HL | auto]|].
      assert (Hpay : payload_eq (env s t) (e0 t)).
      { destruct (inv_entry _ I t) as [[_ P]|[(_ & _ & P & _)|[[_ Se] _]]]; auto. contradiction. }
      split; [exact Hst|]. exists a, b. repeat split; auto.
      simpl. rewrite publish_same. destruct Hpay as (-> & _). now rewrite Hk.
    + apply (entry_ok_other s s'); auto using (inv_entry _ I).
      * simpl. now apply publish_other.
      * split; intros (w' & a' & b' & k' & Hw' & E); exists w', a', b', k'; split; auto; simpl in *.
        -- destruct (upd_eq_cases (wp s) w WTaskDone w') as [[-> E']|[Hne E']]; rewrite E' in E; auto.
           discriminate.
        -- rewrite upd_other; auto. intros ->. rewrite Wp in E. inversion E; subst; contradiction.
      * split; [now apply Hset2 | apply Hset1].
Qed.

(* ---------- all master steps ---------- *)
Lemma Fm_after_spawn k : Fm (after_spawn c k) = [].
Proof.
  unfold after_spawn. destruct (Nat.eqb _ _); auto. destruct (order c) as [[|]|]; auto.
Qed.
Lemma pass_acc_after_spawn k : pass_acc (after_spawn c k) = [].
Proof.
  unfold after_spawn. destruct (Nat.eqb _ _); auto. destruct (order c) as [[|]|]; auto.
Qed.

Lemma L_mk_next_decide e q u co cw cn wps ck st todo acc nb :
  L c (mkS e q u co cw cn (next_decide todo acc nb) wps ck st) = acc ++ todo.
Proof. now apply (L_next_decide c _ todo acc nb). Qed.

(* how L and F change when the head of todo is decided *)
Lemma decide_modes s t todo acc nb r e' :
  deciding s t todo acc nb -> decide c (env s) t = (r, e') ->
  let s' := decide_state s t todo acc nb r e' in
  L c s = acc ++ t :: todo /\
  ( (r = RWaiting /\ L c s' = L c s /\ F c s' = F c s /\ est (e' t) = Some WAITING)
    \/ (r = RPending /\ L c s' = acc ++ todo /\ F c s' = t :: F c s /\ est (e' t) = Some PENDING)
    \/ (r = RSkipped /\ L c s' = acc ++ todo /\ F c s' = F c s /\ est (e' t) = Some SKIPPED)
    \/ (r = RNone /\ L c s' = acc ++ todo /\ F c s' = F c s /\ e' = env s
        /\ est (env s t) = Some DONE) ).
Proof.
  intros H D s'. pose proof (decide_spec _ _ _ _ _ D) as S.
  assert (HL : L c s = acc ++ t :: todo) by (now apply (deciding_L c) in H).
  assert (HF : F c s = queued (queue s) ++ Fw c (wp s))
    by (rewrite F_eq, (deciding_Fm _ _ _ _ _ H); reflexivity).
  split; auto. subst s'. unfold decide_state. destruct r; simpl in S.
  - left. rewrite L_mk_next_decide, HL, <- app_assoc.
    rewrite F_eq. simpl. rewrite Fm_next_decide, HF. repeat split; auto. apply S.
  - right; left. rewrite F_eq. simpl. rewrite HF. unfold L. simpl. repeat split; auto. apply S.
  - right; right; left. rewrite L_mk_next_decide.
    rewrite F_eq. simpl. rewrite Fm_next_decide, HF. repeat split; auto. apply S.
  - right; right; right. rewrite L_mk_next_decide.
    rewrite F_eq. simpl. rewrite Fm_next_decide, HF. destruct S as [-> S]. repeat split; auto.
Qed.

Lemma core_decide s t todo acc nb r e' :
  wf_cfg c -> inv_core s -> deciding s t todo acc nb -> decide c (env s) t = (r, e') ->
  inv_core (decide_state s t todo acc nb r e').
Proof.
  intros Hwf I H D.
  destruct (decide_modes s t todo acc nb r e' H D) as [HL M].
  eapply core_decide_gen with (t := t); eauto; try reflexivity.
  - intros; simpl; eapply decide_other; eauto.
  - simpl. eapply decide_payload; eauto.
  - simpl. eapply decide_junk_free; eauto. apply (inv_junk _ I).
  - destruct M as [(-> & E1 & E2 & E3)|[(-> & E1 & E2 & E3)|[(-> & E1 & E2 & E3)|(-> & E1 & E2 & -> & E3)]]].
    + left. repeat split; auto. simpl. apply pass_acc_next_decide.
    + right; left. split; [auto|]. split; [auto|]. split; [auto|]. split; [|simpl; auto].
      intros d Hd Hne. eapply decide_pending_deps; eauto. apply (inv_junk _ I).
    + right; right. split; [auto|]. split; [auto|]. split; [left; auto|].
      simpl. apply pass_acc_next_decide.
    + right; right. split; [auto|]. split; [auto|]. split; [right; auto|].
      simpl. apply pass_acc_next_decide.
Qed.

Lemma core_mtrans s s' : wf_cfg c -> inv_core s -> inv_aux s -> mtrans c s s' -> inv_core s'.
Proof.
  intros Hwf I A T. destruct T.
  - (* MStart *)
    destruct (inv_mstart _ A k H) as [Hk Hnone].
    apply (core_frame s); auto.
    + unfold L. simpl. rewrite H. unfold after_spawn.
      destruct (Nat.eqb _ _); auto. destruct (order c) as [[|]|]; auto.
    + rewrite !F_eq. simpl. rewrite H, Fm_after_spawn, Fw_upd_same; auto.
      now rewrite Hnone.
    + simpl. now rewrite pass_acc_after_spawn.
    + intros w Hw. simpl. destruct (upd_eq_cases (wp s) k WBoot w) as [[-> ->]|[_ ->]]; auto.
      right. rewrite Hnone; simpl; auto.
  - (* MCvAcq *)
    apply (core_frame s); auto; simpl.
    + unfold L. simpl. now rewrite H.
    + rewrite !F_eq. simpl. now rewrite H.
    + tauto.
  - (* MDecide *)
    apply (core_decide s t todo acc nb r e'); auto. now left.
  - (* MCvRelLoop, variation: first decision of the next pass *)
    apply core_decide; auto. right; auto.
  - (* MPut *)
    apply (core_frame s); auto; simpl.
    + rewrite L_mk_next_decide. unfold L. now rewrite H.
    + rewrite !F_eq. simpl. rewrite H, Fm_next_decide, queued_app. simpl.
      rewrite <- app_assoc. simpl. apply Permutation_middle.
    + rewrite H. simpl. apply pass_acc_next_decide.
  - apply (core_frame s); auto; simpl.
    + unfold L. simpl. now rewrite H.
    + rewrite !F_eq. simpl. now rewrite H.
    + tauto.
  - apply (core_frame s); auto; simpl.
    + unfold L. simpl. now rewrite H.
    + rewrite !F_eq. simpl. now rewrite H.
    + tauto.
  - apply (core_frame s); auto; simpl.
    + unfold L. simpl. now rewrite H.
    + rewrite !F_eq. simpl. now rewrite H.
    + tauto.
  - apply (core_frame s); auto; simpl.
    + unfold L. simpl. now rewrite H.
    + rewrite !F_eq. simpl. now rewrite H.
    + tauto.
  - destruct (Nat.eqb (nworkers c) 0); apply (core_frame s); auto; simpl;
      try tauto; try (unfold L; simpl; now rewrite H); rewrite !F_eq; simpl; now rewrite H.
  - destruct (Nat.eqb (S k) (nworkers c)); apply (core_frame s); auto; simpl;
      try tauto; try (unfold L; simpl; now rewrite H);
      rewrite !F_eq; simpl; rewrite H, queued_app; simpl; now rewrite app_nil_r.
  - destruct (Nat.eqb (S k) (nworkers c)); apply (core_frame s); auto; simpl;
      try tauto; try (unfold L; simpl; now rewrite H); rewrite !F_eq; simpl; now rewrite H.
Qed.

(* ---------- all worker steps ---------- *)
Lemma aux_worker_lt s w : inv_aux s -> wp s w <> WNone -> w < nworkers c.
Proof.
  intros A H. destruct (le_lt_dec (nworkers c) w) as [Hle|]; auto.
  exfalso. apply H, (inv_wnone _ A); auto.
Qed.

Lemma core_wframe s w p q u co cw cn :
  inv_core s -> w < nworkers c ->
  ~ is_pub (wp s w) -> ~ is_pub p -> held p = held (wp s w) -> (p = WNone \/ held p = []) ->
  queued q = queued (queue s) ->
  inv_core (mkS (env s) q u co cw cn (mp s) (upd (wp s) w p) (clock s) (started s)).
Proof.
  intros I Hw N1 N2 Hh Hp Hq. apply (core_frame s); auto; simpl.
  - rewrite !F_eq. simpl. now rewrite Hq, Fw_upd_same.
  - intros w' Hw'. destruct (upd_eq_cases (wp s) w p w') as [[-> ->]|[_ ->]]; auto.
    right. repeat split; auto. destruct p; simpl in *; auto; destruct Hp; discriminate.
Qed.

Lemma core_wtrans s w s' : inv_core s -> inv_aux s -> wtrans c s w s' -> inv_core s'.
Proof.
  intros I A T.
  assert (Hw : w < nworkers c) by (apply (aux_worker_lt s); auto; destruct T; congruence).
  destruct T.
  - apply core_wframe; auto; rewrite ?H; simpl; auto.
  - apply core_wframe; auto; rewrite ?H, ?H0; simpl; auto.
  - (* WGet of a task *)
    apply (core_frame s); auto; simpl.
    + rewrite !F_eq. simpl. rewrite H0. simpl.
      pose proof (Fw_upd_perm c (wp s) w (WStart t t0) Hw) as P. rewrite H in P. simpl in P.
      rewrite P. apply Permutation_app_head. apply Permutation_middle.
    + intros w' Hw'. destruct (upd_eq_cases (wp s) w (WStart t t0) w') as [[-> ->]|[_ ->]]; auto.
      right. rewrite H. simpl. auto.
  - now apply core_wstart.
  - now apply core_wpublish.
  - apply core_wframe; auto; rewrite ?H; simpl; auto.
  - apply core_wframe; auto; rewrite ?H; simpl; auto.
  - apply core_wframe; auto; rewrite ?H; simpl; auto.
  - apply core_wframe; auto; rewrite ?H; simpl; auto.
Qed.

(* ---------- the auxiliary part: workers that exist, counting ---------- *)
Lemma next_decide_not_mstart todo acc nb k : next_decide todo acc nb <> MStart k.
Proof.
  unfold next_decide, pass_end. destruct todo; [|discriminate].
  destruct acc; [discriminate|]. destruct (Nat.eqb nb _); discriminate.
Qed.
Lemma sent_next_decide todo acc nb : sent c (next_decide todo acc nb) = 0.
Proof.
  unfold next_decide, pass_end. destruct todo; [|reflexivity].
  destruct acc; [reflexivity|]. destruct (Nat.eqb nb _); reflexivity.
Qed.
Lemma drained_next_decide todo acc nb : ~ drained (next_decide todo acc nb).
Proof using.
  unfold next_decide, pass_end. destruct todo; [|exact (fun H => H)].
  destruct acc; [exact (fun H => H)|]. destruct (Nat.eqb nb _); exact (fun H => H).
Qed.
Lemma sent_after_spawn k : sent c (after_spawn c k) = 0.
Proof.
  unfold after_spawn. destruct (Nat.eqb _ _); auto. destruct (order c) as [[|]|]; auto.
Qed.
Lemma drained_after_spawn k : ~ drained (after_spawn c k).
Proof using.
  unfold after_spawn. destruct (Nat.eqb _ _); [|exact (fun H => H)].
  destruct (order c) as [[|]|]; exact (fun H => H).
Qed.

Lemma aux_mtrans s s' : inv_aux s -> mtrans c s s' -> inv_aux s'.
Proof using.
  intros A T. pose proof (inv_count _ A) as Hc. pose proof (inv_drained _ A) as Hd.
  unfold cnt in *.
  destruct T; rewrite H in *; simpl in Hc, Hd.
  - (* MStart *)
    destruct (inv_mstart _ A k H) as [Hk Hnone]. split; simpl.
    + intros w Hw. rewrite upd_other by lia. apply (inv_wnone _ A); auto.
    + unfold after_spawn. intros k'. destruct (Nat.eqb_spec (S k) (nworkers c)).
      * destruct (order c) as [[|]|]; discriminate.
      * intros E; inversion E; subst k'. split; [lia|]. intros w Hw.
        rewrite upd_other by lia. apply Hnone; lia.
    + unfold cnt. simpl. pose proof (Bw_upd c (wp s) k WBoot Hk) as B.
      rewrite Hnone in B by lia. simpl in B. rewrite sent_after_spawn. lia.
    + intros D. now apply drained_after_spawn in D.
  - split; simpl; auto using (inv_wnone _ A); try discriminate; try (now intros []).
  - split; simpl; auto using (inv_wnone _ A).
    + intros k. destruct r; try discriminate; intros E; now apply next_decide_not_mstart in E.
    + unfold cnt. simpl. destruct r; simpl; rewrite ?sent_next_decide; lia.
    + destruct r; simpl; try (now intros []); intros D; now apply drained_next_decide in D.
  - split; simpl; auto using (inv_wnone _ A).
    + intros k. destruct r; try discriminate; intros E; now apply next_decide_not_mstart in E.
    + unfold cnt. simpl. destruct r; simpl; rewrite ?sent_next_decide; lia.
    + destruct r; simpl; try (now intros []); intros D; now apply drained_next_decide in D.
  - split; simpl; auto using (inv_wnone _ A).
    + intros k E; now apply next_decide_not_mstart in E.
    + unfold cnt. simpl. rewrite queued_app, app_length, sent_next_decide. simpl. lia.
    + intros D; now apply drained_next_decide in D.
  - split; simpl; auto using (inv_wnone _ A); try discriminate; try (now intros []).
  - split; simpl; auto using (inv_wnone _ A); try discriminate; try (now intros []).
  - split; simpl; auto using (inv_wnone _ A); try discriminate; try (now intros []).
  - split; simpl; auto using (inv_wnone _ A); try discriminate; try (now intros []).
  - (* MQJoin *)
    destruct (Nat.eqb_spec (nworkers c) 0); split; simpl; auto using (inv_wnone _ A);
      try discriminate; unfold cnt; simpl; try lia; intros _; lia.
  - (* MSentinel *)
    assert (Z := Hd Logic.I).
    destruct (Nat.eqb_spec (S k) (nworkers c)); split; simpl; auto using (inv_wnone _ A);
      try discriminate; unfold cnt; simpl; rewrite queued_app, app_length; simpl; try lia;
      intros _; lia.
  - (* MJoinT *)
    assert (Z := Hd Logic.I).
    destruct (Nat.eqb_spec (S k) (nworkers c)); split; simpl; auto using (inv_wnone _ A);
      try discriminate; unfold cnt; simpl; try lia; intros _; lia.
Qed.

Lemma aux_wtrans s w s' : inv_aux s -> wtrans c s w s' -> inv_aux s'.
Proof.
  intros A T.
  assert (Hw : w < nworkers c) by (apply (aux_worker_lt s); auto; destruct T; congruence).
  pose proof (inv_count _ A) as Hc. pose proof (inv_drained _ A) as Hd. unfold cnt in *.
  assert (G : forall p q u co cw cn ck st e,
    p <> WNone ->
    u + length (queued (queue s)) + length (busy (wp s w))
      = unfinished s + length (queued q) + length (busy p) ->
    (length (queued q) + length (busy p) <= length (queued (queue s)) + length (busy (wp s w))) ->
    inv_aux (mkS e q u co cw cn (mp s) (upd (wp s) w p) ck st)).
  { intros p q u co cw cn ck st e Hp Hu Hle. pose proof (Bw_upd c (wp s) w p Hw) as B.
    split; simpl.
    - intros w' Hw'. rewrite upd_other by lia. apply (inv_wnone _ A); auto.
    - intros k Hk. destruct (inv_mstart _ A k Hk) as [Hk' Hnone]. split; auto.
      intros w' Hw'. destruct (upd_eq_cases (wp s) w p w') as [[-> _]|[_ ->]]; auto.
      exfalso. specialize (Hnone w Hw'). destruct T; congruence.
    - unfold cnt. simpl. lia.
    - intros D. specialize (Hd D). unfold cnt. simpl. lia. }
  destruct T; try (apply G; [discriminate | rewrite ?H, ?H0; simpl; lia | rewrite ?H, ?H0; simpl; lia]).
Qed.

(* ---------- assembling ---------- *)
Lemma inv_step s tid now s' : wf_cfg c -> inv s -> step c s tid now = Some s' -> inv s'.
Proof.
  intros Hwf [I A] H. apply step_trans in H as [[_ T]|(w & _ & T)]; split.
  - eapply core_mtrans; eauto.
  - eapply aux_mtrans; eauto.
  - eapply core_wtrans; eauto.
  - eapply aux_wtrans; eauto.
Qed.

Lemma inv_run sched : forall s s', wf_cfg c -> inv s -> run c s sched = Some s' -> inv s'.
Proof.
  induction sched as [|[tid now] r IH]; simpl; intros s s' Hwf I H.
  - now inversion H; subst.
  - destruct (step c s tid now) as [s1|] eqn:E; [|discriminate].
    apply (IH s1 s'); auto. eapply inv_step; eauto.
Qed.

Lemma inv_reachable s : wf_cfg c -> junk_free e0 -> reachable c e0 st0 clk s -> inv s.
Proof.
  intros Hwf J (sched & H). eapply inv_run; eauto. now apply inv_init.
Qed.

(* ---------- a coarser classification of the steps, for further invariants ---------- *)
Inductive step_kind (s s' : state) : Prop :=
| SK_frame :
    env s' = env s -> started s' = started s -> clock s' = clock s -> L c s' = L c s ->
    Permutation (F c s) (F c s') ->
    (forall w, w < nworkers c ->
       wp s' w = wp s w \/ (held (wp s' w) = [] /\ held (wp s w) = [])) ->
    step_kind s s'
| SK_get w t q t0 :
    w < nworkers c -> wp s w = WGet -> queue s = Some t :: q -> clock s <= t0 ->
    s' = mkS (env s) q (unfinished s) (cv_owner s) (cv_waiting s) (cv_notified s) (mp s)
             (upd (wp s) w (WStart t t0)) t0 (started s) ->
    L c s' = L c s -> Permutation (F c s) (F c s') -> In t (F c s) ->
    step_kind s s'
| SK_decide t todo acc nb r e' :
    deciding s t todo acc nb -> decide c (env s) t = (r, e') ->
    s' = decide_state s t todo acc nb r e' ->
    step_kind s s'
| SK_start w t t0 t1 :
    w < nworkers c -> wp s w = WStart t t0 -> clock s <= t1 ->
    s' = mkS (env s) (queue s) (unfinished s) (cv_owner s) (cv_waiting s) (cv_notified s)
             (mp s) (upd (wp s) w (WPublish t t0 t1 (S (started s t)))) t1
             (upd (started s) t (S (started s t))) ->
    L c s' = L c s -> F c s' = F c s ->
    step_kind s s'
| SK_publish w t a b k :
    w < nworkers c -> wp s w = WPublish t a b k ->
    s' = mkS (publish c (env s) t a b k) (queue s) (unfinished s) (cv_owner s)
             (cv_waiting s) (cv_notified s) (mp s) (upd (wp s) w WTaskDone) (clock s)
             (started s) ->
    L c s' = L c s -> Permutation (F c s) (t :: F c s') ->
    step_kind s s'.

Lemma mtrans_kind s s' : wf_cfg c -> inv_aux s -> mtrans c s s' -> step_kind s s'.
Proof.
  intros Hwf A T. destruct T;
    try (apply SK_frame; auto; simpl;
         [ unfold L; simpl; now rewrite H | rewrite !F_eq; simpl; now rewrite H ]).
  - destruct (inv_mstart _ A k H) as [Hk Hnone]. apply SK_frame; auto.
    + unfold L. simpl. rewrite H. unfold after_spawn.
      destruct (Nat.eqb _ _); auto. destruct (order c) as [[|]|]; auto.
    + rewrite !F_eq. simpl. rewrite H, Fm_after_spawn, Fw_upd_same; auto. now rewrite Hnone.
    + intros w Hw. simpl. destruct (upd_eq_cases (wp s) k WBoot w) as [[-> ->]|[_ ->]]; auto.
      right. rewrite Hnone; simpl; auto.
  - apply (SK_decide s _ t todo acc nb r e'); [now left | auto | reflexivity].
  - apply (SK_decide s _ t todo [] (length (t :: todo)) r e'); [right; auto | auto | reflexivity].
  - apply SK_frame; auto; simpl.
    + rewrite L_mk_next_decide. unfold L. now rewrite H.
    + rewrite !F_eq. simpl. rewrite H, Fm_next_decide, queued_app. simpl.
      rewrite <- app_assoc. simpl. apply Permutation_middle.
  - destruct (Nat.eqb (nworkers c) 0); apply SK_frame; auto; simpl;
      try (unfold L; simpl; now rewrite H); rewrite !F_eq; simpl; now rewrite H.
  - destruct (Nat.eqb (S k) (nworkers c)); apply SK_frame; auto; simpl;
      try (unfold L; simpl; now rewrite H);
      rewrite !F_eq; simpl; rewrite H, queued_app; simpl; now rewrite app_nil_r.
  - destruct (Nat.eqb (S k) (nworkers c)); apply SK_frame; auto; simpl;
      try (unfold L; simpl; now rewrite H); rewrite !F_eq; simpl; now rewrite H.
Qed.

Lemma wtrans_kind s w s' : inv_aux s -> wtrans c s w s' -> step_kind s s'.
Proof.
  intros A T.
  assert (Hw : w < nworkers c) by (apply (aux_worker_lt s); auto; destruct T; congruence).
  assert (G : forall p q u co cw cn,
    held (wp s w) = [] -> held p = [] -> queued q = queued (queue s) ->
    step_kind s (mkS (env s) q u co cw cn (mp s) (upd (wp s) w p) (clock s) (started s))).
  { intros p q u co cw cn H1 H2 Hq. apply SK_frame; auto; simpl.
    - rewrite !F_eq. simpl. rewrite Hq, Fw_upd_same; auto. congruence.
    - intros w' Hw'. destruct (upd_eq_cases (wp s) w p w') as [[-> ->]|[_ ->]]; auto. }
  destruct T; try (apply G; rewrite ?H, ?H0; reflexivity).
  - eapply SK_get; eauto.
    + rewrite !F_eq. simpl. rewrite H0. simpl.
      pose proof (Fw_upd_perm c (wp s) w (WStart t t0) Hw) as P. rewrite H in P. simpl in P.
      rewrite P. apply Permutation_app_head. apply Permutation_middle.
    + apply In_F. right; left. rewrite H0; simpl; auto.
  - eapply SK_start; eauto. rewrite !F_eq. simpl. rewrite Fw_upd_same; auto. now rewrite H.
  - eapply SK_publish; eauto. now apply (F_publish_perm s w t t0 t1 k).
Qed.

Lemma step_kinds s tid now s' :
  wf_cfg c -> inv s -> step c s tid now = Some s' -> step_kind s s'.
Proof.
  intros Hwf [I A] H. apply step_trans in H as [[_ T]|(w & _ & T)].
  - now apply mtrans_kind.
  - eapply wtrans_kind; eauto.
Qed.

(* ---------- consequences ---------- *)
Lemma inv_lt s t : wf_cfg c -> inv s -> In t (L c s ++ F c s) -> t < ntasks c.
Proof.
  intros Hwf [I _] H. destruct (wf_order Hwf) as (ord & Ho & _ & Hlt & _). apply Hlt.
  apply in_app_iff in H as [H|H].
  - eapply sublist_In; eauto. apply (inv_sub _ I); auto.
  - eapply inv_Ford; eauto.
Qed.

(* when the master has returned every task is settled *)
Lemma returned_F_nil s : inv s -> mp s = MReturned -> L c s = [] /\ F c s = [].
Proof.
  intros [I A] H. split; [unfold L; now rewrite H|].
  pose proof (inv_drained _ A) as D. rewrite H in D. specialize (D Logic.I). unfold cnt in D.
  rewrite F_eq, H. simpl.
  assert (Q : queued (queue s) = []) by (apply length_zero_iff_nil; lia).
  assert (B : Bw c (wp s) = []) by (apply length_zero_iff_nil; lia).
  now rewrite Q, (Bw_nil_held _ _ B).
Qed.
Lemma returned_all_settled s : inv s -> mp s = MReturned -> forall t, settled c s t.
Proof.
  intros I H t. unfold settled. destruct (returned_F_nil s I H) as [-> ->]. split; simpl; tauto.
Qed.

Lemma entry_eq (x y : entry) : est x = est y -> payload_eq x y -> x = y.
Proof. destruct x, y; simpl. intros -> (H1 & H2 & H3); simpl in *. congruence. Qed.

(* Inv-entry, as stated in the plan, for a settled task *)
Lemma settled_entry s d :
  inv s -> settled c s d ->
  (started s d = st0 d /\ payload_eq (env s d) (e0 d)
   /\ (est (env s d) = est (e0 d) \/ est (env s d) = Some SKIPPED))
  \/ executed s d.
Proof.
  intros [I _] Sd. destruct (inv_entry _ I d) as [[P _]|[(_ & St & Pay & _ & HS)|[_ Ex]]]; auto.
  exfalso. apply pubs_in_F in P. now destruct Sd.
Qed.

(* a settled task stays settled; its entry and its execution count never change again *)
Lemma settled_stable s s' :
  inv s -> step_kind s s' ->
  forall d, settled c s d -> settled c s' d /\ env s' d = env s d.
Proof.
  intros I K d [S1 S2]. destruct K.
  - split; [|congruence]. split; [congruence|].
    intros Hin. apply S2. eapply Permutation_in; [apply Permutation_sym|]; eauto.
  - subst s'. split; auto. split; [congruence|].
    intros Hin. apply S2. eapply Permutation_in; [apply Permutation_sym|]; eauto.
  - destruct (decide_modes s t todo acc nb r e' H H0) as [HL M]. subst s'.
    assert (dt : d <> t) by (intros ->; apply S1; rewrite HL, in_app_iff; simpl; auto).
    split; [|simpl; eapply decide_other; eauto].
    rewrite HL in S1.
    destruct M as [(_ & E1 & E2 & _)|[(_ & E1 & E2 & _)|[(_ & E1 & E2 & _)|(_ & E1 & E2 & _)]]];
      split; rewrite ?E1, ?E2, ?HL; simpl; auto;
      rewrite ?in_app_iff in *; simpl in *; intuition.
  - subst s'. split; [split; congruence | reflexivity].
  - split.
    + split; [congruence|]. intros Hin. apply S2.
      eapply Permutation_in; [apply Permutation_sym; eauto | right; auto].
    + subst s'. simpl. apply publish_other. intros ->. apply S2.
      eapply Permutation_in; [apply Permutation_sym; eauto | left; auto].
Qed.

Lemma settled_started_stable s s' :
  inv s -> step_kind s s' -> forall d, settled c s d -> started s' d = started s d.
Proof.
  intros I K d [S1 S2]. destruct K.
  - now rewrite H0.
  - subst s'; reflexivity.
  - subst s'; reflexivity.
  - subst s'. simpl. apply upd_other. intros ->. apply S2, In_F. right; right. exists w.
    split; auto. rewrite H0; simpl; auto.
  - subst s'; reflexivity.
Qed.

(* do() of a task begins at most once per run *)
Lemma started_cases s t : inv s -> started s t = st0 t \/ started s t = S (st0 t).
Proof.
  intros [I _]. destruct (inv_entry _ I t) as [[P _]|[(_ & St & _)|[_ [St _]]]]; auto.
  destruct P as (w & a & b & k & Hw & E). pose proof (inv_wp _ I w Hw) as Ok.
  rewrite E in Ok. simpl in Ok. tauto.
Qed.

End Invariants.

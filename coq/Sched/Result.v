(* What a worker makes of the value returned by Task.do(): a transcription of
   WorkerThread.check_result, of the exception handler around it in WorkerThread.run and of
   WorkerThread.publish (valjean/cosette/backends/queue.py), on the *shape* of the returned value.
   It yields the abstract [outcome] that configures the scheduler model (Sched/Model.v): so far
   that table lived in the Python harness only.  No proofs in this file. *)
From Coq Require Import List Bool Arith.
From VV Require Import Sched.Model.
Import ListNotations.

(* the entry filed under the task's own name inside its update *)
Inductive own_shape :=
| OwnAbsent          (* the update has no key for the task itself *)
| OwnMutable         (* a MutableMapping (dict, OrderedDict, UserDict, Env...) *)
| OwnReadOnly        (* a Mapping that is not mutable (MappingProxyType, a frozen mapping class) *)
| OwnOther.          (* anything else: a number, a string, None, a list... *)

Inductive upd_shape :=
| UNone              (* None *)
| UMap (o : own_shape)   (* any Mapping, mutable or not *)
| UOther.            (* not a mapping: a list, a number, a string, a set... *)

(* the second component of the pair *)
Inductive stat_shape :=
| StMember (s : status)  (* a TaskStatus member (JUNK is not one) *)
| StCode (n : nat)       (* an integer (TaskStatus is an IntEnum: 1..5 are the codes of its members) *)
| StJunk.                (* None, a string, a tuple, -1, 0, 99... *)

Inductive result :=
| Raises             (* do() raised an Exception or SystemExit *)
| NotPair            (* the value cannot be unpacked into two items *)
| Pair (u : upd_shape) (s : stat_shape).

Definition status_of_code (n : nat) : option status :=
  match n with
  | 1 => Some WAITING | 2 => Some PENDING | 3 => Some DONE | 4 => Some FAILED | 5 => Some SKIPPED
  | _ => None
  end.

(* TaskStatus(status) *)
Definition to_status (s : stat_shape) : option status :=
  match s with
  | StMember JUNK => None
  | StMember m => Some m
  | StCode n => status_of_code n
  | StJunk => None
  end.

Definition upd_accepted (u : upd_shape) : bool :=
  match u with
  | UNone => true
  | UMap OwnAbsent | UMap OwnMutable => true
  | UMap OwnReadOnly | UMap OwnOther => false
  | UOther => false
  end.

(* check_result: None = TaskError *)
Definition check_result (r : result) : option (upd_shape * status) :=
  match r with
  | Raises | NotPair => None
  | Pair u s =>
      if upd_accepted u then
        match to_status s with
        | Some DONE => Some (u, DONE)
        | Some FAILED => Some (u, FAILED)
        | _ => None
        end
      else None
  end.

(* run() + publish(): [mergeable] = Env.apply can merge the update into the environment
   (see Sched/EnvApply.v: it raises exactly on a non-empty mapping meeting a plain value) *)
Definition worker_outcome (r : result) (mergeable : bool) : outcome :=
  match check_result r with
  | None => mkO false false                    (* (None, FAILED) *)
  | Some (UNone, st) => mkO false (status_eqb st DONE)
  | Some (_, st) =>
      if mergeable then mkO true (status_eqb st DONE)
      else mkO false false                     (* apply raised: FAILED, the update is not claimed *)
  end.

(* the published status *)
Definition published (r : result) (mergeable : bool) : status :=
  if ok (worker_outcome r mergeable) then DONE else FAILED.

Definition well_formed (r : result) : bool :=
  match r with
  | Pair u s => upd_accepted u
                && match to_status s with Some DONE | Some FAILED => true | _ => false end
  | _ => false
  end.

(* ---- encodings used by the correspondence check (harness/vp/schedresult.py) ---- *)
Definition outcome_code (o : outcome) : nat :=
  (if has_upd o then 2 else 0) + (if ok o then 1 else 0).

(* check_result as the harness sees it: 0 = TaskError, 1 = (.., DONE), 2 = (.., FAILED) *)
Definition check_code (r : result) : nat :=
  match check_result r with
  | None => 0
  | Some (_, DONE) => 1
  | Some (_, _) => 2
  end.

(* one case: the shape, whether the update can be merged, what the implementation did *)
Definition rcase := (result * bool * nat * nat)%type.

Definition rcase_ok (c : rcase) : bool :=
  let '(r, m, chk, out) := c in
  Nat.eqb (check_code r) chk && Nat.eqb (outcome_code (worker_outcome r m)) out.

Fixpoint bad_rcases (k : nat) (l : list rcase) : list nat :=
  match l with
  | [] => []
  | c :: tl => if rcase_ok c then bad_rcases (S k) tl else k :: bad_rcases (S k) tl
  end.

(* The hypotheses of the scheduler theorems (C01, C04) are satisfiable:
   a concrete 3-task chain 0 <- 1 <- 2 with two workers, complete schedules
   computed by a greedy scheduler and replayed by vm_compute. *)
From Coq Require Import List Bool Arith Lia.
From VV Require Import Sched.Model Sched.Defs Sched.Inv Sched.ProofsC01 Sched.ProofsC04.
From VV Require Import Sched.EnvApply Sched.EnvApplyProofs.
From VV Require Import Sched.Result Sched.ResultProofs.
Import ListNotations.

Definition deps0 (t : nat) : list nat := match t with 1 => [0] | 2 => [1] | _ => [] end.
Definition c0 : cfg :=
  mkCfg 3 deps0 deps0 (Some [0; 1; 2]) 2 (fun _ => mkO true true).

Lemma wf_c0 : wf_cfg c0.
Proof.
  exists [0; 1; 2]. split; [reflexivity|]. split.
  { repeat constructor; simpl; intuition discriminate. }
  split. { intros t. simpl. lia. }
  split.
  { intros t d Hd Ht. simpl in Ht. destruct Ht as [<-|[<-|[<-|[]]]]; simpl in Hd.
    - destruct Hd.
    - destruct Hd as [<-|[]]. simpl. split; [auto|lia].
    - destruct Hd as [<-|[]]. simpl. split; [auto|lia]. }
  split; [auto | simpl; lia].
Qed.

(* a greedy scheduler: the first thread that can move moves; clocks tick *)
Fixpoint first_step (c : cfg) (s : state) (tids : list nat) : option (nat * list nat * state) :=
  match tids with
  | [] => None
  | tid :: r =>
      match step c s tid [] with
      | Some s' => Some (tid, [], s')
      | None =>
          match step c s tid [S (clock s)] with
          | Some s' => Some (tid, [S (clock s)], s')
          | None => first_step c s r
          end
      end
  end.

Fixpoint greedy (c : cfg) (fuel : nat) (s : state) : list (nat * list nat) :=
  match fuel with
  | 0 => []
  | S f =>
      match first_step c s (seq 0 (S (nworkers c))) with
      | Some (tid, now, s') => (tid, now) :: greedy c f s'
      | None => []
      end
  end.

Definition empty_env : nat -> entry := fun _ => no_entry.
Definition zero : nat -> nat := fun _ => 0.

(* ---------- first run, from the empty environment ---------- *)
Definition sched1 : list (nat * list nat) :=
  Eval vm_compute in greedy c0 200 (init c0 empty_env zero 0).

Lemma run1_summary :
  match run c0 (init c0 empty_env zero 0) sched1 with
  | Some s => mp s = MReturned
              /\ map (fun t => est (env s t)) [0; 1; 2] = [Some DONE; Some DONE; Some DONE]
              /\ map (started s) [0; 1; 2] = [1; 1; 1]
  | None => False
  end.
Proof. vm_compute. auto. Qed.

Lemma junk_free_empty : junk_free empty_env.
Proof. intros t. discriminate. Qed.
Lemma clocked_empty : clocked empty_env 0.
Proof. intros t. simpl. repeat split; discriminate. Qed.

(* a reachable state where the master has returned: hypotheses of C04_rerun_consistent *)
Lemma reachable_returned :
  exists s, reachable c0 empty_env zero 0 s /\ mp s = MReturned
            /\ consistent c0 (env s) /\ clocked (env s) (clock s).
Proof.
  pose proof run1_summary as H.
  destruct (run c0 (init c0 empty_env zero 0) sched1) as [s|] eqn:R; [|destruct H].
  destruct H as (M & _). exists s.
  assert (Re : reachable c0 empty_env zero 0 s) by (exists sched1; exact R).
  split; [auto|]. split; [auto|].
  apply (rerun_consistent c0 empty_env zero 0 s wf_c0 junk_free_empty clocked_empty Re M).
Qed.

(* ---------- the variation that keeps the condition variable between two passes ---------- *)
(* the master prefers the one-element [now] list, i.e. master_step_alt, whenever it applies *)
Fixpoint greedy_alt (c : cfg) (fuel : nat) (s : state) : list (nat * list nat) :=
  match fuel with
  | 0 => []
  | S f =>
      match step c s 0 [0] with
      | Some s' => (0, [0]) :: greedy_alt c f s'
      | None =>
          match first_step c s (seq 0 (S (nworkers c))) with
          | Some (tid, now, s') => (tid, now) :: greedy_alt c f s'
          | None => []
          end
      end
  end.

Definition sched1_alt : list (nat * list nat) :=
  Eval vm_compute in greedy_alt c0 200 (init c0 empty_env zero 0).

Lemma run1_alt_summary :
  existsb (fun x => Nat.eqb (fst x) 0 && Nat.eqb (length (snd x)) 1) sched1_alt = true
  /\ match run c0 (init c0 empty_env zero 0) sched1_alt with
     | Some s => mp s = MReturned
                 /\ map (fun t => est (env s t)) [0; 1; 2] = [Some DONE; Some DONE; Some DONE]
                 /\ map (started s) [0; 1; 2] = [1; 1; 1]
     | None => False
     end.
Proof. vm_compute. auto. Qed.

(* ---------- a reachable state with a worker about to start task 1 (hypotheses of C01) ---------- *)
Fixpoint starting (s : state) (t : nat) (ws : list nat) : bool :=
  match ws with
  | [] => false
  | w :: r => match wp s w with WStart t' _ => Nat.eqb t' t || starting s t r | _ => starting s t r end
  end.

Fixpoint prefix_until (c : cfg) (s : state) (sched : list (nat * list nat)) (t : nat)
  : list (nat * list nat) :=
  if starting s t (seq 0 (nworkers c)) then []
  else match sched with
       | [] => []
       | (tid, now) :: r =>
           match step c s tid now with
           | Some s' => (tid, now) :: prefix_until c s' r t
           | None => []
           end
       end.

Definition sched1_start1 : list (nat * list nat) :=
  Eval vm_compute in prefix_until c0 (init c0 empty_env zero 0) sched1 1.

Lemma reachable_start :
  exists s w t0, reachable c0 empty_env zero 0 s /\ w < nworkers c0 /\ wp s w = WStart 1 t0
                 /\ deps c0 1 = [0] /\ stat (env s) 0 = DONE.
Proof.
  assert (H : match run c0 (init c0 empty_env zero 0) sched1_start1 with
              | Some s => (exists t0, wp s 0 = WStart 1 t0) /\ stat (env s) 0 = DONE
              | None => False
              end).
  { vm_compute. split; eauto. }
  destruct (run c0 (init c0 empty_env zero 0) sched1_start1) as [s|] eqn:R; [|destruct H].
  destruct H as ((t0 & W) & D). exists s, 0, t0.
  split; [exists sched1_start1; exact R|]. split; [simpl; lia|]. auto.
Qed.

(* ---------- a second run from an up-to-date environment ---------- *)
Definition e1 : nat -> entry :=
  fun t => if Nat.ltb t 3 then mkE (Some DONE) (Some 1) (Some (2 * t + 1)) (Some (2 * t + 2))
           else no_entry.

Fixpoint utd_b (c : cfg) (e : nat -> entry) (fuel t : nat) : bool :=
  match fuel with
  | 0 => false
  | S f =>
      match est (e t) with Some DONE => true | _ => false end
      && forallb (fun d => utd_b c e f d
                           && match eec (e d), esc (e t) with
                              | Some a, Some b => Nat.leb a b
                              | _, _ => false
                              end) (deps c t)
      && forallb (fun d => match est (e d) with
                           | Some FAILED | Some SKIPPED => false
                           | _ => true
                           end) (hdeps c t)
  end.

Lemma utd_b_sound c e fuel : forall t, utd_b c e fuel t = true -> up_to_date c e t.
Proof.
  induction fuel as [|f IH]; simpl; intros t H; [discriminate|].
  apply andb_true_iff in H as [H H3]. apply andb_true_iff in H as [H1 H2].
  constructor.
  - destruct (est (e t)) as [[]|]; try discriminate; reflexivity.
  - intros d Hd. eapply forallb_forall in H2; eauto. apply andb_true_iff in H2 as [U Cl].
    split; [now apply IH|].
    destruct (eec (e d)) as [a|]; [|discriminate]. destruct (esc (e t)) as [b|]; [|discriminate].
    apply Nat.leb_le in Cl. eauto.
  - intros d Hd. eapply forallb_forall in H3; eauto.
    destruct (est (e d)) as [[]|]; try discriminate; split; discriminate.
Qed.

Lemma utd_e1 : forall t, t < 3 -> up_to_date c0 e1 t.
Proof.
  intros t Ht. apply (utd_b_sound c0 e1 4).
  destruct t as [|[|[|]]]; [reflexivity | reflexivity | reflexivity | lia].
Qed.

Lemma junk_free_e1 : junk_free e1.
Proof. intros t. unfold e1. destruct (Nat.ltb t 3); discriminate. Qed.
Lemma clocked_e1 : clocked e1 6.
Proof.
  intros t. unfold e1. destruct (Nat.ltb_spec t 3); simpl.
  - repeat split; try discriminate; intros x E; inversion E; lia.
  - repeat split; discriminate.
Qed.

Definition sched2 : list (nat * list nat) :=
  Eval vm_compute in greedy c0 200 (init c0 e1 (fun _ => 1) 6).

(* the second run returns, executes nothing, and leaves the entries alone
   (computed here; C04_no_needless_rerun says it for every schedule) *)
Lemma run2_summary :
  match run c0 (init c0 e1 (fun _ => 1) 6) sched2 with
  | Some s => mp s = MReturned
              /\ map (started s) [0; 1; 2] = [1; 1; 1]
              /\ map (env s) [0; 1; 2] = map e1 [0; 1; 2]
  | None => False
  end.
Proof. vm_compute. auto. Qed.

Lemma rerun_hypotheses :
  exists s, reachable c0 e1 (fun _ => 1) 6 s /\ mp s = MReturned
            /\ (forall t, t < 3 -> started s t = 1 /\ env s t = e1 t).
Proof.
  pose proof run2_summary as H.
  destruct (run c0 (init c0 e1 (fun _ => 1) 6) sched2) as [s|] eqn:R; [|destruct H].
  destruct H as (M & _). exists s.
  assert (Re : reachable c0 e1 (fun _ => 1) 6 s) by (exists sched2; exact R).
  split; [auto|]. split; [auto|]. intros t Ht.
  apply (no_needless_rerun c0 e1 (fun _ => 1) 6 s t wf_c0 junk_free_e1 clocked_e1 Re Ht).
  now apply utd_e1.
Qed.

(* a partly lost environment: the entry of task 1 is lost, so 1 and 2 run again
   (2 is DONE in e0 but started before the new end of 1) *)
Definition e2 : nat -> entry := fun t => if Nat.eqb t 1 then no_entry else e1 t.

Definition sched3 : list (nat * list nat) :=
  Eval vm_compute in greedy c0 200 (init c0 e2 (fun _ => 1) 6).

Lemma run3_summary :
  match run c0 (init c0 e2 (fun _ => 1) 6) sched3 with
  | Some s => mp s = MReturned
              /\ map (started s) [0; 1; 2] = [1; 2; 2]
              /\ map (fun t => est (env s t)) [0; 1; 2] = [Some DONE; Some DONE; Some DONE]
  | None => False
  end.
Proof. vm_compute. auto. Qed.

(* ================= Env.apply (Sched/EnvApply.v) ================= *)
(* old = {0: {1: 5, 2: {3: 6}}, 4: 7},  update = {0: {2: {3: 8, 5: 9}, 6: {}}, 7: {1: 1}} *)
Definition old_ex : val := Dict [(0, Dict [(1, Leaf 5); (2, Dict [(3, Leaf 6)])]); (4, Leaf 7)].
Definition upd_ex : val :=
  Dict [(0, Dict [(2, Dict [(3, Leaf 8); (5, Leaf 9)]); (6, Dict [])]); (7, Dict [(1, Leaf 1)])].

Example apply_ex :
  wf upd_ex = true
  /\ merge upd_ex old_ex
     = Some (Dict [(0, Dict [(1, Leaf 5); (2, Dict [(3, Leaf 8); (5, Leaf 9)]); (6, Dict [])]);
                   (4, Leaf 7); (7, Dict [(1, Leaf 1)])])
  /\ get_path upd_ex [0; 2; 5] = Some (Leaf 9)          (* a leaf path of the update ... *)
  /\ untouched upd_ex [0; 1] = true                      (* ... and a path that leaves it *)
  /\ untouched upd_ex [4] = true.
Proof. vm_compute. auto. Qed.

(* the hypotheses of the theorems hold on it, so their conclusions do *)
Example apply_ex_readable :
  exists e', merge upd_ex old_ex = Some e' /\ get_path e' [0; 2; 5] = Some (Leaf 9)
             /\ get_path e' [0; 1] = get_path old_ex [0; 1].
Proof.
  destruct apply_ex as (W & M & R & U & _). eexists. split; [exact M|]. split.
  - eapply update_readable; eauto.
  - eapply apply_frame; eauto.
Qed.

(* a call that raises: the update has a non-empty dictionary where the environment has a leaf;
   an empty one there is a no-op *)
Example apply_ex_fails :
  merge (Dict [(4, Dict [(1, Leaf 1)])]) old_ex = None
  /\ get_path (Dict [(4, Dict [(1, Leaf 1)])]) [4] = Some (Dict [(1, Leaf 1)])
  /\ get_path old_ex [4] = Some (Leaf 7)
  /\ merge (Dict [(4, Dict [])]) old_ex = Some old_ex.
Proof. vm_compute. auto. Qed.

(* what the worker makes of returned values (Sched/Result.v): a well-formed DONE result with a
   merged update, the same with an update that cannot be merged, an integer status, a read-only
   own entry, a status that is not final, a value that is not a pair *)
Example result_ex :
  worker_outcome (Pair (UMap OwnMutable) (StMember DONE)) true = mkO true true
  /\ worker_outcome (Pair (UMap OwnMutable) (StMember DONE)) false = mkO false false
  /\ worker_outcome (Pair UNone (StCode 3)) false = mkO false true
  /\ worker_outcome (Pair (UMap OwnReadOnly) (StMember DONE)) true = mkO false false
  /\ worker_outcome (Pair (UMap OwnAbsent) (StMember SKIPPED)) true = mkO false false
  /\ worker_outcome (Pair (UMap OwnAbsent) (StMember FAILED)) true = mkO true false
  /\ worker_outcome NotPair true = mkO false false
  /\ well_formed (Pair (UMap OwnAbsent) (StCode 4)) = true.
Proof. vm_compute. repeat split. Qed.

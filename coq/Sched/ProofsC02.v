(* C02: final statuses of the scheduler model.
   - spec_rule: the specification [spec_status] is the expected rule (SKIPPED iff a
     hard dependency is FAILED or SKIPPED, otherwise DONE/FAILED by the outcome);
   - at_most_once: no task is executed twice in a run;
   - final_statuses: from the empty environment every complete run ends with
     exactly the statuses of the specification, each non-skipped task executed once;
   - schedule_independent: corollary. *)
From Coq Require Import List Bool Arith Lia.
From VV Require Import Sched.Model Sched.Defs Sched.Count.
Import ListNotations.

(* ================= the specification ================= *)
Definition bad (o : option status) : bool :=
  match o with Some FAILED | Some SKIPPED => true | _ => false end.

Definition spec_one (c : cfg) (acc : nat -> option status) (t : nat) : status :=
  if existsb (fun d => bad (acc d)) (hdeps c t) then SKIPPED
  else if ok (oc c t) then DONE else FAILED.

Lemma spec_along_cons : forall c t r acc,
  spec_along c (t :: r) acc = spec_along c r (upd acc t (Some (spec_one c acc t))).
Proof.
  intros. simpl. unfold spec_one, bad.
  replace (existsb (fun d => match acc d with Some FAILED | Some SKIPPED => true | _ => false end) (hdeps c t))
    with (existsb (fun d => match acc d with Some FAILED => true | Some SKIPPED => true | _ => false end) (hdeps c t));
    reflexivity.
Qed.

Lemma spec_along_app : forall c a b acc,
  spec_along c (a ++ b) acc = spec_along c b (spec_along c a acc).
Proof. induction a; intros; auto. rewrite <- app_comm_cons, !spec_along_cons. apply IHa. Qed.

Lemma spec_along_notin : forall c r acc t, ~ In t r -> spec_along c r acc t = acc t.
Proof.
  induction r as [|x r IH]; intros acc t H; auto. rewrite spec_along_cons, IH.
  - unfold upd. destruct (Nat.eqb_spec t x); auto. subst. exfalso; apply H; left; auto.
  - intro; apply H; right; auto.
Qed.

Lemma pos_app_notin : forall pre l x, ~ In x pre -> pos (pre ++ l) x = length pre + pos l x.
Proof.
  induction pre as [|y pre IH]; intros l x H; simpl; auto.
  destruct (Nat.eqb_spec y x); [subst; exfalso; apply H; left; auto|].
  rewrite IH; auto. intro; apply H; right; auto.
Qed.

Lemma pos_before : forall pre t post d,
  NoDup (pre ++ t :: post) -> In d (pre ++ t :: post) ->
  pos (pre ++ t :: post) d < pos (pre ++ t :: post) t -> In d pre.
Proof.
  intros pre t post d ND Hd Hp.
  assert (Nt : ~ In t pre).
  { intro H. apply NoDup_remove_2 in ND. apply ND. apply in_or_app; auto. }
  rewrite (pos_app_notin pre (t :: post) t Nt) in Hp. simpl in Hp. rewrite Nat.eqb_refl in Hp.
  destruct (in_dec Nat.eq_dec d pre) as [|Nd]; auto.
  rewrite (pos_app_notin pre (t :: post) d Nd) in Hp. lia.
Qed.

Lemma NoDup_app_disj : forall (a b : list nat) x, NoDup (a ++ b) -> In x a -> In x b -> False.
Proof.
  induction a as [|y a IH]; intros b x ND Ha Hb; [destruct Ha|].
  simpl in ND. inversion ND; subst. destruct Ha as [->|Ha].
  - apply H1. apply in_or_app; auto.
  - eapply IH; eauto.
Qed.

Lemma existsb_ext_in' : forall (A : Type) (f g : A -> bool) l,
  (forall x, In x l -> f x = g x) -> existsb f l = existsb g l.
Proof.
  induction l; intros H; simpl; auto. rewrite H by (left; auto). f_equal. apply IHl.
  intros; apply H; right; auto.
Qed.

(* spec_status is its own one-step rule *)
Lemma spec_unfold : forall c t, wf_cfg c -> t < ntasks c ->
  spec_status c t = Some (spec_one c (spec_status c) t).
Proof.
  intros c t (ord & O & ND & IN & TOPO & HD & _) Ht.
  assert (Hin : In t ord) by (apply IN; auto).
  destruct (in_split _ _ Hin) as (pre & post & E).
  assert (SS : forall x, spec_status c x = spec_along c ord (fun _ => None) x)
    by (intro; unfold spec_status; rewrite O; reflexivity).
  rewrite SS. rewrite E at 1. rewrite spec_along_app, spec_along_cons.
  rewrite E in ND.
  assert (Nt : ~ In t post).
  { apply NoDup_remove_2 in ND. intro; apply ND; apply in_or_app; auto. }
  rewrite spec_along_notin by auto. rewrite upd_same.
  f_equal. unfold spec_one.
  rewrite (existsb_ext_in' _ _ (fun d => bad (spec_status c d)) (hdeps c t)); [reflexivity|].
  intros d Hd. f_equal.
  assert (Hdp : In d pre).
  { destruct (TOPO t d (HD _ _ Hd) Hin) as [Hdo Hp]. rewrite E in Hdo, Hp.
    eapply pos_before; eauto. }
  rewrite SS. rewrite E. rewrite spec_along_app. symmetry. apply spec_along_notin.
  intro H. eapply NoDup_app_disj; eauto.
Qed.

Lemma spec_rule : forall c t, wf_cfg c -> t < ntasks c ->
  (spec_status c t = Some SKIPPED <->
     exists d, In d (hdeps c t)
               /\ (spec_status c d = Some FAILED \/ spec_status c d = Some SKIPPED))
  /\ (spec_status c t <> Some SKIPPED ->
      spec_status c t = Some (if ok (oc c t) then DONE else FAILED)).
Proof.
  intros c t Hc Ht. rewrite (spec_unfold c t Hc Ht). unfold spec_one.
  destruct (existsb _ _) eqn:E.
  - split; [|congruence]. split; auto. intros _.
    apply existsb_exists in E. destruct E as [d [Hd B]]. exists d; split; auto.
    unfold bad in B. destruct (spec_status c d) as [[]|]; try discriminate; auto.
  - split; auto. split.
    + destruct (ok (oc c t)); discriminate.
    + intros [d [Hd B]]. exfalso.
      assert (existsb (fun d => bad (spec_status c d)) (hdeps c t) = true); [|congruence].
      apply existsb_exists. exists d; split; auto. destruct B as [-> | ->]; reflexivity.
Qed.

(* the specification depends only on the graph and the outcomes *)
Lemma spec_along_ext : forall c c' ord acc,
  hdeps c' = hdeps c -> oc c' = oc c -> spec_along c' ord acc = spec_along c ord acc.
Proof.
  induction ord as [|t r IH]; intros acc H1 H2; auto.
  rewrite !spec_along_cons. unfold spec_one. rewrite H1, H2. apply IH; auto.
Qed.

Lemma spec_status_ext : forall c c',
  hdeps c' = hdeps c -> order c' = order c -> oc c' = oc c -> forall t, spec_status c' t = spec_status c t.
Proof.
  intros c c' H1 H2 H3 t. unfold spec_status. rewrite H2. destruct (order c); auto.
  rewrite (spec_along_ext c c'); auto.
Qed.

(* ================= at most once ================= *)
From VV Require Import Sched.Inv.
From Coq Require Import Permutation.

Lemma at_most_once : forall c e0 st0 clk s t,
  wf_cfg c -> junk_free e0 -> reachable c e0 st0 clk s -> execs st0 s t <= 1.
Proof.
  intros c e0 st0 clk s t Hwf J R. destruct (inv_reachable _ _ _ _ _ Hwf J R) as [I _].
  unfold execs.
  destruct (inv_entry _ _ _ _ _ I t) as [[(w & a & b & k & Hw & E) _]|[(_ & St & _)|[_ [Ex _]]]].
  - pose proof (inv_wp _ _ _ _ _ I w Hw) as O. rewrite E in O. simpl in O. lia.
  - lia.
  - lia.
Qed.

(* ================= reading side of a SKIPPED decision ================= *)
Lemma decide_waiting_skipped : forall c e t e',
  decide_waiting c e t = (RSkipped, e') ->
  exists d, In d (hdeps c t) /\ is_st e FAILED d || is_st e SKIPPED d = true.
Proof.
  intros c e t e' H. unfold decide_waiting in H.
  destruct (existsb _ (hdeps c t)) eqn:X.
  - apply existsb_exists in X. exact X.
  - destruct (forallb _ _); discriminate.
Qed.

Lemma decide_skipped : forall c e t e',
  ~ In t (hdeps c t) -> decide c e t = (RSkipped, e') ->
  exists d, In d (hdeps c t) /\ (est (e d) = Some FAILED \/ est (e d) = Some SKIPPED).
Proof.
  intros c e t e' N H.
  assert (G : forall e2, (forall d, d <> t -> e2 d = e d) ->
              (exists d, In d (hdeps c t) /\ is_st e2 FAILED d || is_st e2 SKIPPED d = true) ->
              exists d, In d (hdeps c t) /\ (est (e d) = Some FAILED \/ est (e d) = Some SKIPPED)).
  { intros e2 E [d [Hd B]]. exists d; split; auto.
    assert (d <> t) by (intro; subst; auto). unfold is_st, stat in B. rewrite E in B by auto.
    destruct (est (e d)) as [[]|]; simpl in B; try discriminate; auto. }
  unfold decide in H.
  destruct (is_st e DONE t && negb (absent e t) || is_st e WAITING t && negb (absent e t)).
  - destruct (existsb _ (deps c t)); [discriminate|].
    destruct (is_st e DONE t).
    + destruct (existsb _ (deps c t)); [discriminate|].
      destruct (existsb _ (hdeps c t)).
      * apply decide_waiting_skipped in H. eapply G; [|exact H].
        intros; apply set_status_other; auto.
      * destruct (last_end_time c e t); [destruct (esc (e t)); [destruct (Nat.leb _ _)|]|]; discriminate.
    + apply decide_waiting_skipped in H. eapply G; [|exact H]. auto.
  - destruct (existsb _ (deps c t)); [discriminate|].
    rewrite is_st_set_same in H. simpl in H.
    apply decide_waiting_skipped in H. eapply G; [|exact H].
    intros; apply set_status_other; auto.
Qed.

(* ================= statuses agree with the specification (empty initial environment) ================= *)
Section FromEmpty.
Variable c : cfg.
Variable st0 : nat -> nat.
Variable clk : nat.
Hypothesis Hwf : wf_cfg c.

Let e0 : nat -> entry := fun _ => no_entry.
Let I := inv c e0 st0 clk.

Definition spec_inv (s : state) : Prop :=
  (forall t, In t (F c s) -> spec_status c t <> Some SKIPPED)
  /\ (forall t, t < ntasks c -> settled c s t -> est (env s t) = spec_status c t).

Lemma L_status : forall s t, I s -> In t (L c s) ->
  est (env s t) = None \/ est (env s t) = Some WAITING.
Proof.
  intros s t [Ic _] Hl.
  destruct (inv_entry _ _ _ _ _ Ic t) as [[P _]|[(_ & _ & _ & HL & _)|[[S _] _]]].
  - apply pubs_in_F in P. exfalso.
    exact (NoDup_app_disj _ _ t (inv_nodup _ _ _ _ _ Ic) Hl P).
  - apply HL; auto.
  - contradiction.
Qed.

Lemma final_settled : forall s d st, I s -> est (env s d) = Some st -> is_final st = true ->
  settled c s d.
Proof.
  intros s d st Hi E Fi. split; intro H.
  - destruct (L_status _ _ Hi H) as [X|X]; rewrite X in E; [discriminate|].
    injection E as <-. discriminate.
  - destruct Hi as [Ic _]. destruct (inv_flight _ _ _ _ _ Ic d H) as [X _].
    rewrite X in E. injection E as <-. discriminate.
Qed.

Lemma hdep_facts : forall t d, t < ntasks c -> In d (hdeps c t) ->
  In d (deps c t) /\ d <> t /\ d < ntasks c.
Proof.
  intros t d Ht Hd. destruct Hwf as (ord & O & ND & IN & TOPO & HD & _).
  pose proof (HD _ _ Hd) as Hdd. apply IN in Ht. destruct (TOPO _ _ Hdd Ht) as [Hin Hp].
  repeat split; auto; [intro; subst; lia|apply IN; auto].
Qed.

Lemma spec_by_ok : forall t, t < ntasks c -> spec_status c t <> Some SKIPPED ->
  spec_status c t = Some (if ok (oc c t) then DONE else FAILED).
Proof. intros t Ht. apply (spec_rule c t Hwf Ht). Qed.

Lemma spec_inv_step : forall s tid now s',
  I s -> spec_inv s -> step c s tid now = Some s' -> spec_inv s'.
Proof.
  intros s tid now s' Hi [SF SS] H.
  pose proof Hi as [Ic Ia].
  assert (LT : forall t, In t (L c s ++ F c s) -> t < ntasks c) by (intros; eapply inv_lt; eauto).
  destruct (step_kinds _ _ _ _ _ _ _ _ Hwf Hi H)
    as [Ee _ _ El Pf _|w t q t0 _ _ _ _ -> El Pf _|t todo acc nb r e' Em D ->
        |w t t0 t1 _ _ _ -> El Ef|w t a b k _ _ -> El Pf].
  - (* frame *)
    split.
    + intros t Ht. apply SF. eapply Permutation_in; [apply Permutation_sym; exact Pf|exact Ht].
    + intros t Ht [S1 S2]. rewrite Ee. apply SS; auto. rewrite El in S1. split; auto.
      intro X. apply S2. eapply Permutation_in; eauto.
  - (* get *)
    split.
    + intros x Hx. apply SF. eapply Permutation_in; [apply Permutation_sym; exact Pf|exact Hx].
    + intros x Hx [S1 S2]. simpl. apply SS; auto. rewrite El in S1. split; auto.
      intro X. apply S2. eapply Permutation_in; eauto.
  - (* decide *)
    destruct (decide_modes c s t todo acc nb r e' Em D) as [HL M]. fold (decide_state s t todo acc nb r e') in M.
    assert (Ht : t < ntasks c) by (apply LT; rewrite HL; rewrite !in_app_iff; simpl; auto).
    assert (HtL : In t (L c s)) by (rewrite HL, in_app_iff; simpl; auto).
    assert (OTH : forall x, x <> t -> e' x = env s x) by (intros; eapply decide_other; eauto).
    assert (SUB : forall x, x <> t -> ~ In x (acc ++ todo) -> ~ In x (L c s)).
    { intros x Hx N X. apply N. rewrite HL in X. rewrite in_app_iff in *. simpl in X.
      intuition congruence. }
    destruct M as [(-> & El & Ef & Es)|[(-> & El & Ef & Es)|[(-> & El & Ef & Es)|(-> & El & Ef & -> & Es)]]].
    + (* waiting *)
      split; [intros x Hx; apply SF; rewrite <- Ef; exact Hx|].
      intros x Hx [S1 S2]. rewrite El in S1. rewrite Ef in S2.
      assert (x <> t) by (intro; subst; auto). simpl. rewrite OTH by auto. apply SS; auto. split; auto.
    + (* pending *)
      split.
      * intros x Hx. rewrite Ef in Hx. destruct Hx as [<-|Hx]; [|apply SF; auto].
        intro Sk. apply (spec_rule c t Hwf Ht) in Sk. destruct Sk as [d [Hd B]].
        destruct (hdep_facts t d Ht Hd) as (Hdd & Hne & Hdn).
        pose proof (decide_pending_deps _ _ _ _ (inv_junk _ _ _ _ _ Ic) D d Hdd Hne) as Fd.
        destruct (decide_pending_hdeps _ _ _ _ D d Hd Hne) as [N1 N2].
        apply final_at_iff in Fd. destruct Fd as (st & Est & Fst).
        pose proof (final_settled s d st Hi Est Fst) as Sd.
        rewrite <- (SS d Hdn Sd) in B. unfold stat in N1, N2.
        destruct B as [B|B]; rewrite B in N1, N2; congruence.
      * intros x Hx [S1 S2]. rewrite El in S1. rewrite Ef in S2. simpl in S2.
        assert (x <> t) by (intro; subst; auto). simpl. rewrite OTH by auto. apply SS; auto. split; auto.
    + (* skipped *)
      split; [intros x Hx; apply SF; rewrite <- Ef; exact Hx|].
      intros x Hx [S1 S2]. rewrite El in S1. rewrite Ef in S2. simpl.
      destruct (Nat.eq_dec x t) as [->|Hne]; [|rewrite OTH by auto; apply SS; auto; split; auto].
      rewrite Es. symmetry. apply (spec_rule c t Hwf Ht).
      assert (N : ~ In t (hdeps c t)) by (intro X; destruct (hdep_facts t t Ht X) as (_ & Y & _); auto).
      destruct (decide_skipped _ _ _ _ N D) as [d [Hd B]]. exists d; split; auto.
      destruct (hdep_facts t d Ht Hd) as (Hdd & Hne & Hdn).
      assert (Sd : settled c s d) by (destruct B as [B|B]; eapply final_settled; eauto).
      rewrite <- (SS d Hdn Sd). exact B.
    + (* none: impossible, the task has never been DONE *)
      exfalso. destruct (L_status _ _ Hi HtL) as [X|X]; rewrite X in Es; discriminate.
  - (* start *)
    split; [intros x Hx; apply SF; rewrite <- Ef; exact Hx|].
    intros x Hx [S1 S2]. rewrite El in S1. rewrite Ef in S2. simpl. apply SS; auto. split; auto.
  - (* publish *)
    assert (HtF : In t (F c s)) by (eapply Permutation_in; [apply Permutation_sym; exact Pf|left; auto]).
    assert (Ht : t < ntasks c) by (apply LT; rewrite in_app_iff; auto).
    split.
    + intros x Hx. apply SF. eapply Permutation_in; [apply Permutation_sym; exact Pf|right; exact Hx].
    + intros x Hx [S1 S2]. rewrite El in S1. simpl.
      destruct (Nat.eq_dec x t) as [->|Hne].
      * rewrite publish_same. simpl. symmetry. apply spec_by_ok; auto.
      * rewrite publish_other by auto. apply SS; auto. split; auto.
        intro X. apply (Permutation_in _ Pf) in X. destruct X as [X|X]; auto.
Qed.

Lemma spec_inv_init : spec_inv (init c e0 st0 clk).
Proof.
  split.
  - intros t Ht. rewrite init_F in Ht. destruct Ht.
  - intros t Ht [S1 _]. exfalso. apply S1.
    destruct (init_mp c e0 st0 clk Hwf) as (ord & O & M).
    destruct Hwf as (ord' & O' & _ & IN & _). unfold L. rewrite M, O'. apply IN; auto.
Qed.

Lemma spec_inv_reachable : forall s, reachable c e0 st0 clk s -> I s /\ spec_inv s.
Proof.
  intros s [sched H].
  assert (J : junk_free e0) by (intros t; discriminate).
  eapply (run_ind_inv c (fun s => I s /\ spec_inv s)); [| |exact H].
  - intros s1 tid now s2 [A B] St. split; [eapply inv_step; eauto|eapply spec_inv_step; eauto].
  - split; [apply inv_init; auto|apply spec_inv_init].
Qed.

Lemma final_statuses_empty : forall s, reachable c e0 st0 clk s -> mp s = MReturned ->
  forall t, t < ntasks c ->
    est (env s t) = spec_status c t
    /\ execs st0 s t = (match spec_status c t with Some SKIPPED => 0 | _ => 1 end).
Proof.
  intros s R M t Ht. destruct (spec_inv_reachable s R) as [Hi [_ SS]].
  pose proof (returned_all_settled _ _ _ _ _ Hi M t) as St.
  pose proof (SS t Ht St) as E. split; auto.
  pose proof (spec_unfold c t Hwf Ht) as U. unfold execs.
  destruct (settled_entry _ _ _ _ _ _ Hi St) as [(S0 & _ & [X|X])|[S1 (a & b & _ & _ & Ee)]].
  - simpl in X. rewrite X in E. rewrite U in E. discriminate.
  - rewrite X in E. rewrite <- E. lia.
  - rewrite Ee in E. simpl in E. rewrite <- E. rewrite S1. destruct (ok (oc c t)); lia.
Qed.

End FromEmpty.

Lemma final_statuses : forall c st0 clk s, wf_cfg c ->
  reachable c (fun _ => no_entry) st0 clk s -> mp s = MReturned ->
  forall t, t < ntasks c ->
    est (env s t) = spec_status c t
    /\ execs st0 s t = (match spec_status c t with Some SKIPPED => 0 | _ => 1 end).
Proof. intros c st0 clk s Hwf. apply final_statuses_empty; auto. Qed.

Lemma schedule_independent :
  forall c c' st0 clk s st0' clk' s', wf_cfg c -> wf_cfg c' ->
  ntasks c' = ntasks c -> deps c' = deps c -> hdeps c' = hdeps c -> order c' = order c -> oc c' = oc c ->
  reachable c (fun _ => no_entry) st0 clk s -> reachable c' (fun _ => no_entry) st0' clk' s' ->
  mp s = MReturned -> mp s' = MReturned -> forall t, t < ntasks c -> est (env s t) = est (env s' t).
Proof.
  intros c c' st0 clk s st0' clk' s' W W' En Ed Eh Eo Ec R R' M M' t Ht.
  destruct (final_statuses c st0 clk s W R M t Ht) as [-> _].
  destruct (final_statuses c' st0' clk' s' W' R' M' t ltac:(lia)) as [-> _].
  symmetry. apply spec_status_ext; auto.
Qed.

(* ================= non-vacuity: a concrete complete run ================= *)
Module NonVacuity.

(* 0 <- 1 <- 2 (hard dependencies); task 0 succeeds with an update, task 1 fails *)
Definition dp (t : nat) : list nat := match t with 1 => [0] | 2 => [1] | _ => [] end.
Definition c3 : cfg :=
  mkCfg 3 dp dp (Some [0; 1; 2]) 2
        (fun t => match t with 0 => mkO true true | 1 => mkO false false | _ => mkO true true end).

Lemma c3_wf : wf_cfg c3.
Proof.
  exists [0; 1; 2]. split; [reflexivity|]. split.
  { repeat constructor; simpl; intuition discriminate. }
  split. { intro t. simpl. split; [intros [<-|[<-|[<-|[]]]]; lia|]. intro. do 3 (destruct t as [|t]; auto). lia. }
  split. { intros t d Hd Ht. simpl in Ht. destruct Ht as [<-|[<-|[<-|[]]]]; simpl in Hd;
           try destruct Hd as [<-|[]]; try destruct Hd; simpl; auto. }
  split; [auto|simpl; lia].
Qed.

(* greedy scheduler: first enabled thread, master first; clocks do not move *)
Definition pick_now (s : state) (tid : nat) : list nat :=
  match tid with
  | 0 => []
  | S w => match wp s w with
           | WGet => match queue s with Some _ :: _ => [clock s] | _ => [] end
           | WStart _ _ => [clock s]
           | _ => []
           end
  end.

Fixpoint greedy (c : cfg) (fuel : nat) (s : state) : list (nat * list nat) :=
  match fuel with
  | 0 => []
  | S f =>
      match find (enabled c s) (seq 0 (S (nworkers c))) with
      | Some tid =>
          match step c s tid (pick_now s tid) with
          | Some s' => (tid, pick_now s tid) :: greedy c f s'
          | None => []
          end
      | None => []
      end
  end.

Definition s0 : state := init c3 (fun _ => no_entry) (fun _ => 0) 0.
Definition sched3 : list (nat * list nat) := greedy c3 200 s0.

Example complete_run :
  exists s, run c3 s0 sched3 = Some s /\ mp s = MReturned
            /\ est (env s 0) = Some DONE /\ est (env s 1) = Some FAILED /\ est (env s 2) = Some SKIPPED
            /\ started s 0 = 1 /\ started s 1 = 1 /\ started s 2 = 0
            /\ length sched3 = 50.
Proof. eexists. split; [vm_compute; reflexivity|]. vm_compute. repeat split. Qed.

Example spec3 : spec_status c3 0 = Some DONE /\ spec_status c3 1 = Some FAILED
                /\ spec_status c3 2 = Some SKIPPED.
Proof. vm_compute. repeat split. Qed.

End NonVacuity.

(* C02: final statuses of the scheduler model.
   - spec_rule: the specification [spec_status] is the expected rule (SKIPPED iff a
     hard dependency is FAILED or SKIPPED, otherwise DONE/FAILED by the outcome);
   - at_most_once: no task is executed twice in a run;
   - final_statuses: from the empty environment every complete run ends with
     exactly the statuses of the specification, each non-skipped task executed once;
   - schedule_independent: corollary. *)
From Coq Require Import List Bool Arith Lia.
From VV Require Import Sched.Model Sched.Defs Sched.Count.
Import ListNotations.

(* ================= the specification ================= *)
Definition bad (o : option status) : bool :=
  match o with Some FAILED | Some SKIPPED => true | _ => false end.

Definition spec_one (c : cfg) (acc : nat -> option status) (t : nat) : status :=
  if existsb (fun d => bad (acc d)) (hdeps c t) then SKIPPED
  else if ok (oc c t) then DONE else FAILED.

Lemma spec_along_cons : forall c t r acc,
  spec_along c (t :: r) acc = spec_along c r (upd acc t (Some (spec_one c acc t))).
Proof.
  intros. simpl. unfold spec_one, bad.
  replace (existsb (fun d => match acc d with Some FAILED | Some SKIPPED => true | _ => false end) (hdeps c t))
    with (existsb (fun d => match acc d with Some FAILED => true | Some SKIPPED => true | _ => false end) (hdeps c t));
    reflexivity.
Qed.

Lemma spec_along_app : forall c a b acc,
  spec_along c (a ++ b) acc = spec_along c b (spec_along c a acc).
Proof. induction a; intros; auto. rewrite <- app_comm_cons, !spec_along_cons. apply IHa. Qed.

Lemma spec_along_notin : forall c r acc t, ~ In t r -> spec_along c r acc t = acc t.
Proof.
  induction r as [|x r IH]; intros acc t H; auto. rewrite spec_along_cons, IH.
  - unfold upd. destruct (Nat.eqb_spec t x); auto. subst. exfalso; apply H; left; auto.
  - intro; apply H; right; auto.
Qed.

Lemma pos_app_notin : forall pre l x, ~ In x pre -> pos (pre ++ l) x = length pre + pos l x.
Proof.
  induction pre as [|y pre IH]; intros l x H; simpl; auto.
  destruct (Nat.eqb_spec y x); [subst; exfalso; apply H; left; auto|].
  rewrite IH; auto. intro; apply H; right; auto.
Qed.

Lemma pos_before : forall pre t post d,
  NoDup (pre ++ t :: post) -> In d (pre ++ t :: post) ->
  pos (pre ++ t :: post) d < pos (pre ++ t :: post) t -> In d pre.
Proof.
  intros pre t post d ND Hd Hp.
  assert (Nt : ~ In t pre).
  { intro H. apply NoDup_remove_2 in ND. apply ND. apply in_or_app; auto. }
  rewrite (pos_app_notin pre (t :: post) t Nt) in Hp. simpl in Hp. rewrite Nat.eqb_refl in Hp.
  destruct (in_dec Nat.eq_dec d pre) as [|Nd]; auto.
  rewrite (pos_app_notin pre (t :: post) d Nd) in Hp. lia.
Qed.

Lemma NoDup_app_disj : forall (a b : list nat) x, NoDup (a ++ b) -> In x a -> In x b -> False.
Proof.
  induction a as [|y a IH]; intros b x ND Ha Hb; [destruct Ha|].
  simpl in ND. inversion ND; subst. destruct Ha as [->|Ha].
  - apply H1. apply in_or_app; auto.
  - eapply IH; eauto.
Qed.

Lemma existsb_ext_in' : forall (A : Type) (f g : A -> bool) l,
  (forall x, In x l -> f x = g x) -> existsb f l = existsb g l.
Proof.
  induction l; intros H; simpl; auto. rewrite H by (left; auto). f_equal. apply IHl.
  intros; apply H; right; auto.
Qed.

(* spec_status is its own one-step rule *)
Lemma spec_unfold : forall c t, wf_cfg c -> t < ntasks c ->
  spec_status c t = Some (spec_one c (spec_status c) t).
Proof.
  intros c t (ord & O & ND & IN & TOPO & HD & _) Ht.
  assert (Hin : In t ord) by (apply IN; auto).
  destruct (in_split _ _ Hin) as (pre & post & E).
  assert (SS : forall x, spec_status c x = spec_along c ord (fun _ => None) x)
    by (intro; unfold spec_status; rewrite O; reflexivity).
  rewrite SS. rewrite E at 1. rewrite spec_along_app, spec_along_cons.
  rewrite E in ND.
  assert (Nt : ~ In t post).
  { apply NoDup_remove_2 in ND. intro; apply ND; apply in_or_app; auto. }
  rewrite spec_along_notin by auto. rewrite upd_same.
  f_equal. unfold spec_one.
  rewrite (existsb_ext_in' _ _ (fun d => bad (spec_status c d)) (hdeps c t)); [reflexivity|].
  intros d Hd. f_equal.
  assert (Hdp : In d pre).
  { destruct (TOPO t d (HD _ _ Hd) Hin) as [Hdo Hp]. rewrite E in Hdo, Hp.
    eapply pos_before; eauto. }
  rewrite SS. rewrite E. rewrite spec_along_app. symmetry. apply spec_along_notin.
  intro H. eapply NoDup_app_disj; eauto.
Qed.

Lemma spec_rule : forall c t, wf_cfg c -> t < ntasks c ->
  (spec_status c t = Some SKIPPED <->
     exists d, In d (hdeps c t)
               /\ (spec_status c d = Some FAILED \/ spec_status c d = Some SKIPPED))
  /\ (spec_status c t <> Some SKIPPED ->
      spec_status c t = Some (if ok (oc c t) then DONE else FAILED)).
Proof.
  intros c t Hc Ht. rewrite (spec_unfold c t Hc Ht). unfold spec_one.
  destruct (existsb _ _) eqn:E.
  - split; [|congruence]. split; auto. intros _.
    apply existsb_exists in E. destruct E as [d [Hd B]]. exists d; split; auto.
    unfold bad in B. destruct (spec_status c d) as [[]|]; try discriminate; auto.
  - split; auto. split.
    + destruct (ok (oc c t)); discriminate.
    + intros [d [Hd B]]. exfalso.
      assert (existsb (fun d => bad (spec_status c d)) (hdeps c t) = true); [|congruence].
      apply existsb_exists. exists d; split; auto. destruct B as [-> | ->]; reflexivity.
Qed.

(* the specification depends only on the graph and the outcomes *)
Lemma spec_along_ext : forall c c' ord acc,
  hdeps c' = hdeps c -> oc c' = oc c -> spec_along c' ord acc = spec_along c ord acc.
Proof.
  induction ord as [|t r IH]; intros acc H1 H2; auto.
  rewrite !spec_along_cons. unfold spec_one. rewrite H1, H2. apply IH; auto.
Qed.

Lemma spec_status_ext : forall c c',
  hdeps c' = hdeps c -> order c' = order c -> oc c' = oc c -> forall t, spec_status c' t = spec_status c t.
Proof.
  intros c c' H1 H2 H3 t. unfold spec_status. rewrite H2. destruct (order c); auto.
  rewrite (spec_along_ext c c'); auto.
Qed.

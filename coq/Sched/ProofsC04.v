(* C04: the final environment of a complete run is consistent (a DONE task
   started after the end of each of its DONE dependencies, and none of its
   hard dependencies is FAILED/SKIPPED), from ANY junk-free clocked initial
   environment; lifted to finite histories of runs; and an up-to-date task is
   not run again. *)
From Coq Require Import List Bool Arith Lia Permutation.
From VV Require Import Sched.Model Sched.Defs Sched.Inv.
Import ListNotations.

(* ================= definitions of the statements ================= *)
Definition clocked (e : nat -> entry) (clk : nat) : Prop :=
  forall t, (forall a, esc (e t) = Some a -> a <= clk) /\ (forall b, eec (e t) = Some b -> b <= clk)
            /\ (est (e t) = Some DONE -> esc (e t) <> None /\ eec (e t) <> None).

Definition consistent (c : cfg) (e : nat -> entry) : Prop :=
  forall t, t < ntasks c -> est (e t) = Some DONE ->
    (forall d, In d (deps c t) -> est (e d) = Some DONE ->
        exists a b, eec (e d) = Some a /\ esc (e t) = Some b /\ a <= b)
    /\ (forall d, In d (hdeps c t) -> est (e d) <> Some FAILED /\ est (e d) <> Some SKIPPED).

(* what a later run may find: any sub-map of the DONE entries of the previous
   final environment (merge_done_tasks, after arbitrary losses) *)
Definition carry (e e' : nat -> entry) : Prop :=
  forall t, e' t = no_entry \/ (e' t = e t /\ est (e t) = Some DONE).

(* environments that can exist between runs, with a bound on their clocks:
   the empty one, or the final environment of a complete run (of any graph,
   outcomes, worker count, schedule) started from what was carried over from
   such an environment, the clock not going back *)
Inductive history : (nat -> entry) -> nat -> Prop :=
| hist_empty : history (fun _ => no_entry) 0
| hist_run c e clk0 e0 st0 clk s :
    history e clk0 -> carry e e0 -> clk0 <= clk -> wf_cfg c ->
    reachable c e0 st0 clk s -> mp s = MReturned ->
    history (env s) (clock s).

(* t and all its transitive dependencies are DONE, each started after the end
   of its dependencies *)
Inductive up_to_date (c : cfg) (e : nat -> entry) : nat -> Prop :=
| utd_intro t :
    est (e t) = Some DONE ->
    (forall d, In d (deps c t) ->
        up_to_date c e d /\ exists a b, eec (e d) = Some a /\ esc (e t) = Some b /\ a <= b) ->
    (forall d, In d (hdeps c t) -> est (e d) <> Some FAILED /\ est (e d) <> Some SKIPPED) ->
    up_to_date c e t.

(* ================= last_end_time ================= *)
Definition let_f (e : nat -> entry) (acc : option nat) (d : nat) : option nat :=
  if is_st e DONE d then
    match eec (e d), acc with
    | Some x, Some a => Some (Nat.max a x)
    | Some x, None => Some x
    | None, _ => acc
    end
  else acc.

Lemma last_end_time_fold c e t : last_end_time c e t = fold_left (let_f e) (deps c t) None.
Proof. reflexivity. Qed.

Lemma fold_let_spec e l : forall acc,
  match fold_left (let_f e) l acc with
  | Some m => (forall a, acc = Some a -> a <= m)
              /\ (forall d, In d l -> stat e d = DONE -> forall x, eec (e d) = Some x -> x <= m)
  | None => acc = None /\ forall d, In d l -> stat e d = DONE -> eec (e d) = None
  end.
Proof.
  induction l as [|z l IH]; simpl; intros acc.
  - destruct acc; [split; [intros a E; inversion E; lia | tauto] | tauto].
  - specialize (IH (let_f e acc z)). destruct (fold_left (let_f e) l (let_f e acc z)) as [m|].
    + destruct IH as [I1 I2]. unfold let_f in I1. split.
      * intros a ->. destruct (is_st e DONE z); [|apply I1; auto].
        destruct (eec (e z)); [|apply I1; auto].
        specialize (I1 _ eq_refl). lia.
      * intros d [<-|Hd] Hs x Hx; [|eapply I2; eauto].
        apply is_st_eq in Hs. rewrite Hs, Hx in I1.
        destruct acc; specialize (I1 _ eq_refl); lia.
    + destruct IH as [I1 I2]. unfold let_f in I1.
      destruct (is_st e DONE z) eqn:Hz.
      * destruct (eec (e z)) eqn:Ez.
        -- destruct acc; discriminate.
        -- split; auto. intros d [<-|Hd] Hs; auto.
      * split; auto. intros d [<-|Hd] Hs; auto. apply is_st_eq in Hs. congruence.
Qed.

Lemma fold_let_ub e B l : forall acc m,
  (forall a, acc = Some a -> a <= B) ->
  (forall d, In d l -> stat e d = DONE -> forall x, eec (e d) = Some x -> x <= B) ->
  fold_left (let_f e) l acc = Some m -> m <= B.
Proof.
  induction l as [|z l IH]; simpl; intros acc m Ha Hl H.
  - auto.
  - apply (IH (let_f e acc z) m); auto; [|intros d Hd; apply Hl; auto].
    intros a Ea. unfold let_f in Ea.
    destruct (is_st e DONE z) eqn:Hz; auto. apply is_st_eq in Hz.
    destruct (eec (e z)) eqn:Ez; auto.
    specialize (Hl z (or_introl eq_refl) Hz _ Ez).
    destruct acc; inversion Ea; subst; auto. specialize (Ha _ eq_refl). lia.
Qed.

(* ================= decide returning RNone ================= *)
Lemma existsb_false_intro {A} (f : A -> bool) l :
  (forall x, In x l -> f x = false) -> existsb f l = false.
Proof.
  intros H. destruct (existsb f l) eqn:E; auto.
  apply existsb_exists in E as (x & Hx & Fx). rewrite H in Fx; auto.
Qed.

Lemma decide_waiting_not_none c e t e' : decide_waiting c e t <> (RNone, e').
Proof.
  intros H. apply decide_waiting_spec in H as (st & H & _). discriminate.
Qed.

Lemma decide_none_spec c e t e' :
  decide c e t = (RNone, e') ->
  (forall d, In d (deps c t) -> absent e d = false /\ stat e d <> PENDING /\ stat e d <> WAITING)
  /\ (forall d, In d (hdeps c t) -> stat e d <> FAILED /\ stat e d <> SKIPPED)
  /\ (forall d, In d (deps c t) -> stat e d = DONE ->
        forall x, eec (e d) = Some x -> exists b, esc (e t) = Some b /\ x <= b).
Proof.
  unfold decide. intros H.
  destruct (is_st e DONE t && negb (absent e t) || is_st e WAITING t && negb (absent e t)).
  - destruct (existsb (fun d => absent e d || is_st e PENDING d) (deps c t)) eqn:X1; [discriminate|].
    destruct (is_st e DONE t); [|now apply decide_waiting_not_none in H].
    destruct (existsb (is_st e WAITING) (deps c t)) eqn:X2; [discriminate|].
    destruct (existsb _ (hdeps c t)) eqn:X3; [now apply decide_waiting_not_none in H|].
    split; [|split].
    + intros d Hd. pose proof (existsb_false _ _ X1 d Hd) as A. apply orb_false_iff in A as [A P].
      pose proof (existsb_false _ _ X2 d Hd) as W. simpl in W.
      apply is_st_false in P, W. auto.
    + intros d Hd. pose proof (existsb_false _ _ X3 d Hd) as A. apply orb_false_iff in A as [A1 A2].
      apply is_st_false in A1, A2. auto.
    + intros d Hd Hs x Hx. rewrite last_end_time_fold in H.
      pose proof (fold_let_spec e (deps c t) None) as S.
      destruct (fold_left (let_f e) (deps c t) None) as [l|].
      * destruct S as [_ S]. specialize (S d Hd Hs x Hx).
        destruct (esc (e t)) as [b|]; [|discriminate].
        destruct (Nat.leb l b) eqn:Le; [|discriminate]. apply Nat.leb_le in Le.
        exists b. split; auto. lia.
      * destruct S as [_ S]. rewrite (S d Hd Hs) in Hx. discriminate.
  - destruct (existsb _ (deps c t)); [discriminate|].
    rewrite is_st_set_same in H. simpl in H.
    now apply decide_waiting_not_none in H.
Qed.

Lemma decide_none_intro c e t :
  est (e t) = Some DONE ->
  (forall d, In d (hdeps c t) -> In d (deps c t)) ->
  (forall d, In d (deps c t) ->
     est (e d) = Some DONE /\ exists a b, eec (e d) = Some a /\ esc (e t) = Some b /\ a <= b) ->
  decide c e t = (RNone, e).
Proof.
  intros Ht Hh Hd. unfold decide.
  assert (St : is_st e DONE t = true) by (apply is_st_eq, stat_some; auto).
  assert (At : absent e t = false) by (apply absent_false; eauto).
  rewrite St, At. simpl. rewrite St.
  assert (Sd : forall d, In d (deps c t) -> stat e d = DONE /\ absent e d = false).
  { intros d Hin. destruct (Hd d Hin) as [E _]. split; [now apply stat_some | apply absent_false; eauto]. }
  rewrite existsb_false_intro.
  2:{ intros d Hin. destruct (Sd d Hin) as [S A]. rewrite A. simpl. apply is_st_false. congruence. }
  rewrite existsb_false_intro.
  2:{ intros d Hin. destruct (Sd d Hin) as [S A]. apply is_st_false. congruence. }
  rewrite existsb_false_intro.
  2:{ intros d Hin. destruct (Sd d (Hh d Hin)) as [S A].
      apply orb_false_iff; split; apply is_st_false; congruence. }
  rewrite last_end_time_fold.
  destruct (fold_left (let_f e) (deps c t) None) as [l|] eqn:Fl; auto.
  destruct (deps c t) as [|d0 l0] eqn:Dl; [discriminate|].
  destruct (Hd d0 (or_introl eq_refl)) as (_ & a0 & b & _ & Eb & _). rewrite Eb.
  assert (l <= b).
  { eapply fold_let_ub; [| |exact Fl]; [discriminate|].
    intros d Hin _ x Hx. destruct (Hd d Hin) as (_ & a & b' & Ea & Eb' & Le).
    rewrite Eb in Eb'. inversion Eb'; subst b'. rewrite Ea in Hx. inversion Hx; subst; auto. }
  apply Nat.leb_le in H. now rewrite H.
Qed.

(* ================= invariants over the steps ================= *)
Section Run.
Variable c : cfg.
Variable e0 : nat -> entry.
Variable st0 : nat -> nat.
Variable clk : nat.
Hypothesis Hwf : wf_cfg c.

Let Inv := inv c e0 st0 clk.

Lemma wf_hdeps : forall t d, In d (hdeps c t) -> In d (deps c t).
Proof. destruct Hwf as (ord & _ & _ & _ & _ & H & _). exact H. Qed.

(* ---------- clocked is an invariant ---------- *)
Lemma clocked_bounded e n : clocked e n -> clock_bounded e n.
Proof. intros H t. destruct (H t) as (A & B & _). auto. Qed.

Lemma clocked_inv s : Inv s -> clocked e0 clk -> clocked (env s) (clock s).
Proof.
  intros I C t. pose proof I as [Ic _].
  destruct (inv_clock _ _ _ _ _ Ic (clocked_bounded _ _ C) t) as [A B].
  split; [auto|split; [auto|]]. intros Hd.
  assert (G : est (e0 t) = Some DONE -> payload_eq (env s t) (e0 t) ->
              esc (env s t) <> None /\ eec (env s t) <> None).
  { intros E (_ & -> & ->). now apply (C t). }
  destruct (inv_entry _ _ _ _ _ Ic t) as [[P _]|[(_ & _ & Pay & HL & HS)|[_ Ex]]].
  - apply pubs_in_F in P. destruct (inv_flight _ _ _ _ _ Ic t P) as [E _]. congruence.
  - destruct (in_dec Nat.eq_dec t (L c s)) as [i|n].
    + destruct (HL i) as [E|E]; [apply G; congruence | congruence].
    + destruct (in_dec Nat.eq_dec t (F c s)) as [i|n'].
      * destruct (inv_flight _ _ _ _ _ Ic t i) as [E _]. congruence.
      * destruct (HS (conj n n')) as [E|E]; [apply G; congruence | congruence].
  - destruct Ex as (_ & a & b & _ & _ & ->). simpl. split; discriminate.
Qed.

(* ---------- the consistency invariant ---------- *)
Definition hd_ok (e : nat -> entry) (t : nat) : Prop :=
  forall d, In d (hdeps c t) -> est (e d) <> Some FAILED /\ est (e d) <> Some SKIPPED.
Definition dep_clocks_le (e : nat -> entry) (t n : nat) : Prop :=
  forall d, In d (deps c t) -> est (e d) = Some DONE -> exists a, eec (e d) = Some a /\ a <= n.
Definition cons_at (e : nat -> entry) (t : nat) : Prop :=
  (forall d, In d (deps c t) -> est (e d) = Some DONE ->
      exists a b, eec (e d) = Some a /\ esc (e t) = Some b /\ a <= b)
  /\ hd_ok e t.

Definition wp_cons (e : nat -> entry) (p : wpc) : Prop :=
  match p with
  | WStart t t0 => dep_clocks_le e t t0
  | WPublish t a _ _ => dep_clocks_le e t a
  | _ => True
  end.

Record cons_inv (s : state) : Prop := {
  ci_settled : forall t, t < ntasks c -> settled c s t -> est (env s t) = Some DONE ->
      (forall d, In d (deps c t) -> settled c s d) /\ cons_at (env s) t;
  ci_flight : forall t, In t (F c s) -> hd_ok (env s) t;
  ci_wp : forall w, w < nworkers c -> wp_cons (env s) (wp s w)
}.

Lemma hd_ok_ext e e' t : (forall d, In d (deps c t) -> e' d = e d) -> hd_ok e t -> hd_ok e' t.
Proof. intros H K d Hd. rewrite H by (now apply wf_hdeps). now apply K. Qed.
Lemma dep_clocks_le_ext e e' t n :
  (forall d, In d (deps c t) -> e' d = e d) -> dep_clocks_le e t n -> dep_clocks_le e' t n.
Proof. intros H K d Hd. rewrite H by auto. now apply K. Qed.
Lemma cons_at_ext e e' t :
  e' t = e t -> (forall d, In d (deps c t) -> e' d = e d) -> cons_at e t -> cons_at e' t.
Proof.
  intros Ht H [K1 K2]. split; [|eapply hd_ok_ext; eauto].
  intros d Hd. rewrite Ht, H by auto. now apply K1.
Qed.

Lemma est_not_of_stat e d st : stat e d <> st -> est (e d) <> Some st.
Proof. intros H E. apply H. now apply stat_some. Qed.

Lemma cons_init : cons_inv (init c e0 st0 clk).
Proof.
  destruct (init_mp c e0 st0 clk Hwf) as (ord & Ho & Hm).
  destruct (wf_order c Hwf) as (ord' & Ho' & _ & Hlt & _).
  rewrite Ho in Ho'. inversion Ho'; subst ord'.
  split.
  - intros t Ht [S _]. exfalso. apply S. unfold L. rewrite Hm, Ho. now apply Hlt.
  - intros t. now rewrite init_F.
  - intros w _. exact I.
Qed.

Lemma wp_cons_ext e e' p :
  (forall x, In x (held p) -> forall d, In d (deps c x) -> e' d = e d) ->
  wp_cons e p -> wp_cons e' p.
Proof.
  intros H. destruct p; simpl; auto; apply dep_clocks_le_ext; apply H; simpl; auto.
Qed.

Lemma cons_step s s' :
  Inv s -> clocked e0 clk -> cons_inv s -> step_kind c s s' -> cons_inv s'.
Proof.
  intros I C CI K. pose proof I as [Ic _].
  pose proof (clocked_inv s I C) as Cl.
  pose proof (settled_stable c e0 st0 clk s s' I K) as Stab.
  assert (Hdeps : forall x, In x (F c s) -> forall d, In d (deps c x) ->
                    settled c s' d /\ env s' d = env s d).
  { intros x Hx d Hd. apply Stab. destruct (inv_flight _ _ _ _ _ Ic x Hx) as [_ H]. now apply H. }
  assert (Hheld : forall w x, w < nworkers c -> In x (held (wp s w)) -> In x (F c s)).
  { intros w x Hw Hx. apply In_F. right; right. eauto. }
  (* a settled DONE task of s keeps its guarantee in s' *)
  assert (Hold : forall x, x < ntasks c -> settled c s x -> est (env s' x) = Some DONE ->
                   (forall d, In d (deps c x) -> settled c s' d) /\ cons_at (env s') x).
  { intros x Hx Sx Hd. destruct (Stab x Sx) as [_ Ex]. rewrite Ex in Hd.
    destruct (ci_settled _ CI x Hx Sx Hd) as [D1 D2]. split.
    - intros d Hin. now apply Stab, D1.
    - apply (cons_at_ext (env s)); auto. intros d Hin. now apply Stab, D1. }
  destruct K.
  - (* frame *)
    assert (HF : forall x, In x (F c s') <-> In x (F c s)).
    { intros x; split; apply Permutation_in; auto using Permutation_sym. }
    pose proof (settled_iff c s s' H2 HF) as Hset.
    split.
    + intros t Ht St Hd. apply Hold; auto. now apply Hset.
    + intros t Ht. apply HF in Ht. rewrite H. now apply (ci_flight _ CI).
    + intros w Hw. destruct (H4 w Hw) as [E|[E1 E2]].
      * rewrite E, H. now apply (ci_wp _ CI).
      * destruct (wp s' w); simpl in E1; try discriminate; exact Logic.I.
  - (* a worker takes a task *)
    assert (HF : forall x, In x (F c s') <-> In x (F c s)).
    { intros x; split; apply Permutation_in; auto using Permutation_sym. }
    pose proof (settled_iff c s s' H4 HF) as Hset.
    split.
    + intros x Hx St Hd. apply Hold; auto. now apply Hset.
    + intros x Hx. apply HF in Hx. subst s'. simpl. now apply (ci_flight _ CI).
    + intros w' Hw'. subst s'. simpl.
      destruct (upd_eq_cases (wp s) w (WStart t t0) w') as [[-> ->]|[_ ->]].
      * simpl. intros d Hd Hdone. destruct (Cl d) as (_ & B & N).
        destruct (N Hdone) as [_ N2]. destruct (eec (env s d)) as [a|] eqn:E; [|congruence].
        exists a. split; auto. specialize (B a eq_refl). lia.
      * now apply (ci_wp _ CI).
  - (* the master decides t *)
    destruct (decide_modes c s t todo acc nb r e' H H0) as [HL M].
    destruct (wf_order c Hwf) as (ord & Ho & Hnd & Hlt & Htopo).
    pose proof (inv_sub _ _ _ _ _ Ic ord Ho) as Hsub.
    assert (tL : In t (L c s)) by (rewrite HL, in_app_iff; simpl; auto).
    assert (tord : In t ord) by (eapply sublist_In; eauto).
    assert (Hdt : forall d, In d (deps c t) -> d <> t /\ (In d (L c s) -> In d acc)).
    { intros d Hd. destruct (Htopo t d Hd tord) as [dord dlt]. split; [intros ->; lia|].
      intros Hin. rewrite HL in Hin, Hsub. eapply sublist_earlier_in_acc; eauto. }
    assert (G1 : forall x, x <> t -> e' x = env s x) by (intros; eapply decide_other; eauto).
    assert (Henv : env s' = e') by (subst s'; reflexivity).
    assert (Hwp : wp s' = wp s) by (subst s'; reflexivity).
    assert (Hback : forall x, x <> t -> settled c s' x -> settled c s x).
    { intros x Hx [S1 S2]. subst s'. split; intros Hin.
      - apply S1. rewrite HL in Hin.
        destruct M as [(_ & E1 & _)|[(_ & E1 & _)|[(_ & E1 & _)|(_ & E1 & _)]]];
          rewrite E1, ?HL; rewrite in_app_iff in *; simpl in *; intuition congruence.
      - apply S2.
        destruct M as [(_ & _ & E2 & _)|[(_ & _ & E2 & _)|[(_ & _ & E2 & _)|(_ & _ & E2 & _)]]];
          rewrite E2; simpl; auto. }
    split.
    + intros x Hx St Hd. destruct (Nat.eq_dec x t) as [->|Hne]; [|apply Hold; auto].
      rewrite Henv in Hd. destruct St as [S1 S2]. subst s'.
      destruct M as [(_ & E1 & _)|[(_ & _ & E2 & _)|[(_ & _ & _ & E3)|(-> & _ & _ & -> & E4)]]].
      * exfalso. apply S1. now rewrite E1.
      * exfalso. apply S2. rewrite E2. simpl; auto.
      * congruence.
      * destruct (decide_none_spec _ _ _ _ H0) as (N1 & N2 & N3).
        assert (Sd : forall d, In d (deps c t) -> settled c s d).
        { intros d Hin. destruct (N1 d Hin) as (A & P & W). destruct (Hdt d Hin) as [_ Hacc].
          split; intros Hin'.
          - apply W, stat_some, (inv_acc _ _ _ _ _ Ic). eapply deciding_pass_acc; eauto.
          - destruct (inv_flight _ _ _ _ _ Ic d Hin') as [E _]. now apply P, stat_some. }
        split; [intros d Hin; now apply Stab, Sd|]. simpl. split.
        -- intros d Hin Hdone. destruct (Cl d) as (_ & _ & N). destruct (N Hdone) as [_ N'].
           destruct (eec (env s d)) as [a|] eqn:E; [|congruence].
           destruct (N3 d Hin (stat_some _ _ _ Hdone) a E) as (b & Eb & Le). eauto.
        -- intros d Hin. destruct (N2 d Hin). split; now apply est_not_of_stat.
    + intros x Hx. rewrite Henv.
      assert (Hin : In x (F c s) -> hd_ok e' x).
      { intros Hin. apply (hd_ok_ext (env s)); [|now apply (ci_flight _ CI)].
        intros d Hd. rewrite <- Henv. now apply (Hdeps x Hin). }
      subst s'.
      destruct M as [(_ & _ & E2 & _)|[(-> & _ & E2 & _)|[(_ & _ & E2 & _)|(_ & _ & E2 & _)]]];
        rewrite E2 in Hx; auto.
      destruct Hx as [<-|Hx]; auto.
      intros d Hd. destruct (Hdt d (wf_hdeps _ _ Hd)) as [dt _]. rewrite G1 by auto.
      destruct (decide_pending_hdeps _ _ _ _ H0 d Hd dt). split; now apply est_not_of_stat.
    + intros w Hw. rewrite Hwp, Henv. apply (wp_cons_ext (env s)); [|now apply (ci_wp _ CI)].
      intros x Hx d Hd. rewrite <- Henv. apply (Hdeps x); eauto.
  - (* a worker starts do() *)
    assert (HF : forall x, In x (F c s') <-> In x (F c s)) by (intros; now rewrite H4).
    pose proof (settled_iff c s s' H3 HF) as Hset.
    split.
    + intros x Hx St Hd. apply Hold; auto. now apply Hset.
    + intros x Hx. apply HF in Hx. subst s'. simpl. now apply (ci_flight _ CI).
    + intros w' Hw'. subst s'. simpl.
      destruct (upd_eq_cases (wp s) w (WPublish t t0 t1 (S (started s t))) w') as [[-> ->]|[_ ->]].
      * simpl. pose proof (ci_wp _ CI w H) as Q. now rewrite H0 in Q.
      * now apply (ci_wp _ CI).
  - (* a worker publishes the result of t *)
    assert (tF : In t (F c s)).
    { eapply Permutation_in; [apply Permutation_sym; eauto | left; auto]. }
    assert (HF1 : forall x, In x (F c s') -> In x (F c s)).
    { intros x Hx. eapply Permutation_in; [apply Permutation_sym; eauto | right; auto]. }
    assert (HF2 : forall x, x <> t -> In x (F c s) -> In x (F c s')).
    { intros x Hx Hin. eapply Permutation_in in Hin; [|eauto]. destruct Hin; congruence. }
    assert (Henv : env s' = publish c (env s) t a b k) by (subst s'; reflexivity).
    split.
    + intros x Hx St Hd. destruct (Nat.eq_dec x t) as [->|Hne].
      * destruct (inv_flight _ _ _ _ _ Ic t tF) as [_ Hfl].
        split; [intros d Hin; now apply Stab, Hfl|].
        pose proof (ci_wp _ CI w H) as Q. rewrite H0 in Q. simpl in Q. split.
        -- intros d Hin Hdone. destruct (Hdeps t tF d Hin) as [_ E]. rewrite E in *.
           destruct (Q d Hin Hdone) as (a' & Ea & Le). exists a', a. repeat split; auto.
           rewrite Henv, publish_same. reflexivity.
        -- apply (hd_ok_ext (env s)); [|now apply (ci_flight _ CI)].
           intros d Hin. now apply (Hdeps t tF).
      * apply Hold; auto. destruct St as [S1 S2]. split; [congruence|].
        intros Hin. now apply S2, HF2.
    + intros x Hx. apply HF1 in Hx. apply (hd_ok_ext (env s)); [|now apply (ci_flight _ CI)].
      intros d Hd. now apply (Hdeps x Hx).
    + intros w' Hw'. replace (wp s' w') with (upd (wp s) w WTaskDone w') by (subst s'; reflexivity).
      destruct (upd_eq_cases (wp s) w WTaskDone w') as [[-> ->]|[_ ->]]; [exact Logic.I|].
      apply (wp_cons_ext (env s)); [|now apply (ci_wp _ CI)].
      intros x Hx d Hd. apply (Hdeps x); eauto.
Qed.

Lemma cons_run sched : forall s s',
  Inv s -> clocked e0 clk -> cons_inv s -> run c s sched = Some s' -> cons_inv s'.
Proof.
  induction sched as [|[tid now] r IH]; simpl; intros s s' I C CI H.
  - now inversion H; subst.
  - destruct (step c s tid now) as [s1|] eqn:E; [|discriminate].
    apply (IH s1 s'); auto.
    + eapply inv_step; eauto.
    + eapply cons_step; eauto. eapply step_kinds; eauto.
Qed.

Lemma rerun_consistent_sec s :
  junk_free e0 -> clocked e0 clk -> reachable c e0 st0 clk s -> mp s = MReturned ->
  consistent c (env s) /\ clocked (env s) (clock s).
Proof.
  intros J C R M. pose proof (inv_reachable c e0 st0 clk s Hwf J R) as I.
  split; [|now apply clocked_inv].
  destruct R as (sched & R).
  assert (CI : cons_inv s).
  { exact (cons_run sched _ _ (inv_init c e0 st0 clk Hwf J) C cons_init R). }
  intros t Ht Hd.
  destruct (ci_settled _ CI t Ht (returned_all_settled c e0 st0 clk s I M t) Hd) as [_ [K1 K2]].
  split; auto.
Qed.

(* ---------- an up-to-date task is left alone ---------- *)
Definition utd_inv (s : state) : Prop :=
  forall t, up_to_date c e0 t -> env s t = e0 t /\ started s t = st0 t /\ ~ In t (F c s).

Lemma utd_init : utd_inv (init c e0 st0 clk).
Proof. intros t _. rewrite init_F. simpl. auto. Qed.

Lemma utd_step s s' : Inv s -> utd_inv s -> step_kind c s s' -> utd_inv s'.
Proof.
  intros I U K x Ux. destruct (U x Ux) as (E & St & NF). destruct K.
  - rewrite H, H0. repeat split; auto. intros Hin. apply NF.
    eapply Permutation_in; [apply Permutation_sym|]; eauto.
  - subst s'. simpl. repeat split; auto. intros Hin. apply NF.
    eapply Permutation_in; [apply Permutation_sym|]; eauto.
  - destruct (decide_modes c s t todo acc nb r e' H H0) as [HL M]. subst s'. simpl.
    destruct (Nat.eq_dec x t) as [->|Hne].
    + (* the up-to-date task itself is decided: RNone, nothing written *)
      assert (D : decide c (env s) t = (RNone, env s)).
      { inversion Ux as [t' Hdone Hdeps Hh]; subst t'. apply decide_none_intro.
        - now rewrite E.
        - apply wf_hdeps.
        - intros d Hd. destruct (Hdeps d Hd) as (Ud & a & b & Ea & Eb & Le).
          destruct (U d Ud) as (Ed & _). rewrite Ed, E. split; eauto.
          inversion Ud; auto. }
      rewrite D in H0. inversion H0; subst r e'.
      destruct M as [(X & _)|[(X & _)|[(X & _)|(_ & _ & E2 & _)]]]; try discriminate.
      rewrite E2. auto.
    + rewrite (decide_other _ _ _ _ _ _ H0 Hne). repeat split; auto.
      destruct M as [(_ & _ & E2 & _)|[(_ & _ & E2 & _)|[(_ & _ & E2 & _)|(_ & _ & E2 & _)]]];
        rewrite E2; simpl; intuition congruence.
  - subst s'. simpl.
    assert (x <> t).
    { intros ->. apply NF, In_F. right; right. exists w. split; auto. rewrite H0; simpl; auto. }
    rewrite upd_other by auto. repeat split; auto. now rewrite H4.
  - assert (x <> t).
    { intros ->. apply NF. eapply Permutation_in; [apply Permutation_sym; eauto | left; auto]. }
    subst s'. simpl. rewrite publish_other by auto. repeat split; auto.
    intros Hin. apply NF. eapply Permutation_in; [apply Permutation_sym; eauto | right; auto].
Qed.

Lemma utd_run sched : forall s s', Inv s -> utd_inv s -> run c s sched = Some s' -> utd_inv s'.
Proof.
  induction sched as [|[tid now] r IH]; simpl; intros s s' I U H.
  - now inversion H; subst.
  - destruct (step c s tid now) as [s1|] eqn:E; [|discriminate].
    apply (IH s1 s'); auto.
    + eapply inv_step; eauto.
    + eapply utd_step; eauto. eapply step_kinds; eauto.
Qed.

End Run.

(* ================= the theorems ================= *)
Theorem rerun_consistent :
  forall c e0 st0 clk s, wf_cfg c -> junk_free e0 -> clocked e0 clk ->
  reachable c e0 st0 clk s -> mp s = MReturned -> consistent c (env s) /\ clocked (env s) (clock s).
Proof. intros. eapply rerun_consistent_sec; eauto. Qed.

Lemma carry_junk_free e e' : junk_free e -> carry e e' -> junk_free e'.
Proof.
  intros J Ca t. destruct (Ca t) as [->|[-> _]]; [discriminate | apply J].
Qed.
Lemma carry_clocked e e' n n' : clocked e n -> carry e e' -> n <= n' -> clocked e' n'.
Proof.
  intros C Ca Hn t. destruct (Ca t) as [->|[-> _]].
  - simpl. repeat split; discriminate.
  - destruct (C t) as (A & B & D). repeat split; try (now apply D).
    + intros a Ha. apply A in Ha. lia.
    + intros b Hb. apply B in Hb. lia.
Qed.

(* what is on disk between runs is always junk-free and clocked *)
Lemma history_ok : forall e n, history e n -> junk_free e /\ clocked e n.
Proof.
  induction 1 as [|c e clk0 e0 st0 clk s Hh [J C] Ca Hn Hwf R M].
  - split; [intros t; discriminate | intros t; simpl; repeat split; discriminate].
  - pose proof (carry_junk_free _ _ J Ca) as J0. pose proof (carry_clocked _ _ _ _ C Ca Hn) as C0.
    split.
    + apply (inv_junk c e0 st0 clk s), inv_c. now apply inv_reachable.
    + now apply (rerun_consistent c e0 st0 clk s).
Qed.

(* every run of a history ends in a consistent environment *)
Theorem history_consistent :
  forall c e clk0 e0 st0 clk s,
  history e clk0 -> carry e e0 -> clk0 <= clk -> wf_cfg c ->
  reachable c e0 st0 clk s -> mp s = MReturned ->
  consistent c (env s) /\ clocked (env s) (clock s) /\ history (env s) (clock s).
Proof.
  intros c e clk0 e0 st0 clk s Hh Ca Hn Hwf R M. destruct (history_ok _ _ Hh) as [J C].
  destruct (rerun_consistent c e0 st0 clk s Hwf (carry_junk_free _ _ J Ca)
              (carry_clocked _ _ _ _ C Ca Hn) R M) as [K1 K2].
  split; [exact K1 | split; [exact K2 | eapply hist_run; eauto]].
Qed.

Theorem no_needless_rerun :
  forall c e0 st0 clk s t, wf_cfg c -> junk_free e0 -> clocked e0 clk -> reachable c e0 st0 clk s ->
  t < ntasks c -> up_to_date c e0 t -> started s t = st0 t /\ env s t = e0 t.
Proof.
  intros c e0 st0 clk s t Hwf J _ R _ U. destruct R as (sched & R).
  assert (UI : utd_inv c e0 st0 s).
  { exact (utd_run c e0 st0 clk Hwf sched _ _ (inv_init c e0 st0 clk Hwf J)
                   (utd_init c e0 st0 clk) R). }
  destruct (UI t U) as (E & St & _). auto.
Qed.

(* Definitions shared by the proofs about the scheduler model: reachability,
   where a task currently is (master's lists L / in flight F / settled),
   well-formedness of configurations and initial environments, and the
   schedule-independent specification of the final statuses (C02). *)
From Coq Require Import List Bool Arith Lia.
From VV Require Import Sched.Model.
Import ListNotations.

(* ---------- configurations ---------- *)
(* position of a task in the topological order *)
Fixpoint pos (l : list nat) (t : nat) : nat :=
  match l with
  | [] => 0
  | x :: r => if Nat.eqb x t then 0 else S (pos r t)
  end.

Definition wf_cfg (c : cfg) : Prop :=
  exists ord, order c = Some ord
  /\ NoDup ord
  /\ (forall t, In t ord <-> t < ntasks c)
  /\ (forall t d, In d (deps c t) -> In t ord -> In d ord /\ pos ord d < pos ord t)   (* topological *)
  /\ (forall t d, In d (hdeps c t) -> In d (deps c t))
  /\ 1 <= nworkers c.

(* an initial environment as left by earlier runs: no junk statuses *)
Definition junk_free (e : nat -> entry) : Prop := forall t, est (e t) <> Some JUNK.

(* ---------- reachability ---------- *)
Definition reachable (c : cfg) (e0 : nat -> entry) (st0 : nat -> nat) (clk : nat) (s : state) : Prop :=
  exists sched, run c (init c e0 st0 clk) sched = Some s.

(* ---------- where a task is ---------- *)
(* tasks still in the master's lists (tasks_left of the current / next pass) *)
Definition L (c : cfg) (s : state) : list nat :=
  match mp s with
  | MStart _ => match order c with Some l => l | None => [] end
  | MCvAcq l => l
  | MDecide todo acc _ => acc ++ todo
  | MPut _ todo acc _ => acc ++ todo
  | MCvRelLoop acc | MCvWait acc | MCvWake acc => acc
  | _ => []
  end.

(* tasks in flight: decided PENDING and not yet published *)
Definition held (p : wpc) : list nat :=
  match p with
  | WStart t _ => [t]
  | WPublish t _ _ _ => [t]
  | _ => []
  end.

Fixpoint queued (q : list (option nat)) : list nat :=
  match q with
  | [] => []
  | Some t :: r => t :: queued r
  | None :: r => queued r
  end.

Definition F (c : cfg) (s : state) : list nat :=
  (match mp s with MPut t _ _ _ => [t] | _ => [] end)
  ++ queued (queue s)
  ++ flat_map (fun w => held (wp s w)) (seq 0 (nworkers c)).

Definition settled (c : cfg) (s : state) (t : nat) : Prop :=
  ~ In t (L c s) /\ ~ In t (F c s).

(* ---------- C02: the specification of the final statuses ---------- *)
(* computed along the topological order: a function of the graph and of the
   outcomes only *)
Fixpoint spec_along (c : cfg) (ord : list nat) (acc : nat -> option status) : nat -> option status :=
  match ord with
  | [] => acc
  | t :: r =>
      let st :=
        if existsb (fun d => match acc d with
                             | Some FAILED | Some SKIPPED => true
                             | _ => false end) (hdeps c t)
        then SKIPPED
        else if ok (oc c t) then DONE else FAILED in
      spec_along c r (upd acc t (Some st))
  end.

Definition spec_status (c : cfg) (t : nat) : option status :=
  match order c with
  | Some ord => spec_along c ord (fun _ => None) t
  | None => None
  end.

(* how many times do() of t has begun during this run *)
Definition execs (st0 : nat -> nat) (s : state) (t : nat) : nat := started s t - st0 t.

(* Counting / condition-variable invariants of the scheduler model (Inv-count of
   design.d/Sched-proof-plan.md), all by induction over [run]:
   - which workers exist as a function of the master pc ([spawn_inv]);
   - [unfinished] = queue length + workers holding a task before the master's
     q_join; afterwards only sentinels, one per worker, task_done never called
     for a sentinel ([count_inv]);
   - [cv_owner] as a function of the pcs ([owner_inv]);
   - [cv_waiting]/[cv_notified] vs the master pc ([flags_inv]);
   - the list carried by the master pcs is never empty ([shape_inv]);
   - [MRaised] iff the graph is cyclic ([raised_inv]). *)
From Coq Require Import List Bool Arith Lia.
From VV Require Import Sched.Model Sched.Defs.
Import ListNotations.

(* ---------- upd ---------- *)
Lemma upd_same : forall X (f : nat -> X) k v, upd f k v k = v.
Proof. intros; unfold upd; now rewrite Nat.eqb_refl. Qed.
Lemma upd_other : forall X (f : nat -> X) k v j, j <> k -> upd f k v j = f j.
Proof. intros; unfold upd; destruct (Nat.eqb_spec j k); congruence. Qed.
Lemma upd_cases : forall X (f : nat -> X) k v j,
  (j = k /\ upd f k v j = v) \/ (j <> k /\ upd f k v j = f j).
Proof. intros; destruct (Nat.eq_dec j k); [left|right]; subst; now rewrite ?upd_same, ?upd_other. Qed.

(* ---------- counting workers ---------- *)
Fixpoint countw (f : wpc -> nat) (wps : nat -> wpc) (n : nat) : nat :=
  match n with 0 => 0 | S k => countw f wps k + f (wps k) end.

Lemma countw_upd_ge : forall f wps w p n, n <= w -> countw f (upd wps w p) n = countw f wps n.
Proof.
  induction n; intros; simpl; auto. rewrite IHn by lia. rewrite upd_other by lia. reflexivity.
Qed.
Lemma countw_upd : forall f wps w p n, w < n ->
  countw f (upd wps w p) n + f (wps w) = countw f wps n + f p.
Proof.
  induction n; intros; simpl; [lia|].
  destruct (Nat.eq_dec w n).
  - subst. rewrite upd_same, countw_upd_ge by lia. lia.
  - rewrite upd_other by lia. specialize (IHn ltac:(lia)). lia.
Qed.
Lemma countw_zero : forall f wps n, countw f wps n = 0 -> forall w, w < n -> f (wps w) = 0.
Proof.
  induction n; intros; simpl in *; [lia|].
  destruct (Nat.eq_dec w n); [subst; lia|apply IHn; lia].
Qed.
Lemma countw_zero_intro : forall f wps n, (forall w, w < n -> f (wps w) = 0) -> countw f wps n = 0.
Proof. induction n; intros; simpl; auto. rewrite IHn, H by (intros; auto). reflexivity. Qed.
Lemma countw_all : forall f wps n, (forall w, w < n -> f (wps w) = 1) -> countw f wps n = n.
Proof. induction n; intros; simpl; auto. rewrite IHn, H by (intros; auto). lia. Qed.
Lemma countw_le : forall f wps n, (forall p, f p <= 1) -> countw f wps n <= n.
Proof. induction n; intros; simpl; auto. specialize (IHn H). specialize (H (wps n)). lia. Qed.
Lemma countw_all_inv : forall f wps n, (forall p, f p <= 1) -> countw f wps n = n ->
  forall w, w < n -> f (wps w) = 1.
Proof.
  induction n; intros Hf H w Hw; simpl in *; [lia|].
  pose proof (countw_le f wps n Hf). pose proof (Hf (wps n)).
  destruct (Nat.eq_dec w n); [subst; lia|apply IHn; auto; lia].
Qed.

(* ---------- steps ---------- *)
(* [step0]: the steps of the basic locking discipline (the master releases and
   re-acquires the condition variable between two passes).  The full [step] adds
   one move, [master_step_alt], which is shown below ([alt_three]) to be a
   shortcut for three basic steps; every invariant is proved for [step0] and
   lifted ([lift_step]). *)
Definition step0 (c : cfg) (s : state) (tid : nat) (now : list nat) : option state :=
  match tid with
  | O => match now with [] => master_step c s | _ => None end
  | S w =>
      match wp s w, now with
      | WGet, _ | WStart _ _, _ => worker_step c s w now
      | _, [] => worker_step c s w now
      | _, _ => None
      end
  end.

Lemma step_master : forall c s now s', step0 c s 0 now = Some s' -> master_step c s = Some s'.
Proof. intros c s now s' H; simpl in H; destruct now; [auto|discriminate]. Qed.
Lemma step_worker : forall c s w now s', step0 c s (S w) now = Some s' -> worker_step c s w now = Some s'.
Proof. intros c s w now s' H; simpl in H. destruct (wp s w); destruct now; try discriminate; auto. Qed.

Lemma step_split : forall c s tid now s', step c s tid now = Some s' ->
  step0 c s tid now = Some s' \/ (tid = 0 /\ master_step_alt c s = Some s').
Proof.
  intros c s [|w] now s' H; [|left; exact H].
  simpl in H. destruct now as [|x [|y r]]; [left; exact H|right; auto|discriminate].
Qed.

Ltac dmatch H :=
  repeat (match type of H with
          | context [match ?x with _ => _ end] => destruct x eqn:?
          | context [if ?x then _ else _] => destruct x eqn:?
          end; try discriminate H).

(* invert a successful master / worker step: one goal per pc (and per branch),
   the new state replaced by its explicit value *)
Ltac minv H :=
  unfold master_step in H;
  match type of H with context [mp ?s] => destruct (mp s) eqn:Emp end;
  try discriminate H; dmatch H;
  injection H as H; subst; simpl.
Ltac winv H :=
  unfold worker_step in H;
  match type of H with context [wp ?s ?w] => destruct (wp s w) eqn:Ewp end;
  try discriminate H; dmatch H;
  injection H as H; subst; simpl.

Lemma worker_step_mp : forall c s w now s', worker_step c s w now = Some s' -> mp s' = mp s.
Proof. intros c s w now s' H. winv H; reflexivity. Qed.
Lemma worker_step_wp : forall c s w now s', worker_step c s w now = Some s' ->
  wp s' = upd (wp s) w (wp s' w).
Proof. intros c s w now s' H. winv H; rewrite upd_same; reflexivity. Qed.

(* ---------- which workers exist ---------- *)
Definition spawned (s : state) (k : nat) : Prop :=
  (forall w, w < k -> wp s w <> WNone) /\ (forall w, k <= w -> wp s w = WNone).

Definition spawn_inv (c : cfg) (s : state) : Prop :=
  match mp s with
  | MStart k => k < nworkers c /\ spawned s k
  | MRaised => spawned s 0
  | _ => spawned s (nworkers c)
  end.

Lemma spawned_worker_step : forall c s w now s' k,
  worker_step c s w now = Some s' -> spawned s k -> spawned s' k.
Proof.
  intros c s w now s' k H [A B].
  assert (Hw : w < k).
  { destruct (Nat.lt_ge_cases w k); auto. specialize (B w H0).
    unfold worker_step in H; rewrite B in H; discriminate. }
  assert (Hn : wp s' w <> WNone) by (winv H; rewrite upd_same; discriminate).
  unfold spawned. rewrite (worker_step_wp _ _ _ _ _ H). split; intros w' Hw'.
  - destruct (upd_cases _ (wp s) w (wp s' w) w') as [[-> ->]|[? ->]]; auto.
  - rewrite upd_other by lia. auto.
Qed.

Lemma spawn_inv_init : forall c e0 st0 clk, 1 <= nworkers c -> spawn_inv c (init c e0 st0 clk).
Proof.
  intros. unfold spawn_inv, init; simpl.
  destruct (order c); [|split; intros; [lia|reflexivity]].
  destruct (Nat.eqb_spec (nworkers c) 0); [lia|].
  split; [lia|split; intros; [lia|reflexivity]].
Qed.

Lemma spawn_inv_step : forall c s tid now s',
  spawn_inv c s -> step0 c s tid now = Some s' -> spawn_inv c s'.
Proof.
  intros c s [|w] now s' I H.
  - apply step_master in H. unfold spawn_inv in *. minv H; rewrite ?Emp in I; auto;
      try (destruct (next_decide _ _ _) eqn:E; auto;
           unfold next_decide, pass_end in E; dmatch E; discriminate E);
      try (destruct (Nat.eqb _ _); auto; fail).
    (* MStart *)
    destruct I as [Hk [A B]]. unfold after_spawn.
    assert (S1 : spawned (set_mp (set_wp s k WBoot) MQJoin) (S k)).
    { split; simpl; intros w Hw.
      - destruct (upd_cases _ (wp s) k WBoot w) as [[-> ->]|[? ->]]; [discriminate|apply A; lia].
      - rewrite upd_other by lia. apply B; lia. }
    destruct (Nat.eqb_spec (S k) (nworkers c)) as [E|E].
    + rewrite <- E. destruct (order c) as [[|]|]; simpl; exact S1.
    + simpl. split; [lia|exact S1].
  - apply step_worker in H. unfold spawn_inv in *.
    rewrite (worker_step_mp _ _ _ _ _ H).
    destruct (mp s); try (eapply spawned_worker_step; eauto; fail).
    destruct I; split; auto. eapply spawned_worker_step; eauto.
Qed.

Lemma worker_step_lt : forall c s w now s',
  spawn_inv c s -> worker_step c s w now = Some s' -> w < nworkers c.
Proof.
  intros c s w now s' I H.
  assert (N : wp s w <> WNone) by (intro E; unfold worker_step in H; rewrite E in H; discriminate).
  destruct (Nat.lt_ge_cases w (nworkers c)) as [|G]; auto. exfalso; apply N.
  unfold spawn_inv in I. destruct (mp s); apply I; lia.
Qed.

(* ---------- the list carried by the master is never empty ---------- *)
Definition shape_inv (s : state) : Prop :=
  match mp s with
  | MCvAcq l => l <> []
  | MDecide todo _ _ => todo <> []
  | MCvRelLoop acc | MCvWait acc | MCvWake acc => acc <> []
  | _ => True
  end.

Lemma shape_next_decide : forall todo acc nb s,
  mp s = next_decide todo acc nb -> shape_inv s.
Proof.
  intros. unfold shape_inv. rewrite H. unfold next_decide, pass_end.
  destruct todo; [|discriminate]. destruct acc; auto. destruct (Nat.eqb _ _); discriminate.
Qed.

Lemma shape_inv_init : forall c e0 st0 clk, shape_inv (init c e0 st0 clk).
Proof.
  intros. unfold shape_inv, init; simpl. destruct (order c) as [[|]|]; auto; destruct (Nat.eqb _ _); auto; discriminate.
Qed.

Lemma shape_inv_step : forall c s tid now s',
  shape_inv s -> step0 c s tid now = Some s' -> shape_inv s'.
Proof.
  intros c s [|w] now s' I H.
  - apply step_master in H. unfold shape_inv in I.
    minv H; rewrite ?Emp in I; try (eapply shape_next_decide; simpl; reflexivity);
      try (unfold shape_inv; simpl; auto; fail).
    + unfold shape_inv; simpl. unfold after_spawn.
      destruct (Nat.eqb _ _); simpl; auto. destruct (order c) as [[|]|]; auto; discriminate.
  - apply step_worker in H. unfold shape_inv in *. rewrite (worker_step_mp _ _ _ _ _ H). exact I.
Qed.

(* ---------- unfinished / queue / sentinels ---------- *)
Definition busy (p : wpc) : nat :=
  match p with WStart _ _ | WPublish _ _ _ _ | WTaskDone => 1 | _ => 0 end.
Definition exited (p : wpc) : nat := match p with WExited => 1 | _ => 0 end.
Definition all_some (q : list (option nat)) : Prop := forall x, In x q -> x <> None.
Definition all_none (q : list (option nat)) : Prop := forall x, In x q -> x = None.

(* before q_join returns: unfinished = tasks queued + tasks held by a worker that
   has not called task_done yet; no sentinel, no worker gone *)
Definition phaseA (c : cfg) (s : state) : Prop :=
  unfinished s = length (queue s) + countw busy (wp s) (nworkers c)
  /\ all_some (queue s) /\ (forall w, wp s w <> WExited).
(* after q_join returned: k sentinels put; nobody holds a task; every sentinel is
   still queued or has made one worker exit; task_done is not called any more *)
Definition phaseB (c : cfg) (s : state) (k : nat) : Prop :=
  unfinished s = k /\ all_none (queue s)
  /\ countw busy (wp s) (nworkers c) = 0
  /\ length (queue s) + countw exited (wp s) (nworkers c) = k.

Definition count_inv (c : cfg) (s : state) : Prop :=
  match mp s with
  | MSentinel k => k < nworkers c /\ phaseB c s k
  | MJoinT k => k < nworkers c /\ phaseB c s (nworkers c) /\ (forall w, w < k -> wp s w = WExited)
  | MReturned => phaseB c s (nworkers c) /\ (forall w, w < nworkers c -> wp s w = WExited)
  | MRaised => queue s = [] /\ unfinished s = 0
  | _ => phaseA c s
  end.

Ltac cnt Ewp Hw :=
  match type of Ewp with wp ?s ?w = _ =>
    match goal with |- context [upd (wp s) w ?p] =>
      let B := fresh "B" in let X := fresh "X" in
      pose proof (countw_upd busy (wp s) w p _ Hw) as B;
      pose proof (countw_upd exited (wp s) w p _ Hw) as X;
      rewrite Ewp in B, X; simpl in B, X
    end
  end.

Lemma phaseA_worker_step : forall c s w now s',
  w < nworkers c -> worker_step c s w now = Some s' -> phaseA c s -> phaseA c s'.
Proof.
  intros c s w now s' Hw H (U & Q & E). unfold phaseA.
  assert (E' : forall p, p <> WExited -> forall w', upd (wp s) w p w' <> WExited).
  { intros p Hp w'. destruct (upd_cases _ (wp s) w p w') as [[_ ->]|[_ ->]]; auto. }
  winv H; cnt Ewp Hw; try rewrite Heql in *; simpl in *;
    try (split; [lia|split; [auto|apply E'; discriminate]]; fail).
  all: try (exfalso; apply (Q None); simpl; auto; fail).
  all: split; [lia|split; [|apply E'; discriminate]]; intros x Hx; apply Q; simpl; auto.
Qed.

Lemma phaseB_worker_step : forall c s w now s' k,
  w < nworkers c -> worker_step c s w now = Some s' -> phaseB c s k -> phaseB c s' k.
Proof.
  intros c s w now s' k Hw H (U & Q & Bz & E). unfold phaseB.
  pose proof (countw_zero _ _ _ Bz w Hw) as Bw.
  winv H; cnt Ewp Hw; rewrite ?Ewp in Bw; simpl in Bw; try discriminate Bw;
    try rewrite Heql in *; simpl in *;
    try (repeat split; auto; lia).
  all: try (exfalso; specialize (Q _ (or_introl eq_refl)); discriminate Q).
  all: repeat split; auto; try lia; intros x Hx; apply Q; simpl; auto.
Qed.

Lemma exited_worker_step : forall c s w now s' w',
  worker_step c s w now = Some s' -> wp s w' = WExited -> wp s' w' = WExited.
Proof.
  intros c s w now s' w' H E. rewrite (worker_step_wp _ _ _ _ _ H).
  destruct (upd_cases _ (wp s) w (wp s' w) w') as [[-> _]|[_ ->]]; auto.
  unfold worker_step in H; rewrite E in H; discriminate.
Qed.

Lemma count_inv_init : forall c e0 st0 clk, count_inv c (init c e0 st0 clk).
Proof.
  intros. unfold count_inv, init; simpl.
  assert (A : forall m, phaseA c (mkS e0 [] 0 None false false m (fun _ => WNone) clk st0)).
  { intro m; unfold phaseA; simpl. rewrite countw_zero_intro by auto.
    repeat split; auto; try discriminate. intros x []. }
  destruct (order c) as [[|]|]; try destruct (Nat.eqb (nworkers c) 0); simpl; auto.
Qed.

Lemma phaseA_mp : forall c s m, phaseA c s -> phaseA c (set_mp s m).
Proof. intros c s m H; exact H. Qed.

Lemma phaseA_join : forall c s, phaseA c s -> unfinished s = 0 -> phaseB c s 0.
Proof.
  intros c s (U & Q & E) H0.
  assert (Hq : queue s = []) by (destruct (queue s); auto; simpl in U; lia).
  assert (Hb : countw busy (wp s) (nworkers c) = 0) by lia.
  assert (Hx : countw exited (wp s) (nworkers c) = 0).
  { apply countw_zero_intro. intros w _. specialize (E w). destruct (wp s w); auto; congruence. }
  unfold phaseB. rewrite Hq, Hb, Hx. repeat split; auto. intros x [].
Qed.

Lemma phaseB_sentinel : forall c s k m, phaseB c s k ->
  phaseB c (mkS (env s) (queue s ++ [None]) (S (unfinished s)) (cv_owner s)
                (cv_waiting s) (cv_notified s) m (wp s) (clock s) (started s)) (S k).
Proof.
  intros c s k m (U & Q & Bz & E). unfold phaseB; simpl. rewrite app_length; simpl.
  repeat split; auto; try lia.
  intros x Hx. apply in_app_or in Hx. destruct Hx as [Hx|[<-|[]]]; auto.
Qed.

Lemma count_inv_step : forall c s tid now s',
  spawn_inv c s -> count_inv c s -> step0 c s tid now = Some s' -> count_inv c s'.
Proof.
  intros c s [|w] now s' SI I H.
  - apply step_master in H. unfold count_inv in I. unfold spawn_inv in SI.
    assert (ND : forall todo acc nb st, mp st = next_decide todo acc nb -> phaseA c st -> count_inv c st).
    { intros todo acc nb st E A. unfold count_inv. rewrite E. unfold next_decide, pass_end.
      destruct todo; auto. destruct acc; auto. destruct (Nat.eqb _ _); auto. }
    minv H; rewrite ?Emp in I, SI.
    + (* MStart *)
      destruct SI as [Hk [_ Bk]]. destruct I as (U & Q & E).
      assert (A : forall m, phaseA c (set_mp (set_wp s k WBoot) m)).
      { intro m. unfold phaseA; simpl. pose proof (countw_upd busy (wp s) k WBoot _ Hk) as B.
        rewrite (Bk k) in B by lia. simpl in B. repeat split; auto; try lia.
        intro w. destruct (upd_cases _ (wp s) k WBoot w) as [[_ ->]|[_ ->]]; auto; discriminate. }
      unfold count_inv, after_spawn.
      destruct (Nat.eqb (S k) (nworkers c)); [destruct (order c) as [[|]|]|]; simpl; apply A.
    + unfold count_inv; simpl. exact I.
    + eapply ND; [simpl; reflexivity|exact I].
    + unfold count_inv; simpl. exact I.
    + eapply ND; [simpl; reflexivity|exact I].
    + eapply ND; [simpl; reflexivity|exact I].
    + (* MPut *)
      eapply ND; [simpl; reflexivity|]. destruct I as (U & Q & E). unfold phaseA; simpl.
      rewrite app_length; simpl. repeat split; auto; try lia.
      intros x Hx. apply in_app_or in Hx. destruct Hx as [Hx|[<-|[]]]; [auto|discriminate].
    + exact I.
    + exact I.
    + exact I.
    + exact I.
    + (* MQJoin, no worker *)
      apply Nat.eqb_eq in Heqb, Heqb0. pose proof (phaseA_join _ _ I Heqb) as B0.
      unfold count_inv; simpl. rewrite Heqb0. split; [exact B0|intros; lia].
    + (* MQJoin *)
      apply Nat.eqb_eq in Heqb. apply Nat.eqb_neq in Heqb0. pose proof (phaseA_join _ _ I Heqb) as B0.
      unfold count_inv; simpl. split; [lia|exact B0].
    + (* MSentinel, last *)
      destruct I as [Hk B]. apply Nat.eqb_eq in Heqb. unfold count_inv; simpl.
      split; [lia|]. split; [rewrite <- Heqb; apply phaseB_sentinel; auto|intros; lia].
    + (* MSentinel *)
      destruct I as [Hk B]. apply Nat.eqb_neq in Heqb. unfold count_inv; simpl.
      split; [lia|apply phaseB_sentinel; auto].
    + (* MJoinT, last *)
      destruct I as [Hk [B E]]. apply Nat.eqb_eq in Heqb. unfold count_inv; simpl.
      split; [exact B|]. rewrite <- Heqb. intros w Hw.
      destruct (Nat.eq_dec w k); [subst; auto|apply E; lia].
    + (* MJoinT *)
      destruct I as [Hk [B E]]. apply Nat.eqb_neq in Heqb. unfold count_inv; simpl.
      split; [lia|split; auto]. intros w Hw.
      destruct (Nat.eq_dec w k); [subst; auto|apply E; lia].
  - apply step_worker in H. pose proof (worker_step_lt _ _ _ _ _ SI H) as Hw.
    unfold count_inv in *. rewrite (worker_step_mp _ _ _ _ _ H).
    destruct (mp s) eqn:Emp; try (eapply phaseA_worker_step; eauto; fail).
    + destruct I; split; auto. eapply phaseB_worker_step; eauto.
    + destruct I as [? [? E]]; split; [auto|split]. eapply phaseB_worker_step; eauto.
      intros; eapply exited_worker_step; eauto.
    + destruct I as [? E]; split. eapply phaseB_worker_step; eauto.
      intros; eapply exited_worker_step; eauto.
    + unfold spawn_inv in SI; rewrite Emp in SI. destruct SI as [_ B].
      specialize (B w ltac:(lia)). unfold worker_step in H; rewrite B in H; discriminate.
Qed.

(* ---------- who holds the condition variable ---------- *)
Definition mholds (m : mpc) : bool :=
  match m with
  | MDecide _ _ _ | MPut _ _ _ _ | MCvRelBreak | MCvRelLoop _ | MCvWait _ => true
  | _ => false
  end.
Definition wholds (p : wpc) : bool := match p with WNotify | WNRel => true | _ => false end.

Definition owner_inv (s : state) : Prop :=
  (mholds (mp s) = true <-> cv_owner s = Some 0)
  /\ (forall w, wholds (wp s w) = true <-> cv_owner s = Some (S w)).

Lemma mholds_next_decide : forall todo acc nb, mholds (next_decide todo acc nb) = true.
Proof.
  intros. unfold next_decide, pass_end. destruct todo; auto. destruct acc; auto.
  destruct (Nat.eqb _ _); auto.
Qed.

Lemma owner_inv_init : forall c e0 st0 clk, owner_inv (init c e0 st0 clk).
Proof.
  intros. unfold owner_inv, init; simpl. split; [|split; discriminate].
  destruct (order c) as [[|]|]; try destruct (Nat.eqb (nworkers c) 0); simpl; split; discriminate.
Qed.

Ltac upd_split w0 :=
  match goal with |- context [upd ?f ?k ?p w0] =>
    destruct (upd_cases _ f k p w0) as [[-> ->]|[? ->]] end.

Lemma owner_inv_step : forall c s tid now s',
  spawn_inv c s -> owner_inv s -> step0 c s tid now = Some s' -> owner_inv s'.
Proof.
  intros c s [|w] now s' SI [IM IW] H.
  - apply step_master in H. unfold owner_inv.
    minv H; rewrite ?Emp, ?mholds_next_decide in *; simpl in *;
      try (split; [|intro w0; specialize (IW w0)]; intuition congruence).
    (* MStart *)
    unfold spawn_inv in SI; rewrite Emp in SI. destruct SI as [Hk [_ Bk]].
    split.
    + rewrite <- IM. unfold after_spawn. destruct (Nat.eqb _ _); [destruct (order c) as [[|]|]|]; simpl; tauto.
    + intro w0. rewrite <- IW.
      destruct (upd_cases _ (wp s) k WBoot w0) as [[-> ->]|[? ->]]; [|tauto].
      rewrite (Bk k) by lia. simpl. tauto.
    + (* MCvWake *)
      apply andb_true_iff in Heqb. destruct Heqb as [_ Ho].
      destruct (cv_owner s) eqn:Eo; [discriminate|].
      split; [tauto|]. intro w0; specialize (IW w0). intuition congruence.
  - apply step_worker in H. unfold owner_inv. rewrite (worker_step_mp _ _ _ _ _ H).
    pose proof (IW w) as IWw.
    winv H; rewrite ?Ewp in IWw; simpl in IWw;
      (split; [try tauto|intro w0; specialize (IW w0);
         upd_split w0; simpl; try tauto]);
      try (intuition congruence).
    all: try (rewrite IM; intuition congruence).
    all: try (destruct IWw as [_ IWw]; split; try discriminate; intro E; specialize (IWw E); discriminate).
    all: try (split; intro E; [apply IW in E|]; congruence).
Qed.

(* ---------- cv_waiting / cv_notified ---------- *)
Definition flags_inv (s : state) : Prop :=
  match mp s with
  | MCvWake _ => cv_waiting s = negb (cv_notified s)
  | _ => cv_waiting s = false /\ cv_notified s = false
  end.

Lemma flags_inv_init : forall c e0 st0 clk, flags_inv (init c e0 st0 clk).
Proof.
  intros. unfold flags_inv, init; simpl.
  destruct (order c) as [[|]|]; try destruct (Nat.eqb (nworkers c) 0); simpl; auto.
Qed.

Lemma flags_inv_step : forall c s tid now s',
  flags_inv s -> step0 c s tid now = Some s' -> flags_inv s'.
Proof.
  intros c s [|w] now s' I H.
  - apply step_master in H. unfold flags_inv in *.
    assert (ND : forall todo acc nb (P Q : Prop), Q ->
               match next_decide todo acc nb with MCvWake _ => P | _ => Q end).
    { intros. unfold next_decide, pass_end. destruct todo; auto. destruct acc; auto.
      destruct (Nat.eqb _ _); auto. }
    minv H; rewrite ?Emp in I; auto; try (apply ND; auto; fail).
    unfold after_spawn. destruct (Nat.eqb _ _); [destruct (order c) as [[|]|]|]; simpl; auto.
  - apply step_worker in H. unfold flags_inv in *. rewrite (worker_step_mp _ _ _ _ _ H).
    winv H; auto.
    destruct (mp s); try (rewrite (proj1 I), (proj2 I); auto; fail).
    rewrite I. destruct (cv_notified s); auto.
Qed.

(* ---------- DepGraphError iff cyclic ---------- *)
Definition raised_inv (c : cfg) (s : state) : Prop := mp s = MRaised <-> order c = None.

Lemma raised_inv_init : forall c e0 st0 clk, raised_inv c (init c e0 st0 clk).
Proof.
  intros. unfold raised_inv, init; simpl.
  destruct (order c) as [[|]|]; try destruct (Nat.eqb (nworkers c) 0); simpl; split; congruence.
Qed.

Lemma master_step_not_raised : forall c s s', master_step c s = Some s' -> mp s' <> MRaised.
Proof.
  intros c s s' H.
  assert (ND : forall todo acc nb, next_decide todo acc nb <> MRaised).
  { intros. unfold next_decide, pass_end. destruct todo; try discriminate. destruct acc; try discriminate.
    destruct (Nat.eqb _ _); discriminate. }
  minv H; auto; try discriminate.
  unfold after_spawn. destruct (Nat.eqb _ _); [destruct (order c) as [[|]|]|]; discriminate.
Qed.

Lemma raised_inv_step : forall c s tid now s',
  raised_inv c s -> step0 c s tid now = Some s' -> raised_inv c s'.
Proof.
  intros c s [|w] now s' I H.
  - apply step_master in H. pose proof (master_step_not_raised _ _ _ H).
    unfold raised_inv in *. split; [tauto|]. intro E. apply I in E.
    unfold master_step in H. rewrite E in H. discriminate.
  - apply step_worker in H. unfold raised_inv in *. rewrite (worker_step_mp _ _ _ _ _ H). exact I.
Qed.

(* ---------- all together ---------- *)
Record cinv (c : cfg) (s : state) : Prop := mkCinv {
  ci_spawn : spawn_inv c s;
  ci_shape : shape_inv s;
  ci_count : count_inv c s;
  ci_owner : owner_inv s;
  ci_flags : flags_inv s;
  ci_raised : raised_inv c s
}.

Lemma cinv_init : forall c e0 st0 clk, 1 <= nworkers c -> cinv c (init c e0 st0 clk).
Proof.
  intros. constructor; [apply spawn_inv_init; auto|apply shape_inv_init|apply count_inv_init
                       |apply owner_inv_init|apply flags_inv_init|apply raised_inv_init].
Qed.

Lemma cinv_step0 : forall c s tid now s', cinv c s -> step0 c s tid now = Some s' -> cinv c s'.
Proof.
  intros c s tid now s' [] H. constructor.
  - eapply spawn_inv_step; eauto.
  - eapply shape_inv_step; eauto.
  - eapply count_inv_step; eauto.
  - eapply owner_inv_step; eauto.
  - eapply flags_inv_step; eauto.
  - eapply raised_inv_step; eauto.
Qed.

Lemma step0_step : forall c s tid now s', step0 c s tid now = Some s' -> step c s tid now = Some s'.
Proof.
  intros c s [|w] now s' H; [|exact H]. simpl in *. destruct now; [exact H|discriminate].
Qed.

(* the additional move of the master is a shortcut for release, acquire, decide *)
Lemma alt_three : forall c s s', cv_owner s = Some 0 -> master_step_alt c s = Some s' ->
  exists s1 s2, step0 c s 0 [] = Some s1 /\ step0 c s1 0 [] = Some s2 /\ step0 c s2 0 [] = Some s'.
Proof.
  intros c s s' O H. unfold master_step_alt in H.
  destruct (mp s) as [| | | | |acc| | | | | | |] eqn:Emp; try discriminate H.
  destruct acc as [|x acc]; [discriminate H|].
  eexists. eexists. split; [simpl; unfold master_step; rewrite Emp; reflexivity|].
  split; [simpl; unfold master_step; simpl; reflexivity|].
  simpl. rewrite <- H. unfold set_mp. rewrite O. reflexivity.
Qed.

Lemma lift_step : forall c (P : state -> Prop),
  (forall s, P s -> owner_inv s) ->
  (forall s tid now s', P s -> step0 c s tid now = Some s' -> P s') ->
  forall s tid now s', P s -> step c s tid now = Some s' -> P s'.
Proof.
  intros c P PO P0 s tid now s' I H.
  destruct (step_split _ _ _ _ _ H) as [H0|[-> HA]]; [eapply P0; eauto|].
  assert (O : cv_owner s = Some 0).
  { destruct (PO s I) as [OM _]. apply OM. unfold master_step_alt in HA.
    destruct (mp s); try discriminate HA. reflexivity. }
  destruct (alt_three _ _ _ O HA) as (s1 & s2 & H1 & H2 & H3).
  eapply P0; [|exact H3]. eapply P0; [|exact H2]. eapply P0; [|exact H1]. exact I.
Qed.

Lemma cinv_step : forall c s tid now s', cinv c s -> step c s tid now = Some s' -> cinv c s'.
Proof. intros c. apply (lift_step c (cinv c)); [intros s I; apply I|apply cinv_step0]. Qed.

(* induction principle over schedules, used by every invariant *)
Lemma run_app : forall c sched1 sched2 s,
  run c s (sched1 ++ sched2) = match run c s sched1 with Some s1 => run c s1 sched2 | None => None end.
Proof.
  induction sched1 as [|[tid now] r IH]; intros; simpl; auto. destruct (step c s tid now); auto.
Qed.

Lemma run_ind_inv : forall c (P : state -> Prop),
  (forall s tid now s', P s -> step c s tid now = Some s' -> P s') ->
  forall sched s s', P s -> run c s sched = Some s' -> P s'.
Proof.
  intros c P Hs. induction sched as [|[tid now] r IH]; intros s s' H0 H; simpl in H.
  - injection H as <-; auto.
  - destruct (step c s tid now) eqn:E; [|discriminate]. eapply IH; [|exact H]. eapply Hs; eauto.
Qed.

Lemma cinv_run : forall c sched s s', cinv c s -> run c s sched = Some s' -> cinv c s'.
Proof. intros c. apply (run_ind_inv c (cinv c)). apply cinv_step. Qed.

Lemma cinv_reachable : forall c e0 st0 clk s,
  1 <= nworkers c -> reachable c e0 st0 clk s -> cinv c s.
Proof. intros c e0 st0 clk s Hw [sched H]. eapply cinv_run; [apply cinv_init; auto|exact H]. Qed.

(* ---------- consequences ---------- *)
(* task_done is never called too often: a worker at WTaskDone finds unfinished > 0 *)
Lemma taskdone_positive : forall c s w,
  cinv c s -> w < nworkers c -> wp s w = WTaskDone -> 0 < unfinished s.
Proof.
  intros c s w [SI _ CI _ _ _] Hw E. unfold count_inv in CI. unfold spawn_inv in SI.
  assert (A : phaseA c s -> 0 < unfinished s).
  { intros (U & _ & _). destruct (countw busy (wp s) (nworkers c)) eqn:Z; [|lia].
    pose proof (countw_zero _ _ _ Z w Hw) as B. rewrite E in B. discriminate. }
  assert (B : forall k, phaseB c s k -> 0 < unfinished s).
  { intros k (_ & _ & Z & _). pose proof (countw_zero _ _ _ Z w Hw) as B. rewrite E in B. discriminate. }
  destruct (mp s) eqn:Emp; auto; try (eapply B; apply CI).
  destruct SI as [_ N]. rewrite N in E by lia. discriminate.
Qed.

(* every enabled thread can take its step (with a suitable clock reading) *)
Lemma enabled_step : forall c s tid,
  cinv c s -> tid <= nworkers c -> enabled c s tid = true ->
  exists now s', step c s tid now = Some s'.
Proof.
  intros c s [|w] I Ht En; unfold enabled, thread_op in En.
  - exists []. unfold step, master_step. unfold master_op in En.
    pose proof (ci_shape _ _ I) as SH. unfold shape_inv in SH.
    destruct (mp s) eqn:Emp; try discriminate En; eauto.
    + destruct (cv_owner s); [discriminate|eauto].
    + destruct todo; [congruence|]. destruct (decide c (env s) n); eauto.
    + rewrite En; eauto.
    + rewrite En; eauto.
    + destruct (wp s k); try discriminate; eauto.
  - unfold worker_op in En. unfold step, worker_step.
    destruct (wp s w) eqn:Ewp; try discriminate En.
    + exists [], (set_wp s w WGet); reflexivity.
    + destruct (queue s) as [|[t|] q]; [discriminate| |].
      * exists [clock s]. rewrite Nat.leb_refl. eauto.
      * exists []; eauto.
    + exists [clock s]. rewrite Nat.leb_refl. eauto.
    + exists []; eauto.
    + exists []. pose proof (taskdone_positive c s w I ltac:(lia) Ewp).
      destruct (unfinished s); [lia|eauto].
    + exists []. destruct (cv_owner s); [discriminate|eauto].
    + exists []; eauto.
    + exists []; eauto.
Qed.

(* Proofs about Sched/Result.v (finite case analyses). *)
From Coq Require Import List Bool Arith Lia.
From VV Require Import Sched.Model Sched.Result.
Import ListNotations.

Lemma status_of_code_cases : forall n,
  n = 1 \/ n = 2 \/ n = 3 \/ n = 4 \/ n = 5 \/ status_of_code n = None.
Proof.
  intros n.
  destruct n as [|[|[|[|[|[|n]]]]]]; cbn; auto 10.
Qed.

Ltac split_code n :=
  let H := fresh "Hc" in
  destruct (status_of_code_cases n) as [H|[H|[H|[H|[H|H]]]]];
  [subst n|subst n|subst n|subst n|subst n|].

(* the abstract outcome says DONE exactly for a well-formed pair whose status is DONE and whose
   update (if any) could be merged *)
Lemma outcome_ok_iff : forall r m,
  ok (worker_outcome r m) = true <->
  exists u s, r = Pair u s /\ upd_accepted u = true /\ to_status s = Some DONE
              /\ (u = UNone \/ m = true).
Proof.
  intros r m; split.
  - destruct r as [| |u s]; cbn; try discriminate.
    unfold worker_outcome, check_result.
    destruct (upd_accepted u) eqn:Hu; cbn; try discriminate.
    destruct (to_status s) as [st|] eqn:Hs; cbn; try discriminate.
    destruct st; cbn; try discriminate.
    + (* DONE *)
      intros H. exists u, s. repeat split; auto.
      destruct u as [|o|]; auto; destruct m; auto; cbn in H; discriminate.
    + (* FAILED *)
      destruct u as [|o|]; cbn; try discriminate; destruct m; cbn; discriminate.
  - intros (u & s & -> & Hu & Hs & Hm).
    unfold worker_outcome, check_result. rewrite Hu, Hs.
    destruct u as [|o|]; cbn; auto.
    + destruct Hm as [Hm|Hm]; [discriminate|subst m]; reflexivity.
    + cbn in Hu; discriminate.
Qed.

Lemma malformed_fails : forall r m,
  well_formed r = false -> worker_outcome r m = mkO false false.
Proof.
  intros r m. destruct r as [| |u s]; cbn; auto.
  unfold worker_outcome, check_result.
  destruct (upd_accepted u); cbn; auto.
  destruct (to_status s) as [st|]; cbn; auto.
  destruct st; cbn; auto; discriminate.
Qed.

Lemma explicit_failed : forall u s m,
  to_status s = Some FAILED -> ok (worker_outcome (Pair u s) m) = false.
Proof.
  intros u s m Hs. unfold worker_outcome, check_result. rewrite Hs.
  destruct (upd_accepted u); cbn; auto.
  destruct u; cbn; auto; destruct m; auto.
Qed.

Lemma published_final : forall r m, published r m = DONE \/ published r m = FAILED.
Proof. intros r m. unfold published. destruct (ok _); auto. Qed.

Lemma has_upd_only_if_merged : forall r m,
  has_upd (worker_outcome r m) = true ->
  m = true /\ well_formed r = true /\ exists o s, r = Pair (UMap o) s.
Proof.
  intros r m. destruct r as [| |u s]; cbn; try discriminate.
  unfold worker_outcome, check_result.
  destruct (upd_accepted u) eqn:Hu; cbn; try discriminate.
  destruct (to_status s) as [st|] eqn:Hs; cbn; try discriminate.
  destruct st; cbn; try discriminate;
    (destruct u as [|o|]; cbn; try discriminate;
     first [ cbn in Hu; discriminate
           | destruct m; cbn; try discriminate; intros _; repeat split; eauto ]).
Qed.

(* the status codes accepted are exactly DONE (3) and FAILED (4) and the two members *)
Lemma accepted_statuses : forall s,
  (exists st, to_status s = Some st /\ (st = DONE \/ st = FAILED)) <->
  s = StMember DONE \/ s = StMember FAILED \/ s = StCode 3 \/ s = StCode 4.
Proof.
  intros s; split.
  - intros (st & Hs & Hst). destruct s as [m|n|]; cbn in Hs; try discriminate.
    + destruct m; inversion Hs; subst; destruct Hst; try discriminate; auto.
    + change (status_of_code n = Some st) in Hs.
      destruct (status_of_code_cases n) as [H|[H|[H|[H|[H|H]]]]]; try subst n.
      1-5: cbn in Hs; inversion Hs; subst; destruct Hst; try discriminate; auto.
      rewrite H in Hs; discriminate.
  - intros [ -> | [ -> | [ -> | -> ] ] ]; cbn; eauto.
Qed.

(* Small-step model of valjean.cosette.backends.queue.QueueScheduling
   (execute_tasks, _enqueue, decide_new_state, decide_new_state_waiting,
   last_end_time, WorkerThread.run/check_result/publish) and of the parts of
   valjean.cosette.env.Env they use.  One step = one synchronisation operation
   of one thread (environment critical section, queue operation, condition
   variable operation, thread start/join, start of a task) followed by that
   thread's code up to its next synchronisation operation.  The only
   nondeterminism is the choice of the thread and the values returned by
   time.time() (an input, required to be non-decreasing). *)
From Coq Require Import List Bool Arith Lia.
Import ListNotations.

(* JUNK: a value that is not a task status (never produced by the model; used to
   embed what the implementation stored) *)
Inductive status := WAITING | PENDING | DONE | FAILED | SKIPPED | JUNK.

Definition status_eqb (a b : status) : bool :=
  match a, b with
  | WAITING, WAITING | PENDING, PENDING | DONE, DONE | FAILED, FAILED | SKIPPED, SKIPPED
  | JUNK, JUNK => true
  | _, _ => false
  end.

Definition is_final (s : status) : bool :=
  match s with DONE | FAILED | SKIPPED => true | _ => false end.

(* one task's entry of the environment: None status = no entry at all *)
Record entry := mkE {
  est : option status;
  ever : option nat;         (* payload: id of the execution whose update is stored *)
  esc : option nat;          (* start_clock *)
  eec : option nat           (* end_clock *)
}.
Definition no_entry : entry := mkE None None None None.

(* what a task does when executed: has_upd = returns a mapping update,
   ok = returns DONE.  Raising, returning None / not a pair / a bad status /
   a non-mapping update are all (false, false): check_result turns them into
   FAILED without update. *)
Record outcome := mkO { has_upd : bool; ok : bool }.

Record cfg := mkCfg {
  ntasks : nat;
  deps : nat -> list nat;        (* hard + soft dependencies *)
  hdeps : nat -> list nat;       (* hard dependencies *)
  order : option (list nat);     (* topological_sort(): None = cycle -> DepGraphError *)
  nworkers : nat;
  oc : nat -> outcome
}.

Inductive mpc :=
| MStart (k : nat)
| MCvAcq (lft : list nat)
| MDecide (todo acc : list nat) (nb : nat)
| MPut (t : nat) (todo acc : list nat) (nb : nat)
| MCvRelBreak
| MCvRelLoop (acc : list nat)
| MCvWait (acc : list nat)
| MCvWake (acc : list nat)
| MQJoin
| MSentinel (k : nat)
| MJoinT (k : nat)
| MReturned
| MRaised.

Inductive wpc :=
| WNone                                   (* not started yet *)
| WBoot
| WGet
| WStart (t start : nat)
| WPublish (t start stop k : nat)
| WTaskDone
| WNAcq
| WNotify
| WNRel
| WExited.

(* thread ids: 0 = master, k+1 = k-th worker *)
Record state := mkS {
  env : nat -> entry;
  queue : list (option nat);
  unfinished : nat;
  cv_owner : option nat;
  cv_waiting : bool;         (* master is in cond_var.wait(), not yet notified *)
  cv_notified : bool;
  mp : mpc;
  wp : nat -> wpc;           (* by worker index *)
  clock : nat;               (* last value returned by time.time() *)
  started : nat -> nat       (* how many times do() of a task has begun (all runs) *)
}.

Definition upd {X} (f : nat -> X) (k : nat) (v : X) : nat -> X :=
  fun j => if Nat.eqb j k then v else f j.

Definition stat (e : nat -> entry) (t : nat) : status :=
  match est (e t) with Some s => s | None => WAITING end.
Definition absent (e : nat -> entry) (t : nat) : bool :=
  match est (e t) with Some _ => false | None => true end.
Definition set_status (e : nat -> entry) (t : nat) (s : status) : nat -> entry :=
  upd e t (mkE (Some s) (ever (e t)) (esc (e t)) (eec (e t))).
Definition is_st (e : nat -> entry) (s : status) (t : nat) : bool := status_eqb (stat e t) s.
Definition final_at (e : nat -> entry) (t : nat) : bool :=
  negb (absent e t) && is_final (stat e t).

Inductive decision := RWaiting | RPending | RSkipped | RNone.

Definition decide_waiting (c : cfg) (e : nat -> entry) (t : nat) : decision * (nat -> entry) :=
  if existsb (fun d => is_st e FAILED d || is_st e SKIPPED d) (hdeps c t)
  then (RSkipped, set_status e t SKIPPED)
  else if forallb (fun d => is_st e DONE d || is_st e FAILED d || is_st e SKIPPED d) (deps c t)
  then (RPending, set_status e t PENDING)
  else (RWaiting, set_status e t WAITING).

(* max of the end clocks of the DONE dependencies that have one *)
Definition last_end_time (c : cfg) (e : nat -> entry) (t : nat) : option nat :=
  fold_left (fun acc d =>
               if is_st e DONE d then
                 match eec (e d), acc with
                 | Some x, Some a => Some (Nat.max a x)
                 | Some x, None => Some x
                 | None, _ => acc
                 end
               else acc) (deps c t) None.

Definition decide (c : cfg) (e0 : nat -> entry) (t : nat) : decision * (nat -> entry) :=
  let e := if is_st e0 DONE t && negb (absent e0 t) || (is_st e0 WAITING t && negb (absent e0 t))
           then e0 else set_status e0 t WAITING in
  if existsb (fun d => absent e d || is_st e PENDING d) (deps c t)
  then (RWaiting, set_status e t WAITING)
  else if is_st e DONE t then
    if existsb (is_st e WAITING) (deps c t) then (RWaiting, set_status e t WAITING)
    else if existsb (fun d => is_st e FAILED d || is_st e SKIPPED d) (hdeps c t)
    then decide_waiting c (set_status e t WAITING) t
    else match last_end_time c e t with
         | None => (RNone, e)
         | Some l =>
             match esc (e t) with
             | Some s => if Nat.leb l s then (RNone, e) else (RPending, set_status e t PENDING)
             | None => (RPending, set_status e t PENDING)
             end
         end
  else decide_waiting c e t.

(* WorkerThread.publish *)
Definition publish (c : cfg) (e : nat -> entry) (t start stop k : nat) : nat -> entry :=
  let o := oc c t in
  upd e t (mkE (Some (if ok o then DONE else FAILED))
               (if has_upd o then Some k else ever (e t))
               (Some start) (Some stop)).

Inductive opkind :=
| OpStart | OpBoot | OpEnv | OpPut | OpGet | OpTaskDone | OpQJoin
| OpCvAcquire | OpCvRelease | OpCvWait | OpCvWake | OpCvNotify | OpJoin | OpTaskStart.

Definition opkind_eqb (a b : opkind) : bool :=
  match a, b with
  | OpStart, OpStart | OpBoot, OpBoot | OpEnv, OpEnv | OpPut, OpPut | OpGet, OpGet
  | OpTaskDone, OpTaskDone | OpQJoin, OpQJoin | OpCvAcquire, OpCvAcquire
  | OpCvRelease, OpCvRelease | OpCvWait, OpCvWait | OpCvWake, OpCvWake
  | OpCvNotify, OpCvNotify | OpJoin, OpJoin | OpTaskStart, OpTaskStart => true
  | _, _ => false
  end.

(* the operation a thread is about to perform, its argument, and whether it is enabled *)
Definition master_op (c : cfg) (s : state) : option (opkind * option nat * bool) :=
  match mp s with
  | MStart k => Some (OpStart, Some (S k), true)
  | MCvAcq _ => Some (OpCvAcquire, None, match cv_owner s with None => true | _ => false end)
  | MDecide _ _ _ => Some (OpEnv, None, true)
  | MPut t _ _ _ => Some (OpPut, Some t, true)
  | MCvRelBreak | MCvRelLoop _ => Some (OpCvRelease, None, true)
  | MCvWait _ => Some (OpCvWait, None, true)
  | MCvWake _ => Some (OpCvWake, None,
                       cv_notified s && match cv_owner s with None => true | _ => false end)
  | MQJoin => Some (OpQJoin, None, Nat.eqb (unfinished s) 0)
  | MSentinel _ => Some (OpPut, None, true)
  | MJoinT k => Some (OpJoin, Some (S k),
                      match wp s k with WExited => true | _ => false end)
  | MReturned | MRaised => None
  end.

Definition worker_op (s : state) (w : nat) : option (opkind * option nat * bool) :=
  match wp s w with
  | WNone | WExited => None
  | WBoot => Some (OpBoot, None, true)
  | WGet => Some (OpGet, None, match queue s with [] => false | _ => true end)
  | WStart t _ => Some (OpTaskStart, Some t, true)
  | WPublish _ _ _ _ => Some (OpEnv, None, true)
  | WTaskDone => Some (OpTaskDone, None, true)
  | WNAcq => Some (OpCvAcquire, None, match cv_owner s with None => true | _ => false end)
  | WNotify => Some (OpCvNotify, None, true)
  | WNRel => Some (OpCvRelease, None, true)
  end.

Definition thread_op (c : cfg) (s : state) (tid : nat) :=
  match tid with O => master_op c s | S w => worker_op s w end.

Definition enabled (c : cfg) (s : state) (tid : nat) : bool :=
  match thread_op c s tid with Some (_, _, b) => b | None => false end.

(* end of a pass of _enqueue *)
Definition pass_end (acc : list nat) (nb : nat) : mpc :=
  match acc with
  | [] => MCvRelBreak
  | _ => if Nat.eqb nb (length acc) then MCvWait acc else MCvRelLoop acc
  end.

Definition next_decide (todo acc : list nat) (nb : nat) : mpc :=
  match todo with [] => pass_end acc nb | _ => MDecide todo acc nb end.

Definition after_spawn (c : cfg) (k : nat) : mpc :=
  if Nat.eqb (S k) (nworkers c) then
    match order c with
    | Some ((_ :: _) as l) => MCvAcq l
    | _ => MQJoin
    end
  else MStart (S k).

Definition set_mp (s : state) (m : mpc) : state :=
  mkS (env s) (queue s) (unfinished s) (cv_owner s) (cv_waiting s) (cv_notified s) m (wp s)
      (clock s) (started s).
Definition set_wp (s : state) (w : nat) (p : wpc) : state :=
  mkS (env s) (queue s) (unfinished s) (cv_owner s) (cv_waiting s) (cv_notified s) (mp s)
      (upd (wp s) w p) (clock s) (started s).

Definition master_step (c : cfg) (s : state) : option state :=
  match mp s with
  | MStart k => Some (set_mp (set_wp s k WBoot) (after_spawn c k))
  | MCvAcq lft =>
      match cv_owner s with
      | None => Some (mkS (env s) (queue s) (unfinished s) (Some 0) (cv_waiting s) (cv_notified s)
                          (MDecide lft [] (length lft)) (wp s) (clock s) (started s))
      | Some _ => None
      end
  | MDecide [] _ _ => None
  | MDecide (t :: todo) acc nb =>
      let '(r, e') := decide c (env s) t in
      let m := match r with
               | RWaiting => next_decide todo (acc ++ [t]) nb
               | RPending => MPut t todo acc nb
               | RSkipped | RNone => next_decide todo acc nb
               end in
      Some (mkS e' (queue s) (unfinished s) (cv_owner s) (cv_waiting s) (cv_notified s) m (wp s)
                (clock s) (started s))
  | MPut t todo acc nb =>
      Some (mkS (env s) (queue s ++ [Some t]) (S (unfinished s)) (cv_owner s) (cv_waiting s)
                (cv_notified s) (next_decide todo acc nb) (wp s) (clock s) (started s))
  | MCvRelBreak =>
      Some (mkS (env s) (queue s) (unfinished s) None (cv_waiting s) (cv_notified s) MQJoin (wp s)
                (clock s) (started s))
  | MCvRelLoop acc =>
      Some (mkS (env s) (queue s) (unfinished s) None (cv_waiting s) (cv_notified s) (MCvAcq acc)
                (wp s) (clock s) (started s))
  | MCvWait acc =>
      Some (mkS (env s) (queue s) (unfinished s) None true false (MCvWake acc) (wp s)
                (clock s) (started s))
  | MCvWake acc =>
      if cv_notified s && match cv_owner s with None => true | _ => false end
      then Some (mkS (env s) (queue s) (unfinished s) (Some 0) false false (MCvRelLoop acc) (wp s)
                     (clock s) (started s))
      else None
  | MQJoin =>
      if Nat.eqb (unfinished s) 0
      then Some (set_mp s (if Nat.eqb (nworkers c) 0 then MReturned else MSentinel 0))
      else None
  | MSentinel k =>
      Some (mkS (env s) (queue s ++ [None]) (S (unfinished s)) (cv_owner s) (cv_waiting s)
                (cv_notified s) (if Nat.eqb (S k) (nworkers c) then MJoinT 0 else MSentinel (S k))
                (wp s) (clock s) (started s))
  | MJoinT k =>
      match wp s k with
      | WExited => Some (set_mp s (if Nat.eqb (S k) (nworkers c) then MReturned else MJoinT (S k)))
      | _ => None
      end
  | MReturned | MRaised => None
  end.

(* A permitted variation of the master's locking (the properties do not depend on it): after a
   pass that made progress, or after a wake-up, the master may keep the condition variable and
   start the next pass at once instead of releasing and re-acquiring it.  The step is then the
   first decision of that pass. *)
Definition master_step_alt (c : cfg) (s : state) : option state :=
  match mp s with
  | MCvRelLoop ((_ :: _) as acc) => master_step c (set_mp s (MDecide acc [] (length acc)))
  | _ => None
  end.

(* [now]: values returned by the time.time() calls of this step, in order *)
Definition worker_step (c : cfg) (s : state) (w : nat) (now : list nat) : option state :=
  match wp s w with
  | WNone | WExited => None
  | WBoot => Some (set_wp s w WGet)
  | WGet =>
      match queue s with
      | [] => None
      | None :: q =>
          Some (mkS (env s) q (unfinished s) (cv_owner s) (cv_waiting s) (cv_notified s) (mp s)
                    (upd (wp s) w WExited) (clock s) (started s))
      | Some t :: q =>
          match now with
          | [t0] =>
              if Nat.leb (clock s) t0
              then Some (mkS (env s) q (unfinished s) (cv_owner s) (cv_waiting s) (cv_notified s)
                             (mp s) (upd (wp s) w (WStart t t0)) t0 (started s))
              else None
          | _ => None
          end
      end
  | WStart t t0 =>
      match now with
      | [t1] =>
          if Nat.leb (clock s) t1
          then let k := S (started s t) in
               Some (mkS (env s) (queue s) (unfinished s) (cv_owner s) (cv_waiting s)
                         (cv_notified s) (mp s) (upd (wp s) w (WPublish t t0 t1 k)) t1
                         (upd (started s) t k))
          else None
      | _ => None
      end
  | WPublish t t0 t1 k =>
      Some (mkS (publish c (env s) t t0 t1 k) (queue s) (unfinished s) (cv_owner s)
                (cv_waiting s) (cv_notified s) (mp s) (upd (wp s) w WTaskDone) (clock s) (started s))
  | WTaskDone =>
      match unfinished s with
      | O => None
      | S u => Some (mkS (env s) (queue s) u (cv_owner s) (cv_waiting s) (cv_notified s) (mp s)
                         (upd (wp s) w WNAcq) (clock s) (started s))
      end
  | WNAcq =>
      match cv_owner s with
      | None => Some (mkS (env s) (queue s) (unfinished s) (Some (S w)) (cv_waiting s)
                          (cv_notified s) (mp s) (upd (wp s) w WNotify) (clock s) (started s))
      | Some _ => None
      end
  | WNotify =>
      Some (mkS (env s) (queue s) (unfinished s) (cv_owner s) false
                (cv_notified s || cv_waiting s) (mp s) (upd (wp s) w WNRel) (clock s) (started s))
  | WNRel =>
      Some (mkS (env s) (queue s) (unfinished s) None (cv_waiting s) (cv_notified s) (mp s)
                (upd (wp s) w WGet) (clock s) (started s))
  end.

Definition step (c : cfg) (s : state) (tid : nat) (now : list nat) : option state :=
  match tid with
  | O => match now with
         | [] => master_step c s
         | [_] => master_step_alt c s      (* a one-element list selects the variation *)
         | _ => None
         end
  | S w =>
      match wp s w, now with
      | WGet, _ | WStart _ _, _ => worker_step c s w now
      | _, [] => worker_step c s w now
      | _, _ => None
      end
  end.

Definition init (c : cfg) (e0 : nat -> entry) (st0 : nat -> nat) (clk : nat) : state :=
  mkS e0 [] 0 None false false
      (match order c with
       | None => MRaised
       | Some l => if Nat.eqb (nworkers c) 0
                   then match l with [] => MQJoin | _ => MCvAcq l end
                   else MStart 0
       end)
      (fun _ => WNone) clk st0.

(* a schedule: which thread moves and what time.time() returned to it *)
Fixpoint run (c : cfg) (s : state) (sched : list (nat * list nat)) : option state :=
  match sched with
  | [] => Some s
  | (tid, now) :: r => match step c s tid now with Some s' => run c s' r | None => None end
  end.

Definition terminal (s : state) : bool :=
  match mp s with MReturned | MRaised => true | _ => false end.

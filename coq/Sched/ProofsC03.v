(* C03: the scheduler model never deadlocks, exits cleanly and terminates.
   - C03_clean_exit: at a terminal state the queue is empty and every worker has
     exited (or, cyclic graph, none was started);
   - C03_no_deadlock: at every reachable non-terminal state some thread is enabled
     (the lost-wake-up argument: [wake_inv]);
   - C03_terminates: explicit bound on the length of every schedule. *)
From Coq Require Import List Bool Arith Lia Sorted.
From VV Require Import Sched.Model Sched.Defs Sched.Count.
Import ListNotations.

Definition wf_cfg_or_cyclic (c : cfg) : Prop := wf_cfg c \/ (order c = None /\ 1 <= nworkers c).

Lemma wfc_workers : forall c, wf_cfg_or_cyclic c -> 1 <= nworkers c.
Proof. intros c [(ord & _ & _ & _ & _ & _ & H)|[_ H]]; exact H. Qed.

(* ================= clean exit ================= *)
Lemma clean_exit : forall c e0 st0 clk s,
  wf_cfg_or_cyclic c -> junk_free e0 -> reachable c e0 st0 clk s -> terminal s = true ->
  queue s = [] /\ (forall w, w < nworkers c -> wp s w = WExited \/ (mp s = MRaised /\ wp s w = WNone))
  /\ (mp s = MRaised <-> order c = None).
Proof.
  intros c e0 st0 clk s Hc _ R T.
  pose proof (cinv_reachable _ _ _ _ _ (wfc_workers _ Hc) R) as [SI _ CI _ _ RI].
  unfold terminal in T. unfold spawn_inv in SI. unfold count_inv in CI. unfold raised_inv in RI.
  destruct (mp s) eqn:Emp; try discriminate T.
  - destruct CI as [(U & Q & Bz & E) X].
    rewrite (countw_all exited) in E by (intros w Hw; rewrite X; auto).
    split; [destruct (queue s); [auto|simpl in E; lia]|]. split; [intros; left; auto|].
    split; [discriminate|]. intro O. apply RI in O. discriminate.
  - destruct CI as [Q _]. split; auto. split; [|tauto].
    intros w Hw. right. split; auto. apply SI. lia.
Qed.

(* ================= lists, positions ================= *)
Definition ltp (ord : list nat) (a b : nat) : Prop := pos ord a < pos ord b.

Lemma SSorted_app_remove : forall (R : nat -> nat -> Prop) a x b,
  StronglySorted R (a ++ x :: b) -> StronglySorted R (a ++ b).
Proof.
  induction a as [|y a IH]; intros x b H; simpl in *.
  - inversion H; auto.
  - inversion H; subst. constructor; [eapply IH; eauto|].
    rewrite Forall_forall in *. intros z Hz. apply H3. apply in_app_or in Hz.
    apply in_or_app. destruct Hz; [left|right; right]; auto.
Qed.

Lemma SSorted_ltp_cons : forall x r l,
  StronglySorted (ltp r) l -> ~ In x l -> StronglySorted (ltp (x :: r)) l.
Proof.
  induction l as [|y l IH]; intros H Hx; constructor; inversion H; subst.
  - apply IH; auto. intro; apply Hx; right; auto.
  - rewrite Forall_forall in *. intros z Hz. specialize (H3 z Hz). unfold ltp in *. simpl.
    destruct (Nat.eqb_spec x y); [subst; exfalso; apply Hx; left; auto|].
    destruct (Nat.eqb_spec x z); [subst; exfalso; apply Hx; right; auto|]. lia.
Qed.

Lemma SSorted_ltp_self : forall ord, NoDup ord -> StronglySorted (ltp ord) ord.
Proof.
  induction ord as [|x r IH]; intros H; constructor; inversion H; subst.
  - apply SSorted_ltp_cons; auto.
  - rewrite Forall_forall. intros z Hz. unfold ltp; simpl. rewrite Nat.eqb_refl.
    destruct (Nat.eqb_spec x z); [subst; contradiction|lia].
Qed.

Lemma wf_length : forall c ord, NoDup ord -> (forall t, In t ord <-> t < ntasks c) ->
  length ord = ntasks c.
Proof.
  intros c ord ND H. apply Nat.le_antisymm.
  - rewrite <- (seq_length (ntasks c) 0). apply NoDup_incl_length; auto.
    intros t Ht. apply in_seq. apply H in Ht. lia.
  - rewrite <- (seq_length (ntasks c) 0) at 1. apply NoDup_incl_length; [apply seq_NoDup|].
    intros t Ht. apply in_seq in Ht. apply H. lia.
Qed.

(* ================= the master's list L ================= *)
Lemma L_next_decide : forall c s todo acc nb, mp s = next_decide todo acc nb -> L c s = acc ++ todo.
Proof.
  intros c s todo acc nb E. unfold L. rewrite E. unfold next_decide, pass_end.
  destruct todo; auto. rewrite app_nil_r. destruct acc; auto. destruct (Nat.eqb _ _); auto.
Qed.

Definition Lm (c : cfg) (m : mpc) : list nat :=
  match m with
  | MStart _ => match order c with Some l => l | None => [] end
  | MCvAcq l => l
  | MDecide todo acc _ => acc ++ todo
  | MPut _ todo acc _ => acc ++ todo
  | MCvRelLoop acc | MCvWait acc | MCvWake acc => acc
  | _ => []
  end.
Lemma L_Lm : forall c s, L c s = Lm c (mp s).
Proof. reflexivity. Qed.
Lemma Lm_next_decide : forall c todo acc nb, Lm c (next_decide todo acc nb) = acc ++ todo.
Proof.
  intros. unfold next_decide, pass_end.
  destruct todo; auto. rewrite app_nil_r. destruct acc; auto. destruct (Nat.eqb _ _); auto.
Qed.

(* a step either keeps L or removes one element from it *)
Lemma L_step0 : forall c s tid now s', step0 c s tid now = Some s' ->
  L c s' = L c s \/ exists a t b, L c s = a ++ t :: b /\ L c s' = a ++ b.
Proof.
  intros c s [|w] now s' H; rewrite !L_Lm.
  - apply step_master in H.
    minv H; rewrite ?Lm_next_decide; try (left; reflexivity); simpl.
    + left. unfold after_spawn.
      destruct (Nat.eqb _ _); auto. destruct (order c) as [[|]|]; auto.
    + left. rewrite <- app_assoc. reflexivity.
    + right. eauto.
    + right. eauto.
    + right. eauto.
  - apply step_worker in H. left. rewrite (worker_step_mp _ _ _ _ _ H). reflexivity.
Qed.

Lemma L_step : forall c s tid now s', step c s tid now = Some s' ->
  L c s' = L c s \/ exists a t b, L c s = a ++ t :: b /\ L c s' = a ++ b.
Proof.
  intros c s tid now s' H. destruct (step_split _ _ _ _ _ H) as [H0|[-> HA]]; [eapply L_step0; eauto|].
  unfold master_step_alt in HA.
  destruct (mp s) as [| | | | |acc| | | | | | |] eqn:Emp; try discriminate HA.
  destruct acc as [|x acc]; [discriminate HA|].
  assert (E : L c (set_mp s (MDecide (x :: acc) [] (length (x :: acc)))) = L c s)
    by (rewrite !L_Lm, Emp; reflexivity).
  rewrite <- E. apply (L_step0 c _ 0 []). exact HA.
Qed.

Definition Lsorted (ord : list nat) (c : cfg) (s : state) : Prop :=
  StronglySorted (ltp ord) (L c s) /\ (forall x, In x (L c s) -> In x ord).

Lemma Lsorted_init : forall c ord e0 st0 clk,
  order c = Some ord -> NoDup ord -> Lsorted ord c (init c e0 st0 clk).
Proof.
  intros c ord e0 st0 clk O ND. unfold Lsorted, L, init; simpl. rewrite O.
  destruct (Nat.eqb _ _); [destruct ord|]; simpl; rewrite ?O;
    (split; [try apply SSorted_ltp_self; auto; constructor|auto]).
Qed.

Lemma Lsorted_step : forall ord c s tid now s',
  Lsorted ord c s -> step c s tid now = Some s' -> Lsorted ord c s'.
Proof.
  intros ord c s tid now s' [S I] H. destruct (L_step _ _ _ _ _ H) as [E|(a & t & b & E & E')].
  - unfold Lsorted. rewrite E. auto.
  - unfold Lsorted. rewrite E' in *. rewrite E in *. split; [eapply SSorted_app_remove; eauto|].
    intros x Hx. apply I. apply in_app_or in Hx. apply in_or_app. destruct Hx; [left|right; right]; auto.
Qed.

Lemma L_length_step : forall c s tid now s', step c s tid now = Some s' ->
  length (L c s') <= length (L c s).
Proof.
  intros c s tid now s' H. destruct (L_step _ _ _ _ _ H) as [E|(a & t & b & E & E')].
  - rewrite E; auto.
  - rewrite E, E', !app_length; simpl; lia.
Qed.

(* ================= decide / publish ================= *)
Lemma set_status_other : forall e t st x, x <> t -> set_status e t st x = e x.
Proof. intros; unfold set_status; apply upd_other; auto. Qed.
Lemma est_set_same : forall e t st, est (set_status e t st t) = Some st.
Proof. intros; unfold set_status; rewrite upd_same; reflexivity. Qed.

Lemma decide_waiting_other : forall c e t x, x <> t -> snd (decide_waiting c e t) x = e x.
Proof.
  intros. unfold decide_waiting.
  destruct (existsb _ _); [|destruct (forallb _ _)]; simpl; apply set_status_other; auto.
Qed.

Lemma decide_other : forall c e t x, x <> t -> snd (decide c e t) x = e x.
Proof.
  intros c e t x Hx. unfold decide.
  match goal with |- context [if ?b then e else set_status e t WAITING] =>
    set (e1 := if b then e else set_status e t WAITING) end.
  assert (E1 : e1 x = e x) by (unfold e1; destruct (_ || _); auto; apply set_status_other; auto).
  destruct (existsb _ (deps c t)); [simpl; rewrite set_status_other; auto|].
  destruct (is_st e1 DONE t); [|rewrite decide_waiting_other; auto].
  destruct (existsb _ (deps c t)); [simpl; rewrite set_status_other; auto|].
  destruct (existsb _ (hdeps c t)); [rewrite decide_waiting_other, set_status_other; auto|].
  destruct (last_end_time c e1 t); auto. destruct (esc (e1 t)); auto.
  - destruct (Nat.leb _ _); auto. simpl; rewrite set_status_other; auto.
  - simpl; rewrite set_status_other; auto.
Qed.

Lemma final_at_est : forall e t st, est (e t) = Some st -> is_final st = true -> final_at e t = true.
Proof. intros e t st E F. unfold final_at, absent, stat. rewrite E. exact F. Qed.

Lemma decide_waiting_settles : forall c e t r e',
  decide_waiting c e t = (r, e') -> r = RSkipped \/ r = RNone -> final_at e' t = true.
Proof.
  intros c e t r e' H Hr. unfold decide_waiting in H.
  destruct (existsb _ _); [|destruct (forallb _ _)]; injection H as <- <-;
    destruct Hr; try discriminate.
  eapply final_at_est; [apply est_set_same|reflexivity].
Qed.

Lemma decide_settles : forall c e t r e',
  decide c e t = (r, e') -> r = RSkipped \/ r = RNone -> final_at e' t = true.
Proof.
  intros c e t r e' H Hr. unfold decide in H.
  match type of H with context [if ?b then e else set_status e t WAITING] =>
    set (e1 := if b then e else set_status e t WAITING) in H end.
  destruct (existsb _ (deps c t)); [injection H as <- <-; destruct Hr; discriminate|].
  destruct (is_st e1 DONE t) eqn:D; [|eapply decide_waiting_settles; eauto].
  destruct (existsb _ (deps c t)); [injection H as <- <-; destruct Hr; discriminate|].
  destruct (existsb _ (hdeps c t)); [eapply decide_waiting_settles; eauto|].
  assert (FD : final_at e1 t = true).
  { unfold e1 in *. destruct (is_st e DONE t && negb (absent e t)) eqn:X; simpl in *.
    - apply andb_true_iff in X. destruct X as [X1 X2]. unfold final_at. rewrite X2. simpl.
      unfold is_st in X1. destruct (stat e t); try discriminate; reflexivity.
    - destruct (is_st e WAITING t && negb (absent e t)) eqn:Y; simpl in *.
      + apply andb_true_iff in Y. destruct Y as [Y1 Y2]. unfold is_st in *.
        destruct (stat e t); discriminate.
      + unfold is_st, stat in D. rewrite est_set_same in D. discriminate. }
  destruct (last_end_time c e1 t); [|injection H as <- <-; auto].
  destruct (esc (e1 t)); [destruct (Nat.leb _ _)|]; injection H as <- <-; auto;
    destruct Hr; discriminate.
Qed.

(* all dependencies final: the decision is not "wait" *)
Definition deps_final (c : cfg) (e : nat -> entry) (t : nat) : Prop :=
  forall d, In d (deps c t) -> final_at e d = true.

Lemma existsb_false_intro : forall (A : Type) (f : A -> bool) l,
  (forall x, In x l -> f x = false) -> existsb f l = false.
Proof.
  induction l; intros; simpl; auto. rewrite H by (left; auto). apply IHl. intros; apply H; right; auto.
Qed.

Lemma final_at_cases : forall e d, final_at e d = true ->
  absent e d = false /\ (is_st e DONE d = true \/ is_st e FAILED d = true \/ is_st e SKIPPED d = true).
Proof.
  intros e d H. unfold final_at in H. apply andb_true_iff in H. destruct H as [A B].
  split; [destruct (absent e d); auto; discriminate|].
  unfold is_st. destruct (stat e d); try discriminate; auto.
Qed.

Lemma decide_waiting_not_waiting : forall c e t,
  deps_final c e t -> fst (decide_waiting c e t) <> RWaiting.
Proof.
  intros c e t P. unfold decide_waiting.
  destruct (existsb _ _); [simpl; discriminate|].
  destruct (forallb _ _) eqn:Fa; [simpl; discriminate|]. exfalso.
  assert (forallb (fun d => is_st e DONE d || is_st e FAILED d || is_st e SKIPPED d) (deps c t) = true);
    [|congruence].
  apply forallb_forall. intros d Hd. destruct (final_at_cases _ _ (P d Hd)) as [_ [H|[H|H]]];
    rewrite H; rewrite ?orb_true_r; auto.
Qed.

Lemma deps_final_set : forall c e t st, ~ In t (deps c t) -> deps_final c e t ->
  deps_final c (set_status e t st) t.
Proof.
  intros c e t st N P d Hd. specialize (P d Hd).
  assert (d <> t) by (intro; subst; auto).
  unfold final_at, absent, stat in *. rewrite set_status_other; auto.
Qed.

Lemma decide_not_waiting : forall c e t,
  ~ In t (deps c t) -> deps_final c e t -> fst (decide c e t) <> RWaiting.
Proof.
  intros c e t N P. unfold decide.
  match goal with |- context [if ?b then e else set_status e t WAITING] =>
    set (e1 := if b then e else set_status e t WAITING) end.
  assert (P1 : deps_final c e1 t) by (unfold e1; destruct (_ || _); auto; apply deps_final_set; auto).
  rewrite existsb_false_intro.
  2:{ intros d Hd. destruct (final_at_cases _ _ (P1 d Hd)) as [A B]. rewrite A. simpl.
      unfold is_st in *. destruct (stat e1 d); auto; destruct B as [B|[B|B]]; discriminate. }
  destruct (is_st e1 DONE t); [|apply decide_waiting_not_waiting; auto].
  rewrite existsb_false_intro.
  2:{ intros d Hd. destruct (final_at_cases _ _ (P1 d Hd)) as [A B].
      unfold is_st in *. destruct (stat e1 d); auto; destruct B as [B|[B|B]]; discriminate. }
  destruct (existsb _ (hdeps c t)).
  - apply decide_waiting_not_waiting. apply deps_final_set; auto.
  - destruct (last_end_time c e1 t); [|simpl; discriminate].
    destruct (esc (e1 t)); [destruct (Nat.leb _ _)|]; simpl; discriminate.
Qed.

Lemma publish_other : forall c e t a b k x, x <> t -> publish c e t a b k x = e x.
Proof. intros; unfold publish; apply upd_other; auto. Qed.
Lemma publish_final : forall c e t a b k, final_at (publish c e t a b k) t = true.
Proof.
  intros. unfold final_at, absent, stat, publish. rewrite upd_same. simpl. destruct (ok _); auto.
Qed.

(* ================= tasks in flight ================= *)
Lemma queued_app : forall q1 q2, queued (q1 ++ q2) = queued q1 ++ queued q2.
Proof. induction q1 as [|[x|] q1 IH]; intros; simpl; auto. rewrite IH; auto. Qed.
Lemma In_queued : forall q x, In x (queued q) <-> In (Some x) q.
Proof.
  induction q as [|[y|] q IH]; intros; simpl; try tauto.
  - rewrite IH. split; (intros [H|H]; [left; congruence|right; auto]).
  - rewrite IH. split; auto. intros [H|H]; auto. discriminate.
Qed.

Definition Fm (m : mpc) : list nat := match m with MPut t _ _ _ => [t] | _ => [] end.

Lemma In_F : forall c s x, In x (F c s) <->
  In x (Fm (mp s)) \/ In (Some x) (queue s) \/ exists w, w < nworkers c /\ In x (held (wp s w)).
Proof.
  intros. unfold F. fold (Fm (mp s)). rewrite !in_app_iff, In_queued, in_flat_map.
  split; intros [H|[H|H]]; auto; right; right.
  - destruct H as [w [Hw H]]. apply in_seq in Hw. exists w; split; auto; lia.
  - destruct H as [w [Hw H]]. exists w; split; auto. apply in_seq; lia.
Qed.

Lemma Fm_next_decide : forall todo acc nb, Fm (next_decide todo acc nb) = [].
Proof.
  intros. unfold next_decide, pass_end. destruct todo; auto. destruct acc; auto.
  destruct (Nat.eqb _ _); auto.
Qed.

(* ================= a task of the graph is final, in L or in flight ================= *)
Definition sf_inv (ord : list nat) (c : cfg) (s : state) : Prop :=
  forall t, In t ord -> final_at (env s) t = true \/ In t (L c s) \/ In t (F c s).

Lemma sf_inv_init : forall c ord e0 st0 clk,
  order c = Some ord -> 1 <= nworkers c -> sf_inv ord c (init c e0 st0 clk).
Proof.
  intros c ord e0 st0 clk O W t Ht. right; left. unfold L, init; simpl. rewrite O.
  destruct (Nat.eqb_spec (nworkers c) 0); [lia|]. rewrite ?O. exact Ht.
Qed.

Lemma sf_inv_step0 : forall ord c s tid now s',
  cinv c s -> sf_inv ord c s -> step0 c s tid now = Some s' -> sf_inv ord c s'.
Proof.
  intros ord c s [|w] now s' CI I H x Hx; specialize (I x Hx);
    rewrite !L_Lm, !In_F in *.
  - apply step_master in H.
    minv H; rewrite ?Lm_next_decide, ?Fm_next_decide; rewrite ?Emp in I; simpl in *.
    all: try tauto.
    + (* MStart *)
      pose proof (ci_spawn _ _ CI) as SI. unfold spawn_inv in SI. rewrite Emp in SI.
      destruct SI as [Hk [_ Bk]].
      assert (E1 : Lm c (after_spawn c k) = match order c with Some l => l | None => [] end).
      { unfold after_spawn. destruct (Nat.eqb _ _); auto. destruct (order c) as [[|]|]; auto. }
      assert (E2 : Fm (after_spawn c k) = []).
      { unfold after_spawn. destruct (Nat.eqb _ _); auto. destruct (order c) as [[|]|]; auto. }
      rewrite E1, E2. destruct I as [I|[I|[I|[I|[w [Hw I]]]]]]; auto.
      right; right; right; right. exists w; split; auto.
      destruct (upd_cases _ (wp s) k WBoot w) as [[-> ->]|[? ->]]; auto.
      rewrite (Bk k) in I by lia. destruct I.
    + (* decide: waiting *)
      destruct (Nat.eq_dec x n) as [->|Ne].
      * right; left. rewrite !in_app_iff; simpl; auto.
      * pose proof (decide_other c (env s) n x Ne) as E. rewrite Heqp in E; simpl in E.
        unfold final_at, absent, stat in *. rewrite E.
        rewrite !in_app_iff in *; simpl in *. intuition.
    + (* decide: pending *)
      destruct (Nat.eq_dec x n) as [->|Ne]; [auto|].
      pose proof (decide_other c (env s) n x Ne) as E. rewrite Heqp in E; simpl in E.
      unfold final_at, absent, stat in *. rewrite E.
      rewrite !in_app_iff in *; simpl in *. intuition.
    + (* decide: skipped *)
      destruct (Nat.eq_dec x n) as [->|Ne]; [left; eapply decide_settles; eauto|].
      pose proof (decide_other c (env s) n x Ne) as E. rewrite Heqp in E; simpl in E.
      unfold final_at, absent, stat in *. rewrite E.
      rewrite !in_app_iff in *; simpl in *. intuition.
    + (* decide: none *)
      destruct (Nat.eq_dec x n) as [->|Ne]; [left; eapply decide_settles; eauto|].
      pose proof (decide_other c (env s) n x Ne) as E. rewrite Heqp in E; simpl in E.
      unfold final_at, absent, stat in *. rewrite E.
      rewrite !in_app_iff in *; simpl in *. intuition.
    + (* put *)
      rewrite !in_app_iff; simpl. intuition.
    + (* sentinel *)
      rewrite !in_app_iff; simpl. intuition.
    + rewrite !in_app_iff; simpl. intuition.
  - apply step_worker in H. rewrite (worker_step_mp _ _ _ _ _ H).
    pose proof (worker_step_lt _ _ _ _ _ (ci_spawn _ _ CI) H) as Hw.
    assert (K : forall p, (forall y, In y (held (wp s w)) -> In y (held p)) ->
                (exists w0, w0 < nworkers c /\ In x (held (wp s w0))) ->
                exists w0, w0 < nworkers c /\ In x (held (upd (wp s) w p w0))).
    { intros p Hp [w0 [H0 H1]]. exists w0; split; auto.
      destruct (upd_cases _ (wp s) w p w0) as [[-> ->]|[? ->]]; auto. }
    winv H.
    all: try (destruct I as [I|[I|[I|[I|I]]]]; auto;
              right; right; right; right; apply K; auto; rewrite ?Ewp; simpl; tauto).
    + (* get: task *)
      rewrite ?Heql in I. simpl in I.
      destruct I as [I|[I|[I|[[I|I]|I]]]]; auto.
      * injection I as ->. right; right; right; right. exists w; split; auto.
        rewrite upd_same; simpl; auto.
      * right; right; right; right; apply K; auto; rewrite ?Ewp; simpl; tauto.
    + (* get: sentinel *)
      rewrite ?Heql in I. simpl in I.
      destruct I as [I|[I|[I|[[I|I]|I]]]]; auto; try discriminate.
      right; right; right; right; apply K; auto; rewrite ?Ewp; simpl; tauto.
    + (* publish *)
      destruct (Nat.eq_dec x t) as [->|Ne]; [left; apply publish_final|].
      unfold final_at, absent, stat. rewrite publish_other by auto.
      destruct I as [I|[I|[I|[I|[w0 [H0 H1]]]]]]; auto.
      right; right; right; right. exists w0; split; auto.
      destruct (upd_cases _ (wp s) w WTaskDone w0) as [[-> ->]|[? ->]]; auto.
      rewrite ?Ewp in H1. simpl in H1. destruct H1; [congruence|contradiction].
Qed.

(* ================= notifications still owed (the lost-wake-up argument) ================= *)
(* a worker that holds a task, or has finished one and has not yet notified *)
Definition owe (p : wpc) : nat :=
  match p with WStart _ _ | WPublish _ _ _ _ | WTaskDone | WNAcq | WNotify => 1 | _ => 0 end.
Definition owed_n (c : cfg) (s : state) : nat :=
  length (Fm (mp s)) + length (queued (queue s)) + countw owe (wp s) (nworkers c).

Lemma owed_zero_F : forall c s, owed_n c s = 0 -> forall x, ~ In x (F c s).
Proof.
  intros c s Z x H. unfold owed_n in Z. apply In_F in H.
  destruct H as [H|[H|[w [Hw H]]]].
  - destruct (Fm (mp s)); [destruct H|simpl in Z; lia].
  - apply In_queued in H. destruct (queued (queue s)); [destruct H|simpl in Z; lia].
  - assert (Z' : countw owe (wp s) (nworkers c) = 0) by lia.
    pose proof (countw_zero _ _ _ Z' w Hw) as O. destruct (wp s w); simpl in *; try discriminate; auto.
Qed.

Definition wake_inv (c : cfg) (s : state) : Prop :=
  match mp s with
  | MDecide _ acc _ => acc <> [] -> 0 < owed_n c s
  | MCvWait _ => 0 < owed_n c s
  | MCvWake _ => cv_notified s = false -> 0 < owed_n c s
  | _ => True
  end.

Lemma wake_inv_init : forall c e0 st0 clk, wake_inv c (init c e0 st0 clk).
Proof.
  intros. unfold wake_inv, init; simpl.
  destruct (order c) as [[|]|]; try destruct (Nat.eqb (nworkers c) 0); simpl; auto.
Qed.

Lemma wake_nd : forall c s todo acc nb,
  mp s = next_decide todo acc nb -> (acc <> [] -> 0 < owed_n c s) -> wake_inv c s.
Proof.
  intros c s todo acc nb E H. unfold wake_inv. rewrite E. unfold next_decide, pass_end.
  destruct todo; auto. destruct acc; auto. destruct (Nat.eqb _ _); auto. apply H; discriminate.
Qed.

Lemma worker_step_owed : forall c s w now s',
  w < nworkers c -> worker_step c s w now = Some s' -> wp s w <> WNotify ->
  owed_n c s' = owed_n c s /\ cv_notified s' = cv_notified s.
Proof.
  intros c s w now s' Hw H N. unfold owed_n. rewrite (worker_step_mp _ _ _ _ _ H).
  winv H; try congruence;
    match goal with |- context [upd (wp s) w ?p] =>
      pose proof (countw_upd owe (wp s) w p _ Hw) as B end;
    rewrite ?Ewp in B; simpl in B; rewrite ?Heql; simpl; split; auto; lia.
Qed.

Lemma wpc_eq_notify : forall p : wpc, p = WNotify \/ p <> WNotify.
Proof. destruct p; auto; right; discriminate. Qed.

Lemma wpc_exited : forall p : wpc, p = WExited \/ p <> WExited.
Proof. destruct p; auto; right; discriminate. Qed.

Section Wf.
Variable c : cfg.
Variable ord : list nat.
Hypothesis Hord : order c = Some ord.
Hypothesis Hnd : NoDup ord.
Hypothesis Htopo : forall t d, In d (deps c t) -> In t ord -> In d ord /\ pos ord d < pos ord t.
Hypothesis Hw1 : 1 <= nworkers c.

Record inv3 (s : state) : Prop := mkInv3 {
  i3_c : cinv c s;
  i3_sorted : Lsorted ord c s;
  i3_sf : sf_inv ord c s;
  i3_wake : wake_inv c s
}.

(* the first task of a pass that is told to wait has a dependency in flight *)
Lemma first_waiting_owed : forall s t todo nb e',
  Lsorted ord c s -> sf_inv ord c s -> mp s = MDecide (t :: todo) [] nb ->
  decide c (env s) t = (RWaiting, e') -> 0 < owed_n c s.
Proof.
  intros s t todo nb e' [SS SI] SF Emp D.
  destruct (owed_n c s) eqn:Z; [|lia]. exfalso.
  pose proof (owed_zero_F _ _ Z) as NF.
  rewrite L_Lm, Emp in SS, SI. simpl in SS, SI.
  assert (Ht : In t ord) by (apply SI; left; auto).
  inversion SS as [|? ? _ FA]; subst. rewrite Forall_forall in FA.
  assert (N : ~ In t (deps c t)).
  { intro H. destruct (Htopo _ _ H Ht). lia. }
  assert (P : deps_final c (env s) t).
  { intros d Hd. destruct (Htopo _ _ Hd Ht) as [Hdo Hp].
    destruct (SF d Hdo) as [H|[H|H]]; auto.
    - rewrite L_Lm, Emp in H. simpl in H. destruct H as [->|H]; [lia|].
      specialize (FA d H). unfold ltp in FA. lia.
    - destruct (NF d H). }
  apply (decide_not_waiting c (env s) t N P). rewrite D. reflexivity.
Qed.

Lemma wake_inv_step0 : forall s tid now s',
  inv3 s -> step0 c s tid now = Some s' -> wake_inv c s'.
Proof.
  intros s [|w] now s' [CI LS SF I] H.
  - apply step_master in H. unfold wake_inv in I.
    pose proof (first_waiting_owed s) as FW.
    minv H; rewrite ?Emp in I; try exact Logic.I;
      try (eapply wake_nd; [simpl; reflexivity|]; unfold owed_n in *; simpl;
           rewrite ?Fm_next_decide; simpl; try rewrite Emp in I; try rewrite Emp in FW; simpl in I, FW).
    + unfold wake_inv; simpl. unfold after_spawn.
      destruct (Nat.eqb _ _); [destruct (order c) as [[|]|]|]; simpl; auto.
    + unfold wake_inv; simpl. congruence.
    + (* waiting *)
      intros _. destruct acc as [|a acc]; [|apply I; discriminate].
      exact (FW _ _ _ _ LS SF eq_refl Heqp).
    + exact I.
    + exact I.
    + intros _. rewrite queued_app, app_length. simpl. lia.
    + unfold wake_inv; simpl. intros _. unfold owed_n in *. rewrite Emp in I. exact I.
  - apply step_worker in H.
    pose proof (worker_step_lt _ _ _ _ _ (ci_spawn _ _ CI) H) as Hw.
    destruct (wpc_eq_notify (wp s w)) as [E|E].
    + (* the notification itself *)
      pose proof (ci_owner _ _ CI) as [OM OW]. pose proof (ci_flags _ _ CI) as FL.
      assert (O : cv_owner s = Some (S w)) by (apply OW; rewrite E; reflexivity).
      assert (M : mholds (mp s) = false).
      { destruct (mholds (mp s)) eqn:X; auto. destruct OM as [OM _]. specialize (OM eq_refl). congruence. }
      unfold wake_inv, flags_inv in *. unfold worker_step in H. rewrite E in H.
      injection H as <-. simpl. destruct (mp s); try exact Logic.I; try discriminate M.
      rewrite FL. destruct (cv_notified s); discriminate.
    + destruct (worker_step_owed _ _ _ _ _ Hw H E) as [E1 E2].
      unfold wake_inv in *. rewrite (worker_step_mp _ _ _ _ _ H), E1, E2. exact I.
Qed.

Lemma inv3_init : forall e0 st0 clk, inv3 (init c e0 st0 clk).
Proof.
  intros. constructor; [apply cinv_init; auto|apply Lsorted_init; auto|apply sf_inv_init; auto
                       |apply wake_inv_init].
Qed.

Lemma inv3_step0 : forall s tid now s', inv3 s -> step0 c s tid now = Some s' -> inv3 s'.
Proof.
  intros s tid now s' I H. constructor.
  - eapply cinv_step0; eauto. apply I.
  - eapply Lsorted_step; [apply I|eapply step0_step; eauto].
  - eapply sf_inv_step0; eauto; apply I.
  - eapply wake_inv_step0; eauto.
Qed.

Lemma inv3_step : forall s tid now s', inv3 s -> step c s tid now = Some s' -> inv3 s'.
Proof. apply (lift_step c inv3); [intros s I; apply I|apply inv3_step0]. Qed.

Lemma inv3_reachable : forall e0 st0 clk s, reachable c e0 st0 clk s -> inv3 s.
Proof.
  intros e0 st0 clk s [sched H].
  eapply (run_ind_inv c inv3 inv3_step); [apply inv3_init|exact H].
Qed.

(* a worker that holds the condition variable can always move *)
Lemma holder_enabled : forall s w, wholds (wp s w) = true -> enabled c s (S w) = true.
Proof. intros s w H. unfold enabled; simpl. unfold worker_op. destruct (wp s w); try discriminate; auto. Qed.

Lemma spawned_lt : forall s w, spawned s (nworkers c) -> wp s w <> WNone -> w < nworkers c.
Proof.
  intros s w [_ B] N. destruct (Nat.lt_ge_cases w (nworkers c)); auto. exfalso; apply N, B; auto.
Qed.

Lemma countw_pos_ex : forall f wps n, 0 < countw f wps n -> exists w, w < n /\ 0 < f (wps w).
Proof.
  induction n; simpl; intros H; [lia|].
  destruct (f (wps n)) eqn:E.
  - destruct IHn as [w [Hw Hf]]; [lia|]. exists w; split; auto.
  - exists n; split; auto. lia.
Qed.

Lemma no_deadlock_wf : forall e0 st0 clk s, reachable c e0 st0 clk s ->
  terminal s = true \/ exists tid, tid <= nworkers c /\ enabled c s tid = true.
Proof.
  intros e0 st0 clk s R. pose proof (inv3_reachable _ _ _ _ R) as [CI _ _ WI].
  pose proof CI as [SI _ CNT [OM OW] FL _].
  (* somebody else holds the condition variable: that worker is enabled *)
  assert (HOLD : forall o, cv_owner s = Some o -> mholds (mp s) = false ->
                 spawned s (nworkers c) ->
                 exists tid, tid <= nworkers c /\ enabled c s tid = true).
  { intros [|w] O M SP; [apply OM in O; congruence|].
    apply OW in O. exists (S w). split; [|apply holder_enabled; auto].
    apply (spawned_lt s w SP). intro E; rewrite E in O; discriminate. }
  unfold spawn_inv in SI. unfold count_inv in CNT. unfold wake_inv in WI. unfold flags_inv in FL.
  destruct (mp s) eqn:Emp; try (left; unfold terminal; rewrite Emp; reflexivity; fail); right;
    try (exists 0; split; [lia|]; unfold enabled; simpl; unfold master_op; rewrite Emp; reflexivity).
  - (* MCvAcq *)
    destruct (cv_owner s) eqn:O; [apply (HOLD _ eq_refl); auto|].
    exists 0; split; [lia|]. unfold enabled; simpl; unfold master_op; rewrite Emp, O; reflexivity.
  - (* MCvWake *)
    destruct (cv_owner s) as [o|] eqn:O; [apply (HOLD _ eq_refl); auto|].
    destruct (cv_notified s) eqn:Nt.
    { exists 0; split; [lia|]. unfold enabled; simpl; unfold master_op; rewrite Emp, O, Nt; reflexivity. }
    specialize (WI eq_refl). unfold owed_n in WI. rewrite Emp in WI. simpl in WI.
    destruct CNT as (U & Q & NX).
    destruct (countw owe (wp s) (nworkers c)) eqn:Z.
    + (* a task is queued: worker 0 is not blocked *)
      destruct (queue s) as [|x q] eqn:Eq; [simpl in WI; lia|].
      exists 1; split; [lia|]. destruct SI as [A _]. specialize (A 0 ltac:(lia)). specialize (NX 0).
      unfold enabled; simpl; unfold worker_op. rewrite Eq, O.
      destruct (wp s 0); try reflexivity; congruence.
    + destruct (countw_pos_ex owe (wp s) (nworkers c)) as [w [Hw Hf]]; [lia|].
      exists (S w); split; [lia|]. unfold enabled; simpl; unfold worker_op. rewrite O.
      destruct (wp s w); simpl in Hf; try reflexivity; lia.
  - (* MQJoin *)
    destruct CNT as (U & Q & NX).
    destruct (unfinished s) eqn:Eu.
    { exists 0; split; [lia|]. unfold enabled; simpl; unfold master_op; rewrite Emp, Eu; reflexivity. }
    destruct (countw busy (wp s) (nworkers c)) eqn:Z.
    + destruct (queue s) as [|x q] eqn:Eq; [simpl in U; lia|].
      destruct (cv_owner s) as [o|] eqn:O; [apply (HOLD _ eq_refl); auto|].
      exists 1; split; [lia|]. destruct SI as [A _]. specialize (A 0 ltac:(lia)). specialize (NX 0).
      unfold enabled; simpl; unfold worker_op. rewrite Eq, O.
      destruct (wp s 0); try reflexivity; congruence.
    + destruct (countw_pos_ex busy (wp s) (nworkers c)) as [w [Hw Hf]]; [lia|].
      exists (S w); split; [lia|]. unfold enabled; simpl; unfold worker_op.
      destruct (wp s w); simpl in Hf; try reflexivity; lia.
  - (* MJoinT: worker k still has a sentinel to get *)
    destruct CNT as (Hk & (U & Q & Bz & E) & X).
    destruct (wpc_exited (wp s k)) as [Ex|Ex].
    { exists 0; split; [lia|]. unfold enabled; simpl; unfold master_op; rewrite Emp, Ex; reflexivity. }
    destruct (cv_owner s) as [o|] eqn:O; [apply (HOLD _ eq_refl); auto|].
    exists (S k); split; [lia|]. unfold enabled; simpl; unfold worker_op. rewrite O.
    destruct SI as [A _]. specialize (A k Hk).
    pose proof (countw_zero _ _ _ Bz k Hk) as Bk.
    destruct (wp s k) eqn:Ek; try reflexivity; try congruence; try discriminate Bk.
    (* WGet: the queue is not empty *)
    destruct (queue s); auto. exfalso. simpl in E.
    assert (AI : exited (wp s k) = 1).
    { apply (countw_all_inv exited (wp s) (nworkers c)); auto. intros p; destruct p; simpl; lia. }
    rewrite Ek in AI. discriminate.
Qed.

End Wf.

Lemma no_deadlock : forall c e0 st0 clk s,
  wf_cfg_or_cyclic c -> junk_free e0 -> reachable c e0 st0 clk s ->
  terminal s = true \/ exists tid, tid <= nworkers c /\ enabled c s tid = true.
Proof.
  intros c e0 st0 clk s [(ord & O & ND & _ & T & _ & W)|[O W]] _ R.
  - eapply no_deadlock_wf; eauto.
  - left. pose proof (cinv_reachable _ _ _ _ _ W R) as [_ _ _ _ _ RI].
    unfold terminal. apply RI in O. rewrite O. reflexivity.
Qed.

(* the enabled thread can really take a step *)
Lemma no_deadlock_step : forall c e0 st0 clk s,
  wf_cfg_or_cyclic c -> junk_free e0 -> reachable c e0 st0 clk s ->
  terminal s = true \/ exists tid now s', step c s tid now = Some s'.
Proof.
  intros c e0 st0 clk s Hc J R. destruct (no_deadlock _ _ _ _ _ Hc J R) as [T|[tid [Ht En]]]; auto.
  right. exists tid. apply enabled_step; auto.
  eapply cinv_reachable; eauto. apply wfc_workers; auto.
Qed.

(* ================= termination: a potential that every step decreases ================= *)
(* CR: what one more pass of the master can cost (acquire, <= ntasks decisions,
   wait, wake, release); every notification may trigger one such pass, and so may
   every task that leaves the master's list *)
Definition CR (c : cfg) : nat := ntasks c + 4.
Definition PB (c : cfg) : nat := CR c + 7.            (* a queued task *)
Definition PA (c : cfg) : nat := 2 * CR c + 8.        (* a task still in the master's list *)
Definition PD (c : cfg) : nat := 2 * nworkers c + 2.  (* leaving the loop, sentinels, joins *)

Definition wpot (c : cfg) (p : wpc) : nat :=
  match p with
  | WNone | WBoot => 2
  | WGet => 1
  | WStart _ _ => 7 + CR c
  | WPublish _ _ _ _ => 6 + CR c
  | WTaskDone => 5 + CR c
  | WNAcq => 4 + CR c
  | WNotify => 3 + CR c
  | WNRel => 2
  | WExited => 0
  end.

Fixpoint qpot (c : cfg) (q : list (option nat)) : nat :=
  match q with
  | [] => 0
  | Some _ :: r => PB c + qpot c r
  | None :: r => qpot c r
  end.

Definition flag (c : cfg) (nb l : nat) : nat := if Nat.eqb nb l then 0 else CR c.
Definition dpot (c : cfg) (todo acc : list nat) (nb : nat) : nat :=
  PD c + length todo + 1 + flag c nb (length acc + length todo).

Definition mpotm (c : cfg) (m : mpc) (notified : bool) : nat :=
  match m with
  | MStart k => (nworkers c - k) + PD c + CR c + 1
  | MCvAcq _ => PD c + CR c - 2
  | MDecide todo acc nb => dpot c todo acc nb
  | MPut _ todo acc nb => dpot c todo acc nb + 1 + PB c
  | MCvRelBreak => PD c
  | MCvRelLoop _ => PD c + CR c - 1
  | MCvWait _ => PD c + 1
  | MCvWake _ => PD c + (if notified then CR c else 0)
  | MQJoin => 2 * nworkers c + 1
  | MSentinel k => 2 * nworkers c - k
  | MJoinT k => nworkers c - k
  | MReturned | MRaised => 0
  end.

Definition pot (c : cfg) (s : state) : nat :=
  PA c * length (L c s) + mpotm c (mp s) (cv_notified s) + qpot c (queue s)
  + countw (wpot c) (wp s) (nworkers c).

Lemma qpot_app : forall c q1 q2, qpot c (q1 ++ q2) = qpot c q1 + qpot c q2.
Proof. induction q1 as [|[x|] q1 IH]; intros; simpl; auto. rewrite IH; lia. Qed.

Lemma mpotm_nd : forall c todo acc nb b,
  mpotm c (next_decide todo acc nb) b <= dpot c todo acc nb.
Proof.
  intros. unfold next_decide, pass_end. destruct todo; [|simpl; lia].
  unfold dpot, flag. simpl. replace (length acc + 0) with (length acc) by lia.
  destruct acc; [simpl; lia|]. destruct (Nat.eqb _ _); simpl; unfold CR; lia.
Qed.

Definition tinv (c : cfg) (s : state) : Prop := cinv c s /\ length (L c s) <= ntasks c.

Lemma tinv_step : forall c s tid now s', tinv c s -> step c s tid now = Some s' -> tinv c s'.
Proof.
  intros c s tid now s' [CI LL] H. split; [eapply cinv_step; eauto|].
  pose proof (L_length_step _ _ _ _ _ H). lia.
Qed.

Lemma pot_step0 : forall c s tid now s', tinv c s -> step0 c s tid now = Some s' -> pot c s' < pot c s.
Proof.
  intros c s [|w] now s' [CI LL] H; unfold pot; rewrite !L_Lm in *.
  - apply step_master in H.
    pose proof (ci_spawn _ _ CI) as SI. unfold spawn_inv in SI.
    pose proof (ci_count _ _ CI) as CNT. unfold count_inv in CNT.
    minv H; rewrite ?Emp in SI, CNT; rewrite ?Lm_next_decide; simpl mpotm.
    + (* MStart *)
      destruct SI as [Hk [_ Bk]].
      pose proof (countw_upd (wpot c) (wp s) k WBoot _ Hk) as E. rewrite (Bk k) in E by lia. simpl in E.
      assert (E1 : Lm c (after_spawn c k) = Lm c (MStart k)).
      { unfold after_spawn. destruct (Nat.eqb _ _); auto. simpl. destruct (order c) as [[|]|]; auto. }
      assert (E2 : forall b, mpotm c (after_spawn c k) b < mpotm c (MStart k) b).
      { intro b. unfold after_spawn. destruct (Nat.eqb_spec (S k) (nworkers c)).
        - destruct (order c) as [[|]|]; simpl; unfold PD, CR; lia.
        - simpl. lia. }
      rewrite E1. specialize (E2 (cv_notified s)). simpl in *. lia.
    + (* MCvAcq *)
      simpl in *. unfold dpot, flag. simpl. rewrite Nat.eqb_refl. unfold PD, CR. lia.
    + (* waiting *)
      pose proof (mpotm_nd c l (acc ++ [n]) nb (cv_notified s)) as M.
      unfold dpot in *. rewrite <- app_assoc in *. simpl in *. rewrite !app_length in *. simpl in *.
      replace (length acc + 1 + length l) with (length acc + S (length l)) in M by lia. lia.
    + (* pending *)
      simpl. rewrite !app_length. simpl. unfold dpot, flag. simpl.
      destruct (Nat.eqb _ _); destruct (Nat.eqb _ _); unfold PA, PB, PD, CR; lia.
    + (* skipped *)
      pose proof (mpotm_nd c l acc nb (cv_notified s)) as M.
      simpl. rewrite !app_length. simpl. unfold dpot, flag in *. simpl.
      destruct (Nat.eqb _ _); destruct (Nat.eqb _ _); unfold PA, PB, PD, CR in *; lia.
    + (* none *)
      pose proof (mpotm_nd c l acc nb (cv_notified s)) as M.
      simpl. rewrite !app_length. simpl. unfold dpot, flag in *. simpl.
      destruct (Nat.eqb _ _); destruct (Nat.eqb _ _); unfold PA, PB, PD, CR in *; lia.
    + (* put *)
      pose proof (mpotm_nd c todo acc nb (cv_notified s)) as M.
      simpl. rewrite qpot_app. simpl. lia.
    + simpl. unfold PD. lia.
    + simpl. unfold PD, CR. lia.
    + simpl. lia.
    + (* wake *)
      apply andb_true_iff in Heqb. destruct Heqb as [-> _]. simpl. unfold CR. lia.
    + simpl. lia.
    + simpl. lia.
    + (* last sentinel *)
      apply Nat.eqb_eq in Heqb. simpl. rewrite qpot_app. simpl. lia.
    + destruct CNT as [Hk _]. apply Nat.eqb_neq in Heqb. simpl. rewrite qpot_app. simpl. lia.
    + destruct CNT as [Hk _]. simpl. lia.
    + destruct CNT as [Hk _]. simpl. lia.
  - apply step_worker in H. rewrite (worker_step_mp _ _ _ _ _ H).
    pose proof (worker_step_lt _ _ _ _ _ (ci_spawn _ _ CI) H) as Hw.
    winv H;
      match goal with |- context [upd (wp s) w ?p] =>
        pose proof (countw_upd (wpot c) (wp s) w p _ Hw) as E end;
      rewrite ?Ewp in E; simpl in E; rewrite ?Heql; simpl; try lia.
    + unfold PB. lia.
    + (* notify *)
      assert (M : mpotm c (mp s) (cv_notified s || cv_waiting s) <= mpotm c (mp s) (cv_notified s) + CR c).
      { destruct (mp s); simpl; try lia. destruct (cv_notified s), (cv_waiting s); simpl; lia. }
      lia.
Qed.

(* the shortcut move of the master costs as much as the three steps it stands for *)
Lemma pot_step : forall c s tid now s', tinv c s -> step c s tid now = Some s' -> pot c s' < pot c s.
Proof.
  intros c s tid now s' I H.
  destruct (step_split _ _ _ _ _ H) as [H0|[-> HA]]; [eapply pot_step0; eauto|].
  assert (O : cv_owner s = Some 0).
  { destruct I as [CI _]. destruct (ci_owner _ _ CI) as [OM _]. apply OM. unfold master_step_alt in HA.
    destruct (mp s); try discriminate HA. reflexivity. }
  destruct (alt_three _ _ _ O HA) as (s1 & s2 & H1 & H2 & H3).
  pose proof (tinv_step _ _ _ _ _ I (step0_step _ _ _ _ _ H1)) as I1.
  pose proof (tinv_step _ _ _ _ _ I1 (step0_step _ _ _ _ _ H2)) as I2.
  pose proof (pot_step0 _ _ _ _ _ I H1). pose proof (pot_step0 _ _ _ _ _ I1 H2).
  pose proof (pot_step0 _ _ _ _ _ I2 H3). lia.
Qed.

Lemma run_pot : forall c sched s s', tinv c s -> run c s sched = Some s' ->
  length sched + pot c s' <= pot c s.
Proof.
  induction sched as [|[tid now] r IH]; intros s s' I H; simpl in *.
  - injection H as <-. lia.
  - destruct (step c s tid now) as [s1|] eqn:E; [|discriminate].
    pose proof (pot_step _ _ _ _ _ I E). pose proof (tinv_step _ _ _ _ _ I E) as I1.
    specialize (IH _ _ I1 H). lia.
Qed.

Definition sched_bound (c : cfg) : nat :=
  2 * ntasks c * ntasks c + 17 * ntasks c + 5 * nworkers c + 7.

Lemma countw_const : forall f n k, (forall p, f p = k) -> forall wps, countw f wps n = n * k.
Proof. induction n; intros; simpl; auto. rewrite (IHn k), H; auto. lia. Qed.

Lemma terminates : forall c e0 st0 clk sched s,
  wf_cfg_or_cyclic c -> run c (init c e0 st0 clk) sched = Some s -> length sched <= sched_bound c.
Proof.
  intros c e0 st0 clk sched s [(ord & O & ND & IN & _ & _ & W)|[O W]] H.
  - assert (I : tinv c (init c e0 st0 clk)).
    { split; [apply cinv_init; auto|]. unfold L, init; simpl. rewrite O.
      destruct (Nat.eqb _ _); [destruct ord|]; simpl; rewrite ?O;
        rewrite <- (wf_length c _ ND IN); simpl; lia. }
    pose proof (run_pot _ _ _ _ I H) as P.
    assert (P0 : pot c (init c e0 st0 clk) <= sched_bound c); [|lia].
    unfold pot, L, init; simpl. rewrite O.
    destruct (Nat.eqb_spec (nworkers c) 0); [lia|]. rewrite ?O. simpl.
    rewrite (wf_length c _ ND IN).
    assert (Cw : countw (wpot c) (fun _ => WNone) (nworkers c) = nworkers c * 2).
    { clear. induction (nworkers c); simpl; auto. rewrite IHn. lia. }
    rewrite Cw. unfold sched_bound, PA, PD, CR. lia.
  - (* cyclic: the master raised before anything was started *)
    destruct sched as [|[tid now] r]; [simpl; lia|]. exfalso. simpl in H.
    assert (E : step c (init c e0 st0 clk) tid now = None); [|rewrite E in H; discriminate].
    destruct tid as [|w]; unfold step, master_step_alt, master_step, worker_step, init; simpl; rewrite ?O;
      [destruct now as [|? [|? ?]]; reflexivity|destruct now; reflexivity].
Qed.

(* and a terminal state has no successor for the master *)
Lemma terminal_no_master_step : forall c s now, terminal s = true -> step c s 0 now = None.
Proof.
  intros c s now T. simpl. unfold terminal in T. unfold master_step_alt, master_step.
  destruct now as [|? [|? ?]]; auto; destruct (mp s); try discriminate; reflexivity.
Qed.

(* ================= every reachable state can be driven to a terminal state ================= *)
Lemma reachable_step : forall c e0 st0 clk s tid now s',
  reachable c e0 st0 clk s -> step c s tid now = Some s' -> reachable c e0 st0 clk s'.
Proof.
  intros c e0 st0 clk s tid now s' [sched R] H. exists (sched ++ [(tid, now)]).
  rewrite run_app, R. simpl. rewrite H. reflexivity.
Qed.

Lemma tinv_reachable : forall c e0 st0 clk s, wf_cfg c -> reachable c e0 st0 clk s -> tinv c s.
Proof.
  intros c e0 st0 clk s (ord & O & ND & IN & _ & _ & W) [sched H].
  eapply (run_ind_inv c (tinv c) (tinv_step c)); [|exact H].
  split; [apply cinv_init; auto|]. unfold L, init; simpl. rewrite O.
  destruct (Nat.eqb _ _); [destruct ord|]; simpl; rewrite ?O;
    rewrite <- (wf_length c _ ND IN); simpl; lia.
Qed.

Lemma can_complete : forall c e0 st0 clk s,
  wf_cfg_or_cyclic c -> junk_free e0 -> reachable c e0 st0 clk s ->
  exists sched s', run c s sched = Some s' /\ terminal s' = true.
Proof.
  intros c e0 st0 clk s Hc J R.
  destruct Hc as [Hwf|Hcy].
  - remember (pot c s) as n eqn:En. assert (Hn : pot c s <= n) by lia. clear En.
    revert s R Hn. induction n as [|n IH]; intros s R Hn.
    + destruct (no_deadlock_step c e0 st0 clk s (or_introl Hwf) J R) as [T|(tid & now & s1 & St)].
      * exists [], s; split; auto.
      * pose proof (pot_step _ _ _ _ _ (tinv_reachable _ _ _ _ _ Hwf R) St). lia.
    + destruct (no_deadlock_step c e0 st0 clk s (or_introl Hwf) J R) as [T|(tid & now & s1 & St)].
      * exists [], s; split; auto.
      * pose proof (pot_step _ _ _ _ _ (tinv_reachable _ _ _ _ _ Hwf R) St).
        destruct (IH s1 (reachable_step _ _ _ _ _ _ _ _ R St) ltac:(lia)) as (sched & s' & Rn & T).
        exists ((tid, now) :: sched), s'. split; auto. simpl. rewrite St. exact Rn.
  - exists [], s; split; auto.
    destruct (no_deadlock c e0 st0 clk s (or_intror Hcy) J R) as [T|(tid & Ht & En)]; auto.
    exfalso. destruct Hcy as [O W].
    pose proof (cinv_reachable _ _ _ _ _ W R) as CI.
    pose proof (ci_raised _ _ CI) as RI. apply RI in O.
    pose proof (ci_spawn _ _ CI) as SI. unfold spawn_inv in SI. rewrite O in SI.
    destruct tid as [|w]; unfold enabled in En; simpl in En.
    + unfold master_op in En. rewrite O in En. discriminate.
    + unfold worker_op in En. destruct SI as [_ B]. rewrite (B w) in En by lia. discriminate.
Qed.

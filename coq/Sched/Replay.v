(* Replaying a trace recorded from the real scheduler on the model. *)
From Coq Require Import List Bool Arith.
From VV Require Import Lib.Base Sched.Model.
Import ListNotations.

Record event := mkEv {
  etid : nat;
  eop : opkind;
  earg : option nat;
  etimes : list nat;
  eenv : list entry;          (* abstract environment after the step, by task *)
  eenabled : list nat         (* threads whose next operation was enabled before the step *)
}.

Definition onat_eqb := option_eqb Nat.eqb.
Definition ostatus_eqb := option_eqb status_eqb.

Definition entry_eqb (a b : entry) : bool :=
  ostatus_eqb (est a) (est b) && onat_eqb (ever a) (ever b)
  && onat_eqb (esc a) (esc b) && onat_eqb (eec a) (eec b).

Definition env_eqb (n : nat) (e : nat -> entry) (l : list entry) : bool :=
  Nat.eqb (length l) n
  && forallb (fun i => entry_eqb (e i) (nth i l no_entry)) (seq 0 n).

Definition enabled_list (c : cfg) (s : state) : list nat :=
  filter (enabled c s) (seq 0 (S (nworkers c))).

Definition expected_arg (s : state) (tid : nat) (k : opkind) (a : option nat) : option nat :=
  match k, tid with
  | OpGet, _ => match queue s with Some t :: _ => Some t | _ => None end
  | _, _ => a
  end.

Inductive verdict := VOk (s : state) | VBad (idx : nat) (why : nat).
(* why: 1 enabled sets differ, 2 thread has no / another operation, 3 operation not enabled,
        4 step undefined (clock going backwards, wrong number of time() calls),
        5 environment differs after the step *)

(* the master keeps the condition variable between two passes: its next operation is the first
   decision of the next pass (Model.master_step_alt) *)
Definition keeps_cv (s : state) (ev : event) : bool :=
  match etid ev, mp s, eop ev with
  | 0, MCvRelLoop (_ :: _), OpEnv => true
  | _, _, _ => false
  end.

Definition replay_step (c : cfg) (s : state) (ev : event) : state + nat :=
  if negb (list_eqb Nat.eqb (enabled_list c s) (eenabled ev)) then inr 1 else
  if keeps_cv s ev then
    match step c s 0 [0] with
    | None => inr 4
    | Some s' => if env_eqb (ntasks c) (env s') (eenv ev) then inl s' else inr 5
    end
  else
  match thread_op c s (etid ev) with
  | None => inr 2
  | Some (k, a, en) =>
      if negb (opkind_eqb k (eop ev) && onat_eqb (expected_arg s (etid ev) k a) (earg ev)) then inr 2
      else if negb en then inr 3
      else match step c s (etid ev) (etimes ev) with
           | None => inr 4
           | Some s' => if env_eqb (ntasks c) (env s') (eenv ev) then inl s' else inr 5
           end
  end.

Fixpoint replay (c : cfg) (s : state) (evs : list event) (idx : nat) : verdict :=
  match evs with
  | [] => VOk s
  | ev :: r =>
      match replay_step c s ev with
      | inl s' => replay c s' r (S idx)
      | inr why => VBad idx why
      end
  end.

(* what the call did at the end: 0 returned, 1 raised, 2 deadlock/aborted *)
Definition all_workers_gone (c : cfg) (s : state) : bool :=
  forallb (fun w => match wp s w with WExited | WNone => true | _ => false end)
          (seq 0 (nworkers c)).

Definition final_ok (c : cfg) (s : state) (result : nat) : bool :=
  match result with
  | 0 => match mp s with MReturned => all_workers_gone c s | _ => false end
  | 1 => match mp s with MRaised => all_workers_gone c s | _ => false end
  | _ => false        (* the model never deadlocks (C03): an observed deadlock is a mismatch *)
  end.

Definition list_fun {X} (d : X) (l : list X) : nat -> X := fun i => nth i l d.

Record tcase := mkCase {
  c_n : nat;
  c_deps : list (list nat);
  c_hdeps : list (list nat);
  c_order : option (list nat);
  c_nworkers : nat;
  c_oc : list outcome;
  c_env0 : list entry;
  c_started0 : list nat;
  c_clock0 : nat;
  c_events : list event;
  c_result : nat
}.

Definition case_cfg (t : tcase) : cfg :=
  mkCfg (c_n t) (list_fun [] (c_deps t)) (list_fun [] (c_hdeps t)) (c_order t) (c_nworkers t)
        (list_fun (mkO false false) (c_oc t)).

Definition case_init (t : tcase) : state :=
  init (case_cfg t) (list_fun no_entry (c_env0 t)) (list_fun 0 (c_started0 t)) (c_clock0 t).

Definition check_case (t : tcase) : bool :=
  match replay (case_cfg t) (case_init t) (c_events t) 0 with
  | VOk s => final_ok (case_cfg t) s (c_result t)
  | VBad _ _ => false
  end.

(* diagnostics for --replay: (index of the first bad event, reason), or (length, 0/9) *)
Definition diagnose (t : tcase) : nat * nat :=
  match replay (case_cfg t) (case_init t) (c_events t) 0 with
  | VOk s => (length (c_events t), if final_ok (case_cfg t) s (c_result t) then 0 else 9)
  | VBad i w => (i, w)
  end.

(* C01: when a worker starts do() of a task, every dependency is final, and a
   DONE dependency is either untouched from an earlier run or completely
   published (status, clocks and payload written by one atomic publication). *)
From Coq Require Import List Bool Arith Lia.
From VV Require Import Sched.Model Sched.Defs Sched.Inv.
Import ListNotations.

Lemma stat_done_est e d : stat e d = DONE -> est (e d) = Some DONE.
Proof. unfold stat. destruct (est (e d)) as [st|]; [now intros -> | discriminate]. Qed.

Lemma start_after_deps :
  forall c e0 st0 clk s w t t0,
  wf_cfg c -> junk_free e0 -> reachable c e0 st0 clk s ->
  w < nworkers c -> wp s w = WStart t t0 ->
  forall d, In d (deps c t) ->
    final_at (env s) d = true
    /\ (stat (env s) d = DONE ->
          (started s d = st0 d /\ env s d = e0 d)
          \/ (started s d = S (st0 d)
              /\ (exists a b, esc (env s d) = Some a /\ eec (env s d) = Some b)
              /\ (has_upd (oc c d) = true -> ever (env s d) = Some (started s d)))).
Proof.
  intros c e0 st0 clk s w t t0 Hwf J R Hw Wp d Hd.
  pose proof (inv_reachable c e0 st0 clk s Hwf J R) as I.
  assert (tF : In t (F c s)).
  { apply In_F. right; right. exists w. split; auto. rewrite Wp; simpl; auto. }
  destruct (inv_flight _ _ _ _ _ (inv_c _ _ _ _ _ I) t tF) as [_ Hdeps].
  destruct (Hdeps d Hd) as [Sd Fd]. split; auto.
  intros Hdone. apply stat_done_est in Hdone.
  destruct (settled_entry c e0 st0 clk s d I Sd) as [(St & Pay & [E|E])|Ex].
  - left. split; auto. apply entry_eq; auto.
  - rewrite E in Hdone. discriminate.
  - right. destruct Ex as (St & a & b & _ & _ & E). split; auto. rewrite E. simpl. split.
    + eauto.
    + intros ->. now rewrite St.
Qed.

(* Structural model of valjean.cosette.env.Env.apply (_apply_worker): the merge
   of a nested update dictionary into the environment dictionary, as
   WorkerThread.publish does it.

     def _apply_worker(update, old):
         for key, val in update.items():
             if isinstance(val, MutableMapping):
                 if key in old:  _apply_worker(val, old[key])
                 else:           old[key] = val
             else:               old[key] = val

   Values are leaves (anything that is not a mapping; small integers in the
   correspondence check) or dictionaries = association lists in insertion
   order (Python dicts keep it).  Keys are natural-number codes.  [None] =
   the call raises (TypeError: a non-empty sub-dictionary of the update meets
   a leaf of the environment; an EMPTY sub-dictionary meeting a leaf is a
   no-op in the code — the loop body never runs — and so it is here).
   Not modelled: the partially updated environment left behind by a call that
   raises, aliasing (sub-dictionaries of the update are stored by reference),
   update values that are read-only Mappings. *)
From Coq Require Import List Bool Arith.
Import ListNotations.

Inductive val := Leaf (n : nat) | Dict (kvs : list (nat * val)).

Fixpoint lookup (k : nat) (l : list (nat * val)) : option val :=
  match l with
  | [] => None
  | (k', v) :: r => if Nat.eqb k' k then Some v else lookup k r
  end.

(* d[k] = v : in place if the key exists, else appended *)
Fixpoint set (k : nat) (v : val) (l : list (nat * val)) : list (nat * val) :=
  match l with
  | [] => [(k, v)]
  | (k', v') :: r => if Nat.eqb k' k then (k', v) :: r else (k', v') :: set k v r
  end.

(* the loop over update.items(), threading the dictionary being updated;
   [mg] is the recursive call *)
Definition merge_items (mg : val -> val -> option val) :=
  fix go (l acc : list (nat * val)) {struct l} : option (list (nat * val)) :=
    match l with
    | [] => Some acc
    | (k, v) :: r =>
        match v with
        | Leaf _ => go r (set k v acc)
        | Dict _ =>
            match lookup k acc with
            | Some o => match mg v o with
                        | Some m => go r (set k m acc)
                        | None => None
                        end
            | None => go r (set k v acc)
            end
        end
    end.

(* _apply_worker(u, old) for a dictionary u; (a leaf "update" just replaces:
   that is what the caller does with it, old[key] = val) *)
Fixpoint merge (u old : val) {struct u} : option val :=
  match u with
  | Leaf n => Some (Leaf n)
  | Dict ukvs =>
      match old with
      | Leaf m => match ukvs with [] => Some (Leaf m) | _ :: _ => None end
      | Dict okvs =>
          match merge_items merge ukvs okvs with
          | Some res => Some (Dict res)
          | None => None
          end
      end
  end.

Fixpoint get_path (v : val) (p : list nat) : option val :=
  match p with
  | [] => Some v
  | k :: rest =>
      match v with
      | Leaf _ => None
      | Dict l => match lookup k l with Some x => get_path x rest | None => None end
      end
  end.

Definition lookup_val (k : nat) (v : val) : option val :=
  match v with Dict l => lookup k l | Leaf _ => None end.

(* no duplicate key at any level: what a Python dict guarantees *)
Fixpoint nodupb (l : list nat) : bool :=
  match l with
  | [] => true
  | x :: r => negb (existsb (Nat.eqb x) r) && nodupb r
  end.

Fixpoint wf (v : val) : bool :=
  match v with
  | Leaf _ => true
  | Dict kvs => nodupb (map fst kvs) && forallb (fun kv => wf (snd kv)) kvs
  end.

(* what is read at path p after merging u into old (when the merge succeeds) *)
Fixpoint spec (u old : val) (p : list nat) {struct p} : option val :=
  match p with
  | [] => merge u old
  | k :: rest =>
      match u with
      | Leaf _ => None
      | Dict l =>
          match lookup k l with
          | None => get_path old (k :: rest)               (* not mentioned by the update: unchanged *)
          | Some (Leaf n) => get_path (Leaf n) rest         (* replaced by the leaf *)
          | Some (Dict u') =>
              match lookup_val k old with
              | Some o => spec (Dict u') o rest             (* merged recursively *)
              | None => get_path (Dict u') rest             (* stored as is *)
              end
          end
      end
  end.

(* the path p leaves the update: it follows dictionaries of u and then takes a
   key that u does not have *)
Fixpoint untouched (u : val) (p : list nat) : bool :=
  match p with
  | [] => false
  | k :: rest =>
      match u with
      | Leaf _ => false
      | Dict l => match lookup k l with
                  | None => true
                  | Some (Dict u') => untouched (Dict u') rest
                  | Some (Leaf _) => false
                  end
      end
  end.

(* for the correspondence check *)
Fixpoint val_eqb (a b : val) {struct a} : bool :=
  match a, b with
  | Leaf n, Leaf m => Nat.eqb n m
  | Dict la, Dict lb =>
      (fix go (la lb : list (nat * val)) {struct la} : bool :=
         match la, lb with
         | [], [] => true
         | (k, x) :: ra, (k', y) :: rb => Nat.eqb k k' && val_eqb x y && go ra rb
         | _, _ => false
         end) la lb
  | _, _ => false
  end.

Definition oval_eqb (a b : option val) : bool :=
  match a, b with
  | Some x, Some y => val_eqb x y
  | None, None => true
  | _, _ => false
  end.

(* canonical form for the correspondence check: every dictionary sorted by key
   (insertion sort).  The order of the keys inside a dictionary is not part of
   C01; the content is (EnvApplyProofs.norm_get_path). *)
Fixpoint insert_kv (k : nat) (v : val) (l : list (nat * val)) : list (nat * val) :=
  match l with
  | [] => [(k, v)]
  | (k', v') :: r => if Nat.leb k k' then (k, v) :: l else (k', v') :: insert_kv k v r
  end.
Definition sort_kvs (l : list (nat * val)) : list (nat * val) :=
  fold_right (fun kv acc => insert_kv (fst kv) (snd kv) acc) [] l.
Fixpoint norm (v : val) : val :=
  match v with
  | Leaf n => Leaf n
  | Dict l => Dict (sort_kvs (map (fun kv => (fst kv, norm (snd kv))) l))
  end.

(* a history of updates applied one after the other; None as soon as one raises *)
Fixpoint apply_all (us : list val) (e : val) : option val :=
  match us with
  | [] => Some e
  | u :: r => match merge u e with Some e' => apply_all r e' | None => None end
  end.

(* C10: (score, sigma%) -> (value, error) on binary64 (data_convertor.py:
   Dataset(score, sigma * score * 0.01)), and numpy's ">" on binary64 as the
   order test of model B. *)
From Coq Require Import ZArith Reals Bool List.
From Flocq Require Import Core.Core IEEE754.BinarySingleNaN.
From VV Require Import Lib.B64.
Import ListNotations.

Definition c001 : b64 := of_bits 4576918229304087675.       (* 0.01 = 0x3F847AE147AE147B *)

Definition convert (cell : b64 * b64) : b64 * b64 :=
  let '(score, sigma) := cell in (score, fmul (fmul sigma score) c001).

(* bit-level statement: the error is the correctly rounded product
   (sigma * score) * 0.01, in that order *)
Lemma convert_error_expr score sigma :
  snd (convert (score, sigma)) = fmul (fmul sigma score) c001 /\ fst (convert (score, sigma)) = score.
Proof. split; reflexivity. Qed.

(* its reading over the reals, when nothing overflows *)
Local Open Scope R_scope.
Lemma convert_error_real (score sigma : b64) :
  let rnd := round radix2 (SpecFloat.fexp 53 1024) (round_mode mode_NE) in
  Rlt_bool (Rabs (rnd (B2R sigma * B2R score))) (bpow radix2 1024) = true ->
  Rlt_bool (Rabs (rnd (rnd (B2R sigma * B2R score) * B2R c001))) (bpow radix2 1024) = true ->
  B2R (snd (convert (score, sigma))) = rnd (rnd (B2R sigma * B2R score) * B2R c001)
  /\ is_finite (snd (convert (score, sigma))) = is_finite sigma && is_finite score.
Proof.
  intros rnd H1 H2. cbn [convert snd]. unfold fmul.
  pose proof (@Bmult_correct 53 1024 P53 P1024 mode_NE sigma score) as M1.
  fold rnd in M1. rewrite H1 in M1. destruct M1 as (R1 & F1 & _).
  pose proof (@Bmult_correct 53 1024 P53 P1024 mode_NE
                (@Bmult 53 1024 P53 P1024 mode_NE sigma score) c001) as M2.
  rewrite R1 in M2. fold rnd in M2. rewrite H2 in M2. destruct M2 as (R2 & F2 & _).
  split; [exact R2|]. rewrite F2, F1. cbn. rewrite andb_true_r. reflexivity.
Qed.

Lemma convert_error_full (score sigma : b64) :
  (snd (convert (score, sigma)) = fmul (fmul sigma score) c001 /\ fst (convert (score, sigma)) = score) /\
  (let rnd := round radix2 (SpecFloat.fexp 53 1024) (round_mode mode_NE) in
   Rlt_bool (Rabs (rnd (B2R sigma * B2R score))) (bpow radix2 1024) = true ->
   Rlt_bool (Rabs (rnd (rnd (B2R sigma * B2R score) * B2R c001))) (bpow radix2 1024) = true ->
   B2R (snd (convert (score, sigma))) = rnd (rnd (B2R sigma * B2R score) * B2R c001)
   /\ is_finite (snd (convert (score, sigma))) = is_finite sigma && is_finite score).
Proof. split; [apply convert_error_expr | apply convert_error_real]. Qed.

Local Close Scope R_scope.

(* special values: not-a-number in, not-a-number out; a zero score with a
   finite sigma has a zero error *)
Lemma convert_nan (score sigma : b64) :
  is_nan score = true \/ is_nan sigma = true -> is_nan (snd (convert (score, sigma))) = true.
Proof.
  cbn [convert snd]. unfold fmul.
  intros [H|H]; destruct score, sigma; try discriminate; reflexivity.
Qed.

Lemma convert_zero_score s (sigma : b64) :
  is_finite sigma = true -> is_zero (snd (convert (B754_zero s, sigma))) = true.
Proof.
  cbn [convert snd]. unfold fmul. intros H.
  destruct sigma as [s'| | |s' m e He]; try discriminate; reflexivity.
Qed.

(* numpy's x < y on binary64 is asymmetric *)
Lemma flt_asym (x y : b64) : flt x y = true -> flt y x = false.
Proof.
  unfold flt, fcmp. rewrite (Bcompare_swap _ _ x y).
  destruct (Bcompare x y) as [[| |]|]; try discriminate. reflexivity.
Qed.

(* ---- what a generated cases file evaluates (Tripoli-4 part) ---- *)
From VV Require Import C10.Model.

(* printed numbers as binary64 bit patterns (float() of the numeral) *)
Definition zrow := (Z * Z * Z * Z)%type.                      (* a, b, score, sigma% *)
Definition zstep := (Z * Z * list zrow * option (Z * Z))%type. (* time min, max, rows, integrated *)

Definition mk_cell (p : Z * Z) : b64 * b64 := (of_bits (fst p), of_bits (snd p)).
Definition mk_zstep (z : zstep) : step b64 (b64 * b64) :=
  let '(tmin, tmax, rws, int) := z in
  mk_step (of_bits tmin) (of_bits tmax)
          (map (fun r : zrow => let '(a, b, sc, sg) := r in (of_bits a, of_bits b, mk_cell (sc, sg))) rws)
          (option_map mk_cell int).

(* observation: bins e, bins t, values and errors of 'score' in C order
   [e][t]; values, errors and energy bins of the energy-integrated dataset *)
Definition t4obs := (list Z * list Z * list Z * list Z * (list Z * list Z * list Z))%type.
Definition t4case := (bool * list zstep * t4obs)%type.

Definition zlist_eqb (a b : list Z) : bool :=
  Nat.eqb (length a) (length b) && forallb (fun p => Z.eqb (fst p) (snd p)) (combine a b).

(* [t][e] -> C order of [e][t] *)
Definition column {A} (d : A) (m : list (list A)) (i : nat) : list A := map (fun r => nth i r d) m.
Definition et_order {A} (d : A) (ne : nat) (m : list (list A)) : list A :=
  flat_map (column d m) (seq 0 ne).

Definition check_t4 (c : t4case) : bool :=
  let '(with_time, zs, (oe, ot, ov, oerr, (oiv, oie, oib))) := c in
  let p := build_plane flt with_time (map mk_zstep zs) in
  let conv := map (map convert) (p_vals p) in
  let ne := length (p_ebins p) - 1 in
  let flat := et_order (fzero, fzero) ne conv in
  zlist_eqb (map to_bits (p_ebins p)) oe
  && zlist_eqb (map to_bits (p_tbins p)) ot
  && zlist_eqb (map (fun c => to_bits (fst c)) flat) ov
  && zlist_eqb (map (fun c => to_bits (snd c)) flat) oerr
  && match oiv with
     | [] => true            (* no energy-integrated array in this response *)
     | _ =>
         let ints := map (fun o => match o with Some c => convert c | None => (fnan, fnan) end)
                         (p_integ p) in
         zlist_eqb (map (fun c => to_bits (fst c)) ints) oiv
         && zlist_eqb (map (fun c => to_bits (snd c)) ints) oie
         && zlist_eqb (map to_bits (p_ebins_integ p)) oib
     end.

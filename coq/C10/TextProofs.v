(* C10, text level: the parser of C10/Text.v reads back what the printer
   printed, for every well-formed document ([parse_print]); composed with the
   post-grammar theorems of C10/Proofs.v this gives the path from the printed
   TEXT to the datasets ([text_to_dataset]). *)
From Coq Require Import List Bool Arith Lia Ascii String NArith.
From VV Require Import C11.Pystr C10.Model C10.Proofs C10.Text.
Import ListNotations.
Local Open Scope string_scope.
Local Open Scope list_scope.

(* ------------------------------------------------------------------ *)
(* lines *)

Definition has_nl (l : str) : bool := existsb is_nl l.

Lemma has_nl_app a b : has_nl (a ++ b) = has_nl a || has_nl b.
Proof. apply existsb_app. Qed.

Lemma lines_aux_line acc l r :
  has_nl l = false -> lines_aux acc (l ++ nl :: r) = (rev acc ++ l) :: lines_aux [] r.
Proof.
  revert acc; induction l as [|c l IH]; intros acc H.
  - cbn. rewrite app_nil_r. reflexivity.
  - cbn in H. apply orb_false_iff in H. destruct H as [Hc Hl].
    cbn [app lines_aux]. rewrite Hc. rewrite IH by exact Hl. cbn [rev]. rewrite <- app_assoc. reflexivity.
Qed.

Lemma lines_unlines ls :
  forallb (fun l => negb (has_nl l)) ls = true -> lines_of (unlines ls) = ls.
Proof.
  induction ls as [|l r IH]; intros H; [reflexivity|].
  cbn in H. apply andb_true_iff in H. destruct H as [Hl Hr].
  unfold lines_of, unlines. cbn [flat_map]. rewrite <- app_assoc. cbn [app].
  rewrite lines_aux_line by (apply negb_true_iff; exact Hl). cbn [rev app]. f_equal. apply IH, Hr.
Qed.

(* ------------------------------------------------------------------ *)
(* tokens *)

Fixpoint ends_ws (p : str) : bool :=
  match p with [] => false | [c] => is_ws c | _ :: r => ends_ws r end.

Definition starts_ws (x : str) : bool := match x with [] => true | c :: _ => is_ws c end.

Lemma split_aux_pre p x acc :
  ends_ws p = true -> split_ws_aux acc (p ++ x) = split_ws_aux acc p ++ split_ws_aux [] x.
Proof.
  revert acc; induction p as [|c p IH]; intros acc H; [discriminate|].
  destruct p as [|c' p'].
  - cbn in H. cbn [app split_ws_aux]. rewrite H. destruct acc; reflexivity.
  - change (ends_ws (c :: c' :: p')) with (ends_ws (c' :: p')) in H.
    change ((c :: c' :: p') ++ x) with (c :: (c' :: p') ++ x).
    cbn [split_ws_aux]. destruct (is_ws c).
    + destruct acc; rewrite IH by exact H; reflexivity.
    + apply IH, H.
Qed.

Lemma split_pre p x : ends_ws p = true -> split_ws (p ++ x) = split_ws p ++ split_ws x.
Proof. apply split_aux_pre. Qed.

Lemma split_aux_tok t x acc :
  forallb (fun c => negb (is_ws c)) t = true -> split_ws_aux acc (t ++ x) = split_ws_aux (rev t ++ acc) x.
Proof.
  revert acc; induction t as [|c t IH]; intros acc H; [reflexivity|].
  cbn in H. apply andb_true_iff in H. destruct H as [Hc Ht]. apply negb_true_iff in Hc.
  cbn [app split_ws_aux]. rewrite Hc. rewrite IH by exact Ht. cbn [rev]. rewrite <- app_assoc. reflexivity.
Qed.

Lemma tok_okb_spec t : tok_okb t = true -> t <> [] /\ forallb (fun c => negb (is_ws c)) t = true.
Proof. destruct t; [discriminate|]. intros H. split; [discriminate | exact H]. Qed.

Lemma split_tok t x : tok_okb t = true -> starts_ws x = true -> split_ws (t ++ x) = t :: split_ws x.
Proof.
  intros Ht Hx. apply tok_okb_spec in Ht. destruct Ht as [Hne Ht].
  unfold split_ws. rewrite split_aux_tok by exact Ht. rewrite app_nil_r.
  assert (Hr : rev t <> []).
  { intros E. apply (f_equal (@rev _)) in E. rewrite rev_involutive in E. contradiction. }
  destruct x as [|c x]; cbn [split_ws_aux].
  - destruct (rev t) eqn:E; [contradiction|]. rewrite <- E, rev_involutive. reflexivity.
  - cbn in Hx. rewrite Hx. destruct (rev t) eqn:E; [contradiction|]. rewrite <- E, rev_involutive. reflexivity.
Qed.

Lemma split_tok_last t : tok_okb t = true -> split_ws t = [t].
Proof. intros H. rewrite <- (app_nil_r t) at 1. rewrite split_tok by auto. reflexivity. Qed.

Lemma num_char_not_ws c : num_char c = true -> negb (is_ws c) = true.
Proof. destruct c as [[] [] [] [] [] [] [] []]; intros H; try reflexivity; discriminate. Qed.

Lemma is_num_tok t : is_num t = true -> tok_okb t = true.
Proof.
  unfold is_num. intros H. apply andb_true_iff in H. destruct H as [Ha He].
  destruct t as [|c t]; [discriminate|]. unfold tok_okb.
  apply forallb_forall. intros x Hx. apply num_char_not_ws.
  rewrite forallb_forall in Ha. apply Ha, Hx.
Qed.

Lemma not_ws_not_nl c : negb (is_ws c) = true -> is_nl c = false.
Proof. destruct c as [[] [] [] [] [] [] [] []]; intros H; try reflexivity; discriminate. Qed.

Lemma tok_no_nl t : tok_okb t = true -> has_nl t = false.
Proof.
  intros H. apply tok_okb_spec in H. destruct H as [_ H]. unfold has_nl.
  induction t as [|c t IH]; [reflexivity|]. cbn in *. apply andb_true_iff in H. destruct H as [Hc Ht].
  rewrite (not_ws_not_nl c Hc), IH by exact Ht. reflexivity.
Qed.

Lemma num_no_nl t : is_num t = true -> has_nl t = false.
Proof. intros H. apply tok_no_nl, is_num_tok, H. Qed.

Lemma split_join ws x :
  forallb tok_okb ws = true -> starts_ws x = true -> split_ws (join_sp ws ++ x) = ws ++ split_ws x.
Proof.
  induction ws as [|w r IH]; intros H Hx; [reflexivity|].
  cbn in H. apply andb_true_iff in H. destruct H as [Hw Hr].
  destruct r as [|w' r'].
  - cbn [join_sp app]. apply split_tok; assumption.
  - change (join_sp (w :: w' :: r')) with (w ++ lit " " ++ join_sp (w' :: r')).
    rewrite <- !app_assoc. rewrite split_tok by (auto; reflexivity).
    change ((w :: w' :: r') ++ split_ws x) with (w :: ((w' :: r') ++ split_ws x)).
    rewrite <- (IH Hr Hx). reflexivity.
Qed.

Lemma split_join_last ws : forallb tok_okb ws = true -> split_ws (join_sp ws) = ws.
Proof.
  intros H. rewrite <- (app_nil_r (join_sp ws)). rewrite split_join by auto. cbn. apply app_nil_r.
Qed.

Lemma join_no_nl ws : forallb tok_okb ws = true -> has_nl (join_sp ws) = false.
Proof.
  induction ws as [|w r IH]; intros H; [reflexivity|].
  cbn in H. apply andb_true_iff in H. destruct H as [Hw Hr].
  destruct r as [|w' r']; [apply tok_no_nl, Hw|].
  change (join_sp (w :: w' :: r')) with (w ++ lit " " ++ join_sp (w' :: r')).
  rewrite !has_nl_app, (tok_no_nl w Hw), (IH Hr). reflexivity.
Qed.

(* ------------------------------------------------------------------ *)
(* one line: no newline inside, and its kind *)

Definition line_ok (l : str) (k : lk) : Prop := has_nl l = false /\ kind_of_line l = k.

Ltac nl_tac :=
  repeat rewrite has_nl_app;
  repeat match goal with
         | H : tok_okb ?t = true |- context [has_nl ?t] => rewrite (tok_no_nl t H)
         | H : is_num ?t = true |- context [has_nl ?t] => rewrite (num_no_nl t H)
         | H : forallb tok_okb ?t = true |- context [has_nl (join_sp ?t)] => rewrite (join_no_nl t H)
         end;
  reflexivity.

Ltac tok_side := first [assumption | apply is_num_tok; assumption | reflexivity].

Ltac tok_tac :=
  repeat first
    [ match goal with
      | H : is_num ?t = true |- context [split_ws (?t ++ ?x)] =>
          rewrite (split_tok t x (is_num_tok t H)) by reflexivity
      | H : tok_okb ?t = true |- context [split_ws (?t ++ ?x)] => rewrite (split_tok t x H) by reflexivity
      | H : is_num ?t = true |- context [split_ws ?t] => rewrite (split_tok_last t (is_num_tok t H))
      | H : tok_okb ?t = true |- context [split_ws ?t] => rewrite (split_tok_last t H)
      end
    | rewrite split_join_last by assumption
    | match goal with
      | |- context [split_ws (lit ?k ++ ?x)] => rewrite (split_tok (lit k) x) by reflexivity
      end
    | match goal with
      | |- context [split_ws (?p ++ ?x)] => rewrite (split_pre p x) by reflexivity
      end ].

Ltac line_tac := split; [nl_tac | unfold kind_of_line; tok_tac; reflexivity].

Lemma line_blank : line_ok [] LNoise. Proof. split; reflexivity. Qed.
Lemma line_stars78 : line_ok stars78 LNoise. Proof. split; reflexivity. Qed.
Lemma line_stars57 : line_ok stars57 LNoise. Proof. split; reflexivity. Qed.

Lemma line_edition n : is_num n = true ->
  line_ok (lit " Edition after batch number : " ++ n) (LEdition n).
Proof. intros. line_tac. Qed.

Lemma line_simtime n : is_num n = true ->
  line_ok (lit " simulation time (s) : " ++ n) (LSimTime n).
Proof. intros. line_tac. Qed.

Lemma line_function ws : forallb tok_okb ws = true -> line_ok (function_line ws) (LRespFunction ws).
Proof. intros. unfold function_line. line_tac. Qed.

Lemma line_attr a : wf_attrb a = true -> line_ok (attr_line a) (LAttr a).
Proof. destruct a; cbn [wf_attrb attr_line]; intros; line_tac. Qed.

Lemma line_mode m : tok_okb m = true -> line_ok (tb ++ lit " scoring mode : " ++ m) (LScoringMode m).
Proof. intros. line_tac. Qed.

Lemma line_zone v : is_num v = true ->
  line_ok (tb ++ lit " scoring zone : " ++ tb ++ lit " Volume " ++ tb ++ lit " num of volume : " ++ v)
          (LScoringZone v).
Proof. intros. line_tac. Qed.

Lemma line_timestep k : is_num k = true -> line_ok (tb ++ lit " TIME STEP NUMBER : " ++ k) (LTimeStep k).
Proof. intros. line_tac. Qed.

Lemma line_timemin a : is_num a = true -> line_ok (tb ++ tb ++ lit " time min. = " ++ a) (LTimeMin a).
Proof. intros. line_tac. Qed.

Lemma line_timemax a : is_num a = true -> line_ok (tb ++ tb ++ lit " time max. = " ++ a) (LTimeMax a).
Proof. intros. line_tac. Qed.

Lemma line_discarded d : is_num d = true -> line_ok (discarded_line d) (LDiscarded d).
Proof. intros. unfold discarded_line. line_tac. Qed.

Lemma line_row r : wf_rowb r = true -> line_ok (row_line r) (LRow r).
Proof.
  destruct r as [a b s g l]. unfold wf_rowb, row_line. cbn [r_a r_b r_score r_sigma r_leth].
  intros H. do 4 (apply andb_true_iff in H; destruct H as [H ?]).
  split; [nl_tac|]. unfold kind_of_line. tok_tac.
  assert (E : a :: split_ws (lit " - ") ++ b :: split_ws tb ++ s :: split_ws tb ++ g :: split_ws tb ++ [l]
              = [a; lit "-"; b; s; g; l]) by reflexivity.
  rewrite E. unfold classify. rewrite H.
  replace (is_dash (lit "-")) with true by reflexivity.
  repeat match goal with Hn : is_num ?t = true |- _ => rewrite Hn; clear Hn end.
  reflexivity.
Qed.

Lemma line_used3 u s g : is_num u = true -> is_num s = true -> is_num g = true ->
  line_ok (lit "number of batches used: " ++ u ++ tb ++ s ++ tb ++ g) (LUsed [u; s; g]).
Proof. intros. line_tac. Qed.

Lemma line_used3t u s g : is_num u = true -> is_num s = true -> is_num g = true ->
  line_ok (lit "number of batches used:" ++ tb ++ u ++ tb ++ s ++ tb ++ g) (LUsed [u; s; g]).
Proof. intros. rewrite (app_assoc (lit "number of batches used:") tb). line_tac. Qed.

Lemma line_used1 u : is_num u = true -> line_ok (lit "number of batches used:" ++ tb ++ u) (LUsed [u]).
Proof. intros. rewrite (app_assoc (lit "number of batches used:") tb). line_tac. Qed.

Lemma line_kstep v s : is_num v = true -> is_num s = true ->
  line_ok (lit " KSTEP  " ++ v ++ tb ++ s) (LKeffEst 0 v s).
Proof. intros. line_tac. Qed.
Lemma line_kcoll v s : is_num v = true -> is_num s = true ->
  line_ok (lit " KCOLL  " ++ v ++ tb ++ s) (LKeffEst 1 v s).
Proof. intros. line_tac. Qed.
Lemma line_ktrack v s : is_num v = true -> is_num s = true ->
  line_ok (lit " KTRACK " ++ v ++ tb ++ s) (LKeffEst 2 v s).
Proof. intros. line_tac. Qed.

Lemma line_full v s : is_num v = true -> is_num s = true ->
  line_ok (lit "  " ++ tb ++ lit "  full combined estimator  " ++ v ++ tb ++ s) (LFull v s).
Proof. intros. line_tac. Qed.

Lemma line_corr0 x v s : is_num x = true -> is_num v = true -> is_num s = true ->
  line_ok (corr_line "KSTEP" "KCOLL" (x, v, s)) (LCorr 0 x v s).
Proof. intros. unfold corr_line. line_tac. Qed.
Lemma line_corr1 x v s : is_num x = true -> is_num v = true -> is_num s = true ->
  line_ok (corr_line "KSTEP" "KTRACK" (x, v, s)) (LCorr 1 x v s).
Proof. intros. unfold corr_line. line_tac. Qed.
Lemma line_corr2 x v s : is_num x = true -> is_num v = true -> is_num s = true ->
  line_ok (corr_line "KCOLL" "KTRACK" (x, v, s)) (LCorr 2 x v s).
Proof. intros. unfold corr_line. line_tac. Qed.

Lemma line_source : line_ok source_line LNoise. Proof. split; reflexivity. Qed.
Lemma line_leakage : line_ok leakage_line LNoise. Proof. split; reflexivity. Qed.
Lemma line_particule : line_ok particule_line LNoise. Proof. split; reflexivity. Qed.
Lemma line_volume : line_ok volume_line LNoise. Proof. split; reflexivity. Qed.
Lemma line_dashes : line_ok dashes_line LNoise. Proof. split; reflexivity. Qed.
Lemma line_group_header : line_ok group_header LNoise. Proof. split; reflexivity. Qed.
Lemma line_estimators_header : line_ok estimators_header LNoise. Proof. split; reflexivity. Qed.
Lemma line_spectrum_head : line_ok spectrum_head LSpectrum. Proof. split; reflexivity. Qed.
Lemma line_integ_head : line_ok integ_head LIntegHead. Proof. split; reflexivity. Qed.
Lemma line_integ_head2 : line_ok integ_head2 LIntegHead. Proof. split; reflexivity. Qed.
Lemma line_notconv : line_ok notconv_line LNotConv. Proof. split; reflexivity. Qed.

(* ------------------------------------------------------------------ *)
(* lists of lines: no newline inside a line, and their significant kinds *)

Definition good (ls : list str) (ks : list lk) : Prop :=
  forallb (fun l => negb (has_nl l)) ls = true /\ sigk ls = ks.

Lemma sigk_app a b : sigk (a ++ b) = sigk a ++ sigk b.
Proof. unfold sigk. rewrite map_app, filter_app. reflexivity. Qed.

Lemma good_nil : good [] [].
Proof. split; reflexivity. Qed.

Lemma good_app a b ka kb : good a ka -> good b kb -> good (a ++ b) (ka ++ kb).
Proof.
  intros [Na Ka] [Nb Kb]. split.
  - rewrite forallb_app, Na, Nb. reflexivity.
  - rewrite sigk_app, Ka, Kb. reflexivity.
Qed.

Lemma good_noise l r ks : line_ok l LNoise -> good r ks -> good (l :: r) ks.
Proof.
  intros [Nl Kl] [Nr Kr]. split.
  - cbn. rewrite Nl, Nr. reflexivity.
  - unfold sigk in *. cbn [map filter]. rewrite Kl. cbn. exact Kr.
Qed.

Lemma good_sig l k r ks : line_ok l k -> is_noise k = false -> good r ks -> good (l :: r) (k :: ks).
Proof.
  intros [Nl Kl] Hk [Nr Kr]. split.
  - cbn. rewrite Nl, Nr. reflexivity.
  - unfold sigk in *. cbn [map filter]. rewrite Kl, Hk. cbn. rewrite Kr. reflexivity.
Qed.

Lemma good_flat_map {A} (f : A -> list str) (g : A -> list lk) xs :
  (forall x, In x xs -> good (f x) (g x)) -> good (flat_map f xs) (flat_map g xs).
Proof.
  induction xs as [|x r IH]; intros H; [apply good_nil|].
  cbn [flat_map]. apply good_app; [apply H; left; reflexivity | apply IH; intros y Hy; apply H; right; exact Hy].
Qed.

Lemma good_map {A} (f : A -> str) (g : A -> lk) xs :
  (forall x, In x xs -> line_ok (f x) (g x) /\ is_noise (g x) = false) -> good (map f xs) (map g xs).
Proof.
  induction xs as [|x r IH]; intros H; [apply good_nil|].
  cbn [map]. destruct (H x (or_introl eq_refl)) as [Hl Hn].
  apply good_sig; [exact Hl | exact Hn | apply IH; intros y Hy; apply H; right; exact Hy].
Qed.

(* ------------------------------------------------------------------ *)
(* the printed document as line kinds *)

Definition integ_kinds (i : dinteg) : list lk :=
  [LIntegHead; LDiscarded (i_disc i);
   match i_res i with Some (u, s, g) => LUsed [u; s; g] | None => LNotConv end].

Definition time_kinds (t : option (str * str * str)) : list lk :=
  match t with Some (k, a, b) => [LTimeStep k; LTimeMin a; LTimeMax b] | None => [] end.

Definition step_kinds (s : dstep) : list lk :=
  time_kinds (s_time s) ++ [LSpectrum; LDiscarded (s_disc s)] ++ map LRow (s_rows s)
  ++ match s_integ s with Some i => integ_kinds i | None => [] end.

Definition zone_kinds (z : dzone) : list lk :=
  [LScoringMode (z_mode z); LScoringZone (z_vol z)] ++ flat_map step_kinds (z_steps z).

Definition keff_kinds (k : dkeff) : list lk :=
  let '(e0, e1, e2) := k_est k in
  let '(c0, c1, c2) := k_corr k in
  [LIntegHead; LUsed [k_used k];
   LKeffEst 0 (fst e0) (snd e0); LKeffEst 1 (fst e1) (snd e1); LKeffEst 2 (fst e2) (snd e2);
   (let '(x, v, s) := c0 in LCorr 0 x v s); (let '(x, v, s) := c1 in LCorr 1 x v s);
   (let '(x, v, s) := c2 in LCorr 2 x v s);
   LFull (fst (k_full k)) (snd (k_full k))].

Definition body_kinds (b : dbody) : list lk :=
  match b with
  | BZones zs => flat_map zone_kinds zs
  | BGeneric u s g => [LIntegHead; LUsed [u; s; g]]
  | BKeff k => keff_kinds k
  end.

Definition resp_kinds (r : dresp) : list lk :=
  LRespFunction (rs_function r) :: map LAttr (rs_attrs r) ++ body_kinds (rs_body r).

Definition block_kinds (d : doc_block) : list lk :=
  LEdition (d_batch d) :: flat_map resp_kinds (d_resps d) ++ [LSimTime (d_time d)].

Ltac noise_step :=
  first [ apply good_noise; [first [exact line_blank | exact line_stars78 | exact line_stars57 | exact line_source
                                   | exact line_leakage | exact line_particule | exact line_volume
                                   | exact line_dashes | exact line_group_header
                                   | exact line_estimators_header]|] ].

Ltac bools :=
  repeat match goal with
         | H : _ && _ = true |- _ => apply andb_true_iff in H; destruct H
         end.

Lemma good_integ i : wf_integb i = true -> good (integ_lines i) (integ_kinds i).
Proof.
  destruct i as [d res]. unfold wf_integb, integ_lines, integ_kinds. cbn [i_disc i_res]. intros H.
  apply andb_true_iff in H. destruct H as [Hd Hr].
  change ([integ_head; []; discarded_line d; []]) with ([integ_head; []; discarded_line d] ++ [[]]).
  apply good_sig; [exact line_integ_head | reflexivity |]. noise_step.
  apply good_sig; [apply line_discarded, Hd | reflexivity |]. cbn [app]. noise_step.
  destruct res as [[[u s] g]|].
  - bools. cbn [app]. apply good_sig; [apply line_used3; assumption | reflexivity |].
    noise_step. noise_step. apply good_nil.
  - cbn [app]. apply good_sig; [exact line_notconv | reflexivity |]. noise_step. noise_step. apply good_nil.
Qed.

Lemma good_time t :
  match t with Some (k, a, b) => is_num k && is_num a && is_num b | None => true end = true ->
  good (match t with Some t => time_lines t | None => [] end) (time_kinds t).
Proof.
  destruct t as [[[k a] b]|]; intros H; [|apply good_nil]. bools. unfold time_lines, time_kinds.
  apply good_sig; [apply line_timestep; assumption | reflexivity |]. noise_step.
  apply good_sig; [apply line_timemin; assumption | reflexivity |].
  apply good_sig; [apply line_timemax; assumption | reflexivity |]. noise_step. apply good_nil.
Qed.

Lemma good_step s : wf_stepb s = true -> good (step_lines s) (step_kinds s).
Proof.
  destruct s as [tm d rs ig]. unfold wf_stepb, step_lines, step_kinds.
  cbn [s_time s_disc s_rows s_integ]. intros H. bools.
  apply good_app; [apply good_time; assumption|].
  unfold spectrum_lines. rewrite <- !app_assoc. cbn [app].
  apply good_sig; [exact line_spectrum_head | reflexivity |].
  apply good_sig; [apply line_discarded; assumption | reflexivity |].
  noise_step. noise_step. noise_step.
  apply good_app.
  - apply good_map. intros r Hr. split; [|reflexivity]. apply line_row.
    destruct rs; [discriminate|]. rewrite forallb_forall in H1. apply H1, Hr.
  - noise_step. destruct ig as [i|]; [apply good_integ; assumption | apply good_nil].
Qed.

Lemma good_zone z : wf_zoneb z = true -> good (zone_lines z) (zone_kinds z).
Proof.
  destruct z as [m v ss]. unfold wf_zoneb, zone_lines, zone_kinds. cbn [z_mode z_vol z_steps]. intros H. bools.
  cbn [app].
  apply good_sig; [apply line_mode; assumption | reflexivity |].
  apply good_sig; [apply line_zone; assumption | reflexivity |].
  noise_step. noise_step. noise_step.
  rewrite <- (app_nil_r (flat_map step_kinds ss)). apply good_app.
  - apply good_flat_map. intros s Hs. apply good_step.
    destruct ss; [discriminate|]. rewrite forallb_forall in H0. apply H0, Hs.
  - noise_step. apply good_nil.
Qed.

Lemma good_keff k : wf_keffb k = true -> good (keff_lines k) (keff_kinds k).
Proof.
  destruct k as [u [[e0 e1] e2] [[c0 c1] c2] f]. unfold wf_keffb, keff_lines, keff_kinds.
  cbn [k_used k_est k_corr k_full]. unfold wf_pairb, wf_tripleb.
  destruct c0 as [[x0 v0] s0], c1 as [[x1 v1] s1], c2 as [[x2 v2] s2]. intros H. bools.
  apply good_sig; [exact line_integ_head2 | reflexivity |]. noise_step.
  apply good_sig; [apply line_used1; assumption | reflexivity |]. noise_step.
  apply good_sig; [apply line_kstep; assumption | reflexivity |].
  apply good_sig; [apply line_kcoll; assumption | reflexivity |].
  apply good_sig; [apply line_ktrack; assumption | reflexivity |].
  noise_step. noise_step.
  apply good_sig; [apply line_corr0; assumption | reflexivity |].
  apply good_sig; [apply line_corr1; assumption | reflexivity |].
  apply good_sig; [apply line_corr2; assumption | reflexivity |].
  noise_step.
  apply good_sig; [apply line_full; assumption | reflexivity |].
  noise_step. noise_step. noise_step. apply good_nil.
Qed.

Lemma good_attrs ats : forallb wf_attrb ats = true -> good (map attr_line ats) (map LAttr ats).
Proof.
  intros H. apply good_map. intros a Ha. split; [|reflexivity].
  apply line_attr. rewrite forallb_forall in H. apply H, Ha.
Qed.

Lemma good_resp r : wf_respb r = true -> good (resp_lines r) (resp_kinds r).
Proof.
  destruct r as [f ats b]. unfold wf_respb, resp_lines, resp_kinds. cbn [rs_function rs_attrs rs_body].
  intros H. bools. destruct b as [zs|u s g|k]; cbn [wf_bodyb body_kinds] in *.
  - cbn [app]. noise_step. noise_step. noise_step.
    apply good_sig; [apply line_function; assumption | reflexivity |].
    apply good_app; [apply good_attrs; assumption|].
    cbn [app]. noise_step. noise_step. noise_step. noise_step. noise_step.
    apply good_flat_map. intros z Hz. apply good_zone.
    destruct zs; [discriminate|]. rewrite forallb_forall in H0. apply H0, Hz.
  - bools. cbn [app]. noise_step. noise_step.
    apply good_sig; [apply line_function; assumption | reflexivity |].
    apply good_app; [apply good_attrs; assumption|].
    noise_step. noise_step.
    apply good_sig; [exact line_integ_head2 | reflexivity |]. noise_step.
    apply good_sig; [apply line_used3t; assumption | reflexivity |]. noise_step. noise_step. apply good_nil.
  - cbn [app]. noise_step. noise_step.
    apply good_sig; [apply line_function; assumption | reflexivity |].
    apply good_app; [apply good_attrs; assumption|].
    cbn [app]. noise_step. noise_step. apply good_keff; assumption.
Qed.

Lemma good_block d : wf_doc d -> good (block_lines d) (block_kinds d).
Proof.
  destruct d as [n rs t]. unfold wf_doc, wf_docb, block_lines, block_kinds. cbn [d_batch d_resps d_time].
  intros H. bools. cbn [app].
  noise_step. noise_step. noise_step. noise_step. noise_step. noise_step. noise_step.
  apply good_sig; [apply line_edition; assumption | reflexivity |]. noise_step.
  apply good_app.
  - apply good_flat_map. intros r Hr. apply good_resp. rewrite forallb_forall in H0. apply H0, Hr.
  - noise_step. apply good_sig; [apply line_simtime; assumption | reflexivity | apply good_nil].
Qed.

(* the significant line kinds of the printed text *)
Theorem kinds_print d : wf_doc d -> kinds (print_block d) = block_kinds d.
Proof.
  intros H. destruct (good_block d H) as [Hn Hk].
  unfold kinds, print_block. rewrite lines_unlines by exact Hn. exact Hk.
Qed.

(* ------------------------------------------------------------------ *)
(* recursive descent: what follows a printed item *)

(* end of a response: the next response, the end of the block *)
Definition rb (l : list lk) : bool :=
  match l with [] => true | LRespFunction _ :: _ => true | LSimTime _ :: _ => true | _ => false end.
(* end of a scoring zone: also the next zone *)
Definition zb (l : list lk) : bool := match l with LScoringMode _ :: _ => true | _ => rb l end.
(* end of a step: also the next step *)
Definition sb (l : list lk) : bool :=
  match l with LTimeStep _ :: _ => true | LSpectrum :: _ => true | _ => zb l end.

Lemma rb_zb l : rb l = true -> zb l = true.
Proof. destruct l as [|[] ?]; intros; try discriminate; reflexivity. Qed.
Lemma zb_sb l : zb l = true -> sb l = true.
Proof. destruct l as [|[] ?]; intros; try discriminate; reflexivity. Qed.

Lemma many_f_print {A} (p : P A) (pr : A -> list lk) (nxt : list lk -> Prop) xs rest fuel :
  (forall a tail, In a xs -> nxt tail -> p (pr a ++ tail) = Some (a, tail)) ->
  (forall a tail, In a xs -> nxt (pr a ++ tail)) ->
  nxt rest -> p rest = None -> List.length xs <= fuel ->
  many_f p fuel (flat_map pr xs ++ rest) = (xs, rest).
Proof.
  revert fuel; induction xs as [|x r IH]; intros fuel Hp Hn Hr Hnone Hf.
  - cbn [flat_map app]. destruct fuel; [reflexivity|]. cbn [many_f]. rewrite Hnone. reflexivity.
  - destruct fuel as [|fuel]; [cbn in Hf; lia|]. cbn [flat_map]. rewrite <- app_assoc. cbn [many_f].
    assert (Ht : nxt (flat_map pr r ++ rest)).
    { destruct r as [|y r']; [exact Hr|]. cbn [flat_map]. rewrite <- app_assoc. apply Hn. right. left. reflexivity. }
    rewrite (Hp x _ (or_introl eq_refl) Ht).
    rewrite IH; [reflexivity | | | exact Hr | exact Hnone | cbn in Hf; lia].
    + intros a tail Ha. apply Hp. right. exact Ha.
    + intros a tail Ha. apply Hn. right. exact Ha.
Qed.

Lemma flat_map_length_ge {A B} (f : A -> list B) xs :
  (forall x, In x xs -> f x <> []) -> List.length xs <= List.length (flat_map f xs).
Proof.
  induction xs as [|x r IH]; intros H; [cbn; lia|].
  cbn [flat_map]. rewrite app_length. specialize (H x (or_introl eq_refl)) as Hx.
  destruct (f x); [contradiction|]. cbn. specialize (IH (fun y Hy => H y (or_intror Hy))). lia.
Qed.

Lemma many_print {A} (p : P A) (pr : A -> list lk) (nxt : list lk -> Prop) xs rest :
  (forall a tail, In a xs -> nxt tail -> p (pr a ++ tail) = Some (a, tail)) ->
  (forall a tail, In a xs -> nxt (pr a ++ tail)) ->
  (forall a, In a xs -> pr a <> []) ->
  nxt rest -> p rest = None ->
  many p (flat_map pr xs ++ rest) = (xs, rest).
Proof.
  intros Hp Hn Hne Hr Hnone. unfold many. apply (many_f_print p pr nxt); auto.
  rewrite app_length. pose proof (flat_map_length_ge pr xs Hne). lia.
Qed.

Lemma p_rows_print rs rest :
  match rest with LRow _ :: _ => False | _ => True end -> p_rows (map LRow rs ++ rest) = (rs, rest).
Proof.
  intros H. induction rs as [|r rs IH].
  - cbn [map app]. destruct rest as [|[] ?]; try reflexivity. contradiction.
  - cbn [map app p_rows]. rewrite IH. reflexivity.
Qed.

Lemma p_attrs_print ats rest :
  match rest with LAttr _ :: _ => False | _ => True end -> p_attrs (map LAttr ats ++ rest) = (ats, rest).
Proof.
  intros H. induction ats as [|a ats IH].
  - cbn [map app]. destruct rest as [|[] ?]; try reflexivity. contradiction.
  - cbn [map app p_attrs]. rewrite IH. reflexivity.
Qed.

Lemma p_integ_print i rest : p_integr (integ_kinds i ++ rest) = Some (Some i, rest).
Proof. destruct i as [d [[[u s] g]|]]; reflexivity. Qed.

Lemma p_integ_none rest : sb rest = true -> p_integr rest = Some (None, rest).
Proof. destruct rest as [|[] ?]; intros; try discriminate; reflexivity. Qed.

Lemma p_step_print s rest :
  wf_stepb s = true -> sb rest = true -> p_step (step_kinds s ++ rest) = Some (s, rest).
Proof.
  destruct s as [tm d rs ig]. unfold wf_stepb, step_kinds. cbn [s_time s_disc s_rows s_integ].
  intros H Hr. bools. destruct rs as [|r0 rs]; [discriminate|].
  assert (Hrows : forall tail, match tail with LRow _ :: _ => False | _ => True end ->
            p_step (time_kinds tm ++ [LSpectrum; LDiscarded d] ++ map LRow (r0 :: rs) ++ tail)
            = match p_integr tail with
              | Some (ig', t') => Some (mk_dstep tm d (r0 :: rs) ig', t')
              | None => None
              end).
  { intros tail Ht. unfold p_step.
    destruct tm as [[[k a] b]|]; cbn [time_kinds app p_time]; rewrite (p_rows_print (r0 :: rs) tail Ht);
      reflexivity. }
  rewrite <- !app_assoc. destruct ig as [i|].
  - rewrite Hrows; [rewrite p_integ_print; reflexivity|]. destruct i as [d' [[[u s'] g]|]]; exact I.
  - change ([] ++ rest) with rest. rewrite Hrows.
    + rewrite (p_integ_none rest Hr). reflexivity.
    + destruct rest as [|[] ?]; try exact I. discriminate.
Qed.

Lemma step_kinds_sb s tail : sb (step_kinds s ++ tail) = true.
Proof. destruct s as [[[[k a] b]|] d rs ig]; reflexivity. Qed.

Lemma step_kinds_ne s : step_kinds s <> [].
Proof. destruct s as [[[[k a] b]|] d rs ig]; discriminate. Qed.

Lemma p_step_none rest : zb rest = true -> p_step rest = None.
Proof. destruct rest as [|[] ?]; intros; try discriminate; reflexivity. Qed.

Lemma p_zone_print z rest :
  wf_zoneb z = true -> zb rest = true -> p_zone (zone_kinds z ++ rest) = Some (z, rest).
Proof.
  destruct z as [m v ss]. unfold wf_zoneb, zone_kinds. cbn [z_mode z_vol z_steps]. intros H Hr. bools.
  destruct ss as [|s0 ss]; [discriminate|]. rewrite <- app_assoc. cbn [app p_zone].
  rewrite (many_print p_step step_kinds (fun l => sb l = true)).
  - reflexivity.
  - intros a tail Ha Ht. apply p_step_print; [|exact Ht]. rewrite forallb_forall in H0. apply H0, Ha.
  - intros a tail _. apply step_kinds_sb.
  - intros a _. apply step_kinds_ne.
  - apply zb_sb, Hr.
  - apply p_step_none, Hr.
Qed.

Lemma zone_kinds_zb z tail : zb (zone_kinds z ++ tail) = true.
Proof. reflexivity. Qed.

Lemma p_zone_none rest : rb rest = true -> p_zone rest = None.
Proof. destruct rest as [|[] ?]; intros; try discriminate; reflexivity. Qed.

Lemma p_keff_print k rest : p_keff (keff_kinds k ++ rest) = Some (k, rest).
Proof.
  destruct k as [u [[[v0 s0] [v1 s1]] [v2 s2]] [[[[x0 w0] t0] [[x1 w1] t1]] [[x2 w2] t2]] [v s]]. reflexivity.
Qed.

Lemma p_body_print b rest :
  wf_bodyb b = true -> rb rest = true -> p_body (body_kinds b ++ rest) = Some (b, rest).
Proof.
  destruct b as [zs|u s g|k]; cbn [wf_bodyb body_kinds]; intros H Hr.
  - destruct zs as [|z0 zs]; [discriminate|].
    assert (E : many p_zone (flat_map zone_kinds (z0 :: zs) ++ rest) = (z0 :: zs, rest)).
    { apply (many_print p_zone zone_kinds (fun l => zb l = true)).
      - intros a tail Ha Ht. apply p_zone_print; [|exact Ht]. rewrite forallb_forall in H. apply H, Ha.
      - intros a tail _. apply zone_kinds_zb.
      - intros a _. discriminate.
      - apply rb_zb, Hr.
      - apply p_zone_none, Hr. }
    revert E. cbn [flat_map zone_kinds app]. unfold p_body. intros E. rewrite E. reflexivity.
  - reflexivity.
  - pose proof (p_keff_print k rest) as E. revert E.
    destruct k as [u [[[v0 s0] [v1 s1]] [v2 s2]] [[[[x0 w0] t0] [[x1 w1] t1]] [[x2 w2] t2]] [v s]].
    cbn [keff_kinds k_used k_est k_corr k_full fst snd app]. unfold p_body. intros E. rewrite E. reflexivity.
Qed.

Lemma body_kinds_not_attr b tail :
  wf_bodyb b = true -> match body_kinds b ++ tail with LAttr _ :: _ => False | _ => True end.
Proof.
  destruct b as [[|z zs]|u s g|k]; cbn [wf_bodyb]; intros H; try discriminate; try exact I.
  destruct k as [u [[e0 e1] e2] [[[[x0 w0] t0] [[x1 w1] t1]] [[x2 w2] t2]] f]. exact I.
Qed.

Lemma p_resp_print r rest :
  wf_respb r = true -> rb rest = true -> p_resp (resp_kinds r ++ rest) = Some (r, rest).
Proof.
  destruct r as [f ats b]. unfold wf_respb, resp_kinds. cbn [rs_function rs_attrs rs_body]. intros H Hr. bools.
  cbn [app p_resp]. rewrite <- app_assoc.
  rewrite p_attrs_print by (apply body_kinds_not_attr; assumption).
  rewrite p_body_print by assumption. reflexivity.
Qed.

Lemma p_resp_none rest : match rest with LRespFunction _ :: _ => False | _ => True end -> p_resp rest = None.
Proof. destruct rest as [|[] ?]; intros; try reflexivity. contradiction. Qed.

Lemma p_block_print d : wf_doc d -> p_block (block_kinds d) = Some d.
Proof.
  destruct d as [n rs t]. unfold wf_doc, wf_docb, block_kinds. cbn [d_batch d_resps d_time]. intros H. bools.
  cbn [p_block].
  rewrite (many_print p_resp resp_kinds (fun l => rb l = true)).
  - reflexivity.
  - intros a tail Ha Ht. apply p_resp_print; [|exact Ht]. rewrite forallb_forall in H0. apply H0, Ha.
  - intros a tail _. reflexivity.
  - intros a _. discriminate.
  - reflexivity.
  - reflexivity.
Qed.

(* ---- the round trip ---- *)
Theorem parse_print : forall d, wf_doc d -> parse_block (print_block d) = Some (rows_of d).
Proof. intros d H. unfold parse_block. rewrite (kinds_print d H). apply p_block_print, H. Qed.

(* ------------------------------------------------------------------ *)
(* from the text to the datasets: the rows read from the printed text go
   through the post-grammar model (C10/Model.v); every printed group is found
   in the cell its printed bounds delimit *)

Lemma cells_nth {B V} (bins : list B) (vals : list V) x y v :
  In (x, y, v) (cells bins vals) ->
  exists i, nth_error bins i = Some x /\ nth_error bins (S i) = Some y /\ nth_error vals i = Some v.
Proof.
  revert vals; induction bins as [|b0 r IH]; intros vals H; [contradiction|].
  destruct r as [|b1 r']; [destruct vals; contradiction|].
  destruct vals as [|v0 vs]; [contradiction|].
  rewrite cells_cons2 in H. destruct H as [E|H].
  - inversion E; subst. exists 0. repeat split; reflexivity.
  - destruct (IH vs H) as (i & A & Bx & C). exists (S i). repeat split; assumption.
Qed.

Section Pointwise.
Context {B W : Type} (ltb : B -> B -> bool).
Hypothesis ltb_asym : forall x y, ltb x y = true -> ltb y x = false.
Notation step := (step B W).

(* where a printed row ends up along the energy axis *)
Definition row_at (ebins : list B) (vrow : list W) (c : B * B * W) : Prop :=
  exists i, nth_error vrow i = Some (i_val c) /\
    ((nth_error ebins i = Some (i_fst c) /\ nth_error ebins (S i) = Some (i_snd c)) \/
     (nth_error ebins i = Some (i_snd c) /\ nth_error ebins (S i) = Some (i_fst c))).

Lemma rows_at (rws : list (B * B * W)) :
  rws <> [] -> contiguous rws ->
  let d := decreasing ltb (e_bins rws) in
  forall c, In c rws -> row_at (flip_if d (e_bins rws)) (flip_if d (map snd rws)) c.
Proof.
  intros Hne Hc d c Hin. pose proof (axis_rows_attached ltb rws Hne Hc) as Ha. cbn zeta in Ha. fold d in Ha.
  replace (map (@i_val B W) rws) with (map snd rws) in Ha by reflexivity.
  destruct c as [[a b] v]. destruct d.
  - assert (Hs : In (b, a, v) (rev (map swap rws))).
    { apply -> in_rev. apply in_map_iff. exists (a, b, v). split; [reflexivity | exact Hin]. }
    rewrite <- Ha in Hs. destruct (cells_nth _ _ _ _ _ Hs) as (i & A & Bx & C).
    exists i. split; [exact C | right; split; assumption].
  - rewrite <- Ha in Hin. destruct (cells_nth _ _ _ _ _ Hin) as (i & A & Bx & C).
    exists i. split; [exact C | left; split; assumption].
Qed.

Definition rows_hyp (s0 : step) (steps : list step) : Prop :=
  rows s0 <> [] /\
  (forall s, In s steps -> contiguous (rows s) /\ e_bins (rows s) = e_bins (rows s0)
                           /\ List.length (rows s) = List.length (rows s0)) /\
  ((forall c, In c (rows s0) -> ltb (i_fst c) (i_snd c) = true) \/
   (forall c, In c (rows s0) -> ltb (i_snd c) (i_fst c) = true)).

Definition time_hyp (steps : list step) : Prop :=
  (contiguous (map step_interval steps) /\ (forall s, In s steps -> ltb (t_min s) (t_max s) = true)) \/
  (contiguous_down (map step_interval steps) /\ 2 <= List.length steps /\
   (forall s, In s steps -> ltb (t_min s) (t_max s) = true)).

(* a spectrum by time steps *)
Theorem plane_pointwise (s0 : step) (rest : list step) :
  let steps := s0 :: rest in
  rows_hyp s0 steps -> time_hyp steps ->
  let p := build_plane ltb true steps in
  adjacent_lt ltb (p_ebins p) /\ adjacent_lt ltb (p_tbins p) /\
  forall s, In s steps -> exists j,
    nth_error (p_tbins p) j = Some (t_min s) /\ nth_error (p_tbins p) (S j) = Some (t_max s) /\
    nth_error (p_integ p) j = Some (integ s) /\
    exists vrow, nth_error (p_vals p) j = Some vrow /\
                 forall c, In c (rows s) -> row_at (p_ebins p) vrow c.
Proof.
  intros steps (Hne & Hrows & Hdir) Ht p.
  destruct (plane_attached ltb ltb_asym s0 rest Hne Hrows Hdir Ht) as (Ae & At & Hv & Hi & Hc & _ & _).
  fold steps p in Ae, At, Hv, Hi, Hc.
  split; [exact Ae|]. split; [exact At|]. intros s Hs.
  set (de := decreasing ltb (e_bins (rows s0))) in *.
  set (order := flip_if (decreasing ltb (t_bins ltb (map step_interval steps))) steps) in *.
  assert (Ho : In (step_interval s) (map step_interval order)).
  { apply in_map. unfold order. destruct (decreasing ltb (t_bins ltb (map step_interval steps))); cbn [flip_if];
      [apply -> in_rev|]; exact Hs. }
  rewrite <- Hc in Ho. unfold step_interval in Ho.
  destruct (cells_nth _ _ _ _ _ Ho) as (j & A & Bx & C).
  exists j. split; [exact A|]. split; [exact Bx|]. split.
  - rewrite Hi. apply map_nth_error, C.
  - exists (flip_if de (map snd (rows s))). split.
    + rewrite Hv. apply (map_nth_error (fun s => flip_if de (map snd (rows s)))), C.
    + destruct (Hrows s Hs) as (Hcs & He & Hl).
      assert (Hnes : rows s <> []).
      { intros E. rewrite E in Hl. destruct (rows s0); [contradiction | discriminate]. }
      pose proof (rows_at (rows s) Hnes Hcs) as R. cbn zeta in R. rewrite He in R. fold de in R.
      unfold p, build_plane. cbn [p_ebins]. fold de. exact R.
Qed.

(* a spectrum without time steps *)
Theorem plane_pointwise_notime (s0 : step) :
  rows_hyp s0 [s0] ->
  let p := build_plane ltb false [s0] in
  adjacent_lt ltb (p_ebins p) /\ p_tbins p = [] /\ p_integ p = [integ s0] /\
  exists vrow, p_vals p = [vrow] /\ forall c, In c (rows s0) -> row_at (p_ebins p) vrow c.
Proof.
  intros (Hne & Hrows & Hdir) p.
  destruct (Hrows s0 (or_introl eq_refl)) as (Hc & _ & _).
  split; [apply (axis_rows_increasing ltb ltb_asym (rows s0) Hne Hc Hdir)|].
  split; [reflexivity|]. split; [reflexivity|].
  exists (flip_if (decreasing ltb (e_bins (rows s0))) (map snd (rows s0))). split; [reflexivity|].
  apply (rows_at (rows s0) Hne Hc).
Qed.
End Pointwise.

(* ---- the text instance: numerals are strings, [num] stands for float() ---- *)
Section TextToDataset.
Context {B D : Type} (num : str -> B) (ltb : B -> B -> bool) (conv : B * B -> D).
Hypothesis ltb_asym : forall x y, ltb x y = true -> ltb y x = false.

Definition ncell (c : str * str) : B * B := (num (fst c), num (snd c)).

Definition nstep (s : step str (str * str)) : step B (B * B) :=
  mk_step (num (t_min s)) (num (t_max s))
          (map (fun c => (num (i_fst c), num (i_snd c), ncell (i_val c))) (rows s))
          (option_map ncell (integ s)).

Definition msteps (z : dzone) : list (step B (B * B)) := map (fun s => nstep (step_of s)) (z_steps z).

(* the model pipeline on what was read from the text *)
Definition text_plane (z : dzone) : plane B (B * B) := build_plane ltb (with_time z) (msteps z).

(* the printed groups follow each other, all upwards or all downwards, the
   same in every time step; the time steps follow each other upwards or
   downwards; without time steps there is one spectrum *)
Definition zone_ordered (z : dzone) : Prop :=
  match msteps z with
  | [] => False
  | s0 :: rest =>
      rows_hyp ltb s0 (s0 :: rest) /\
      if with_time z then time_hyp ltb (s0 :: rest) else rest = []
  end.

Definition printed_time (z : dzone) (s : dstep) (tbins : list B) (j : nat) : Prop :=
  match s_time s with
  | Some (_, a, b) => with_time z = true ->
                      nth_error tbins j = Some (num a) /\ nth_error tbins (S j) = Some (num b)
  | None => True
  end.

Theorem text_to_dataset_gen : forall d, wf_doc d ->
  (forall rz, In rz (zones_of d) -> zone_ordered (snd rz)) ->
  exists r, parse_block (print_block d) = Some r /\ r = rows_of d /\
  forall rz, In rz (zones_of r) ->
    let z := snd rz in
    let p := text_plane z in
    let dataset := map (map conv) (p_vals p) in
    adjacent_lt ltb (p_ebins p) /\ (with_time z = true -> adjacent_lt ltb (p_tbins p)) /\
    forall s, In s (z_steps z) -> exists j,
      printed_time z s (p_tbins p) j /\
      nth_error (p_integ p) j = Some (option_map ncell (integ_of (s_integ s))) /\
      exists drow, nth_error dataset j = Some drow /\
        forall r, In r (s_rows s) -> exists i,
          nth_error drow i = Some (conv (num (r_score r), num (r_sigma r))) /\
          ((nth_error (p_ebins p) i = Some (num (r_a r)) /\ nth_error (p_ebins p) (S i) = Some (num (r_b r))) \/
           (nth_error (p_ebins p) i = Some (num (r_b r)) /\ nth_error (p_ebins p) (S i) = Some (num (r_a r)))).
Proof.
  intros d Hwf Hord. exists d. split; [apply parse_print, Hwf|]. split; [reflexivity|].
  intros rz Hrz z p dataset. specialize (Hord rz Hrz). fold z in Hord.
  unfold zone_ordered in Hord. subst dataset p. unfold text_plane.
  assert (Hrow : forall s ebins vrow, In s (z_steps z) ->
            (forall c, In c (rows (nstep (step_of s))) -> row_at ebins vrow c) ->
            forall r, In r (s_rows s) -> exists i,
              nth_error (map conv vrow) i = Some (conv (num (r_score r), num (r_sigma r))) /\
              ((nth_error ebins i = Some (num (r_a r)) /\ nth_error ebins (S i) = Some (num (r_b r))) \/
               (nth_error ebins i = Some (num (r_b r)) /\ nth_error ebins (S i) = Some (num (r_a r))))).
  { intros s ebins vrow Hs Hat r Hr.
    assert (Hin : In (num (r_a r), num (r_b r), ncell (r_score r, r_sigma r)) (rows (nstep (step_of s)))).
    { unfold nstep, step_of. destruct (s_time s) as [[[k a] b]|]; cbn [rows];
        rewrite map_map; apply in_map_iff; exists r; (split; [reflexivity | exact Hr]). }
    destruct (Hat _ Hin) as (i & Hv & Hb). exists i. split; [|exact Hb].
    apply (map_nth_error conv) in Hv. exact Hv. }
  destruct (msteps z) as [|s0 rest] eqn:Ems; [contradiction|]. destruct Hord as [Hrh Htm].
  destruct (with_time z) eqn:Ewt.
  - (* by time steps *)
    destruct (plane_pointwise ltb ltb_asym s0 rest Hrh Htm) as (Ae & At & Hall). cbn zeta in Ae, At, Hall.
    split; [exact Ae|]. split; [intros _; exact At|]. intros s Hs.
    assert (Hin : In (nstep (step_of s)) (s0 :: rest)).
    { rewrite <- Ems. unfold msteps. apply (in_map (fun s => nstep (step_of s))), Hs. }
    destruct (Hall _ Hin) as (j & T1 & T2 & Hi & vrow & Hv & Hat). exists j. split; [|split].
    + unfold printed_time. destruct (s_time s) as [[[k a] b]|] eqn:Et; [|exact I]. intros _.
      unfold nstep, step_of in T1, T2. rewrite Et in T1, T2. cbn [t_min t_max] in T1, T2. split; assumption.
    + rewrite Hi. unfold nstep, step_of. destruct (s_time s) as [[[k a] b]|]; reflexivity.
    + exists (map conv vrow). split; [apply (map_nth_error (map conv)), Hv|].
      apply Hrow; assumption.
  - (* one spectrum *)
    subst rest.
    destruct (plane_pointwise_notime ltb ltb_asym s0 Hrh) as (Ae & Tb & Hi & vrow & Hv & Hat). cbn zeta in *.
    split; [exact Ae|]. split; [discriminate|]. intros s Hs.
    assert (Hin : In (nstep (step_of s)) [s0]).
    { rewrite <- Ems. unfold msteps. apply (in_map (fun s => nstep (step_of s))), Hs. }
    destruct Hin as [E|[]]. exists 0. split; [|split].
    + unfold printed_time. destruct (s_time s) as [[[k a] b]|]; [|exact I].
      intros Hc. rewrite Ewt in Hc. discriminate.
    + rewrite Hi. cbn [nth_error]. rewrite E. unfold nstep, step_of.
      destruct (s_time s) as [[[k a] b]|]; reflexivity.
    + exists (map conv vrow). split; [rewrite Hv; reflexivity|]. apply Hrow; [exact Hs|]. rewrite <- E. exact Hat.
Qed.
End TextToDataset.

(* ---- binary64: [num] stands for float(), the order is numpy's "<", the
   conversion is data_convertor's (score, sigma%) -> (value, error) ---- *)
From VV Require Import Lib.B64 C10.Floats.

Theorem text_to_dataset (num : str -> b64) : forall d, wf_doc d ->
  (forall rz, In rz (zones_of d) -> zone_ordered num flt (snd rz)) ->
  exists r, parse_block (print_block d) = Some r /\ r = rows_of d /\
  forall rz, In rz (zones_of r) ->
    let z := snd rz in
    let p := text_plane num flt z in
    let dataset := map (map convert) (p_vals p) in
    adjacent_lt flt (p_ebins p) /\ (with_time z = true -> adjacent_lt flt (p_tbins p)) /\
    forall s, In s (z_steps z) -> exists j,
      printed_time num z s (p_tbins p) j /\
      nth_error (p_integ p) j = Some (option_map (ncell num) (integ_of (s_integ s))) /\
      exists drow, nth_error dataset j = Some drow /\
        forall r, In r (s_rows s) -> exists i,
          nth_error drow i
          = Some (num (r_score r), fmul (fmul (num (r_sigma r)) (num (r_score r))) c001) /\
          ((nth_error (p_ebins p) i = Some (num (r_a r)) /\ nth_error (p_ebins p) (S i) = Some (num (r_b r))) \/
           (nth_error (p_ebins p) i = Some (num (r_b r)) /\ nth_error (p_ebins p) (S i) = Some (num (r_a r)))).
Proof. exact (text_to_dataset_gen num flt convert flt_asym). Qed.

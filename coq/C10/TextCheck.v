(* C10, text level: what a generated cases file evaluates.

   A case carries the text of one edition block (as its lines), the table of
   its numeral tokens with the binary64 bits CPython's float() gives them,
   for a generated edition the document it was printed from, and what the
   REAL pyparsing grammar extracted (observed before the transform layer),
   flattened to atoms with numbers as indices into the table.

   Checked inside Coq:
     - the model printer prints exactly the generator's text;
     - the document satisfies the hypothesis [wf_doc] of [parse_print];
     - the model parser reads the text, and what it extracts is what the real
       grammar extracted (numerals compared through float()).
   For the shipped example listings: the same comparison per result block
   (scoring zone / generic response / keff block) the real grammar found,
   when the model parser knows the layout. *)
From Coq Require Import List Bool Arith ZArith NArith Ascii String.
From VV Require Import Lib.Base C11.Pystr C10.Text.
Import ListNotations.

Inductive ratom := Rm (k : N) | Rn (i : N) | Rw (w : bstr).        (* real side *)
Inductive matom := Mm (k : N) | Mn (s : str) | Mw (ws : list str).  (* model side *)

Definition numtab := list (str * Z).

Fixpoint lookup (t : numtab) (s : str) : option Z :=
  match t with
  | [] => None
  | (k, v) :: r => if str_eqb k s then Some v else lookup r s
  end.

Definition atom_eqb (t : numtab) (m : matom) (r : ratom) : bool :=
  match m, r with
  | Mm a, Rm b => N.eqb a b
  | Mn s, Rn i =>
      match lookup t s, nth_error t (N.to_nat i) with
      | Some x, Some (_, y) => Z.eqb x y
      | _, _ => false
      end
  | Mw ws, Rw w => str_eqb (join_sp ws) (lit_b w)
  | _, _ => false
  end.

Fixpoint atoms_eqb (t : numtab) (ms : list matom) (rs : list ratom) : bool :=
  match ms, rs with
  | [], [] => true
  | m :: ms', r :: rs' => atom_eqb t m r && atoms_eqb t ms' rs'
  | _, _ => false
  end.

(* ---- flattening of what the model parser extracted ---- *)
Local Open Scope N_scope.

Definition f_row (r : drow) : list matom :=
  [Mm 30; Mn (r_a r); Mn (r_b r); Mn (r_score r); Mn (r_sigma r); Mn (r_leth r)].

Definition f_integ (i : option dinteg) : list matom :=
  match i with
  | None => [Mm 40]
  | Some (mk_dinteg d None) => [Mm 41; Mn d; Mm 42]
  | Some (mk_dinteg d (Some (u, s, g))) => [Mm 41; Mn d; Mm 43; Mn u; Mn s; Mn g]
  end.

Definition f_step (s : dstep) : list matom :=
  Mm 20 :: match s_time s with Some (k, a, b) => [Mm 21; Mn k; Mn a; Mn b] | None => [Mm 22] end
  ++ [Mn (s_disc s)] ++ flat_map f_row (s_rows s) ++ f_integ (s_integ s) ++ [Mm 23].

Definition f_zone (z : dzone) : list matom :=
  [Mm 10; Mw [z_mode z]; Mn (z_vol z)] ++ flat_map f_step (z_steps z) ++ [Mm 11].

Definition f_keff (k : dkeff) : list matom :=
  let '(e0, e1, e2) := k_est k in
  let '(c0, c1, c2) := k_corr k in
  let pr (p : str * str) := [Mn (fst p); Mn (snd p)] in
  let tr (p : str * str * str) := let '(x, v, s) := p in [Mn x; Mn v; Mn s] in
  [Mm 60; Mn (k_used k)] ++ pr e0 ++ pr e1 ++ pr e2 ++ tr c0 ++ tr c1 ++ tr c2 ++ pr (k_full k).

Definition f_body (b : dbody) : list matom :=
  match b with
  | BZones zs => flat_map f_zone zs
  | BGeneric u s g => [Mm 50; Mn u; Mn s; Mn g]
  | BKeff k => f_keff k
  end.

Definition f_attr (a : attr) : list matom :=
  match a with
  | ARespName ws => [Mm 71; Mw ws]
  | AScoreName ws => [Mm 72; Mw ws]
  | ADecoupage ws => [Mm 73; Mw ws]
  end.

Definition f_resp (r : dresp) : list matom :=
  [Mm 70; Mw (rs_function r)] ++ flat_map f_attr (rs_attrs r) ++ f_body (rs_body r) ++ [Mm 79].

Definition f_block (d : doc_block) : list matom :=
  [Mm 80; Mn (d_batch d)] ++ flat_map f_resp (d_resps d) ++ [Mn (d_time d); Mm 89].

(* ---- cases ---- *)
Definition mk_tab (l : list (bstr * Z)) : numtab := map (fun e => (lit_b (fst e), snd e)) l.

(* lines given as identifiers into a table of distinct lines *)
Definition mk_lines (uniq : list bstr) (ids : list N) : list str :=
  let u := map lit_b uniq in map (fun i => nth (N.to_nat i) u []) ids.

Definition numeral_of (t : numtab) (i : N) : str := fst (nth (N.to_nat i) t ([], 0%Z)).

(* a generated edition: 0 = agreement, 1 = the model printer and the generator
   print different texts, 2 = the document is not well-formed (the round-trip
   theorem does not apply), 3 = the model parser rejects the text, 4 = the model
   parser and the real grammar extracted different rows *)
Definition gen_case := (list (bstr * Z) * list bstr * list N * ((N -> str) -> doc_block) * list ratom)%type.

Definition check_gen (c : gen_case) : N :=
  let '(tb, uniq, ids, mkdoc, real) := c in
  let t := mk_tab tb in
  let text := unlines (mk_lines uniq ids) in
  let d := mkdoc (numeral_of t) in
  if negb (str_eqb (print_block d) text) then 1
  else if negb (wf_docb d) then 2
  else match parse_block text with
       | None => 3
       | Some r => if atoms_eqb t (f_block r) real then 0 else 4
       end.

(* a shipped listing: result blocks found by the real grammar, by the index of
   the line where they start; kind 0 = scoring zone, 1 = generic response,
   2 = keff block.  0 = agreement, 1 = layout unknown to the model parser,
   2 = different rows *)
Definition ship_case := (list (bstr * Z) * list bstr * list N * list (N * N * list ratom))%type.

Definition parse_result (kind : N) (l : list lk) : option (list matom) :=
  match kind with
  | 0 => match p_zone l with Some (z, _) => Some (f_zone z) | None => None end
  | 1 => match l with
         | LIntegHead :: LUsed [u; s; g] :: _ => Some (f_body (BGeneric u s g))
         | LUsed [u; s; g] :: _ => Some (f_body (BGeneric u s g))
         | _ => None
         end
  | _ => match p_keff l with Some (k, _) => Some (f_keff k) | None => None end
  end.

Definition check_ship (c : ship_case) : list N :=
  let '(tb, uniq, ids, blocks) := c in
  let t := mk_tab tb in
  let ls := mk_lines uniq ids in
  map (fun b : N * N * list ratom =>
         let '(off, kind, real) := b in
         match parse_result kind (sigk (skipn (N.to_nat off) ls)) with
         | None => 1
         | Some ms => if atoms_eqb t ms real then 0 else 2
         end) blocks.

(* C10, model B: what happens to the rows of a Tripoli-4 spectrum after the
   grammar (valjean/eponine/tripoli4/common.py: SpectrumDictBuilder.
   fill_arrays_and_bins, KinematicDictBuilder.add_last_bins /
   _add_last_bin_for_dim, DictBuilder.convert_bins_to_increasing_arrays /
   _flip_bins_for_dim; data_convertor.py: array_result, bins_reduction), for
   the energy x time plane of the 7-d arrays.

   A spectrum is the list, in printed order, of its time steps; a time step
   is (time min, time max) and the list, in printed order, of its rows
   "a - b  score  sigma%" plus the optional energy-integrated result.  The
   bound type B and the order test are parameters: theorems hold for any B,
   the correspondence runs with binary64 and numpy's ">" . *)
From Coq Require Import List Bool Arith Lia.
Import ListNotations.

Section Axis.
Context {B : Type} (ltb : B -> B -> bool).

(* len(bins) > 1 and bins[0] > bins[1] *)
Definition decreasing (bins : list B) : bool :=
  match bins with b0 :: b1 :: _ => ltb b1 b0 | _ => false end.

Definition last_opt {A} (l : list A) : option A :=
  match rev l with x :: _ => Some x | [] => None end.

Context {V : Type}.
Definition interval := (B * B * V)%type.          (* first printed bound, second, payload *)
Definition i_fst (c : interval) : B := fst (fst c).
Definition i_snd (c : interval) : B := snd (fst c).
Definition i_val (c : interval) : V := snd c.

(* energy axis: bins['e'].append(row[0]) for every row of the first spectrum,
   then _add_last_energy_bin: append(last row[1]) *)
Definition e_bins (rows : list interval) : list B :=
  map i_fst rows ++ match last_opt rows with Some c => [i_snd c] | None => [] end.

(* time axis: bins['t'].append(time min) for every step, then
   _add_last_bin_for_dim: decreasing -> insert(0, time max of the first step),
   else append(time max of the last step) *)
Definition t_bins (steps : list interval) : list B :=
  let mins := map i_fst steps in
  if decreasing mins
  then match steps with c :: _ => i_snd c :: mins | [] => mins end
  else mins ++ match last_opt steps with Some c => [i_snd c] | None => [] end.

(* convert_bins_to_increasing_arrays for one axis: np.flip of the bins and of
   every array along that axis *)
Definition flip_if {A} (d : bool) (l : list A) : list A := if d then rev l else l.

(* (bins[i], bins[i+1], vals[i]) *)
Fixpoint cells (bins : list B) (vals : list V) : list interval :=
  match bins, vals with
  | b0 :: ((b1 :: _) as r), v :: vs => (b0, b1, v) :: cells r vs
  | _, _ => []
  end.

Definition swap (c : interval) : interval := (i_snd c, i_fst c, i_val c).

(* printed "a - b" rows follow each other: b of a row is a of the next *)
Fixpoint contiguous (rows : list interval) : Prop :=
  match rows with
  | c :: ((c' :: _) as r) => i_snd c = i_fst c' /\ contiguous r
  | _ => True
  end.
(* time steps printed downwards: min of a step is max of the next *)
Fixpoint contiguous_down (steps : list interval) : Prop :=
  match steps with
  | c :: ((c' :: _) as r) => i_fst c = i_snd c' /\ contiguous_down r
  | _ => True
  end.

Definition adjacent_lt (bins : list B) : Prop :=
  forall i x y, nth_error bins i = Some x -> nth_error bins (S i) = Some y -> ltb x y = true.
End Axis.

(* ---- the energy x time plane ---- *)
Section Plane.
Context {B S : Type} (ltb : B -> B -> bool).
(* S: what is printed for a cell: (score, sigma%) *)

Record step := mk_step {
  t_min : B; t_max : B;
  rows : list (B * B * S);               (* a, b, (score, sigma) in printed order *)
  integ : option S                       (* ENERGY INTEGRATED RESULTS *)
}.

Record plane := mk_plane {
  p_ebins : list B;
  p_tbins : list B;
  p_vals : list (list S);                (* [time][energy], after the flips *)
  p_integ : list (option S);             (* [time] *)
  p_ebins_integ : list B                 (* bins_reduction: first and last energy edge *)
}.

Definition step_interval (s : step) : B * B * step := (t_min s, t_max s, s).

Definition first_last {A} (l : list A) : list A :=
  match l, last_opt l with
  | x :: _, Some y => [x; y]
  | _, _ => []
  end.

(* convert_spectrum for spectra with (or without: one step, no time bins)
   time steps.  The energy bins come from the first step only. *)
Definition build_plane (with_time : bool) (steps : list step) : plane :=
  let eb := match steps with s :: _ => e_bins (rows s) | [] => [] end in
  let de := decreasing ltb eb in
  let tb := if with_time then t_bins ltb (map step_interval steps) else [] in
  let dt := decreasing ltb tb in
  let eb' := flip_if de eb in
  mk_plane eb' (flip_if dt tb)
           (flip_if dt (map (fun s => flip_if de (map snd (rows s))) steps))
           (flip_if dt (map integ steps))
           (first_last eb').
End Plane.

Arguments step : clear implicits.
Arguments plane : clear implicits.
Arguments mk_step {B S}.
Arguments mk_plane {B S}.

(* C10: what a generated Apollo3 cases file evaluates: the model Reader and
   Picker against the real ones, and the hypothesis of reader_picker_agree
   (boolean well-formedness) on the generated tree. *)
From Coq Require Import List ZArith Bool Arith String.
From VV Require Import C10.Apollo C10.ApolloProofs.
Import ListNotations.

Definition check_ap3_wf (c : ap3case) : bool :=
  let '(f, _, _) := c in wf_fileb f && check_ap3 c.

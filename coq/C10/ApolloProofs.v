(* C10: Reader and Picker agree on well-formed standard-layout trees. *)
From Coq Require Import List ZArith Bool Arith Lia String Ascii.
From VV Require Import C10.Apollo.
Import ListNotations.
Local Open Scope string_scope.
Local Open Scope list_scope.

(* ---- generic lemmas ---- *)
Lemma bind_ok {A B} (r : res A) (f : A -> res B) b :
  bind r f = ROk b -> exists a, r = ROk a /\ f a = ROk b.
Proof. destruct r; cbn; [eauto | discriminate]. Qed.

Lemma collect_in {A E} (g : A -> res (list E)) xs es e :
  collect g xs = ROk es -> In e es ->
  exists p esp, In p xs /\ g p = ROk esp /\ In e esp.
Proof.
  revert es; induction xs as [|x xs IH]; intros es H Hin; cbn in H.
  - inversion H; subst. contradiction.
  - apply bind_ok in H. destruct H as (l & Hl & H).
    apply bind_ok in H. destruct H as (esx & Hx & H). inversion H; subst.
    apply in_app_or in Hin. destruct Hin as [Hin|Hin].
    + exists x, esx. split; [left; reflexivity | auto].
    + destruct (IH l Hl Hin) as (p & esp & Hp & Hg & He). exists p, esp. split; [right|]; auto.
Qed.

Lemma assoc_nodup {V} (l : list (string * V)) k v :
  NoDup (map fst l) -> In (k, v) l -> assoc k l = Some v.
Proof.
  induction l as [|[k' v'] r IH]; cbn; intros Hnd Hin; [contradiction|].
  inversion Hnd; subst. destruct Hin as [Hin|Hin].
  - inversion Hin; subst. rewrite String.eqb_refl. reflexivity.
  - destruct (String.eqb k k') eqn:E.
    + apply String.eqb_eq in E. subst k'. exfalso. apply H1.
      change k with (fst (k, v)). apply in_map, Hin.
    + apply IH; assumption.
Qed.

Lemma assoc_none {V} (l : list (string * V)) k : assoc k l = None -> forall v, ~ In (k, v) l.
Proof.
  induction l as [|[k' v'] r IH]; cbn; intros H v Hin; [contradiction|].
  destruct (String.eqb k k') eqn:E; [discriminate|].
  destruct Hin as [Hin|Hin]; [inversion Hin; subst; rewrite String.eqb_refl in E; discriminate|].
  eapply IH; eauto.
Qed.

Lemma assoc_some_in {V} (l : list (string * V)) k v : assoc k l = Some v -> In (k, v) l.
Proof.
  induction l as [|[k' v'] r IH]; cbn; intros H; [discriminate|].
  destruct (String.eqb k k') eqn:E.
  - apply String.eqb_eq in E. inversion H; subst. left; reflexivity.
  - right. apply IH, H.
Qed.

(* ---- well-formed standard-layout files ---- *)
Definition scalar_ok (k : string) (n : node) : Prop :=
  mem k picker_scalar_names = true -> mem k scalar_names = true /\ exists v, n = Arr [v].

(* anisotropy information of a result group: a top-level nbAnisotropy and/or
   one sub-group per result, each holding its nbAnisotropy *)
Definition wf_info (info : option node) : Prop :=
  match info with
  | None => True
  | Some (Grp ich) =>
      NoDup (map fst ich) /\
      forall r sub, In (r, sub) ich ->
        match sub with
        | Grp c2 => NoDup (map fst c2) /\ c2 <> [] /\ r <> "nbAnisotropy" /\ r <> "anisotropy"
        | _ => True
        end
  | Some _ => True
  end.

(* macro / isotope group *)
Definition wf_group (g : node) : Prop :=
  match g with
  | Grp gch =>
      NoDup (map fst gch) /\ wf_info (assoc "info" gch) /\
      forall k n, In (k, n) gch -> excluded k = false ->
        mem k picker_scalar_names = false /\ k <> "concentration" /\ k <> "nbAnisotropy"
        /\ k <> "anisotropy"
  | _ => True
  end.

Definition wf_total (g : node) : Prop :=
  match g with
  | Grp ch =>
      NoDup (map fst ch) /\ assoc "info" ch = None /\
      forall k n, In (k, n) ch -> excluded k = false -> scalar_ok k n
  | _ => True
  end.

Definition isotopes_of (ch : list (string * node)) : list string :=
  match assoc "ISOTOPE" ch with Some (Names l) => l | _ => [] end.

Definition wf_zone (g : node) : Prop :=
  match g with
  | Grp ch =>
      NoDup (map fst ch) /\ NoDup (isotopes_of ch) /\
      (* NISOT = 0 comes without ISOTOPE and CONCEN *)
      (forall n, assoc "NISOT" ch = Some n -> first_int n = ROk 0%nat ->
                 assoc "CONCEN" ch = None /\ assoc "ISOTOPE" ch = None) /\
      forall k n, In (k, n) ch ->
        if String.eqb k "macro" || mem k (isotopes_of ch) then wf_group n
        else if String.eqb k "CONCEN" || String.eqb k "NISOT" || String.eqb k "ISOTOPE" then True
        else scalar_ok k n
  | _ => True
  end.

Definition wf_output (ng : nat) (g : node) : Prop :=
  1 <= ng /\
  match g with
  | Grp zones =>
      NoDup (map fst zones) /\
      forall z zn, In (z, zn) zones ->
        if String.eqb z "totaloutput" then wf_total zn else wf_zone zn
  | _ => True
  end.

Definition wf_file (f : file) : Prop :=
  NoDup (map (fun p : string * nat * node => fst (fst p)) f) /\
  forall o ng out, In (o, ng, out) f -> wf_output ng out.

Lemma lookup_output_in (f : file) o ng out :
  NoDup (map (fun p : string * nat * node => fst (fst p)) f) -> In (o, ng, out) f ->
  lookup_output f o = ROk (ng, out).
Proof.
  unfold lookup_output. induction f as [|[[o' ng'] out'] r IH]; cbn; intros Hnd Hin; [contradiction|].
  inversion Hnd; subst. destruct Hin as [Hin|Hin].
  - inversion Hin; subst. rewrite String.eqb_refl. reflexivity.
  - destruct (String.eqb o' o) eqn:E.
    + apply String.eqb_eq in E. subst o'. exfalso. apply H1.
      change o with (fst (fst (o, ng, out))). apply (in_map (fun p : string * nat * node => fst (fst p))), Hin.
    + apply IH; assumption.
Qed.

(* ---- anisotropy: Reader's dictionary against Picker.nb_anisotropies ---- *)
Definition reader_na (m : amap) (k : string) : option nat :=
  match amap_get m k with Some n => Some n | None => amap_get m "anisotropy" end.

Lemma fold_bind_err {A P} (g : A -> P -> res A) l e :
  fold_left (fun acc p => bind acc (fun m => g m p)) l (RErr e) = RErr e.
Proof. induction l as [|x l IH]; cbn; [reflexivity | exact IH]. Qed.

Lemma fold_step_ok {A P} (g : A -> P -> res A) x l m0 m :
  fold_left (fun acc p => bind acc (fun m => g m p)) (x :: l) (ROk m0) = ROk m ->
  exists m1, g m0 x = ROk m1 /\ fold_left (fun acc p => bind acc (fun m => g m p)) l (ROk m1) = ROk m.
Proof.
  cbn. destruct (g m0 x) as [m1|e]; [eauto|]. rewrite fold_bind_err. discriminate.
Qed.

Definition inner_step (r : string) (im : bool) (m : amap) (p : string * node) : res amap :=
  match snd p with
  | Grp _ => if im then RErr NotModelled else RErr ReaderExc
  | n => if String.eqb (fst p) "nbAnisotropy"
         then bind (first_int n) (fun v => ROk (amap_set m r v))
         else RErr ReaderExc
  end.

Lemma inner_info_fold r ch im :
  inner_info r ch im
  = fold_left (fun acc p => bind acc (fun m => inner_step r im m p)) ch (ROk [("anisotropy", 1%nat)]).
Proof. reflexivity. Qed.

Lemma inner_step_ok r im m p m1 :
  inner_step r im m p = ROk m1 ->
  fst p = "nbAnisotropy" /\ exists v, first_int (snd p) = ROk v /\ m1 = (r, v) :: m.
Proof.
  unfold inner_step. destruct p as [k n]. cbn [fst snd].
  destruct n as [ch|data|l]; [destruct im; discriminate | |];
    (destruct (String.eqb k "nbAnisotropy") eqn:E; [|discriminate];
     apply String.eqb_eq in E; intros H; apply bind_ok in H; destruct H as (v & Hv & H);
     inversion H; subst; split; [reflexivity | eauto]).
Qed.

Lemma inner_shape r c2 m2 :
  inner_info r c2 true = ROk m2 -> NoDup (map fst c2) -> c2 <> [] ->
  exists d v, c2 = [("nbAnisotropy", d)] /\ first_int d = ROk v /\
              m2 = [(r, v); ("anisotropy", 1%nat)].
Proof.
  rewrite inner_info_fold. intros H Hnd Hne.
  destruct c2 as [|x c2']; [contradiction|].
  apply fold_step_ok in H. destruct H as (m1 & H1 & H).
  apply inner_step_ok in H1. destruct H1 as (Hk & v & Hv & ->).
  destruct c2' as [|y c2''].
  - cbn in H. inversion H; subst. destruct x as [k d]. cbn in *. subst k. eauto.
  - exfalso. apply fold_step_ok in H. destruct H as (m3 & H3 & _).
    apply inner_step_ok in H3. destruct H3 as (Hk' & _).
    inversion Hnd; subst. apply H1. cbn. left. congruence.
Qed.

Definition outer_step (im : bool) (m : amap) (p : string * node) : res amap :=
  match snd p with
  | Grp ch2 =>
      if im
      then bind (inner_info (fst p) ch2 im)
                (fun m2 => ROk (fold_right (fun q acc => amap_set acc (fst q) (snd q)) m
                                  (filter (fun q => negb (String.eqb (fst q) "anisotropy")) m2)))
      else RErr ReaderExc
  | n => if String.eqb (fst p) "nbAnisotropy"
         then bind (first_int n) (fun v => ROk (amap_set m "anisotropy" v))
         else RErr ReaderExc
  end.

Lemma extract_fold ch im :
  extract_output_info (Some (Grp ch)) im
  = fold_left (fun acc p => bind acc (fun m => outer_step im m p)) ch (ROk [("anisotropy", 1%nat)]).
Proof. reflexivity. Qed.

Definition is_grp (n : node) : Prop := exists c, n = Grp c.

Record inv (im : bool) (m : amap) (pre : list (string * node)) : Prop := {
  i_from : forall r v, r <> "anisotropy" -> amap_get m r = Some v ->
           exists d, In (r, Grp [("nbAnisotropy", d)]) pre /\ first_int d = ROk v;
  i_to : forall r d, r <> "anisotropy" -> In (r, Grp [("nbAnisotropy", d)]) pre ->
         exists v, first_int d = ROk v /\ amap_get m r = Some v;
  i_top : exists a, amap_get m "anisotropy" = Some a /\
          (a = 1%nat \/ exists d, In ("nbAnisotropy", d) pre /\ ~ is_grp d /\ first_int d = ROk a);
  i_shape : forall k n, In (k, n) pre ->
            (exists d, n = Grp [("nbAnisotropy", d)]) \/
            (~ is_grp n /\ k = "nbAnisotropy" /\ exists v, first_int n = ROk v)
}.

Lemma amap_get_cons_ne m k k' v : k <> k' -> amap_get ((k', v) :: m) k = amap_get m k.
Proof. intros H. unfold amap_get. cbn. destruct (String.eqb k k') eqn:E; [|reflexivity].
       apply String.eqb_eq in E. contradiction. Qed.

Lemma amap_get_cons_eq m k v : amap_get ((k, v) :: m) k = Some v.
Proof. unfold amap_get. cbn. rewrite String.eqb_refl. reflexivity. Qed.

Lemma inv_step_leaf im m pre k n m' :
  inv im m pre -> ~ is_grp n ->
  (if String.eqb k "nbAnisotropy"
   then bind (first_int n) (fun v => ROk (amap_set m "anisotropy" v))
   else RErr ReaderExc) = ROk m' ->
  inv im m' (pre ++ [(k, n)]).
Proof.
  intros [I1 I2 I3 I4] Hng Hs.
  destruct (String.eqb k "nbAnisotropy") eqn:E; [|discriminate].
  apply String.eqb_eq in E. subst k.
  apply bind_ok in Hs. destruct Hs as (v & Hv & Hs). inversion Hs; subst m'. unfold amap_set.
  constructor.
  - intros r v' Hr Hg. rewrite amap_get_cons_ne in Hg by exact Hr.
    destruct (I1 r v' Hr Hg) as (d & Hd & Hv'). exists d. split; [apply in_or_app; left|]; auto.
  - intros r d Hr Hin. apply in_app_or in Hin. destruct Hin as [Hin|[Hin|[]]].
    + destruct (I2 r d Hr Hin) as (v' & Hv' & Hg). exists v'. split; [exact Hv'|].
      rewrite amap_get_cons_ne by exact Hr. exact Hg.
    + inversion Hin; subst. exfalso. apply Hng. eexists; reflexivity.
  - exists v. split; [apply amap_get_cons_eq|]. right. exists n.
    split; [apply in_or_app; right; left; reflexivity | auto].
  - intros k' n' Hin. apply in_app_or in Hin. destruct Hin as [Hin|[Hin|[]]].
    + apply (I4 k' n' Hin).
    + inversion Hin; subst. right. eauto.
Qed.

Lemma inv_step im m pre p m' :
  inv im m pre -> outer_step im m p = ROk m' ->
  NoDup (map fst (pre ++ [p])) ->
  (forall c2, snd p = Grp c2 -> NoDup (map fst c2) /\ c2 <> [] /\ fst p <> "nbAnisotropy"
                                /\ fst p <> "anisotropy") ->
  inv im m' (pre ++ [p]).
Proof.
  intros I Hs Hnd Hwf. destruct p as [k n]. unfold outer_step in Hs. cbn [fst snd] in *.
  destruct n as [c2|data|l].
  2:{ apply (inv_step_leaf im m pre k (Arr data) m' I); [intros [c Hc]; discriminate | exact Hs]. }
  2:{ apply (inv_step_leaf im m pre k (Names l) m' I); [intros [c Hc]; discriminate | exact Hs]. }
  destruct I as [I1 I2 I3 I4].
  destruct im; [|discriminate].
  destruct (Hwf c2 eq_refl) as (Hnd2 & Hne2 & Hk1 & Hk2).
  apply bind_ok in Hs. destruct Hs as (m2 & Hin & Hs). inversion Hs; subst m'. clear Hs.
  destruct (inner_shape _ _ _ Hin Hnd2 Hne2) as (d & v & -> & Hv & ->).
  cbn [filter fst snd]. rewrite (proj2 (String.eqb_neq k "anisotropy") Hk2).
  cbn [negb filter fst String.eqb Ascii.eqb Bool.eqb]. cbn [fold_right fst snd]. unfold amap_set.
  assert (Hfresh : forall n', ~ In (k, n') pre).
  { intros n' Hn'. rewrite map_app in Hnd. cbn in Hnd. apply NoDup_remove_2 in Hnd.
    apply Hnd. rewrite app_nil_r. change k with (fst (k, n')). apply in_map, Hn'. }
  constructor.
  - intros r v' Hr Hg. destruct (String.eqb r k) eqn:E.
    + apply String.eqb_eq in E. subst r. rewrite amap_get_cons_eq in Hg. inversion Hg; subst.
      exists d. split; [apply in_or_app; right; left; reflexivity | exact Hv].
    + apply String.eqb_neq in E. rewrite amap_get_cons_ne in Hg by exact E.
      destruct (I1 r v' Hr Hg) as (d' & Hd' & Hv'). exists d'. split; [apply in_or_app; left|]; auto.
  - intros r d' Hr Hin'. apply in_app_or in Hin'. destruct Hin' as [Hin'|[Hin'|[]]].
    + destruct (I2 r d' Hr Hin') as (v' & Hv' & Hg). exists v'. split; [exact Hv'|].
      assert (r <> k) by (intros ->; eapply Hfresh, Hin').
      rewrite amap_get_cons_ne by assumption. exact Hg.
    + inversion Hin'; subst. exists v. split; [exact Hv | apply amap_get_cons_eq].
  - destruct I3 as (a & Ha & Halt). exists a. split.
    + rewrite amap_get_cons_ne by (intros E; apply Hk2; symmetry; exact E). exact Ha.
    + destruct Halt as [->|(d' & Hd' & Hng & Hv')]; [left; reflexivity|].
      right. exists d'. split; [apply in_or_app; left; exact Hd' | auto].
  - intros k' n' Hin'. apply in_app_or in Hin'. destruct Hin' as [Hin'|[Hin'|[]]].
    + apply (I4 k' n' Hin').
    + inversion Hin'; subst. left. eauto.
Qed.

Lemma NoDup_app_l {A} (a b : list A) : NoDup (a ++ b) -> NoDup a.
Proof.
  induction a as [|x a IH]; cbn; intros H; [constructor|].
  inversion H; subst. constructor; [|apply IH; assumption].
  intros Hin. apply H2. apply in_or_app. left. exact Hin.
Qed.

Lemma inv_fold im l : forall m pre mf,
  inv im m pre ->
  fold_left (fun acc p => bind acc (fun m => outer_step im m p)) l (ROk m) = ROk mf ->
  NoDup (map fst (pre ++ l)) ->
  (forall r c2, In (r, Grp c2) l -> NoDup (map fst c2) /\ c2 <> [] /\ r <> "nbAnisotropy"
                                   /\ r <> "anisotropy") ->
  inv im mf (pre ++ l).
Proof.
  induction l as [|p l IH]; intros m pre mf I H Hnd Hwf.
  - cbn in H. inversion H; subst. rewrite app_nil_r. exact I.
  - apply fold_step_ok in H. destruct H as (m1 & H1 & H).
    replace (pre ++ p :: l) with ((pre ++ [p]) ++ l) in * by (rewrite <- app_assoc; reflexivity).
    apply (IH m1 (pre ++ [p]) mf); [| exact H | exact Hnd |].
    + apply (inv_step im m pre p m1 I H1).
      * rewrite map_app in Hnd. apply NoDup_app_l in Hnd. exact Hnd.
      * intros c2 Hc2. destruct p as [k n]. cbn in Hc2. subst n. apply (Hwf k c2). left. reflexivity.
    + intros r c2 Hin. apply (Hwf r c2). right. exact Hin.
Qed.

Lemma inv_init im : inv im [("anisotropy", 1%nat)] [].
Proof.
  constructor.
  - intros r v Hr Hg. rewrite amap_get_cons_ne in Hg by exact Hr. discriminate.
  - intros r d _ [].
  - exists 1%nat. split; [reflexivity | left; reflexivity].
  - intros k n [].
Qed.

Lemma aniso_agree gch im m k :
  extract_output_info (assoc "info" gch) im = ROk m ->
  wf_info (assoc "info" gch) ->
  k <> "nbAnisotropy" -> k <> "anisotropy" ->
  exists o, p_nb_aniso (Grp gch) k = ROk o /\
            (forall na, reader_na m k = Some na -> na <> 1%nat -> o = Some na).
Proof.
  intros He Hwf Hk1 Hk2. unfold p_nb_aniso. cbn [child].
  destruct (assoc "info" gch) as [[ich|data|l]|] eqn:Ei.
  - (* an info group *)
    destruct Hwf as [Hnd Hwf]. rewrite extract_fold in He.
    assert (I : inv im m ich).
    { apply (inv_fold im ich _ [] m (inv_init im) He Hnd).
      intros r c2 Hin. apply (Hwf r (Grp c2) Hin). }
    destruct I as [I1 I2 I3 I4]. cbn [child].
    assert (Hnone : assoc k ich = None -> amap_get m k = None).
    { intros Hn. destruct (amap_get m k) as [v|] eqn:Eg; [|reflexivity].
      destruct (I1 k v Hk2 Eg) as (d & Hd & _). exfalso. eapply assoc_none; eauto. }
    destruct (assoc k ich) as [sub|] eqn:Ek.
    + apply assoc_some_in in Ek. destruct (I4 k sub Ek) as [[d ->]|(_ & Hc & _)]; [|contradiction].
      destruct (I2 k d Hk2 Ek) as (v & Hv & Hg).
      unfold get. cbn [child assoc]. rewrite String.eqb_refl. cbn [bind]. rewrite Hv. cbn [bind].
      exists (Some v). split; [reflexivity|]. intros na Hna _. unfold reader_na in Hna.
      rewrite Hg in Hna. exact Hna.
    + specialize (Hnone eq_refl).
      destruct I3 as (a & Ha & Halt).
      destruct (assoc "nbAnisotropy" ich) as [d|] eqn:En.
      * pose proof (assoc_some_in _ _ _ En) as Hin.
        destruct (I4 _ _ Hin) as [[d' ->]|(Hng & _ & v & Hv)].
        { exfalso. destruct (Hwf _ _ Hin) as (_ & _ & Hbad & _). apply Hbad. reflexivity. }
        rewrite Hv. cbn [bind]. exists (Some v). split; [reflexivity|].
        intros na Hna Hne. unfold reader_na in Hna. rewrite Hnone, Ha in Hna. inversion Hna; subst na.
        destruct Halt as [->|(d' & Hd' & _ & Hv')]; [contradiction|].
        rewrite (assoc_nodup _ _ _ Hnd Hd') in En. inversion En; subst d'. congruence.
      * exists (Some 1%nat). split; [reflexivity|].
        intros na Hna Hne. unfold reader_na in Hna. rewrite Hnone, Ha in Hna. inversion Hna; subst na.
        destruct Halt as [->|(d' & Hd' & _)]; [contradiction|].
        exfalso. eapply assoc_none; eauto.
  - discriminate.
  - discriminate.
  - (* no info group *)
    exists None. split; [reflexivity|]. cbn in He. inversion He; subst m.
    intros na Hna Hne. unfold reader_na in Hna. rewrite amap_get_cons_ne in Hna by exact Hk2.
    cbn in Hna. inversion Hna. subst. contradiction.
Qed.

(* ---- one stored result: Reader's dataset is Picker's dataset ---- *)
Lemma scalar_names_incl k : mem k picker_scalar_names = false -> mem k scalar_names = false.
Proof.
  unfold mem, picker_scalar_names, scalar_names. cbn.
  destruct (String.eqb k "KEFF"), (String.eqb k "KINF"), (String.eqb k "NSURF"),
    (String.eqb k "MIGRATIONAREA"), (String.eqb k "Buckling"); cbn; congruence.
Qed.

Lemma eqb_bk_none b : b <> BNone -> eqb_bk b BNone = false.
Proof. destruct b; cbn; congruence. Qed.

(* results stored directly in totaloutput or in a zone (no isotope) *)
Lemma plain_agree k n ng aniso size b d :
  1 <= ng -> scalar_ok k n ->
  aniso = None \/ aniso = Some [("anisotropy", 1%nat)] ->
  size_of n = ROk size -> r_make_bins k size ng aniso = ROk b -> r_dataset n (lower k) b = ROk d ->
  (if mem k picker_scalar_names
   then match n with
        | Arr (v :: _) => ROk (mk_dset true [v] BNone (lower k))
        | Arr [] => RErr IndexError
        | _ => RErr TypeError
        end
   else bind (size_of n) (fun size => bind (p_make_bins size k ng None) (fun b => p_dataset n k b)))
  = ROk d.
Proof.
  intros Hng Hsc Han Hsz Hb Hd. unfold r_make_bins in Hb.
  destruct (mem k picker_scalar_names) eqn:Ep.
  - destruct (Hsc Ep) as (Hs & v & ->). rewrite Hs in Hb. inversion Hb; subst b.
    cbn in Hd. inversion Hd; subst. reflexivity.
  - rewrite (scalar_names_incl k Ep) in Hb. rewrite Hsz. cbn [bind].
    destruct n as [c|data|l]; try discriminate. cbn in Hsz. inversion Hsz; subst size. clear Hsz.
    unfold p_make_bins. destruct (Nat.eqb ng 0) eqn:E0; [apply Nat.eqb_eq in E0; lia|].
    destruct (Nat.eqb ng (List.length data)) eqn:Es.
    + inversion Hb; subst b. cbn [bind]. cbn in Hd. inversion Hd; subst.
      unfold p_dataset. cbn. rewrite andb_false_r. reflexivity.
    + destruct (mem k surface_names); [discriminate|].
      destruct (String.eqb k "MultigroupSpectrum").
      * inversion Hb; subst b. cbn [bind]. unfold r_dataset in Hd. unfold p_dataset.
        destruct (reshape_ok (List.length data) (BMulti (List.length data / ng) ng)); [|discriminate].
        inversion Hd; subst. cbn. rewrite andb_false_r. reflexivity.
      * exfalso. destruct Han as [->| ->]; [discriminate|].
        unfold amap_get in Hb. cbn in Hb.
        destruct (String.eqb k "anisotropy"); rewrite Nat.mul_1_r, Es in Hb; discriminate.
Qed.

(* results of a macro / isotope group *)
Lemma group_agree gch im m ng k n d :
  1 <= ng -> NoDup (map fst gch) -> wf_info (assoc "info" gch) ->
  extract_output_info (assoc "info" gch) im = ROk m ->
  In (k, n) gch -> excluded k = false ->
  mem k picker_scalar_names = false -> k <> "nbAnisotropy" -> k <> "anisotropy" ->
  std_member m ng (k, n) = ROk [(k, d)] ->
  bind (get (Grp gch) k) (fun dd =>
  bind (size_of dd) (fun size =>
  bind (p_nb_aniso (Grp gch) k) (fun na =>
  bind (p_make_bins size k ng na) (fun b => p_dataset dd k b)))) = ROk d.
Proof.
  intros Hng Hnd Hwf He Hin Hex Hp Hk1 Hk2 Hs.
  unfold get. cbn [child]. rewrite (assoc_nodup _ _ _ Hnd Hin). cbn [bind].
  unfold std_member in Hs. cbn [fst snd] in Hs. rewrite Hex in Hs.
  apply bind_ok in Hs. destruct Hs as (size & Hsz & Hs).
  apply bind_ok in Hs. destruct Hs as (b & Hb & Hs).
  apply bind_ok in Hs. destruct Hs as (d' & Hd & Hs). inversion Hs; subst d'. clear Hs.
  rewrite Hsz. cbn [bind].
  destruct (aniso_agree gch im m k He Hwf Hk1 Hk2) as (o & Ho & Hna). rewrite Ho. cbn [bind].
  destruct n as [c|data|l]; try discriminate. cbn in Hsz. inversion Hsz; subst size. clear Hsz.
  unfold r_make_bins in Hb. rewrite (scalar_names_incl k Hp) in Hb.
  unfold p_make_bins. destruct (Nat.eqb ng 0) eqn:E0; [apply Nat.eqb_eq in E0; lia|].
  destruct (Nat.eqb ng (List.length data)) eqn:Es.
  - inversion Hb; subst b. cbn [bind]. cbn in Hd. inversion Hd; subst.
    unfold p_dataset. cbn. rewrite andb_false_r. reflexivity.
  - destruct (mem k surface_names); [discriminate|].
    destruct (String.eqb k "MultigroupSpectrum").
    + inversion Hb; subst b. cbn [bind]. unfold r_dataset in Hd. unfold p_dataset.
      destruct (reshape_ok (List.length data) (BMulti (List.length data / ng) ng)); [|discriminate].
      inversion Hd; subst. cbn. rewrite andb_false_r. reflexivity.
    + fold (reader_na m k) in Hb. destruct (reader_na m k) as [na|] eqn:Er; [|discriminate].
      destruct (Nat.eqb (ng * na) (List.length data)) eqn:Ea; [|discriminate].
      inversion Hb; subst b.
      assert (Hne : na <> 1%nat).
      { intros ->. rewrite Nat.mul_1_r in Ea. congruence. }
      rewrite (Hna na eq_refl Hne). rewrite Ea. cbn [bind].
      unfold r_dataset in Hd. unfold p_dataset.
      destruct (reshape_ok (List.length data) (BAniso na ng)); [|discriminate].
      inversion Hd; subst. cbn. rewrite andb_false_r. reflexivity.
Qed.

Lemma loop_std_in gch ng im rs k d :
  loop_std (Grp gch) ng im = ROk rs -> In (k, d) rs ->
  exists m n, extract_output_info (assoc "info" gch) im = ROk m /\ In (k, n) gch /\
              excluded k = false /\ std_member m ng (k, n) = ROk [(k, d)].
Proof.
  unfold loop_std. intros H Hin. apply bind_ok in H. destruct H as (m & Hm & H).
  destruct (collect_in _ _ _ _ H Hin) as ([k' n] & esp & Hp & Hs & He).
  exists m, n. unfold std_member in Hs. cbn [fst snd] in Hs.
  destruct (excluded k') eqn:Ex; [inversion Hs; subst; contradiction|].
  pose proof Hs as Hs'.
  apply bind_ok in Hs. destruct Hs as (size & Hsz & Hs).
  apply bind_ok in Hs. destruct Hs as (b & Hb & Hs).
  apply bind_ok in Hs. destruct Hs as (d' & Hd & Hs). inversion Hs; subst esp.
  destruct He as [He|[]]. inversion He; subst k' d'.
  repeat split; auto. unfold std_member. cbn [fst snd]. rewrite Ex. exact Hs'.
Qed.

(* concentrations *)
Lemma zip_fst_in names conc k : In k (map fst (zip_conc names conc)) -> In k names.
Proof.
  revert conc; induction names as [|n ns IH]; intros [|c cs]; cbn; try tauto.
  intros [H|H]; [left; exact H | right; eapply IH, H].
Qed.

Lemma zip_nodup names conc : NoDup names -> NoDup (map fst (zip_conc names conc)).
Proof.
  revert conc; induction names as [|n ns IH]; intros [|c cs] H; cbn; try constructor.
  - inversion H; subst. intros Hin. apply H2. eapply zip_fst_in, Hin.
  - inversion H; subst. apply IH. assumption.
Qed.

Lemma dict_of_in {V} (l : list (string * V)) k v :
  NoDup (map fst l) -> In (k, v) (dict_of l) -> In (k, v) l.
Proof.
  induction l as [|[k' v'] r IH]; cbn; intros Hnd Hin; [contradiction|].
  inversion Hnd; subst. destruct Hin as [Hin|Hin].
  - left. destruct (assoc k' (rev r)) as [v''|] eqn:E.
    + exfalso. apply assoc_some_in in E. apply in_rev in E. apply H1.
      change k' with (fst (k', v'')). apply in_map, E.
    + exact Hin.
  - right. apply filter_In in Hin. apply IH; [assumption | apply Hin].
Qed.

Lemma zip_index names conc tl nm c :
  NoDup names -> In (nm, c) (zip_conc names conc) ->
  exists i, index_of nm (names ++ tl) = Some i /\ nth_error conc i = Some c.
Proof.
  revert conc; induction names as [|n ns IH]; intros [|c0 cs] Hnd Hin; cbn in Hin; try contradiction.
  inversion Hnd; subst. destruct Hin as [Hin|Hin].
  - inversion Hin; subst. exists 0%nat. cbn. rewrite String.eqb_refl. auto.
  - destruct (IH cs H2 Hin) as (i & Hi & Hn). exists (S i). cbn.
    destruct (String.eqb nm n) eqn:E.
    + apply String.eqb_eq in E. subst n. exfalso. apply H1.
      eapply zip_fst_in. change nm with (fst (nm, c)). apply in_map, Hin.
    + rewrite Hi. auto.
Qed.

(* ---- a zone ---- *)
Lemma total_agree o z ch ng rs e :
  1 <= ng -> wf_total (Grp ch) ->
  loop_std (Grp ch) ng false = ROk rs ->
  In e (map (fun q => mk_entry o z None (lower (fst q)) (fst q) (snd q)) rs) ->
  pick_in_zone ng (Grp ch) (e_key e) (e_iso e) = ROk (e_ds e).
Proof.
  intros Hng (Hnd & Hinfo & Hsc) Hl Hin.
  apply in_map_iff in Hin. destruct Hin as ([k d] & <- & Hkd). cbn [e_key e_iso e_ds fst snd].
  destruct (loop_std_in _ _ _ _ _ _ Hl Hkd) as (m & n & Hm & Hn & Hex & Hs).
  rewrite Hinfo in Hm. cbn in Hm. inversion Hm; subst m. clear Hm.
  unfold std_member in Hs. cbn [fst snd] in Hs. rewrite Hex in Hs.
  apply bind_ok in Hs. destruct Hs as (size & Hsz & Hs).
  apply bind_ok in Hs. destruct Hs as (b & Hb & Hs).
  apply bind_ok in Hs. destruct Hs as (d' & Hd & Hs). inversion Hs; subst d'. clear Hs.
  pose proof (plain_agree k n ng _ size b d Hng (Hsc k n Hn Hex) (or_intror eq_refl) Hsz Hb Hd) as P.
  unfold pick_in_zone, get. cbn [child]. rewrite (assoc_nodup _ _ _ Hnd Hn).
  destruct (mem k picker_scalar_names); cbn [bind]; exact P.
Qed.

Lemma names_of_some ch l : names_of (assoc "ISOTOPE" ch) = ROk l -> assoc "ISOTOPE" ch = Some (Names l).
Proof. destruct (assoc "ISOTOPE" ch) as [[c|d|l']|]; cbn; intros H; inversion H; reflexivity. Qed.

Lemma arr_of_some o l : arr_of o = ROk l -> o = Some (Arr l).
Proof. destruct o as [[c|d|l']|]; cbn; intros H; inversion H; reflexivity. Qed.

Lemma zone_agree o z ch ng es e :
  1 <= ng -> wf_zone (Grp ch) ->
  zone_entries o z (Grp ch) ng = ROk es -> In e es ->
  pick_in_zone ng (Grp ch) (e_key e) (e_iso e) = ROk (e_ds e).
Proof.
  intros Hng (Hnd & Hndi & Hn0 & Hkeys) Hz Hin.
  unfold zone_entries in Hz.
  apply bind_ok in Hz. destruct Hz as (nisot & Hnisot & Hz).
  apply bind_ok in Hz. destruct Hz as (liso & Hliso & Hz).
  destruct (assoc "NISOT" ch) as [nn|] eqn:En; [|discriminate].
  assert (Hiso : isotopes_of ch = liso).
  { unfold isotopes_of. destruct (Nat.eqb nisot 0) eqn:E0.
    - apply Nat.eqb_eq in E0. subst nisot. inversion Hliso; subst liso.
      destruct (Hn0 nn eq_refl Hnisot) as [_ ->]. reflexivity.
    - apply names_of_some in Hliso. rewrite Hliso. reflexivity. }
  destruct (collect_in _ _ _ _ Hz Hin) as ([k n] & esp & Hp & Hm & He).
  specialize (Hkeys k n Hp). rewrite Hiso in Hkeys.
  unfold zone_member in Hm. cbn [fst snd] in Hm.
  destruct (String.eqb k "CONCEN") eqn:Ec.
  { (* concentrations *)
    apply String.eqb_eq in Ec. subst k.
    apply bind_ok in Hm. destruct Hm as (names & Hnames & Hm).
    apply bind_ok in Hm. destruct Hm as (conc & Hconc & Hm). inversion Hm; subst esp. clear Hm.
    apply in_map_iff in He. destruct He as ([nm c] & <- & Hnc). cbn [e_key e_iso e_ds fst snd].
    pose proof (names_of_some _ _ Hnames) as Hn'. apply arr_of_some in Hconc.
    assert (Hnn : isotopes_of ch = names).
    { unfold isotopes_of. rewrite Hn'. reflexivity. }
    assert (Hnz : Nat.eqb nisot 0 = false).
    { destruct (Nat.eqb nisot 0) eqn:E0; [|reflexivity]. apply Nat.eqb_eq in E0. subst nisot.
      destruct (Hn0 nn eq_refl Hnisot) as [Hcn _]. exfalso. eapply assoc_none; eauto. }
    assert (Hndn : NoDup names) by (rewrite <- Hnn; exact Hndi).
    apply dict_of_in in Hnc; [|apply zip_nodup, Hndn].
    destruct (zip_index names conc ["macro"] nm c Hndn Hnc) as (i & Hi & Hnth).
    unfold pick_in_zone. cbn [mem existsb picker_scalar_names]. cbn [String.eqb Ascii.eqb Bool.eqb orb].
    cbn. unfold p_isotopes, get. cbn [child]. rewrite En. cbn [bind]. rewrite Hnisot. cbn [bind].
    rewrite Hnz. rewrite Hn'. cbn [names_of bind]. rewrite Hi. rewrite Hconc. cbn [arr_of bind].
    rewrite Hnth. reflexivity. }
  destruct (String.eqb k "macro") eqn:Em.
  { apply String.eqb_eq in Em. subst k. cbn [String.eqb orb] in Hkeys.
    replace (String.eqb "macro" "macro" || mem "macro" liso) with true in Hkeys by reflexivity.
    apply bind_ok in Hm. destruct Hm as (rs & Hl & Hm). inversion Hm; subst esp. clear Hm.
    unfold group_entries in He. apply in_map_iff in He. destruct He as ([k' d'] & <- & Hkd).
    cbn [e_key e_iso e_ds fst snd].
    destruct n as [gch|?|?]; try discriminate.
    destruct Hkeys as (Hndg & Hwi & Hres).
    destruct (loop_std_in _ _ _ _ _ _ Hl Hkd) as (m & n' & Hmm & Hn' & Hex & Hs).
    destruct (Hres k' n' Hn' Hex) as (Hps & Hcc & Hnb & Han).
    unfold pick_in_zone. rewrite Hps.
    destruct (String.eqb k' "concentration") eqn:Ecc; [apply String.eqb_eq in Ecc; contradiction|].
    unfold get at 1. cbn [child]. rewrite (assoc_nodup _ _ _ Hnd Hp). cbn [bind].
    apply (group_agree gch true m ng k' n' d' Hng Hndg Hwi Hmm Hn' Hex Hps Hnb Han Hs). }
  destruct (String.eqb k "NISOT" || String.eqb k "ISOTOPE") eqn:Eni.
  { inversion Hm; subst esp. contradiction. }
  destruct (mem k liso) eqn:Eli.
  { cbn [orb] in Hkeys.
    apply bind_ok in Hm. destruct Hm as (rs & Hl & Hm). inversion Hm; subst esp. clear Hm.
    unfold group_entries in He. apply in_map_iff in He. destruct He as ([k' d'] & <- & Hkd).
    cbn [e_key e_iso e_ds fst snd].
    destruct n as [gch|?|?]; try discriminate.
    destruct Hkeys as (Hndg & Hwi & Hres).
    destruct (loop_std_in _ _ _ _ _ _ Hl Hkd) as (m & n' & Hmm & Hn' & Hex & Hs).
    destruct (Hres k' n' Hn' Hex) as (Hps & Hcc & Hnb & Han).
    unfold pick_in_zone. rewrite Hps.
    destruct (String.eqb k' "concentration") eqn:Ecc; [apply String.eqb_eq in Ecc; contradiction|].
    unfold get at 1. cbn [child]. rewrite (assoc_nodup _ _ _ Hnd Hp). cbn [bind].
    apply (group_agree gch false m ng k' n' d' Hng Hndg Hwi Hmm Hn' Hex Hps Hnb Han Hs). }
  (* a result stored directly in the zone *)
  cbn [orb] in Hkeys. rewrite Eni in Hkeys.
  apply bind_ok in Hm. destruct Hm as (size & Hsz & Hm).
  apply bind_ok in Hm. destruct Hm as (b & Hb & Hm).
  apply bind_ok in Hm. destruct Hm as (d & Hd & Hm). inversion Hm; subst esp. clear Hm.
  destruct He as [<-|[]]. cbn [e_key e_iso e_ds].
  pose proof (plain_agree k n ng None size b d Hng Hkeys (or_introl eq_refl) Hsz Hb Hd) as P.
  unfold pick_in_zone, get. cbn [child]. rewrite (assoc_nodup _ _ _ Hnd Hp).
  destruct (mem k picker_scalar_names); cbn [bind]; exact P.
Qed.

(* ---- the whole file ---- *)
Theorem reader_picker_agree (f : file) (es : list entry) :
  wf_file f -> reader f = ROk es ->
  forall e, In e es ->
    pick f (e_out e) (e_zone e) (e_key e) (e_iso e) = ROk (e_ds e).
Proof.
  intros [Hndf Hwf] Hr e He. unfold reader in Hr.
  destruct (collect_in _ _ _ _ Hr He) as ([[o ng] out] & eso & Hpo & Hout & Heo).
  cbn [fst snd] in Hout. destruct (Hwf o ng out Hpo) as [Hng Hwo].
  unfold output_entries in Hout. destruct out as [zones|?|?]; try discriminate.
  destruct Hwo as [Hndz Hwz].
  destruct (collect_in _ _ _ _ Hout Heo) as ([z zn] & esz & Hpz & Hz & Hez).
  specialize (Hwz z zn Hpz). unfold output_member in Hz. cbn [fst snd] in Hz.
  assert (Hlab : e_out e = o /\ e_zone e = z).
  { destruct (String.eqb z "totaloutput").
    - apply bind_ok in Hz. destruct Hz as (rs & _ & Hz). inversion Hz; subst esz.
      apply in_map_iff in Hez. destruct Hez as (q & <- & _). split; reflexivity.
    - unfold zone_entries in Hz. destruct zn as [ch|?|?]; try discriminate.
      apply bind_ok in Hz. destruct Hz as (nisot & _ & Hz).
      apply bind_ok in Hz. destruct Hz as (liso & _ & Hz).
      destruct (collect_in _ _ _ _ Hz Hez) as ([k n] & esp & _ & Hm & He').
      unfold zone_member in Hm. cbn [fst snd] in Hm.
      repeat match type of Hm with
             | (if ?c then _ else _) = _ => destruct c
             end;
        repeat (match type of Hm with
                | bind _ _ = ROk _ => apply bind_ok in Hm; destruct Hm as (? & ? & Hm)
                end);
        inversion Hm; subst esp; try contradiction;
        try (unfold group_entries in He'); try (apply in_map_iff in He'; destruct He' as (q & <- & _));
        try (destruct He' as [<-|[]]); split; reflexivity. }
  destruct Hlab as [-> ->].
  unfold pick. rewrite (lookup_output_in f o ng (Grp zones) Hndf Hpo). cbn [bind fst snd].
  unfold get at 1. cbn [child]. rewrite (assoc_nodup _ _ _ Hndz Hpz). cbn [bind].
  destruct (String.eqb z "totaloutput").
  - apply bind_ok in Hz. destruct Hz as (rs & Hl & Hz). inversion Hz; subst esz.
    destruct zn as [ch|?|?]; try discriminate.
    apply (total_agree o z ch ng rs e Hng Hwz Hl Hez).
  - destruct zn as [ch|?|?]; try discriminate.
    apply (zone_agree o z ch ng esz e Hng Hwz Hz Hez).
Qed.

(* ---- a boolean check of well-formedness (used on every generated tree) ---- *)
Fixpoint nodupb (l : list string) : bool :=
  match l with [] => true | x :: r => negb (mem x r) && nodupb r end.

Lemma mem_false_notin x l : mem x l = false -> ~ In x l.
Proof.
  unfold mem. induction l as [|y r IH]; cbn; intros H Hin; [exact Hin|].
  apply orb_false_iff in H. destruct H as [H1 H2]. destruct Hin as [->|Hin].
  - rewrite String.eqb_refl in H1. discriminate.
  - apply IH; assumption.
Qed.

Lemma nodupb_sound l : nodupb l = true -> NoDup l.
Proof.
  induction l as [|x r IH]; cbn; intros H; [constructor|].
  apply andb_true_iff in H. destruct H as [H1 H2]. apply negb_true_iff in H1.
  constructor; [apply mem_false_notin, H1 | apply IH, H2].
Qed.

Definition neqb (a b : string) : bool := negb (String.eqb a b).
Lemma neqb_sound a b : neqb a b = true -> a <> b.
Proof. unfold neqb. intros H ->. rewrite String.eqb_refl in H. discriminate. Qed.

Definition scalar_okb (k : string) (n : node) : bool :=
  if mem k picker_scalar_names
  then mem k scalar_names && match n with Arr [_] => true | _ => false end
  else true.

Lemma scalar_okb_sound k n : scalar_okb k n = true -> scalar_ok k n.
Proof.
  unfold scalar_okb, scalar_ok. intros H Hp. rewrite Hp in H.
  apply andb_true_iff in H. destruct H as [H1 H2]. split; [exact H1|].
  destruct n as [c|[|v [|w r]]|l]; try discriminate. eauto.
Qed.

Definition wf_infob (info : option node) : bool :=
  match info with
  | Some (Grp ich) =>
      nodupb (map fst ich)
      && forallb (fun p : string * node =>
                    match snd p with
                    | Grp c2 => nodupb (map fst c2) && negb (Nat.eqb (List.length c2) 0)
                                && neqb (fst p) "nbAnisotropy" && neqb (fst p) "anisotropy"
                    | _ => true
                    end) ich
  | _ => true
  end.

Lemma wf_infob_sound info : wf_infob info = true -> wf_info info.
Proof.
  destruct info as [[ich|d|l]|]; cbn; try (intros; exact I).
  intros H. apply andb_true_iff in H. destruct H as [H1 H2]. split; [apply nodupb_sound, H1|].
  intros r sub Hin. rewrite forallb_forall in H2. specialize (H2 (r, sub) Hin). cbn [fst snd] in H2.
  destruct sub as [c2|?|?]; try exact I.
  repeat (apply andb_true_iff in H2; destruct H2 as [H2 ?]).
  split; [apply nodupb_sound, H2|]. split; [intros ->; discriminate|].
  split; apply neqb_sound; assumption.
Qed.

Definition wf_groupb (g : node) : bool :=
  match g with
  | Grp gch =>
      nodupb (map fst gch) && wf_infob (assoc "info" gch)
      && forallb (fun p : string * node =>
                    excluded (fst p)
                    || (negb (mem (fst p) picker_scalar_names) && neqb (fst p) "concentration"
                        && neqb (fst p) "nbAnisotropy" && neqb (fst p) "anisotropy")) gch
  | _ => true
  end.

Lemma wf_groupb_sound g : wf_groupb g = true -> wf_group g.
Proof.
  destruct g as [gch|?|?]; cbn; try (intros; exact I).
  intros H. repeat (apply andb_true_iff in H; destruct H as [H ?]).
  split; [apply nodupb_sound, H|]. split; [apply wf_infob_sound; assumption|].
  intros k n Hin Hex. rewrite forallb_forall in H0. specialize (H0 (k, n) Hin). cbn [fst] in H0.
  rewrite Hex in H0. cbn [orb] in H0. repeat (apply andb_true_iff in H0; destruct H0 as [H0 ?]).
  split; [apply negb_true_iff, H0|]. repeat split; apply neqb_sound; assumption.
Qed.

Definition wf_totalb (g : node) : bool :=
  match g with
  | Grp ch =>
      nodupb (map fst ch)
      && match assoc "info" ch with None => true | Some _ => false end
      && forallb (fun p : string * node => excluded (fst p) || scalar_okb (fst p) (snd p)) ch
  | _ => true
  end.

Lemma wf_totalb_sound g : wf_totalb g = true -> wf_total g.
Proof.
  destruct g as [ch|?|?]; cbn; try (intros; exact I).
  intros H. repeat (apply andb_true_iff in H; destruct H as [H ?]).
  split; [apply nodupb_sound, H|]. split; [destruct (assoc "info" ch); [discriminate | reflexivity]|].
  intros k n Hin Hex. rewrite forallb_forall in H0. specialize (H0 (k, n) Hin). cbn [fst snd] in H0.
  rewrite Hex in H0. apply scalar_okb_sound, H0.
Qed.

Definition wf_zoneb (g : node) : bool :=
  match g with
  | Grp ch =>
      nodupb (map fst ch) && nodupb (isotopes_of ch)
      && match assoc "NISOT" ch with
         | Some n => match first_int n with
                     | ROk 0%nat => match assoc "CONCEN" ch, assoc "ISOTOPE" ch with
                                    | None, None => true
                                    | _, _ => false
                                    end
                     | _ => true
                     end
         | None => true
         end
      && forallb (fun p : string * node =>
                    if String.eqb (fst p) "macro" || mem (fst p) (isotopes_of ch) then wf_groupb (snd p)
                    else if String.eqb (fst p) "CONCEN" || String.eqb (fst p) "NISOT"
                            || String.eqb (fst p) "ISOTOPE" then true
                    else scalar_okb (fst p) (snd p)) ch
  | _ => true
  end.

Lemma wf_zoneb_sound g : wf_zoneb g = true -> wf_zone g.
Proof.
  destruct g as [ch|?|?]; cbn [wf_zoneb wf_zone]; try (intros; exact I).
  intros H. repeat (apply andb_true_iff in H; destruct H as [H ?]).
  split; [apply nodupb_sound, H|]. split; [apply nodupb_sound; assumption|]. split.
  - intros n Hn Hf. rewrite Hn, Hf in H1.
    destruct (assoc "CONCEN" ch), (assoc "ISOTOPE" ch); try discriminate. split; reflexivity.
  - intros k n Hin. rewrite forallb_forall in H0. specialize (H0 (k, n) Hin). cbn [fst snd] in H0.
    destruct (String.eqb k "macro" || mem k (isotopes_of ch)); [apply wf_groupb_sound, H0|].
    destruct (String.eqb k "CONCEN" || String.eqb k "NISOT" || String.eqb k "ISOTOPE"); [exact I|].
    apply scalar_okb_sound, H0.
Qed.

Definition wf_fileb (f : file) : bool :=
  nodupb (map (fun p : string * nat * node => fst (fst p)) f)
  && forallb (fun p : string * nat * node =>
                Nat.leb 1 (snd (fst p))
                && match snd p with
                   | Grp zones =>
                       nodupb (map fst zones)
                       && forallb (fun q : string * node =>
                                     if String.eqb (fst q) "totaloutput" then wf_totalb (snd q)
                                     else wf_zoneb (snd q)) zones
                   | _ => true
                   end) f.

Theorem wf_fileb_sound f : wf_fileb f = true -> wf_file f.
Proof.
  unfold wf_fileb, wf_file. intros H. apply andb_true_iff in H. destruct H as [H1 H2].
  split; [apply nodupb_sound, H1|].
  intros o ng out Hin. rewrite forallb_forall in H2. specialize (H2 (o, ng, out) Hin).
  cbn [fst snd] in H2. apply andb_true_iff in H2. destruct H2 as [Hng H2].
  split; [apply Nat.leb_le, Hng|]. destruct out as [zones|?|?]; try exact I.
  apply andb_true_iff in H2. destruct H2 as [H2 H3]. split; [apply nodupb_sound, H2|].
  intros z zn Hz. rewrite forallb_forall in H3. specialize (H3 (z, zn) Hz). cbn [fst snd] in H3.
  destruct (String.eqb z "totaloutput"); [apply wf_totalb_sound, H3 | apply wf_zoneb_sound, H3].
Qed.

(* the form used by the per-run check: the tree passes the boolean check and
   the model Reader succeeds, hence every listed result is what Picker returns *)
Corollary reader_picker_agree_checked (f : file) (es : list entry) :
  wf_fileb f = true -> reader f = ROk es ->
  forall e, In e es -> pick f (e_out e) (e_zone e) (e_key e) (e_iso e) = ROk (e_ds e).
Proof. intros H. apply reader_picker_agree, wf_fileb_sound, H. Qed.

(* The hypotheses of the C10 theorems are met by concrete data. *)
From Coq Require Import List ZArith Bool Arith Lia String.
From VV Require Import C10.Model C10.Proofs C10.Apollo C10.ApolloProofs.
Import ListNotations.
Local Open Scope Z_scope.

(* model B with integer bounds: two time steps printed downwards, three groups
   printed downwards (the layout of gauss_E_time_mu_phi.res.ceav5) *)
Definition rows_a : list (Z * Z * (Z * Z)) := [(20, 15, (1, 10)); (15, 10, (2, 20)); (10, 0, (3, 30))].
Definition rows_b : list (Z * Z * (Z * Z)) := [(20, 15, (4, 40)); (15, 10, (5, 50)); (10, 0, (6, 60))].
Definition s_a : step Z (Z * Z) := mk_step 4 100 rows_a (Some (7, 70)).
Definition s_b : step Z (Z * Z) := mk_step 0 4 rows_b None.

Example plane_example :
  build_plane Z.ltb true [s_a; s_b]
  = mk_plane [0; 10; 15; 20] [0; 4; 100]
             [[(6, 60); (5, 50); (4, 40)]; [(3, 30); (2, 20); (1, 10)]]
             [None; Some (7, 70)] [0; 20].
Proof. reflexivity. Qed.

Lemma zltb_asym x y : Z.ltb x y = true -> Z.ltb y x = false.
Proof. intros H. apply Z.ltb_lt in H. apply Z.ltb_ge. lia. Qed.

Example plane_hypotheses_hold :
  let p := build_plane Z.ltb true [s_a; s_b] in
  adjacent_lt Z.ltb (p_ebins p) /\ adjacent_lt Z.ltb (p_tbins p).
Proof.
  pose proof (plane_attached Z.ltb zltb_asym s_a [s_b]) as H. cbn zeta in H.
  assert (H' := H ltac:(discriminate)). clear H.
  destruct H' as (A & B & _).
  - intros s [<-|[<-|[]]]; repeat split; reflexivity.
  - right. intros c [<-|[<-|[<-|[]]]]; reflexivity.
  - right. repeat split; [cbn; lia|]. intros s [<-|[<-|[]]]; reflexivity.
  - split; assumption.
Qed.

(* model C: a small standard-layout file *)
Local Open Scope string_scope.
Definition file1 : file :=
  [("output_0", 2%nat,
    Grp [("fuel0", Grp [("CONCEN", Arr [11; 12]); ("FLUX", Arr [1; 2]);
                        ("ISOTOPE", Names ["U235"; "U238"]); ("NISOT", Arr [2]);
                        ("U235", Grp [("Absorption", Arr [3; 4]); ("Diffusion", Arr [5; 6; 7; 8]);
                                      ("info", Grp [("nbAnisotropy", Arr [2])])]);
                        ("macro", Grp [("Diffusion", Arr [5; 6; 7; 8; 9; 10]); ("Total", Arr [1; 1]);
                                       ("info", Grp [("Diffusion", Grp [("nbAnisotropy", Arr [3])])])])]);
         ("totaloutput", Grp [("FLUX", Arr [7; 8]); ("KEFF", Arr [9])])])].

Example file1_reader : option_map (@List.length entry) (match reader file1 with ROk es => Some es | RErr _ => None end)
                       = Some 9%nat.
Proof. vm_compute. reflexivity. Qed.

Example file1_pick :
  pick file1 "output_0" "fuel0" "Diffusion" (Some "macro")
  = ROk (mk_dset false [5; 6; 7; 8; 9; 10] (BAniso 3 2) "diffusion").
Proof. vm_compute. reflexivity. Qed.

Example file1_wf : wf_file file1.
Proof. apply wf_fileb_sound. vm_compute. reflexivity. Qed.

Example file1_agree :
  forall es, reader file1 = ROk es ->
  forall e, In e es -> pick file1 (e_out e) (e_zone e) (e_key e) (e_iso e) = ROk (e_ds e).
Proof. intros es. apply reader_picker_agree, file1_wf. Qed.

(* ---- text level: a document with the generator's layouts (two time steps
   printed downwards, groups printed downwards, a NOT YET CONVERGED step, a
   spectrum without time steps, a generic response, a keff block) ---- *)
From VV Require Import C11.Pystr C10.Text C10.TextProofs.

Definition tx_row (a b s g l : string) : drow := mk_drow (lit a) (lit b) (lit s) (lit g) (lit l).
Definition tx_rows1 := [tx_row "20" "15" "1" "10" "7"; tx_row "15" "10" "2" "20" "7"; tx_row "10" "0" "3" "30" "7"].
Definition tx_rows2 := [tx_row "20" "15" "4" "40" "7"; tx_row "15" "10" "5" "50" "7"; tx_row "10" "0" "6" "60" "7"].
Definition tx_s1 := mk_dstep (Some (lit "0", lit "4", lit "100")) (lit "12") tx_rows1
                             (Some (mk_dinteg (lit "12") (Some (lit "50", lit "7", lit "70")))).
Definition tx_s2 := mk_dstep (Some (lit "1", lit "0", lit "4")) (lit "12") tx_rows2 (Some (mk_dinteg (lit "12") None)).
Definition tx_s3 := mk_dstep None (lit "12") [tx_row "1" "2" "-0.5e+01" "0.25" "7"; tx_row "2" "9" "0" "0" "7"]
                             (Some (mk_dinteg (lit "12") (Some (lit "50", lit "3", lit "1")))).
Definition tx_z1 := mk_dzone (lit "SCORE_TRACK") (lit "3") [tx_s1; tx_s2].
Definition tx_z2 := mk_dzone (lit "SCORE_COLL") (lit "8") [tx_s3].
Definition tx_keff := mk_dkeff (lit "50") ((lit "1.0", lit "0.1"), (lit "1.1", lit "0.2"), (lit "0.9", lit "0.3"))
                               ((lit "0.5", lit "1.0", lit "0.1"), (lit "-0.5", lit "1.0", lit "0.1"),
                                (lit "0.1", lit "1.0", lit "0.1")) (lit "1.0", lit "0.05").
Definition tx_doc := mk_doc (lit "200")
  [mk_dresp [lit "FLUX"] [ARespName [lit "resp_0"]; ADecoupage [lit "DEC_0"]] (BZones [tx_z1; tx_z2]);
   mk_dresp [lit "TOTAL"; lit "FISSION"; lit "RATE"] [] (BGeneric (lit "50") (lit "1.5e-03") (lit "2.0"));
   mk_dresp [lit "KEFFS"] [] (BKeff tx_keff)] (lit "217").

Example tx_doc_wf : wf_doc tx_doc.
Proof. vm_compute. reflexivity. Qed.

(* the parser reads the printed text back, by evaluation (not through the theorem) *)
Example tx_doc_round_trip : parse_block (print_block tx_doc) = Some tx_doc.
Proof. vm_compute. reflexivity. Qed.

(* numerals read as integers where they are integers: the hypothesis
   [zone_ordered] of the text-to-dataset theorem holds for the zone printed by
   time steps and for the zone without time steps *)
Definition tx_num (s : str) : Z := match py_int s with Some z => z | None => 0 end.

Example tx_zones : map snd (zones_of tx_doc) = [tx_z1; tx_z2].
Proof. reflexivity. Qed.

Example tx_z1_ordered : zone_ordered tx_num Z.ltb tx_z1.
Proof.
  unfold zone_ordered. cbn [msteps tx_z1 z_steps map with_time tx_s1 s_time]. split.
  - split; [vm_compute; discriminate|]. split.
    + intros s [<-|[<-|[]]]; repeat split; vm_compute; reflexivity.
    + right. intros c Hc. vm_compute in Hc. destruct Hc as [<-|[<-|[<-|[]]]]; reflexivity.
  - right. split; [vm_compute; auto|]. split; [cbn; lia|].
    intros s [<-|[<-|[]]]; reflexivity.
Qed.

Example tx_z2_ordered : zone_ordered tx_num Z.ltb tx_z2.
Proof.
  unfold zone_ordered. cbn [msteps tx_z2 z_steps map with_time tx_s3 s_time]. split; [|reflexivity].
  split; [vm_compute; discriminate|]. split.
  - intros s [<-|[]]; repeat split; vm_compute; reflexivity.
  - left. intros c Hc. vm_compute in Hc. destruct Hc as [<-|[<-|[]]]; reflexivity.
Qed.

(* the plane computed from the text of the first zone *)
Example tx_z1_plane :
  text_plane tx_num Z.ltb tx_z1
  = mk_plane [0; 10; 15; 20] [0; 4; 100]
             [[(6, 60); (5, 50); (4, 40)]; [(3, 30); (2, 20); (1, 10)]]
             [None; Some (7, 70)] [0; 20].
Proof. vm_compute. reflexivity. Qed.

(* The hypotheses of the C10 theorems are met by concrete data. *)
From Coq Require Import List ZArith Bool Arith Lia String.
From VV Require Import C10.Model C10.Proofs C10.Apollo C10.ApolloProofs.
Import ListNotations.
Local Open Scope Z_scope.

(* model B with integer bounds: two time steps printed downwards, three groups
   printed downwards (the layout of gauss_E_time_mu_phi.res.ceav5) *)
Definition rows_a : list (Z * Z * (Z * Z)) := [(20, 15, (1, 10)); (15, 10, (2, 20)); (10, 0, (3, 30))].
Definition rows_b : list (Z * Z * (Z * Z)) := [(20, 15, (4, 40)); (15, 10, (5, 50)); (10, 0, (6, 60))].
Definition s_a : step Z (Z * Z) := mk_step 4 100 rows_a (Some (7, 70)).
Definition s_b : step Z (Z * Z) := mk_step 0 4 rows_b None.

Example plane_example :
  build_plane Z.ltb true [s_a; s_b]
  = mk_plane [0; 10; 15; 20] [0; 4; 100]
             [[(6, 60); (5, 50); (4, 40)]; [(3, 30); (2, 20); (1, 10)]]
             [None; Some (7, 70)] [0; 20].
Proof. reflexivity. Qed.

Lemma zltb_asym x y : Z.ltb x y = true -> Z.ltb y x = false.
Proof. intros H. apply Z.ltb_lt in H. apply Z.ltb_ge. lia. Qed.

Example plane_hypotheses_hold :
  let p := build_plane Z.ltb true [s_a; s_b] in
  adjacent_lt Z.ltb (p_ebins p) /\ adjacent_lt Z.ltb (p_tbins p).
Proof.
  pose proof (plane_attached Z.ltb zltb_asym s_a [s_b]) as H. cbn zeta in H.
  assert (H' := H ltac:(discriminate)). clear H.
  destruct H' as (A & B & _).
  - intros s [<-|[<-|[]]]; repeat split; reflexivity.
  - right. intros c [<-|[<-|[<-|[]]]]; reflexivity.
  - right. repeat split; [cbn; lia|]. intros s [<-|[<-|[]]]; reflexivity.
  - split; assumption.
Qed.

(* model C: a small standard-layout file *)
Local Open Scope string_scope.
Definition file1 : file :=
  [("output_0", 2%nat,
    Grp [("fuel0", Grp [("CONCEN", Arr [11; 12]); ("FLUX", Arr [1; 2]);
                        ("ISOTOPE", Names ["U235"; "U238"]); ("NISOT", Arr [2]);
                        ("U235", Grp [("Absorption", Arr [3; 4]); ("Diffusion", Arr [5; 6; 7; 8]);
                                      ("info", Grp [("nbAnisotropy", Arr [2])])]);
                        ("macro", Grp [("Diffusion", Arr [5; 6; 7; 8; 9; 10]); ("Total", Arr [1; 1]);
                                       ("info", Grp [("Diffusion", Grp [("nbAnisotropy", Arr [3])])])])]);
         ("totaloutput", Grp [("FLUX", Arr [7; 8]); ("KEFF", Arr [9])])])].

Example file1_reader : option_map (@List.length entry) (match reader file1 with ROk es => Some es | RErr _ => None end)
                       = Some 9%nat.
Proof. vm_compute. reflexivity. Qed.

Example file1_pick :
  pick file1 "output_0" "fuel0" "Diffusion" (Some "macro")
  = ROk (mk_dset false [5; 6; 7; 8; 9; 10] (BAniso 3 2) "diffusion").
Proof. vm_compute. reflexivity. Qed.

Example file1_wf : wf_file file1.
Proof. apply wf_fileb_sound. vm_compute. reflexivity. Qed.

Example file1_agree :
  forall es, reader file1 = ROk es ->
  forall e, In e es -> pick file1 (e_out e) (e_zone e) (e_key e) (e_iso e) = ROk (e_ds e).
Proof. intros es. apply reader_picker_agree, file1_wf. Qed.

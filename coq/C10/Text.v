(* C10, text level: the TEXT of one edition block of a Tripoli-4 listing (what
   the scanner hands to the pyparsing grammar: from "RESULTS ARE GIVEN FOR
   SOURCE INTENSITY" to "simulation time") for the response layouts that
   harness/c10.py generates:

     - spectrum (SPECTRUM RESULTS + rows "a - b  score  sigma%  score/leth"),
       optionally by TIME STEPs, each followed by its ENERGY INTEGRATED
       RESULTS ("number of batches used: n score sigma" or NOT YET CONVERGED);
     - generic energy-integrated response;
     - the KEFFS block (three estimators, three correlations, full combination).

   [print_block] is the printer (the same text as the Python generator: the
   driver checks [print_block d = text] on every generated edition);
   [parse_block] is a hand-written total parser for exactly these layouts:
   text -> lines -> tokens (str.split) -> line kinds -> recursive descent over
   the line kinds.  pyparsing is NOT modelled; the driver compares what this
   parser extracts with what the real grammar extracted.

   A numeral is its string: float() is not modelled. *)
From Coq Require Import List Bool Arith Lia Ascii String NArith.
From VV Require Import C11.Pystr.
Import ListNotations.
Local Open Scope string_scope.
Local Open Scope list_scope.

(* ------------------------------------------------------------------ *)
(* documents *)

Record drow := mk_drow { r_a : str; r_b : str; r_score : str; r_sigma : str; r_leth : str }.

(* ENERGY INTEGRATED RESULTS of a spectrum: discarded batches, and
   (used batches, score, sigma%) or None = NOT YET CONVERGED *)
Record dinteg := mk_dinteg { i_disc : str; i_res : option (str * str * str) }.

Record dstep := mk_dstep {
  s_time : option (str * str * str);      (* TIME STEP NUMBER, time min., time max. *)
  s_disc : str;
  s_rows : list drow;
  s_integ : option dinteg }.

Record dzone := mk_dzone { z_mode : str; z_vol : str; z_steps : list dstep }.

Inductive attr := ARespName (ws : list str) | AScoreName (ws : list str) | ADecoupage (ws : list str).

Record dkeff := mk_dkeff {
  k_used : str;
  k_est : (str * str) * (str * str) * (str * str);                  (* KSTEP, KCOLL, KTRACK: value, sigma% *)
  k_corr : (str * str * str) * (str * str * str) * (str * str * str); (* correlation, combined value, sigma% *)
  k_full : str * str }.

Inductive dbody :=
| BZones (zs : list dzone)
| BGeneric (used score sigma : str)
| BKeff (k : dkeff).

Record dresp := mk_dresp { rs_function : list str; rs_attrs : list attr; rs_body : dbody }.

Record doc_block := mk_doc { d_batch : str; d_resps : list dresp; d_time : str }.

(* what the parser returns has the shape of the document *)
Definition block_rows := doc_block.
Definition rows_of (d : doc_block) : block_rows := d.

(* ------------------------------------------------------------------ *)
(* printer *)

Definition nl : ascii := "010"%char.
Definition tb : str := ["009"%char].

Fixpoint join_sp (ws : list str) : str :=
  match ws with
  | [] => []
  | [w] => w
  | w :: r => w ++ lit " " ++ join_sp r
  end.

Definition stars78 : str := lit "******************************************************************************".
Definition stars57 : str := lit "*********************************************************".

Definition group_header : str :=
  tb ++ lit " group (MeV) " ++ tb ++ tb ++ lit " score   " ++ tb ++ lit " sigma_% " ++ tb ++ lit " score/lethargy".
Definition source_line : str := lit " RESULTS ARE GIVEN FOR SOURCE INTENSITY : 1.000000e+00".
Definition leakage_line : str :=
  lit " Mean weight leakage = 7.111140e+02" ++ tb ++ lit " sigma = 4.388024e+00" ++ tb ++ lit " sigma% = 6.170634e-01".
Definition particule_line : str := lit " PARTICULE : NEUTRON ".
Definition volume_line : str := tb ++ lit " Volume in cm3: 1.000000e+00".
Definition dashes_line : str := tb ++ lit " ------------------------------------".
Definition spectrum_head : str := tb ++ lit " SPECTRUM RESULTS".
Definition integ_head : str := tb ++ lit " ENERGY INTEGRATED RESULTS".
Definition integ_head2 : str := tb ++ lit "ENERGY INTEGRATED RESULTS".
Definition notconv_line : str := tb ++ lit " NOT YET CONVERGED ".

Definition row_line (r : drow) : str :=
  r_a r ++ lit " - " ++ r_b r ++ tb ++ r_score r ++ tb ++ r_sigma r ++ tb ++ r_leth r.

Definition discarded_line (d : str) : str := tb ++ lit " number of first discarded batches : " ++ d.

Definition integ_lines (i : dinteg) : list str :=
  [integ_head; []; discarded_line (i_disc i); []]
  ++ match i_res i with
     | None => [notconv_line; []]
     | Some (u, s, g) => [lit "number of batches used: " ++ u ++ tb ++ s ++ tb ++ g; []]
     end
  ++ [[]].

Definition time_lines (t : str * str * str) : list str :=
  let '(k, a, b) := t in
  [tb ++ lit " TIME STEP NUMBER : " ++ k;
   dashes_line;
   tb ++ tb ++ lit " time min. = " ++ a;
   tb ++ tb ++ lit " time max. = " ++ b;
   []].

Definition spectrum_lines (d : str) (rs : list drow) : list str :=
  [spectrum_head; discarded_line d; []; group_header; []]
  ++ map row_line rs ++ [[]].

Definition step_lines (s : dstep) : list str :=
  match s_time s with Some t => time_lines t | None => [] end
  ++ spectrum_lines (s_disc s) (s_rows s)
  ++ match s_integ s with Some i => integ_lines i | None => [] end.

Definition zone_lines (z : dzone) : list str :=
  [tb ++ lit " scoring mode : " ++ z_mode z;
   tb ++ lit " scoring zone : " ++ tb ++ lit " Volume " ++ tb ++ lit " num of volume : " ++ z_vol z;
   volume_line; []; []]
  ++ flat_map step_lines (z_steps z) ++ [[]].

Definition attr_line (a : attr) : str :=
  match a with
  | ARespName ws => lit "RESPONSE NAME : " ++ join_sp ws
  | AScoreName ws => lit "SCORE NAME : " ++ join_sp ws
  | ADecoupage ws => lit "ENERGY DECOUPAGE NAME : " ++ join_sp ws
  end.

Definition function_line (f : list str) : str := lit "RESPONSE FUNCTION : " ++ join_sp f.

Definition corr_line (n1 n2 : string) (c : str * str * str) : str :=
  let '(x, v, s) := c in
  lit "  " ++ tb ++ lit "  " ++ lit n1 ++ lit " <-> " ++ lit n2 ++ lit "  " ++ tb ++ lit "    " ++ tb
  ++ lit "  " ++ x ++ lit "  " ++ tb ++ lit "  " ++ v ++ lit "  " ++ tb ++ lit "  " ++ s.

Definition estimators_header : str :=
  lit "  " ++ tb ++ lit "  estimators  " ++ tb ++ tb ++ tb ++ lit "  correlations   " ++ tb
  ++ lit "  combined values  " ++ tb ++ lit "  combined sigma%".

Definition keff_lines (k : dkeff) : list str :=
  let '(e0, e1, e2) := k_est k in
  let '(c0, c1, c2) := k_corr k in
  [integ_head2; [];
   lit "number of batches used:" ++ tb ++ k_used k; [];
   lit " KSTEP  " ++ fst e0 ++ tb ++ snd e0;
   lit " KCOLL  " ++ fst e1 ++ tb ++ snd e1;
   lit " KTRACK " ++ fst e2 ++ tb ++ snd e2; [];
   estimators_header;
   corr_line "KSTEP" "KCOLL" c0;
   corr_line "KSTEP" "KTRACK" c1;
   corr_line "KCOLL" "KTRACK" c2; [];
   lit "  " ++ tb ++ lit "  full combined estimator  " ++ fst (k_full k) ++ tb ++ snd (k_full k);
   []; []; []].

Definition resp_lines (r : dresp) : list str :=
  match rs_body r with
  | BZones zs =>
      [[]; []; stars78; function_line (rs_function r)] ++ map attr_line (rs_attrs r)
      ++ [[]; []; particule_line; stars78; []]
      ++ flat_map zone_lines zs
  | BGeneric u s g =>
      [[]; stars78; function_line (rs_function r)] ++ map attr_line (rs_attrs r)
      ++ [stars78; []; integ_head2; [];
          lit "number of batches used:" ++ tb ++ u ++ tb ++ s ++ tb ++ g; []; []]
  | BKeff k =>
      [[]; stars78; function_line (rs_function r)] ++ map attr_line (rs_attrs r)
      ++ [stars78; []] ++ keff_lines k
  end.

Definition block_lines (d : doc_block) : list str :=
  [source_line; stars57; []; []; leakage_line; []; [];
   lit " Edition after batch number : " ++ d_batch d; []]
  ++ flat_map resp_lines (d_resps d)
  ++ [[]; lit " simulation time (s) : " ++ d_time d].

(* every line with its terminator, as in the block kept by the scanner *)
Definition unlines (ls : list str) : str := flat_map (fun l => l ++ [nl]) ls.

Definition print_block (d : doc_block) : str := unlines (block_lines d).

(* ------------------------------------------------------------------ *)
(* text -> lines -> tokens -> line kinds *)

Fixpoint lines_aux (cur_rev : str) (s : str) : list str :=
  match s with
  | [] => match cur_rev with [] => [] | _ => [rev cur_rev] end
  | c :: r => if is_nl c then rev cur_rev :: lines_aux [] r else lines_aux (c :: cur_rev) r
  end.
Definition lines_of (s : str) : list str := lines_aux [] s.

(* decimal numerals: non-empty, over [0-9+-.eE], with a digit *)
Definition num_char (c : ascii) : bool :=
  is_digit c || (let n := code c in (n =? 43) || (n =? 45) || (n =? 46) || (n =? 101) || (n =? 69))%N.
Definition is_num (s : str) : bool := forallb num_char s && existsb is_digit s.

Definition is_dash (s : str) : bool := str_eqb s (lit "-").

Definition all_char (n : N) (s : str) : bool :=
  match s with [] => false | _ => forallb (fun c => (code c =? n)%N) s end.

Inductive lk :=
| LEdition (n : str) | LSimTime (n : str)
| LRespFunction (ws : list str) | LAttr (a : attr)
| LScoringMode (m : str) | LScoringZone (n : str)
| LTimeStep (n : str) | LTimeMin (x : str) | LTimeMax (x : str)
| LSpectrum | LDiscarded (n : str) | LRow (r : drow)
| LIntegHead | LUsed (ws : list str) | LNotConv
| LKeffEst (i : nat) (v s : str) | LCorr (i : nat) (c v s : str) | LFull (v s : str)
| LNoise | LBad.

(* the tokens start with these keywords: the remaining tokens *)
Fixpoint strip (kws : list string) (t : list str) : option (list str) :=
  match kws, t with
  | [], _ => Some t
  | k :: kr, x :: tr => if str_eqb x (lit k) then strip kr tr else None
  | _ :: _, [] => None
  end.

Definition none (k : lk) (r : list str) : lk := match r with [] => k | _ => LBad end.
Definition one (k : str -> lk) (r : list str) : lk := match r with [x] => k x | _ => LBad end.
Definition two (k : str -> str -> lk) (r : list str) : lk := match r with [x; y] => k x y | _ => LBad end.
Definition noise (r : list str) : lk := LNoise.

(* KSTEP v s  |  KSTEP <-> KCOLL c v s *)
Definition keff_rule (i : nat) (others : list (string * nat)) (r : list str) : lk :=
  match r with
  | [v; s] => LKeffEst i v s
  | [arrow; k2; c; v; s] =>
      if str_eqb arrow (lit "<->") then
        match find (fun o => str_eqb k2 (lit (fst o))) others with
        | Some o => LCorr (snd o) c v s
        | None => LBad
        end
      else LBad
  | _ => LBad
  end.

Definition rules : list (list string * (list str -> lk)) :=
  [(["RESPONSE"; "FUNCTION"; ":"], LRespFunction);
   (["RESPONSE"; "NAME"; ":"], fun ws => LAttr (ARespName ws));
   (["SCORE"; "NAME"; ":"], fun ws => LAttr (AScoreName ws));
   (["ENERGY"; "DECOUPAGE"; "NAME"; ":"], fun ws => LAttr (ADecoupage ws));
   (["scoring"; "mode"; ":"], one LScoringMode);
   (["scoring"; "zone"; ":"; "Volume"; "num"; "of"; "volume"; ":"], one LScoringZone);
   (["TIME"; "STEP"; "NUMBER"; ":"], one LTimeStep);
   (["time"; "min."; "="], one LTimeMin);
   (["time"; "max."; "="], one LTimeMax);
   (["SPECTRUM"; "RESULTS"], none LSpectrum);
   (["number"; "of"; "first"; "discarded"; "batches"; ":"], one LDiscarded);
   (["ENERGY"; "INTEGRATED"; "RESULTS"], none LIntegHead);
   (["number"; "of"; "batches"; "used:"], LUsed);
   (["number"; "of"; "batches"; ":"], LUsed);
   (["NOT"; "YET"; "CONVERGED"], none LNotConv);
   (["KSTEP"], keff_rule 0 [("KCOLL", 0); ("KTRACK", 1)]);
   (["KCOLL"], keff_rule 1 [("KTRACK", 2)]);
   (["KTRACK"], keff_rule 2 []);
   (["full"; "combined"; "estimator"], two LFull);
   (["simulation"; "time"; "(s)"; ":"], one LSimTime);
   (["Edition"; "after"; "batch"; "number"; ":"], one LEdition);
   (["RESULTS"; "ARE"; "GIVEN"; "FOR"; "SOURCE"; "INTENSITY"; ":"], noise);
   (["Mean"; "weight"; "leakage"; "="], noise);
   (["PARTICULE"; ":"], noise);
   (["Volume"; "in"; "cm3:"], noise);
   (["group"; "(MeV)"; "score"; "sigma_%"; "score/lethargy"], none LNoise);
   (["estimators"; "correlations"; "combined"; "values"; "combined"; "sigma%"], none LNoise)].

Fixpoint first_rule (rs : list (list string * (list str -> lk))) (t : list str) : lk :=
  match rs with
  | [] => LBad
  | (kws, f) :: rr => match strip kws t with Some r => f r | None => first_rule rr t end
  end.

Definition classify (t : list str) : lk :=
  match t with
  | [] => LNoise                                            (* blank line *)
  | a :: rest =>
      if is_num a then
        match rest with
        | [m; b; s; g; l] =>
            if is_dash m && is_num b && is_num s && is_num g && is_num l
            then LRow (mk_drow a b s g l) else LBad
        | _ => LBad
        end
      else match rest with
           | [] => if all_char 42 a || all_char 45 a then LNoise else first_rule rules t
           | _ => first_rule rules t
           end
  end.

Definition kind_of_line (l : str) : lk := classify (split_ws l).

Definition is_noise (k : lk) : bool := match k with LNoise => true | _ => false end.

Definition sigk (ls : list str) : list lk := filter (fun k => negb (is_noise k)) (map kind_of_line ls).

Definition kinds (text : str) : list lk := sigk (lines_of text).

(* ------------------------------------------------------------------ *)
(* recursive descent over the line kinds *)

Definition P (A : Type) := list lk -> option (A * list lk).

Fixpoint many_f {A} (p : P A) (fuel : nat) (l : list lk) : list A * list lk :=
  match fuel with
  | O => ([], l)
  | S f => match p l with
           | Some (a, t) => let (xs, t') := many_f p f t in (a :: xs, t')
           | None => ([], l)
           end
  end.
(* fuel: an item takes at least one line *)
Definition many {A} (p : P A) (l : list lk) : list A * list lk := many_f p (List.length l) l.

Fixpoint p_rows (l : list lk) : list drow * list lk :=
  match l with
  | LRow r :: t => let (rs, t') := p_rows t in (r :: rs, t')
  | _ => ([], l)
  end.

Fixpoint p_attrs (l : list lk) : list attr * list lk :=
  match l with
  | LAttr a :: t => let (xs, t') := p_attrs t in (a :: xs, t')
  | _ => ([], l)
  end.

(* the energy-integrated result of a spectrum: absent, or readable *)
Definition p_integr (l : list lk) : option (option dinteg * list lk) :=
  match l with
  | LIntegHead :: LDiscarded d :: LUsed [u; s; g] :: t => Some (Some (mk_dinteg d (Some (u, s, g))), t)
  | LIntegHead :: LDiscarded d :: LNotConv :: t => Some (Some (mk_dinteg d None), t)
  | LIntegHead :: _ => None
  | _ => Some (None, l)
  end.

Definition p_time (l : list lk) : option (str * str * str) * list lk :=
  match l with
  | LTimeStep k :: LTimeMin a :: LTimeMax b :: t => (Some (k, a, b), t)
  | _ => (None, l)
  end.

Definition p_step : P dstep := fun l =>
  let (tm, l1) := p_time l in
  match l1 with
  | LSpectrum :: LDiscarded d :: l2 =>
      let (rs, l3) := p_rows l2 in
      match rs with
      | [] => None
      | _ => match p_integr l3 with
             | Some (ig, l4) => Some (mk_dstep tm d rs ig, l4)
             | None => None
             end
      end
  | _ => None
  end.

Definition p_zone : P dzone := fun l =>
  match l with
  | LScoringMode m :: LScoringZone v :: t =>
      let (ss, t') := many p_step t in
      match ss with [] => None | _ => Some (mk_dzone m v ss, t') end
  | _ => None
  end.

Definition p_keff : P dkeff := fun l =>
  match l with
  | LIntegHead :: LUsed [u] :: LKeffEst 0 v0 s0 :: LKeffEst 1 v1 s1 :: LKeffEst 2 v2 s2
    :: LCorr 0 c0 w0 t0 :: LCorr 1 c1 w1 t1 :: LCorr 2 c2 w2 t2 :: LFull v s :: t =>
      Some (mk_dkeff u ((v0, s0), (v1, s1), (v2, s2)) ((c0, w0, t0), (c1, w1, t1), (c2, w2, t2)) (v, s), t)
  | _ => None
  end.

Definition p_body : P dbody := fun l =>
  match l with
  | LScoringMode _ :: _ =>
      let (zs, t) := many p_zone l in
      match zs with [] => None | _ => Some (BZones zs, t) end
  | LIntegHead :: LUsed [u; s; g] :: t => Some (BGeneric u s g, t)
  | LIntegHead :: LUsed [_] :: _ =>
      match p_keff l with Some (k, t) => Some (BKeff k, t) | None => None end
  | _ => None
  end.

Definition p_resp : P dresp := fun l =>
  match l with
  | LRespFunction f :: t =>
      let (ats, t1) := p_attrs t in
      match p_body t1 with
      | Some (b, t2) => Some (mk_dresp f ats b, t2)
      | None => None
      end
  | _ => None
  end.

Definition p_block (l : list lk) : option doc_block :=
  match l with
  | LEdition n :: t =>
      let (rs, t1) := many p_resp t in
      match t1 with
      | [LSimTime tm] => Some (mk_doc n rs tm)
      | _ => None
      end
  | _ => None
  end.

Definition parse_block (text : str) : option block_rows := p_block (kinds text).

(* ------------------------------------------------------------------ *)
(* well-formed documents: words are non-empty and without white space;
   numerals are non-empty strings over [0-9+-.eE] with a digit; a spectrum has
   rows, a zone has steps, a response has zones *)

Definition tok_okb (t : str) : bool :=
  match t with [] => false | _ => forallb (fun c => negb (is_ws c)) t end.

Definition wf_rowb (r : drow) : bool :=
  is_num (r_a r) && is_num (r_b r) && is_num (r_score r) && is_num (r_sigma r) && is_num (r_leth r).

Definition wf_integb (i : dinteg) : bool :=
  is_num (i_disc i) &&
  match i_res i with Some (u, s, g) => is_num u && is_num s && is_num g | None => true end.

Definition wf_stepb (s : dstep) : bool :=
  match s_time s with Some (k, a, b) => is_num k && is_num a && is_num b | None => true end
  && is_num (s_disc s)
  && match s_rows s with [] => false | _ => forallb wf_rowb (s_rows s) end
  && match s_integ s with Some i => wf_integb i | None => true end.

Definition wf_zoneb (z : dzone) : bool :=
  tok_okb (z_mode z) && is_num (z_vol z)
  && match z_steps z with [] => false | _ => forallb wf_stepb (z_steps z) end.

Definition wf_attrb (a : attr) : bool :=
  match a with ARespName ws | AScoreName ws | ADecoupage ws => forallb tok_okb ws end.

Definition wf_pairb (p : str * str) : bool := is_num (fst p) && is_num (snd p).
Definition wf_tripleb (p : str * str * str) : bool :=
  let '(a, b, c) := p in is_num a && is_num b && is_num c.

Definition wf_keffb (k : dkeff) : bool :=
  let '(e0, e1, e2) := k_est k in
  let '(c0, c1, c2) := k_corr k in
  is_num (k_used k) && wf_pairb e0 && wf_pairb e1 && wf_pairb e2
  && wf_tripleb c0 && wf_tripleb c1 && wf_tripleb c2 && wf_pairb (k_full k).

Definition wf_bodyb (b : dbody) : bool :=
  match b with
  | BZones zs => match zs with [] => false | _ => forallb wf_zoneb zs end
  | BGeneric u s g => is_num u && is_num s && is_num g
  | BKeff k => wf_keffb k
  end.

Definition wf_respb (r : dresp) : bool :=
  forallb tok_okb (rs_function r) && forallb wf_attrb (rs_attrs r) && wf_bodyb (rs_body r).

Definition wf_docb (d : doc_block) : bool :=
  is_num (d_batch d) && is_num (d_time d) && forallb wf_respb (d_resps d).

Definition wf_doc (d : doc_block) : Prop := wf_docb d = true.

(* ------------------------------------------------------------------ *)
(* from the parsed rows to the input of the post-grammar model (C10/Model.v):
   bounds, (score, sigma%) cells and the energy-integrated result, as strings *)
From VV Require Import C10.Model.

Definition cell_of (r : drow) : str * str * (str * str) := (r_a r, r_b r, (r_score r, r_sigma r)).

Definition integ_of (i : option dinteg) : option (str * str) :=
  match i with
  | Some (mk_dinteg _ (Some (_, s, g))) => Some (s, g)
  | _ => None
  end.

Definition step_of (s : dstep) : step str (str * str) :=
  match s_time s with
  | Some (_, a, b) => mk_step a b (map cell_of (s_rows s)) (integ_of (s_integ s))
  | None => mk_step [] [] (map cell_of (s_rows s)) (integ_of (s_integ s))
  end.

Definition with_time (z : dzone) : bool :=
  match z_steps z with
  | s :: _ => match s_time s with Some _ => true | None => false end
  | [] => false
  end.

Definition zones_of (d : doc_block) : list (dresp * dzone) :=
  flat_map (fun r => match rs_body r with BZones zs => map (pair r) zs | _ => [] end) (d_resps d).

(* C10: proofs about the post-grammar pipeline (model B). *)
From Coq Require Import List Bool Arith Lia.
From VV Require Import C10.Model.
Import ListNotations.

Section AxisProofs.
Context {B V : Type} (ltb : B -> B -> bool).
Notation interval := (@interval B V).

Lemma last_opt_cons2 {A} (x y : A) l : last_opt (x :: y :: l) = last_opt (y :: l).
Proof.
  unfold last_opt. cbn [rev]. destruct (rev l) as [|z r]; reflexivity.
Qed.

Lemma last_opt_single {A} (x : A) : last_opt [x] = Some x.
Proof. reflexivity. Qed.

Lemma last_opt_snoc {A} (l : list A) x : last_opt (l ++ [x]) = Some x.
Proof. unfold last_opt. rewrite rev_app_distr. reflexivity. Qed.

Lemma e_bins_cons2 (c c' : interval) r : e_bins (c :: c' :: r) = i_fst c :: e_bins (c' :: r).
Proof. unfold e_bins. rewrite last_opt_cons2. reflexivity. Qed.

Lemma e_bins_length (rows : list interval) : rows <> [] -> length (e_bins rows) = S (length rows).
Proof.
  intros Hne. unfold e_bins. rewrite app_length, map_length.
  destruct (last_opt rows) eqn:E; [cbn; lia|].
  unfold last_opt in E. destruct (rev rows) eqn:Er; [|discriminate].
  apply (f_equal (@rev _)) in Er. rewrite rev_involutive in Er. contradiction.
Qed.

(* the cells of the bins built from contiguous rows are the rows *)
Lemma cells_cons2 (b0 b1 : B) r (v : V) vs :
  cells (b0 :: b1 :: r) (v :: vs) = (b0, b1, v) :: cells (b1 :: r) vs.
Proof. reflexivity. Qed.

Lemma cells_e_bins_cons (c : interval) (r : list interval) :
  contiguous (c :: r) -> cells (e_bins (c :: r)) (map i_val (c :: r)) = c :: r.
Proof.
  revert c; induction r as [|c' r' IH]; intros c H.
  - destruct c as [[a b] v]. reflexivity.
  - destruct H as [Hc Hr]. rewrite e_bins_cons2. specialize (IH c' Hr).
    assert (E : exists rest, e_bins (c' :: r') = i_fst c' :: rest).
    { destruct r' as [|c'' r'']; [eexists; reflexivity | rewrite e_bins_cons2; eexists; reflexivity]. }
    destruct E as [rest E]. rewrite E in *.
    change (map i_val (c :: c' :: r')) with (i_val c :: map i_val (c' :: r')).
    rewrite cells_cons2, IH. f_equal.
    destruct c as [[a b] v]. cbn in *. subst. reflexivity.
Qed.

Lemma cells_e_bins (rows : list interval) :
  contiguous rows -> cells (e_bins rows) (map i_val rows) = rows.
Proof. destruct rows as [|c r]; [reflexivity | apply cells_e_bins_cons]. Qed.

Lemma cells_snoc (bins : list B) (vals : list V) b v x :
  length bins = S (length vals) -> last_opt bins = Some x ->
  cells (bins ++ [b]) (vals ++ [v]) = cells bins vals ++ [(x, b, v)].
Proof.
  revert vals; induction bins as [|b0 r IH]; intros vals Hl Hx; [discriminate|].
  destruct r as [|b1 r'].
  - destruct vals; [|discriminate]. cbn in Hx. inversion Hx; subst. reflexivity.
  - destruct vals as [|v0 vs]; [discriminate|].
    rewrite last_opt_cons2 in Hx.
    change ((b0 :: b1 :: r') ++ [b]) with (b0 :: b1 :: (r' ++ [b])).
    change ((v0 :: vs) ++ [v]) with (v0 :: (vs ++ [v])).
    rewrite !cells_cons2. change (b1 :: r' ++ [b]) with ((b1 :: r') ++ [b]).
    rewrite (IH vs); [reflexivity | cbn in *; lia | exact Hx].
Qed.

Lemma last_opt_rev_cons {A} (x : A) l : last_opt (rev (x :: l)) = Some x.
Proof. cbn. apply last_opt_snoc. Qed.

(* np.flip of bins and values: the cells come in the opposite order, bounds swapped *)
Lemma cells_rev (bins : list B) (vals : list V) :
  length bins = S (length vals) ->
  cells (rev bins) (rev vals) = rev (map swap (cells bins vals)).
Proof.
  revert vals; induction bins as [|b0 r IH]; intros vals Hl; [discriminate|].
  destruct r as [|b1 r'].
  - destruct vals; [reflexivity | discriminate].
  - destruct vals as [|v vs]; [discriminate|].
    change (rev (b0 :: b1 :: r')) with (rev (b1 :: r') ++ [b0]).
    change (rev (v :: vs)) with (rev vs ++ [v]).
    rewrite (cells_snoc _ _ b0 v b1).
    + rewrite IH by (cbn in *; lia). reflexivity.
    + rewrite !rev_length. cbn in *. lia.
    + apply last_opt_rev_cons.
Qed.

(* time steps printed downwards *)
Lemma cells_down (c : interval) (steps : list interval) :
  contiguous_down (c :: steps) ->
  cells (i_snd c :: map i_fst (c :: steps)) (map i_val (c :: steps)) = map swap (c :: steps).
Proof.
  revert c; induction steps as [|c' r IH]; intros c H.
  - reflexivity.
  - destruct H as [Hc Hr]. specialize (IH c' Hr). cbn [map cells] in *.
    f_equal. rewrite <- IH. rewrite Hc. reflexivity.
Qed.

Lemma cells_length (bins : list B) (vals : list V) :
  length bins = S (length vals) -> length (cells bins vals) = length vals.
Proof.
  revert vals; induction bins as [|b0 r IH]; intros vals Hl; [discriminate|].
  destruct r as [|b1 r']; destruct vals as [|v vs]; try discriminate; try reflexivity.
  cbn [cells length]. f_equal. apply IH. cbn in *. lia.
Qed.

(* if every cell has its first bound below its second, the bins increase *)
Lemma cells_adjacent (bins : list B) (vals : list V) :
  length bins = S (length vals) ->
  (forall c, In c (cells bins vals) -> ltb (i_fst c) (i_snd c) = true) ->
  adjacent_lt ltb bins.
Proof.
  revert vals; induction bins as [|b0 r IH]; intros vals Hl H i x y Hx Hy.
  - destruct i; discriminate.
  - destruct r as [|b1 r'].
    + destruct i; cbn in Hy; [discriminate | destruct i; discriminate].
    + destruct vals as [|v vs]; [discriminate|].
      destruct i as [|i].
      * cbn in Hx, Hy. inversion Hx; inversion Hy; subst.
        apply (H (x, y, v)). left. reflexivity.
      * apply (IH vs) with (i := i); [cbn in *; lia | | exact Hx | exact Hy].
        intros c Hc. apply H. right. exact Hc.
Qed.

Hypothesis ltb_asym : forall x y, ltb x y = true -> ltb y x = false.

Lemma decreasing_e_bins (c : interval) r :
  contiguous (c :: r) -> decreasing ltb (e_bins (c :: r)) = ltb (i_snd c) (i_fst c).
Proof.
  destruct r as [|c' r'].
  - reflexivity.
  - intros [Hc _]. rewrite e_bins_cons2. destruct r' as [|c'' r''].
    + cbn. rewrite Hc. reflexivity.
    + rewrite e_bins_cons2. cbn. rewrite Hc. reflexivity.
Qed.

(* ---- one axis, energy style: rows "a - b" that follow each other ---- *)
Theorem axis_rows_attached (rows : list interval) :
  rows <> [] -> contiguous rows ->
  let d := decreasing ltb (e_bins rows) in
  cells (flip_if d (e_bins rows)) (flip_if d (map i_val rows))
  = if d then rev (map swap rows) else rows.
Proof.
  intros Hne Hc d. destruct d; cbn [flip_if].
  - rewrite cells_rev, cells_e_bins by (try rewrite map_length; auto using e_bins_length).
    reflexivity.
  - apply cells_e_bins, Hc.
Qed.

Theorem axis_rows_increasing (rows : list interval) :
  rows <> [] -> contiguous rows ->
  (forall c, In c rows -> ltb (i_fst c) (i_snd c) = true) \/
  (forall c, In c rows -> ltb (i_snd c) (i_fst c) = true) ->
  adjacent_lt ltb (flip_if (decreasing ltb (e_bins rows)) (e_bins rows)).
Proof.
  intros Hne Hc Hdir.
  pose proof (axis_rows_attached rows Hne Hc) as Hat. cbn zeta in Hat.
  destruct rows as [|c r]; [contradiction|].
  rewrite (decreasing_e_bins c r Hc) in *.
  apply (cells_adjacent _ (flip_if (ltb (i_snd c) (i_fst c)) (map i_val (c :: r)))).
  - destruct (ltb (i_snd c) (i_fst c)); cbn [flip_if]; rewrite ?rev_length, e_bins_length, map_length;
      auto; discriminate.
  - rewrite Hat. destruct Hdir as [Hup | Hdown].
    + rewrite (ltb_asym _ _ (Hup c (or_introl eq_refl))). exact Hup.
    + rewrite (Hdown c (or_introl eq_refl)). intros x Hx. apply in_rev in Hx.
      apply in_map_iff in Hx. destruct Hx as (y & <- & Hy). destruct y as [[a b] v]. cbn.
      apply (Hdown (a, b, v) Hy).
Qed.

(* ---- one axis, time style: steps (min, max) printed upwards or downwards ---- *)
Theorem axis_steps_attached (steps : list interval) :
  steps <> [] ->
  (contiguous steps /\ (forall c, In c steps -> ltb (i_fst c) (i_snd c) = true)) \/
  (contiguous_down steps /\ 2 <= length steps /\
   (forall c, In c steps -> ltb (i_fst c) (i_snd c) = true)) ->
  let tb := t_bins ltb steps in
  let d := decreasing ltb tb in
  cells (flip_if d tb) (flip_if d (map i_val steps))
  = (if d then rev steps else steps)
  /\ adjacent_lt ltb (flip_if d tb).
Proof.
  intros Hne Hdir tb d.
  assert (Hgoal : cells (flip_if d tb) (flip_if d (map i_val steps)) = (if d then rev steps else steps)
                  /\ length tb = S (length steps)).
  2:{ destruct Hgoal as [G Hl]. split; [exact G|].
      apply (cells_adjacent _ (flip_if d (map i_val steps))).
      - destruct d; cbn [flip_if]; rewrite ?rev_length, map_length; exact Hl.
      - rewrite G. intros c Hc.
        assert (Hin : In c steps) by (destruct d; [apply in_rev in Hc|]; exact Hc).
        destruct Hdir as [[_ H]|[_ [_ H]]]; apply H, Hin. }
  destruct Hdir as [[Hc Hup] | (Hc & Hlen & Hup)].
  - (* printed upwards: the insert test and the flip test are both false *)
    assert (Hd1 : decreasing ltb (map i_fst steps) = false).
    { destruct steps as [|c [|c' r]]; try reflexivity. cbn. destruct Hc as [Hc _].
      rewrite <- Hc. apply ltb_asym, Hup. left. reflexivity. }
    assert (Htb : tb = e_bins steps) by (unfold tb, t_bins; rewrite Hd1; reflexivity).
    assert (Hd : d = false).
    { unfold d. rewrite Htb. destruct steps as [|c r]; [contradiction|].
      rewrite (decreasing_e_bins c r Hc). apply ltb_asym, Hup. left. reflexivity. }
    rewrite Hd, Htb. cbn [flip_if]. split; [apply cells_e_bins, Hc | apply e_bins_length, Hne].
  - (* printed downwards *)
    destruct steps as [|c [|c' r]]; [contradiction | cbn in Hlen; lia |].
    assert (Hd1 : decreasing ltb (map i_fst (c :: c' :: r)) = true).
    { cbn. destruct Hc as [Hc _]. rewrite Hc. apply Hup. right. left. reflexivity. }
    assert (Htb : tb = i_snd c :: map i_fst (c :: c' :: r)) by (unfold tb, t_bins; rewrite Hd1; reflexivity).
    assert (Hd : d = true).
    { unfold d. rewrite Htb. cbn. apply Hup. left. reflexivity. }
    rewrite Hd, Htb. cbn [flip_if]. split; [|cbn; rewrite map_length; reflexivity].
    rewrite cells_rev by (cbn; rewrite !map_length; reflexivity).
    rewrite cells_down by exact Hc. rewrite map_map.
    rewrite (map_ext _ (fun x => x)); [rewrite map_id; reflexivity|].
    intros [[a b] v]. reflexivity.
Qed.
End AxisProofs.

(* ------------------------------------------------------------------ *)
(* the energy x time plane *)
Section PlaneProofs.
Context {B S : Type} (ltb : B -> B -> bool).
Hypothesis ltb_asym : forall x y, ltb x y = true -> ltb y x = false.
Notation step := (step B S).

Lemma flip_if_map {X Y} (f : X -> Y) d l : flip_if d (map f l) = map f (flip_if d l).
Proof. destruct d; cbn; [symmetry; apply map_rev | reflexivity]. Qed.

Lemma map_val_step_interval (steps : list step) :
  map (@i_val B step) (map step_interval steps) = steps.
Proof. rewrite map_map. rewrite (map_ext _ (fun s => s)); [apply map_id | reflexivity]. Qed.

(* A spectrum printed by time steps: every step prints the same groups
   "a - b" that follow each other, all upwards or all downwards; the steps
   (min, max) follow each other upwards or downwards.  Then, for
   p = build_plane steps:
   - energy and time bins are strictly increasing;
   - the rows of p_vals (and p_integ) are those of the printed steps taken in
     the order [order], and the step at position j has
     (t_min, t_max) = (tbins[j], tbins[j+1]);
   - inside the row of a step, position i holds the (score, sigma) printed
     for the group whose bounds are {ebins[i], ebins[i+1]}. *)
Theorem plane_attached (s0 : step) (rest : list step) :
  let steps := s0 :: rest in
  rows s0 <> [] ->
  (forall s, In s steps -> contiguous (rows s) /\ e_bins (rows s) = e_bins (rows s0)
                           /\ length (rows s) = length (rows s0)) ->
  ((forall c, In c (rows s0) -> ltb (i_fst c) (i_snd c) = true) \/
   (forall c, In c (rows s0) -> ltb (i_snd c) (i_fst c) = true)) ->
  ((contiguous (map step_interval steps) /\ (forall s, In s steps -> ltb (t_min s) (t_max s) = true)) \/
   (contiguous_down (map step_interval steps) /\ 2 <= length steps /\
    (forall s, In s steps -> ltb (t_min s) (t_max s) = true))) ->
  let p := build_plane ltb true steps in
  let de := decreasing ltb (e_bins (rows s0)) in
  let dt := decreasing ltb (t_bins ltb (map step_interval steps)) in
  let order := flip_if dt steps in
  adjacent_lt ltb (p_ebins p) /\ adjacent_lt ltb (p_tbins p) /\
  p_vals p = map (fun s => flip_if de (map snd (rows s))) order /\
  p_integ p = map integ order /\
  cells (p_tbins p) order = map step_interval order /\
  (forall s, In s steps ->
     cells (p_ebins p) (flip_if de (map snd (rows s)))
     = if de then rev (map swap (rows s)) else rows s) /\
  p_ebins_integ p = first_last (p_ebins p).
Proof.
  intros steps Hne Hrows Hedir Htdir p de dt order.
  assert (H0 : In s0 steps) by (left; reflexivity).
  destruct (Hrows s0 H0) as (Hc0 & _ & _).
  assert (Htdir' :
    (contiguous (map step_interval steps) /\
     (forall c, In c (map step_interval steps) -> ltb (i_fst c) (i_snd c) = true)) \/
    (contiguous_down (map step_interval steps) /\ 2 <= length (map step_interval steps) /\
     (forall c, In c (map step_interval steps) -> ltb (i_fst c) (i_snd c) = true))).
  { assert (Hin : forall (P : step -> Prop), (forall s, In s steps -> P s) ->
                  forall c, In c (map step_interval steps) -> P (i_val c)).
    { intros P HP c Hc. apply in_map_iff in Hc. destruct Hc as (s & <- & Hs). apply HP, Hs. }
    destruct Htdir as [[A Bx]|(A & L & Bx)]; [left | right]; repeat split; auto;
      try (rewrite map_length; exact L);
      intros c Hc; apply in_map_iff in Hc; destruct Hc as (s & <- & Hs); apply Bx, Hs. }
  destruct (axis_steps_attached ltb ltb_asym (map step_interval steps)
              ltac:(discriminate) Htdir') as [Ht Hts].
  cbn zeta in Ht, Hts. rewrite map_val_step_interval in Ht.
  repeat split.
  - apply (axis_rows_increasing ltb ltb_asym (rows s0) Hne Hc0 Hedir).
  - exact Hts.
  - unfold p, build_plane. cbn [p_vals]. apply flip_if_map.
  - unfold p, build_plane. cbn [p_integ]. apply flip_if_map.
  - unfold p, build_plane, order, dt. cbn [p_tbins].
    change (s0 :: rest) with steps. rewrite Ht.
    destruct (decreasing ltb (t_bins ltb (map step_interval steps))); cbn [flip_if];
      [symmetry; apply map_rev | reflexivity].
  - intros s Hs. destruct (Hrows s Hs) as (Hc & He & Hl).
    unfold p, build_plane. cbn [p_ebins]. fold de.
    assert (Hnes : rows s <> []).
    { intros E. rewrite E in Hl. destruct (rows s0); [contradiction | discriminate]. }
    pose proof (axis_rows_attached ltb (rows s) Hnes Hc) as Ha. cbn zeta in Ha.
    rewrite He in Ha. fold de in Ha.
    replace (map (@i_val B S) (rows s)) with (map snd (rows s)) in Ha by reflexivity.
    exact Ha.
Qed.
End PlaneProofs.

(* C10, model C: Apollo3 standard-layout HDF5 files as abstract trees, the
   whole-file walk of hdf5_reader.Reader (process_standard_values,
   extract_standard_values, extract_zone_values, loop_over_std_values,
   extract_output_info, extract_concentrations, make_bins,
   hdfdataset_to_dataset / build_dataset) and the direct access of
   hdf5_picker.Picker (pick_standard_value, isotopes, nb_anisotropies,
   _make_bins, _make_dataset).

   A group is the list of its members in h5py's iteration order (by name); a
   numeric dataset is the flat list of its numbers (binary64 bit patterns of
   the stored values, or plain integers for NISOT / nbAnisotropy); ISOTOPE is
   the list of the stripped names.  Not modelled: geometry/info groups beyond
   NG, local values, SURFFLUX / CURRENT (need NSURF), user-value files. *)
From Coq Require Import List ZArith Bool Arith Lia String Ascii.
Import ListNotations.
Local Open Scope string_scope.
Local Open Scope list_scope.

Inductive node :=
| Grp (ch : list (string * node))
| Arr (data : list Z)
| Names (l : list string).

Inductive bkind := BNone | BGroups (n : nat) | BAniso (na ng : nat) | BMulti (ni ng : nat) | BOther (n : nat).
Record dset := mk_dset { d_scalar : bool; d_vals : list Z; d_bins : bkind; d_what : string }.

Inductive exn := ReaderExc | PickerExc | AttributeError | TypeError | KeyError | ValueError | IndexError
               | NotModelled.
Inductive res (A : Type) := ROk (a : A) | RErr (e : exn).
Arguments ROk {A} a.
Arguments RErr {A} e.

Definition bind {A B} (r : res A) (f : A -> res B) : res B :=
  match r with ROk a => f a | RErr e => RErr e end.

Fixpoint assoc {V} (k : string) (l : list (string * V)) : option V :=
  match l with
  | [] => None
  | (k', v) :: r => if String.eqb k k' then Some v else assoc k r
  end.

Definition child (n : node) (k : string) : option node :=
  match n with Grp ch => assoc k ch | _ => None end.

Definition mem (k : string) (l : list string) : bool := existsb (String.eqb k) l.

(* str.lower() on ASCII *)
Definition lower_ascii (c : ascii) : ascii :=
  let n := nat_of_ascii c in
  if (65 <=? n)%nat && (n <=? 90)%nat then ascii_of_nat (n + 32) else c.
Fixpoint lower (s : string) : string :=
  match s with EmptyString => EmptyString | String c r => String (lower_ascii c) (lower r) end.

Fixpoint prefix_b (p s : string) : bool :=
  match p, s with
  | EmptyString, _ => true
  | String a p', String b s' => Ascii.eqb a b && prefix_b p' s'
  | _, _ => false
  end.

Definition first_int (n : node) : res nat :=
  match n with
  | Arr (z :: _) => ROk (Z.to_nat z)
  | Arr [] => RErr IndexError
  | _ => RErr TypeError
  end.

Definition eqb_bk (a b : bkind) : bool :=
  match a, b with
  | BNone, BNone => true
  | BGroups x, BGroups y => Nat.eqb x y
  | BAniso a1 g1, BAniso a2 g2 => Nat.eqb a1 a2 && Nat.eqb g1 g2
  | BMulti a1 g1, BMulti a2 g2 => Nat.eqb a1 a2 && Nat.eqb g1 g2
  | BOther x, BOther y => Nat.eqb x y
  | _, _ => false
  end.

(* the reshape of build_dataset / _make_dataset *)
Definition reshape_ok (size : nat) (b : bkind) : bool :=
  match b with
  | BAniso na ng => Nat.eqb (na * ng) size
  | BMulti ni ng => Nat.eqb (ni * ng) size
  | _ => true
  end.

Definition scalar_names := ["KEFF"; "KINF"; "MIGRATIONAREA"; "Buckling"].
Definition picker_scalar_names := ["KEFF"; "KINF"; "NSURF"; "MIGRATIONAREA"; "Buckling"].
Definition surface_names := ["SURFFLUX"; "CURRENT"].

(* ---------------- Reader ---------------- *)
Definition amap := list (string * nat).         (* anisotropies dict; "anisotropy" always present *)

Definition amap_set (m : amap) (k : string) (v : nat) : amap := (k, v) :: m.   (* newest first *)
Definition amap_get (m : amap) (k : string) : option nat := assoc k m.

(* extract_output_info(data, name): one nesting level under a 'macro' group *)
Definition inner_info (name : string) (ch : list (string * node)) (in_macro : bool) : res amap :=
  fold_left (fun acc p =>
               bind acc (fun m =>
                 match snd p with
                 | Grp _ => if in_macro then RErr NotModelled else RErr ReaderExc
                 | n => if String.eqb (fst p) "nbAnisotropy"
                        then bind (first_int n) (fun v => ROk (amap_set m name v))
                        else RErr ReaderExc
                 end))
            ch (ROk [("anisotropy", 1)]).

Definition extract_output_info (info : option node) (in_macro : bool) : res amap :=
  match info with
  | None => ROk [("anisotropy", 1)]
  | Some (Grp ch) =>
      fold_left (fun acc p =>
                   bind acc (fun m =>
                     match snd p with
                     | Grp ch2 =>
                         if in_macro
                         then bind (inner_info (fst p) ch2 in_macro)
                                   (fun m2 => (* del m2['anisotropy']; aniso.update(m2) *)
                                      ROk (fold_right (fun q acc => amap_set acc (fst q) (snd q)) m
                                             (filter (fun q => negb (String.eqb (fst q) "anisotropy")) m2)))
                         else RErr ReaderExc
                     | n => if String.eqb (fst p) "nbAnisotropy"
                            then bind (first_int n) (fun v => ROk (amap_set m "anisotropy" v))
                            else RErr ReaderExc
                     end))
                ch (ROk [("anisotropy", 1)])
  | Some _ => RErr TypeError
  end.

Definition r_make_bins (nres : string) (size ng : nat) (aniso : option amap) : res bkind :=
  if mem nres scalar_names then ROk BNone
  else if Nat.eqb ng size then ROk (BGroups ng)
  else if mem nres surface_names then RErr NotModelled
  else if String.eqb nres "MultigroupSpectrum" then ROk (BMulti (size / ng) ng)
  else match aniso with
       | None => RErr AttributeError
       | Some m =>
           match (match amap_get m nres with Some n => Some n | None => amap_get m "anisotropy" end) with
           | None => RErr KeyError
           | Some na => if Nat.eqb (ng * na) size then ROk (BAniso na ng) else RErr ReaderExc
           end
       end.

(* hdfdataset_to_dataset + build_dataset *)
Definition r_dataset (n : node) (what : string) (bins : bkind) : res dset :=
  match n with
  | Arr data =>
      let size := List.length data in
      if reshape_ok size bins
      then ROk (mk_dset (Nat.eqb size 1 && eqb_bk bins BNone) data bins what)
      else RErr ValueError
  | _ => RErr TypeError
  end.

Definition size_of (n : node) : res nat :=
  match n with Arr data => ROk (List.length data) | _ => RErr TypeError end.

Definition excluded (k : string) : bool :=
  prefix_b "LOCAL" k || prefix_b "local" k || prefix_b "info" k || prefix_b "NSURF" k.

(* results of the members of a group, in order; the first failure aborts *)
Definition collect {A E} (g : A -> res (list E)) (xs : list A) : res (list E) :=
  fold_right (fun p acc => bind acc (fun l => bind (g p) (fun es => ROk (es ++ l)))) (ROk []) xs.

(* an entry of the browser: labels, the key under which the result is stored, the dataset *)
Record entry := mk_entry { e_out : string; e_zone : string; e_iso : option string;
                           e_name : string; e_key : string; e_ds : dset }.

(* loop_over_std_values: (key, dataset) for every member that is a result *)
Definition std_member (m : amap) (ng : nat) (p : string * node) : res (list (string * dset)) :=
  if excluded (fst p) then ROk []
  else bind (size_of (snd p)) (fun size =>
       bind (r_make_bins (fst p) size ng (Some m)) (fun b =>
       bind (r_dataset (snd p) (lower (fst p)) b) (fun d => ROk [(fst p, d)]))).

Definition loop_std (g : node) (ng : nat) (in_macro : bool) : res (list (string * dset)) :=
  match g with
  | Grp ch => bind (extract_output_info (assoc "info" ch) in_macro) (fun m => collect (std_member m ng) ch)
  | _ => RErr TypeError
  end.

Definition names_of (n : option node) : res (list string) :=
  match n with
  | Some (Names l) => ROk l
  | None => RErr TypeError            (* zone.get('ISOTOPE') is None *)
  | _ => RErr TypeError
  end.

Definition arr_of (n : option node) : res (list Z) :=
  match n with Some (Arr l) => ROk l | _ => RErr TypeError end.

Fixpoint zip_conc (names : list string) (conc : list Z) : list (string * Z) :=
  match names, conc with
  | n :: ns, c :: cs => (n, c) :: zip_conc ns cs
  | _, _ => []
  end.

(* dict semantics of tdict[isotope] = ...: the last occurrence of a name wins,
   at the position of the first *)
Fixpoint dict_of {V} (l : list (string * V)) : list (string * V) :=
  match l with
  | [] => []
  | (k, v) :: r =>
      (k, match assoc k (rev r) with Some v' => v' | None => v end)
        :: filter (fun p => negb (String.eqb (fst p) k)) (dict_of r)
  end.

(* extract_zone_values *)
Definition group_entries (o z k : string) (rs : list (string * dset)) : list entry :=
  map (fun q => mk_entry o z (Some k) (lower (fst q)) (fst q) (snd q)) rs.

Definition zone_member (o z : string) (ch : list (string * node)) (ng : nat) (liso : list string)
           (p : string * node) : res (list entry) :=
  let k := fst p in
  if String.eqb k "CONCEN" then
    bind (names_of (assoc "ISOTOPE" ch)) (fun names =>
    bind (arr_of (assoc "CONCEN" ch)) (fun conc =>
      ROk (map (fun q => mk_entry o z (Some (fst q)) "concentration" "concentration"
                                  (mk_dset true [snd q] BNone "concentration"))
               (dict_of (zip_conc names conc)))))
  else if String.eqb k "macro" then
    bind (loop_std (snd p) ng true) (fun rs => ROk (group_entries o z k rs))
  else if String.eqb k "NISOT" || String.eqb k "ISOTOPE" then ROk []
  else if mem k liso then
    bind (loop_std (snd p) ng false) (fun rs => ROk (group_entries o z k rs))
  else
    bind (size_of (snd p)) (fun size =>
    bind (r_make_bins k size ng None) (fun b =>
    bind (r_dataset (snd p) (lower k) b) (fun d => ROk [mk_entry o z None (lower k) k d]))).

Definition zone_entries (o z : string) (g : node) (ng : nat) : res (list entry) :=
  match g with
  | Grp ch =>
      bind (match assoc "NISOT" ch with Some n => first_int n | None => RErr KeyError end) (fun nisot =>
      bind (if Nat.eqb nisot 0 then ROk [] else names_of (assoc "ISOTOPE" ch)) (fun liso =>
        collect (zone_member o z ch ng liso) ch))
  | _ => RErr TypeError
  end.

(* extract_standard_values *)
Definition output_member (o : string) (ng : nat) (p : string * node) : res (list entry) :=
  if String.eqb (fst p) "totaloutput" then
    bind (loop_std (snd p) ng false) (fun rs =>
      ROk (map (fun q => mk_entry o (fst p) None (lower (fst q)) (fst q) (snd q)) rs))
  else zone_entries o (fst p) (snd p) ng.

Definition output_entries (o : string) (g : node) (ng : nat) : res (list entry) :=
  match g with
  | Grp ch => collect (output_member o ng) ch
  | _ => RErr TypeError
  end.

(* a file: the output groups with their number of groups (info/output_x/NG) *)
Definition file := list (string * nat * node).

Definition reader (f : file) : res (list entry) :=
  collect (fun p : string * nat * node => output_entries (fst (fst p)) (snd p) (snd (fst p))) f.

(* ---------------- Picker ---------------- *)
Definition p_make_bins (size : nat) (name : string) (ng : nat) (naniso : option nat) : res bkind :=
  if Nat.eqb ng 0 then ROk BNone
  else if Nat.eqb ng size then ROk (BGroups ng)
  else if mem name surface_names then RErr NotModelled
  else if String.eqb name "MultigroupSpectrum" then ROk (BMulti (size / ng) ng)
  else match naniso with
       | None => RErr TypeError
       | Some na => if Nat.eqb (ng * na) size then ROk (BAniso na ng) else RErr PickerExc
       end.

Definition p_dataset (n : node) (name : string) (bins : bkind) : res dset :=
  match n with
  | Arr data =>
      if reshape_ok (List.length data) bins then ROk (mk_dset false data bins (lower name))
      else RErr ValueError
  | _ => RErr TypeError
  end.

Definition get (n : node) (k : string) : res node :=
  match child n k with Some c => ROk c | None => RErr KeyError end.

Fixpoint index_of (x : string) (l : list string) : option nat :=
  match l with
  | [] => None
  | y :: r => if String.eqb x y then Some 0
              else match index_of x r with Some i => Some (S i) | None => None end
  end.

(* Picker.isotopes *)
Definition p_isotopes (zone : node) : res (list string) :=
  bind (bind (get zone "NISOT") first_int) (fun nisot =>
    if Nat.eqb nisot 0
    then ROk (match child zone "macro" with Some _ => ["macro"] | None => [] end)
    else bind (names_of (child zone "ISOTOPE")) (fun l => ROk (l ++ ["macro"]))).

(* Picker.nb_anisotropies *)
Definition p_nb_aniso (isores : node) (result : string) : res (option nat) :=
  match child isores "info" with
  | None => ROk None
  | Some info =>
      match child info result with
      | Some sub => bind (bind (get sub "nbAnisotropy") first_int) (fun n => ROk (Some n))
      | None =>
          match child info "nbAnisotropy" with
          | Some d => bind (first_int d) (fun n => ROk (Some n))
          | None => ROk (Some 1)
          end
      end
  end.

Definition lookup_output (f : file) (o : string) : res (nat * node) :=
  match find (fun p => String.eqb (fst (fst p)) o) f with
  | Some p => ROk (snd (fst p), snd p)
  | None => RErr KeyError
  end.

(* Picker.pick_standard_value, once self.hfile[output][zone] is reached *)
Definition pick_in_zone (ng : nat) (zone : node) (name : string) (iso : option string) : res dset :=
  if mem name picker_scalar_names then
    bind (get zone name) (fun d =>
      match d with
      | Arr (v :: _) => ROk (mk_dset true [v] BNone (lower name))
      | Arr [] => RErr IndexError
      | _ => RErr TypeError
      end)
  else match iso with
  | None =>
      bind (get zone name) (fun d =>
      bind (size_of d) (fun size =>
      bind (p_make_bins size name ng None) (fun b => p_dataset d name b)))
  | Some i =>
      if String.eqb name "concentration" then
        bind (p_isotopes zone) (fun l =>
          match index_of i l with
          | None => RErr ValueError
          | Some k =>
              bind (arr_of (child zone "CONCEN")) (fun conc =>
                match nth_error conc k with
                | Some v => ROk (mk_dset true [v] BNone "concentration")
                | None => RErr IndexError
                end)
          end)
      else
        bind (get zone i) (fun isores =>
        bind (get isores name) (fun d =>
        bind (size_of d) (fun size =>
        bind (p_nb_aniso isores name) (fun na =>
        bind (p_make_bins size name ng na) (fun b => p_dataset d name b)))))
  end.

Definition pick (f : file) (o z name : string) (iso : option string) : res dset :=
  bind (lookup_output f o) (fun og =>
    bind (get (snd og) z) (fun zone => pick_in_zone (fst og) zone name iso)).

(* ---- what a generated cases file evaluates ---- *)
Inductive dobs := ORaise (cls : string) | ODs (d : dset).

Definition zl_eqb (a b : list Z) : bool :=
  Nat.eqb (List.length a) (List.length b) && forallb (fun p => Z.eqb (fst p) (snd p)) (combine a b).

Definition dset_eqb (a b : dset) : bool :=
  Bool.eqb (d_scalar a) (d_scalar b) && zl_eqb (d_vals a) (d_vals b)
  && eqb_bk (d_bins a) (d_bins b) && String.eqb (d_what a) (d_what b).

Definition opt_str_eqb (a b : option string) : bool :=
  match a, b with
  | None, None => true
  | Some x, Some y => String.eqb x y
  | _, _ => false
  end.

Definition exn_name (e : exn) : string :=
  match e with
  | ReaderExc => "ReaderException" | PickerExc => "PickerException"
  | AttributeError => "AttributeError" | TypeError => "TypeError" | KeyError => "KeyError"
  | ValueError => "ValueError" | IndexError => "IndexError" | NotModelled => "NotModelled"
  end.

Definition match_obs (m : res dset) (o : dobs) : bool :=
  match m, o with
  | ROk d, ODs d' => dset_eqb d d'
  | RErr e, ORaise c => String.eqb (exn_name e) c
  | _, _ => false
  end.

(* tree, number of results the real Reader lists, and per stored result:
   labels, what Reader holds for them, what Picker returns *)
Definition ap3item := (string * string * option string * string * dobs * dobs)%type.
Definition ap3case := (file * nat * list ap3item)%type.

Definition find_entry (es : list entry) (o z : string) (iso : option string) (nm : string) : res dset :=
  match find (fun e => String.eqb (e_out e) o && String.eqb (e_zone e) z
                       && opt_str_eqb (e_iso e) iso && String.eqb (e_name e) nm) es with
  | Some e => ROk (e_ds e)
  | None => RErr KeyError
  end.

Definition check_ap3 (c : ap3case) : bool :=
  let '(f, n, items) := c in
  match reader f with
  | RErr _ => false            (* the real Reader succeeded (otherwise the driver reports it) *)
  | ROk es =>
      Nat.eqb (List.length es) n
      && forallb (fun it : ap3item =>
                    let '(o, z, iso, nm, ro, po) := it in
                    match_obs (find_entry es o z iso (lower nm)) ro
                    && match_obs (pick f o z nm iso) po) items
  end.

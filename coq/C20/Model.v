(* C20: written reports.
   Model of valjean/javert/rst.py: Rst.format_report (depth limit of the
   headers), FormattedRst.write = check_tree, setup, _write_rec, plots.

   A report is a rose tree of sections; a section holds results (anchor,
   images of its plots) and sub-sections.  The order in which results and
   sub-sections alternate in [content] only matters for the text of the page,
   which the property does not talk about, so the two lists are kept apart.

   Sections are keyed by their chain of titles below the root.  In the code
   the text and the sub-sections of a key are accumulated in two dictionaries
   ([text_dict], [tree_dict]) filled by a pre-order traversal; as long as no
   two siblings share a title, every key belongs to exactly one section and
   the dictionaries are the tree itself.  [check_tree] refuses every other
   tree before the first write, so the model writes straight from the tree.

   Paths are component lists relative to the report directory; pathlib's
   joinpath is C19's [parse_rel] on every title. *)
From Coq Require Import String Ascii List ZArith Bool Arith Lia.
From VV Require Import Lib.Base C19.Model.
Import ListNotations.

Record result := mk_result { r_anchor : nat; r_images : list string }.

Inductive report := Node (title : string) (results : list result) (children : list report).

Definition title_of (r : report) : string := match r with Node t _ _ => t end.
Definition results_of (r : report) : list result := match r with Node _ rs _ => rs end.
Definition children_of (r : report) : list report := match r with Node _ _ cs => cs end.

Definition key := list string.

(* ---- paths ---- *)
Local Open Scope string_scope.

(* tree_to_path(base='', tree): joinpath of the titles *)
Definition tree_path (k : key) : list string := flat_map parse_rel k.

(* the page of a section, without the '.rst' suffix (Sphinx' docname) *)
Definition page_doc (k : key) : list string :=
  match k with [] => ["index"] | _ => tree_path k end.

(* path.with_name(path.name + '.rst') *)
Definition add_rst (p : list string) : list string :=
  match p with
  | [] => [".rst"]                        (* the report directory itself: never reached after check_tree *)
  | _ => removelast p ++ [last p "" ++ ".rst"]
  end.

Definition lastn {A} (n : nat) (l : list A) : list A := skipn (length l - n) l.

(* FormattedRst.toc: entry = tree_to_path('', subtree[-2:]) *)
Definition toc_entry (sub : key) : list string := tree_path (lastn 2 sub).

(* how Sphinx reads a toctree entry: relative to the directory of the page *)
Definition resolve (doc entry : list string) : list string := removelast doc ++ entry.

Definition fig_name (i : string) : string := "plot_" ++ i ++ ".png".

Local Close Scope string_scope.

(* ---- the pages ---- *)
Record page := mk_page {
  p_doc : list string;            (* where: docname; the file is add_rst of it *)
  p_anchors : list nat;           (* anchors of the results, in order *)
  p_toc : list (list string);     (* toctree entries, in order *)
  p_images : list string;         (* image directives (plot ids), in order *)
}.

Definition page_of (kr : key * report) : page :=
  let '(k, r) := kr in
  mk_page (page_doc k)
          (map r_anchor (results_of r))
          (map (fun c => toc_entry (k ++ [title_of c])) (children_of r))
          (flat_map r_images (results_of r)).

(* sections in the order _write_rec visits them, with their keys *)
Fixpoint secs (k : key) (r : report) : list (key * report) :=
  match r with
  | Node t rs cs => (k, r) :: flat_map (fun c => secs (k ++ [title_of c]) c) cs
  end.

(* ---- what is refused before anything is written ---- *)

(* RstFormatter.header: depth >= 5 raises ValueError (in format_report) *)
Fixpoint levels_ok (d : nat) (r : report) : bool :=
  match r with
  | Node _ _ cs => (d <=? 4) && forallb (levels_ok (S d)) cs
  end.

Fixpoint nodupb (l : list string) : bool :=
  match l with
  | [] => true
  | a :: r => negb (existsb (String.eqb a) r) && nodupb r
  end.

Definition title_ok (top : bool) (t : string) : bool :=
  match sanitize t with
  | Ok _ => negb (top && String.eqb t "index")
  | Raise _ => false
  end.

(* files written next to the pages of the children [cs] of the section with
   key [k]; [figs] = names of the plot files *)
Definition files_beside (figs : list string) (k : key) (cs : list report) : list string :=
  (match k with
   | [] => ["index.rst"%string; "conf.py"%string]
   | [d] => if String.eqb d ".static" then ["valjean.css"%string]
            else if String.eqb d "figures" then figs else []
   | _ => []
   end)
  ++ map (fun c => (title_of c ++ ".rst")%string) cs.

Definition has_children (r : report) : bool :=
  match children_of r with [] => false | _ => true end.

(* the directory of the sub-sections of [c] must not be one of those files *)
Definition dir_ok (figs : list string) (k : key) (cs : list report) (c : report) : bool :=
  negb (has_children c && existsb (String.eqb (title_of c)) (files_beside figs k cs)).

Definition is_top (k : key) : bool := match k with [] => true | _ => false end.

(* FormattedRst.check_tree, at the section with key [k] *)
Fixpoint titles_ok (figs : list string) (k : key) (r : report) : bool :=
  match r with
  | Node _ _ cs =>
      nodupb (map title_of cs)
      && forallb (fun c => title_ok (is_top k) (title_of c) && dir_ok figs k cs c
                           && titles_ok figs (k ++ [title_of c]) c) cs
  end.


(* ---- write ---- *)
Inductive wr :=
| WConf                 (* conf.py *)
| WCss                  (* .static/valjean.css *)
| WPage (p : page)
| WFig (i : string).    (* figures/plot_<i>.png *)

Definition wr_path (w : wr) : list string :=
  match w with
  | WConf => ["conf.py"%string]
  | WCss => [".static"%string; "valjean.css"%string]
  | WPage p => add_rst (p_doc p)
  | WFig i => ["figures"%string; fig_name i]
  end.

(* the plots dictionary: one entry per fingerprint, in order of first use *)
Fixpoint dedupe (l : list string) : list string :=
  match l with
  | [] => []
  | a :: r => a :: filter (fun b => negb (String.eqb a b)) (dedupe r)
  end.

Definition pages (r : report) : list page := map page_of (secs [] r).

Definition all_images (r : report) : list string := flat_map p_images (pages r).

Definition writable (r : report) : bool :=
  levels_ok 0 r && titles_ok (map fig_name (dedupe (all_images r))) [] r.

(* the trace of file writes and the exception that ended it, if any
   (Some 1 = ValueError) *)
Definition write (r : report) : list wr * option nat :=
  if writable r
  then (WConf :: WCss :: map WPage (pages r) ++ map WFig (dedupe (all_images r)), None)
  else ([], Some 1).

(* ------------------------------------------------------------------ *)
(* what a cases file evaluates *)

Inductive obs :=
| ORaised (files : list (list string))          (* exception; files found in the directory *)
| OWritten (pgs : list page) (figs : list string) (others : list (list string)).

Definition page_eqb (a b : page) : bool :=
  path_eqb (p_doc a) (p_doc b)
  && list_eqb Nat.eqb (p_anchors a) (p_anchors b)
  && list_eqb path_eqb (p_toc a) (p_toc b)
  && list_eqb String.eqb (p_images a) (p_images b).

Definition subset {A} (eqb : A -> A -> bool) (a b : list A) : bool :=
  forallb (fun x => existsb (eqb x) b) a.

Definition same_set {A} (eqb : A -> A -> bool) (a b : list A) : bool :=
  Nat.eqb (length a) (length b) && subset eqb a b && subset eqb b a.

Fixpoint trace_pages (t : list wr) : list page :=
  match t with
  | [] => []
  | WPage p :: r => p :: trace_pages r
  | _ :: r => trace_pages r
  end.

Fixpoint trace_figs (t : list wr) : list string :=
  match t with
  | [] => []
  | WFig i :: r => i :: trace_figs r
  | _ :: r => trace_figs r
  end.

Fixpoint trace_others (t : list wr) : list (list string) :=
  match t with
  | [] => []
  | WConf :: r => wr_path WConf :: trace_others r
  | WCss :: r => wr_path WCss :: trace_others r
  | _ :: r => trace_others r
  end.

(* the written directory is compared as a map: the last write to a path wins *)
Definition check_case (c : report * obs) : bool :=
  let '(r, o) := c in
  match write r, o with
  | (t, Some _), ORaised files =>
      match t, files with [], [] => true | _, _ => false end
  | (t, None), OWritten pgs figs others =>
      same_set page_eqb (trace_pages t) pgs
      && same_set String.eqb (trace_figs t) figs
      && same_set path_eqb (trace_others t) others
  | _, _ => false
  end.

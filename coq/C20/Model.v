(* C20: written reports.
   Model of valjean/javert/rst.py: Rst.format_report (depth limit of the
   headers), FormattedRst.write = check_tree, setup, _write_rec, plots.

   A report is a rose tree of sections; a section holds results (anchor,
   images of its plots) and sub-sections.  The order in which results and
   sub-sections alternate in [content] only matters for the text of the page,
   which the property does not talk about, so the two lists are kept apart.

   Sections are keyed by their chain of titles below the root.  In the code
   the text and the sub-sections of a key are accumulated in two dictionaries
   ([text_dict], [tree_dict]) filled by a pre-order traversal; as long as no
   two siblings share a title, every key belongs to exactly one section and
   the dictionaries are the tree itself.  [check_tree] refuses every other
   tree before the first write, so the model writes straight from the tree.

   Paths are component lists relative to the report directory; pathlib's
   joinpath is C19's [parse_rel] on every title. *)
From Coq Require Import String Ascii List ZArith Bool Arith Lia.
From VV Require Import Lib.Base C19.Model.
Import ListNotations.

Record result := mk_result { r_anchor : nat; r_images : list string }.

Inductive report := Node (title : string) (results : list result) (children : list report).

Definition title_of (r : report) : string := match r with Node t _ _ => t end.
Definition results_of (r : report) : list result := match r with Node _ rs _ => rs end.
Definition children_of (r : report) : list report := match r with Node _ _ cs => cs end.

Definition key := list string.

(* ---- paths ---- *)
Local Open Scope string_scope.

(* tree_to_path(base='', tree): joinpath of the titles *)
Definition tree_path (k : key) : list string := flat_map parse_rel k.

(* the page of a section, without the '.rst' suffix (Sphinx' docname) *)
Definition page_doc (k : key) : list string :=
  match k with [] => ["index"] | _ => tree_path k end.

(* path.with_name(path.name + '.rst') *)
Definition add_rst (p : list string) : list string :=
  match p with
  | [] => [".rst"]                        (* the report directory itself: never reached after check_tree *)
  | _ => removelast p ++ [last p "" ++ ".rst"]
  end.

Definition lastn {A} (n : nat) (l : list A) : list A := skipn (length l - n) l.

(* FormattedRst.toc: entry = tree_to_path('', subtree[-2:]) *)
Definition toc_entry (sub : key) : list string := tree_path (lastn 2 sub).

(* how Sphinx reads a toctree entry: relative to the directory of the page *)
Definition resolve (doc entry : list string) : list string := removelast doc ++ entry.

Definition fig_name (i : string) : string := "plot_" ++ i ++ ".png".

Local Close Scope string_scope.

(* ---- the pages ---- *)
Record page := mk_page {
  p_doc : list string;            (* where: docname; the file is add_rst of it *)
  p_anchors : list nat;           (* anchors of the results, in order *)
  p_toc : list (list string);     (* toctree entries, in order *)
  p_images : list string;         (* image directives (plot ids), in order *)
}.

Definition page_of (kr : key * report) : page :=
  let '(k, r) := kr in
  mk_page (page_doc k)
          (map r_anchor (results_of r))
          (map (fun c => toc_entry (k ++ [title_of c])) (children_of r))
          (flat_map r_images (results_of r)).

(* sections in the order _write_rec visits them, with their keys *)
Fixpoint secs (k : key) (r : report) : list (key * report) :=
  match r with
  | Node t rs cs => (k, r) :: flat_map (fun c => secs (k ++ [title_of c]) c) cs
  end.

(* ---- what is refused before anything is written ---- *)

(* RstFormatter.header: depth >= 5 raises ValueError (in format_report) *)
Fixpoint levels_ok (d : nat) (r : report) : bool :=
  match r with
  | Node _ _ cs => (d <=? 4) && forallb (levels_ok (S d)) cs
  end.

Fixpoint nodupb (l : list string) : bool :=
  match l with
  | [] => true
  | a :: r => negb (existsb (String.eqb a) r) && nodupb r
  end.

Definition title_ok (top : bool) (t : string) : bool :=
  match sanitize t with
  | Ok _ => negb (top && String.eqb t "index")
  | Raise _ => false
  end.

(* files written next to the pages of the children [cs] of the section with
   key [k]; [figs] = names of the plot files *)
Definition files_beside (figs : list string) (k : key) (cs : list report) : list string :=
  (match k with
   | [] => ["index.rst"%string; "conf.py"%string]
   | [d] => if String.eqb d ".static" then ["valjean.css"%string]
            else if String.eqb d "figures" then figs else []
   | _ => []
   end)
  ++ map (fun c => (title_of c ++ ".rst")%string) cs.

Definition has_children (r : report) : bool :=
  match children_of r with [] => false | _ => true end.

(* the directory of the sub-sections of [c] must not be one of those files *)
Definition dir_ok (figs : list string) (k : key) (cs : list report) (c : report) : bool :=
  negb (has_children c && existsb (String.eqb (title_of c)) (files_beside figs k cs)).

Definition is_top (k : key) : bool := match k with [] => true | _ => false end.

(* FormattedRst.check_tree, at the section with key [k] *)
Fixpoint titles_ok (figs : list string) (k : key) (r : report) : bool :=
  match r with
  | Node _ _ cs =>
      nodupb (map title_of cs)
      && forallb (fun c => title_ok (is_top k) (title_of c) && dir_ok figs k cs c
                           && titles_ok figs (k ++ [title_of c]) c) cs
  end.


(* ---- write ---- *)
Inductive wr :=
| WConf                 (* conf.py *)
| WCss                  (* .static/valjean.css *)
| WPage (p : page)
| WFig (i : string).    (* figures/plot_<i>.png *)

Definition wr_path (w : wr) : list string :=
  match w with
  | WConf => ["conf.py"%string]
  | WCss => [".static"%string; "valjean.css"%string]
  | WPage p => add_rst (p_doc p)
  | WFig i => ["figures"%string; fig_name i]
  end.

(* the plots dictionary: one entry per fingerprint, in order of first use
   (self.plots[fingerprint] = ... for every plot that is formatted) *)
Fixpoint add_all (acc l : list string) : list string :=
  match l with
  | [] => acc
  | x :: r => add_all (if existsb (String.eqb x) acc then acc else acc ++ [x]) r
  end.

Definition uniq (l : list string) : list string := add_all [] l.

Definition pages (r : report) : list page := map page_of (secs [] r).

Definition all_images (r : report) : list string := flat_map p_images (pages r).

Definition writable (r : report) : bool :=
  levels_ok 0 r && titles_ok (map fig_name (uniq (all_images r))) [] r.

(* the trace of file writes and the exception that ended it, if any
   (Some 1 = ValueError) *)
Definition write (r : report) : list wr * option nat :=
  if writable r
  then (WConf :: WCss :: map WPage (pages r) ++ map WFig (uniq (all_images r)), None)
  else ([], Some 1).

(* ------------------------------------------------------------------ *)
(* The algorithm of the code, transcribed literally: format_report_rec fills
   two default-dicts keyed by title chains (insertion-ordered association
   lists here) and the plots dictionary; check_tree and _write_rec then walk
   the dictionaries from the root key.  Their recursion follows the
   dictionary, not a data structure, hence the fuel; format_report refuses
   sections at depth >= 5, so 6 is enough (C20/Dict.v: the transcription and
   the tree-based [write] above are the same function).
   One abstraction is kept: the results of a section are visited before its
   sub-sections (in the code they alternate in [content]); the entries of a
   key never depend on that order, only the order of first use of the plots
   does, which is not observable in the written directory. *)

Inductive titem := THeader (t : string) | TRes (r : result).

Definition ddict (V : Type) := list (key * list V).

(* d.get(k, []) *)
Fixpoint dget {V} (d : ddict V) (k : key) : list V :=
  match d with
  | [] => []
  | (q, v) :: r => if path_eqb q k then v else dget r k
  end.

(* d[k].extend(vs) on a defaultdict(list) *)
Fixpoint dextend {V} (d : ddict V) (k : key) (vs : list V) : ddict V :=
  match d with
  | [] => [(k, vs)]
  | (q, v) :: r => if path_eqb q k then (q, v ++ vs) :: r else (q, v) :: dextend r k vs
  end.

Record fstate := mk_fstate { f_tree : ddict key; f_text : ddict titem; f_plots : list string }.

(* Rst.format_report_rec(report, tree); None = ValueError of RstFormatter.header *)
Fixpoint fmt (r : report) (tree : key) (st : fstate) : option fstate :=
  match r with
  | Node t rs cs =>
      if 5 <=? length tree then None
      else
        let st1 := mk_fstate (f_tree st)
                             (dextend (f_text st) tree (THeader t :: map TRes rs))
                             (add_all (f_plots st) (flat_map r_images rs)) in
        (fix go (l : list report) (st : fstate) : option fstate :=
           match l with
           | [] => Some st
           | c :: l' =>
               let sub := tree ++ [title_of c] in
               match fmt c sub (mk_fstate (dextend (f_tree st) tree [sub]) (f_text st) (f_plots st)) with
               | None => None
               | Some st' => go l' st'
               end
           end) cs st1
  end.

Definition sanitizes (t : string) : bool :=
  match sanitize t with Ok _ => true | Raise _ => false end.

Fixpoint nodup_keys (l : list key) : bool :=
  match l with
  | [] => true
  | a :: r => negb (existsb (path_eqb a) r) && nodup_keys r
  end.

Definition nonempty {A} (l : list A) : bool := match l with [] => false | _ => true end.

Definition special_files (fignames : list string) (k : key) : list string :=
  match k with
  | [] => ["index.rst"%string; "conf.py"%string]
  | [d] => if String.eqb d ".static" then ["valjean.css"%string]
           else if String.eqb d "figures" then fignames else []
  | _ => []
  end.

(* FormattedRst.check_tree(tree): false = ValueError *)
Fixpoint dcheck (fuel : nat) (td : ddict key) (fignames : list string) (k : key) : bool :=
  match fuel with
  | O => false
  | S f =>
      let subs := dget td k in
      let files := special_files fignames k ++ map (fun s => (last s "" ++ ".rst")%string) subs in
      forallb (fun s => forallb sanitizes s && negb (path_eqb s ["index"%string])) subs
      && nodup_keys subs
      && forallb (fun s => negb (existsb (String.eqb (last s ""%string)) files && nonempty (dget td s))) subs
      && forallb (dcheck f td fignames) subs
  end.

Definition text_anchors (l : list titem) : list nat :=
  flat_map (fun it => match it with TRes r => [r_anchor r] | THeader _ => [] end) l.
Definition text_images (l : list titem) : list string :=
  flat_map (fun it => match it with TRes r => r_images r | THeader _ => [] end) l.

(* FormattedRst._write_rec(tree) *)
Fixpoint dpages (fuel : nat) (st : fstate) (k : key) : list page :=
  match fuel with
  | O => []
  | S f =>
      let subs := dget (f_tree st) k in
      mk_page (page_doc k) (text_anchors (dget (f_text st) k)) (map toc_entry subs)
              (text_images (dget (f_text st) k))
      :: flat_map (dpages f st) subs
  end.

Definition FUEL : nat := 6.

(* Rst.format_report followed by FormattedRst.write *)
Definition dwrite_report (r : report) : list wr * option nat :=
  match fmt r [] (mk_fstate [] [] []) with
  | None => ([], Some 1)
  | Some st =>
      if dcheck FUEL (f_tree st) (map fig_name (f_plots st)) []
      then (WConf :: WCss :: map WPage (dpages FUEL st []) ++ map WFig (f_plots st), None)
      else ([], Some 1)
  end.

(* ------------------------------------------------------------------ *)
(* what a cases file evaluates *)

Inductive obs :=
| ORaised (files : list (list string))          (* exception; files found in the directory *)
| OWritten (pgs : list page) (figs : list string) (others : list (list string)).

Definition page_eqb (a b : page) : bool :=
  path_eqb (p_doc a) (p_doc b)
  && list_eqb Nat.eqb (p_anchors a) (p_anchors b)
  && list_eqb path_eqb (p_toc a) (p_toc b)
  && list_eqb String.eqb (p_images a) (p_images b).

Definition subset {A} (eqb : A -> A -> bool) (a b : list A) : bool :=
  forallb (fun x => existsb (eqb x) b) a.

Definition same_set {A} (eqb : A -> A -> bool) (a b : list A) : bool :=
  Nat.eqb (length a) (length b) && subset eqb a b && subset eqb b a.

Fixpoint trace_pages (t : list wr) : list page :=
  match t with
  | [] => []
  | WPage p :: r => p :: trace_pages r
  | _ :: r => trace_pages r
  end.

Fixpoint trace_figs (t : list wr) : list string :=
  match t with
  | [] => []
  | WFig i :: r => i :: trace_figs r
  | _ :: r => trace_figs r
  end.

Fixpoint trace_others (t : list wr) : list (list string) :=
  match t with
  | [] => []
  | WConf :: r => wr_path WConf :: trace_others r
  | WCss :: r => wr_path WCss :: trace_others r
  | _ :: r => trace_others r
  end.

(* the written directory is compared as a map with the trace of the literal
   transcription *)
Definition check_case (c : report * obs) : bool :=
  let '(r, o) := c in
  match dwrite_report r, o with
  | (t, Some _), ORaised files =>
      match t, files with [], [] => true | _, _ => false end
  | (t, None), OWritten pgs figs others =>
      same_set page_eqb (trace_pages t) pgs
      && same_set String.eqb (trace_figs t) figs
      && same_set path_eqb (trace_others t) others
  | _, _ => false
  end.

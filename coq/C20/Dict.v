(* C20: the dictionary-based algorithm of the code (Model.fmt / dcheck / dpages /
   dwrite_report) and the tree-based model (Model.write) are the same function. *)
From Coq Require Import String Ascii List ZArith Bool Arith Lia.
From VV Require Import Lib.Base C19.Model C19.Proofs C20.Model C20.Proofs.
Import ListNotations.

(* ------------------------------------------------------------------ *)
(* dictionaries *)
Lemma dget_dextend {V} (d : ddict V) k vs k' :
  dget (dextend d k vs) k' = if path_eqb k k' then dget d k' ++ vs else dget d k'.
Proof.
  induction d as [|[q v] r IH]; cbn.
  - destruct (path_eqb k k'); reflexivity.
  - destruct (path_eqb q k) eqn:E; cbn.
    + apply path_eqb_eq in E. subst q. destruct (path_eqb k k'); reflexivity.
    + rewrite IH. destruct (path_eqb q k') eqn:E2; [|reflexivity].
      apply path_eqb_eq in E2. subst k'. now rewrite path_eqb_neq by (intros ->; now rewrite path_eqb_refl in E).
Qed.

(* ------------------------------------------------------------------ *)
(* what one call of format_report_rec adds to the entry of key [k] *)
Fixpoint tcontrib (r : report) (tree k : key) : list key :=
  match r with
  | Node _ _ cs =>
      flat_map (fun c => (if path_eqb tree k then [tree ++ [title_of c]] else [])
                         ++ tcontrib c (tree ++ [title_of c]) k) cs
  end.

Fixpoint xcontrib (r : report) (tree k : key) : list titem :=
  match r with
  | Node t rs cs =>
      (if path_eqb tree k then THeader t :: map TRes rs else [])
      ++ flat_map (fun c => xcontrib c (tree ++ [title_of c]) k) cs
  end.

Fixpoint images_pre (r : report) : list string :=
  match r with
  | Node _ rs cs => flat_map r_images rs ++ flat_map images_pre cs
  end.

Lemma levels_ok_unfold d r :
  levels_ok d r = (d <=? 4) && forallb (levels_ok (S d)) (children_of r).
Proof. destruct r; reflexivity. Qed.

Lemma fmt_spec r : forall tree st,
  (levels_ok (length tree) r = false -> fmt r tree st = None) /\
  (levels_ok (length tree) r = true ->
   exists st', fmt r tree st = Some st' /\
     (forall k, dget (f_tree st') k = dget (f_tree st) k ++ tcontrib r tree k) /\
     (forall k, dget (f_text st') k = dget (f_text st) k ++ xcontrib r tree k) /\
     f_plots st' = add_all (f_plots st) (images_pre r)).
Proof.
  induction r as [t rs cs IH] using report_ind'. intros tree st.
  cbn [fmt levels_ok].
  destruct (5 <=? length tree) eqn:E5.
  { apply Nat.leb_le in E5. replace (length tree <=? 4) with false by (symmetry; apply Nat.leb_gt; lia).
    cbn. split; [reflexivity | discriminate]. }
  apply Nat.leb_gt in E5. replace (length tree <=? 4) with true by (symmetry; apply Nat.leb_le; lia).
  cbn [andb].
  set (st1 := mk_fstate (f_tree st) (dextend (f_text st) tree (THeader t :: map TRes rs))
                        (add_all (f_plots st) (flat_map r_images rs))).
  (* the loop over the sub-sections, from any state *)
  assert (Loop : forall l, Forall (fun c => forall tree st,
              (levels_ok (length tree) c = false -> fmt c tree st = None) /\
              (levels_ok (length tree) c = true ->
               exists st', fmt c tree st = Some st' /\
                 (forall k, dget (f_tree st') k = dget (f_tree st) k ++ tcontrib c tree k) /\
                 (forall k, dget (f_text st') k = dget (f_text st) k ++ xcontrib c tree k) /\
                 f_plots st' = add_all (f_plots st) (images_pre c))) l ->
            forall s0,
            let go := (fix go (l : list report) (st : fstate) : option fstate :=
               match l with
               | [] => Some st
               | c :: l' =>
                   match fmt c (tree ++ [title_of c])
                             (mk_fstate (dextend (f_tree st) tree [tree ++ [title_of c]]) (f_text st) (f_plots st)) with
                   | None => None
                   | Some st' => go l' st'
                   end
               end) in
            (forallb (levels_ok (S (length tree))) l = false -> go l s0 = None) /\
            (forallb (levels_ok (S (length tree))) l = true ->
             exists st', go l s0 = Some st' /\
               (forall k, dget (f_tree st') k = dget (f_tree s0) k
                   ++ flat_map (fun c => (if path_eqb tree k then [tree ++ [title_of c]] else [])
                                         ++ tcontrib c (tree ++ [title_of c]) k) l) /\
               (forall k, dget (f_text st') k = dget (f_text s0) k
                   ++ flat_map (fun c => xcontrib c (tree ++ [title_of c]) k) l) /\
               f_plots st' = add_all (f_plots s0) (flat_map images_pre l))).
  { induction l as [|c l IHl]; intros HF s0; cbn zeta.
    - cbn. split; [discriminate|]. intros _. exists s0. split; [reflexivity|].
      split; [intros k; now rewrite app_nil_r | split; [intros k; now rewrite app_nil_r | reflexivity]].
    - inversion HF as [|? ? Hc HF']; subst. specialize (IHl HF').
      cbn [forallb flat_map].
      assert (Hlen : length (tree ++ [title_of c]) = S (length tree)) by (rewrite app_length; cbn; lia).
      destruct (Hc (tree ++ [title_of c])
                   (mk_fstate (dextend (f_tree s0) tree [tree ++ [title_of c]]) (f_text s0) (f_plots s0)))
        as [Hn Hs].
      rewrite Hlen in Hn, Hs.
      destruct (levels_ok (S (length tree)) c) eqn:Ec; cbn [andb].
      + destruct (Hs eq_refl) as (st' & Ef & Ht & Hx & Hp). rewrite Ef.
        destruct (IHl st') as [IHn IHs]. split.
        * intros Hf. now apply IHn.
        * intros Hf. destruct (IHs Hf) as (st'' & Eg & Ht' & Hx' & Hp'). exists st''. split; [exact Eg|].
          split; [|split].
          -- intros k. rewrite Ht', Ht. cbn [f_tree]. rewrite dget_dextend.
             destruct (path_eqb tree k); rewrite <- !app_assoc; reflexivity.
          -- intros k. rewrite Hx', Hx. cbn [f_text]. now rewrite <- app_assoc.
          -- rewrite Hp', Hp. cbn [f_plots]. now rewrite add_all_app.
      + rewrite (Hn eq_refl). split; [reflexivity | discriminate]. }
  destruct (Loop cs IH st1) as [Ln Ls]. cbn zeta in Ln, Ls. split.
  - intros Hf. now apply Ln.
  - intros Hf. destruct (Ls Hf) as (st' & Eg & Ht & Hx & Hp). exists st'. split; [exact Eg|].
    split; [|split].
    + intros k. rewrite Ht. reflexivity.
    + intros k. rewrite Hx. unfold st1. cbn [f_text]. rewrite dget_dextend. cbn [xcontrib].
      destruct (path_eqb tree k); rewrite <- ?app_assoc; reflexivity.
    + rewrite Hp. unfold st1. cbn [f_plots images_pre]. now rewrite add_all_app.
Qed.

(* ------------------------------------------------------------------ *)
(* prefixes *)
Lemma is_prefix_iff p : forall q, is_prefix p q = true <-> exists s, q = p ++ s.
Proof.
  induction p as [|a p IH]; intros q; cbn.
  - split; [intros _; now exists q | reflexivity].
  - destruct q as [|b q]; [split; [discriminate | intros (s & E); discriminate]|].
    rewrite andb_true_iff, String.eqb_eq, IH. split.
    + intros [-> (s & ->)]. now exists s.
    + intros (s & E). inversion E; subst. split; [reflexivity | now exists s].
Qed.

Lemma not_prefix_longer (p : key) a s : is_prefix (p ++ a :: s) p = false.
Proof.
  destruct (is_prefix (p ++ a :: s) p) eqn:E; [|reflexivity].
  apply is_prefix_iff in E as (s' & E). apply (f_equal (@length _)) in E.
  rewrite !app_length in E. cbn in E. lia.
Qed.

Lemma prefix_app_l (p s k : key) : is_prefix (p ++ s) k = true -> is_prefix p k = true.
Proof. rewrite !is_prefix_iff. intros (s' & ->). exists (s ++ s'). now rewrite app_assoc. Qed.

Lemma prefix_snoc_eq (p : key) a b k :
  is_prefix (p ++ [a]) k = true -> is_prefix (p ++ [b]) k = true -> a = b.
Proof.
  rewrite !is_prefix_iff. intros (s & ->) (s' & E). rewrite <- !app_assoc in E.
  apply app_inv_head in E. now inversion E.
Qed.

Lemma prefix_snoc_neq (p : key) a k : is_prefix (p ++ [a]) k = true -> path_eqb p k = false.
Proof.
  intros H. apply path_eqb_neq. intros ->. now rewrite (not_prefix_longer k a []) in H.
Qed.

Lemma is_prefix_refl (p : key) : is_prefix p p = true.
Proof. apply is_prefix_iff. exists []. now rewrite app_nil_r. Qed.

Lemma flat_map_nil_forall {A B} (f : A -> list B) l : Forall (fun x => f x = []) l -> flat_map f l = [].
Proof. induction 1 as [|x l Hx _ IH]; cbn; [reflexivity|]. now rewrite Hx, IH. Qed.

Lemma flat_map_single {A B} (g : A -> string) (f : A -> list B) cs c :
  NoDup (map g cs) -> In c cs -> (forall c', In c' cs -> g c' <> g c -> f c' = []) ->
  flat_map f cs = f c.
Proof.
  induction cs as [|x cs IH]; intros ND Hin Hz; [contradiction|].
  cbn in *. inversion ND as [|? ? Hnot ND']; subst. destruct Hin as [->|Hin].
  - assert (flat_map f cs = []) as ->; [|apply app_nil_r].
    apply flat_map_nil_forall. apply Forall_forall. intros y Hy. apply Hz; [now right|].
    intros E. apply Hnot. rewrite <- E. now apply in_map.
  - rewrite (Hz x); [|now left|]; [cbn; apply IH; auto|].
    intros E. apply Hnot. rewrite E. now apply in_map.
Qed.

(* ------------------------------------------------------------------ *)
(* contributions and the tree *)
Lemma contrib_nil r : forall tree k, is_prefix tree k = false ->
  tcontrib r tree k = [] /\ xcontrib r tree k = [].
Proof.
  induction r as [t rs cs IH] using report_ind'. intros tree k H. cbn.
  assert (E : path_eqb tree k = false).
  { apply path_eqb_neq. intros ->. now rewrite is_prefix_refl in H. }
  rewrite E. cbn. rewrite Forall_forall in IH. split.
  - apply flat_map_nil_forall. apply Forall_forall. intros c Hc. apply IH; [exact Hc|].
    destruct (is_prefix (tree ++ [title_of c]) k) eqn:E2; [|reflexivity].
    apply prefix_app_l in E2. congruence.
  - apply flat_map_nil_forall. apply Forall_forall. intros c Hc. apply IH; [exact Hc|].
    destruct (is_prefix (tree ++ [title_of c]) k) eqn:E2; [|reflexivity].
    apply prefix_app_l in E2. congruence.
Qed.

Lemma contrib_self r tree :
  tcontrib r tree tree = map (fun c => tree ++ [title_of c]) (children_of r) /\
  xcontrib r tree tree = THeader (title_of r) :: map TRes (results_of r).
Proof.
  destruct r as [t rs cs]. cbn [tcontrib xcontrib children_of results_of title_of].
  rewrite path_eqb_refl. split.
  - induction cs as [|c cs IH]; [reflexivity|]. cbn [flat_map map].
    destruct (contrib_nil c (tree ++ [title_of c]) tree (not_prefix_longer tree _ [])) as [E _].
    rewrite E, IH. reflexivity.
  - assert (flat_map (fun c => xcontrib c (tree ++ [title_of c]) tree) cs = []) as ->; [|apply app_nil_r].
    apply flat_map_nil_forall. apply Forall_forall. intros c _.
    apply (contrib_nil c (tree ++ [title_of c]) tree (not_prefix_longer tree _ [])).
Qed.

Lemma contrib_child r c tree k :
  NoDup (map title_of (children_of r)) -> In c (children_of r) ->
  is_prefix (tree ++ [title_of c]) k = true ->
  tcontrib r tree k = tcontrib c (tree ++ [title_of c]) k /\
  xcontrib r tree k = xcontrib c (tree ++ [title_of c]) k.
Proof.
  destruct r as [t rs cs]. cbn [children_of]. intros ND Hc Hp. cbn [tcontrib xcontrib].
  rewrite (prefix_snoc_neq _ _ _ Hp). cbn [app].
  assert (Hother : forall c', In c' cs -> title_of c' <> title_of c ->
                              is_prefix (tree ++ [title_of c']) k = false).
  { intros c' _ Hne. destruct (is_prefix (tree ++ [title_of c']) k) eqn:E; [|reflexivity].
    exfalso. apply Hne. eapply prefix_snoc_eq; eauto. }
  split.
  - apply (flat_map_single title_of (fun c0 => tcontrib c0 (tree ++ [title_of c0]) k)); auto.
    intros c' Hc' Hne. now apply (contrib_nil c' _ k (Hother c' Hc' Hne)).
  - apply (flat_map_single title_of (fun c0 => xcontrib c0 (tree ++ [title_of c0]) k)); auto.
    intros c' Hc' Hne. now apply (contrib_nil c' _ k (Hother c' Hc' Hne)).
Qed.

(* ------------------------------------------------------------------ *)
(* fuel *)
Fixpoint height (r : report) : nat :=
  match r with Node _ _ cs => S (fold_right Nat.max 0 (map height cs)) end.

Lemma height_child r c : In c (children_of r) -> height c < height r.
Proof.
  destruct r as [t rs cs]. cbn. induction cs as [|x cs IH]; intros Hin; [contradiction|].
  cbn. destruct Hin as [->|Hin]; [lia|]. specialize (IH Hin). lia.
Qed.

Lemma levels_height r : forall d, levels_ok d r = true -> d + height r <= 5.
Proof.
  induction r as [t rs cs IH] using report_ind'. intros d H. cbn in H.
  apply andb_true_iff in H as [Hd Hcs]. apply Nat.leb_le in Hd. cbn.
  rewrite forallb_forall in Hcs. rewrite Forall_forall in IH.
  assert (forall c, In c cs -> S d + height c <= 5) by (intros c Hc; apply IH; auto).
  clear IH Hcs. induction cs as [|x cs IHcs]; cbn; [lia|].
  assert (S d + height x <= 5) by (apply H; now left).
  assert (d + S (fold_right Nat.max 0 (map height cs)) <= 5) by (apply IHcs; intros c Hc; apply H; now right).
  lia.
Qed.

(* ------------------------------------------------------------------ *)
(* small facts used at one level of the walk *)
Lemma sanitizes_good t : sanitizes t = true <-> good_name t.
Proof.
  unfold sanitizes. destruct (sanitize t) eqn:E.
  - apply sanitize_ok in E as [_ G]. tauto.
  - split; [discriminate|]. intros G. exfalso. eapply sanitize_raise; eauto.
Qed.

Lemma level_title k t :
  Forall good_name k ->
  forallb sanitizes (k ++ [t]) && negb (path_eqb (k ++ [t]) ["index"%string]) = title_ok (is_top k) t.
Proof.
  intros G. rewrite forallb_app. cbn [forallb]. rewrite andb_true_r.
  assert (forallb sanitizes k = true) as ->.
  { apply forallb_forall. intros x Hx. apply sanitizes_good. rewrite Forall_forall in G. auto. }
  cbn [andb]. unfold title_ok, sanitizes. destruct (sanitize t) eqn:E; [|reflexivity]. cbn [andb].
  destruct k as [|x0 k0]; cbn.
  - now rewrite andb_true_r.
  - destruct k0; cbn; now rewrite ?andb_false_r.
Qed.

Lemma nodup_keys_snoc (k : key) (ts : list string) :
  nodup_keys (map (fun t => k ++ [t]) ts) = nodupb ts.
Proof.
  induction ts as [|a r IH]; cbn [map nodup_keys nodupb]; [reflexivity|]. rewrite IH. f_equal. f_equal.
  clear IH. induction r as [|b r IHr]; cbn [map existsb]; [reflexivity|]. rewrite IHr. f_equal.
  destruct (String.eqb a b) eqn:E.
  - apply String.eqb_eq in E. subst. apply path_eqb_refl.
  - apply path_eqb_neq. intros H. apply app_inv_head in H. inversion H. subst. now rewrite String.eqb_refl in E.
Qed.

Lemma forallb_map {A B} (p : B -> bool) (f : A -> B) l : forallb p (map f l) = forallb (fun x => p (f x)) l.
Proof. induction l as [|a l IH]; cbn; [reflexivity|]. now rewrite IH. Qed.

Lemma forallb_and3 {A} (p q r : A -> bool) l :
  forallb (fun x => p x && q x && r x) l = forallb p l && forallb q l && forallb r l.
Proof.
  induction l as [|a l IH]; cbn; [reflexivity|]. rewrite IH.
  destruct (p a), (q a), (r a), (forallb p l), (forallb q l), (forallb r l); reflexivity.
Qed.

Lemma forallb_ext_in {A} (p q : A -> bool) l :
  (forall x, In x l -> p x = q x) -> forallb p l = forallb q l.
Proof.
  induction l as [|a l IH]; intros H; cbn; [reflexivity|].
  rewrite (H a) by now left. rewrite IH; [reflexivity|]. intros x Hx. apply H. now right.
Qed.

Lemma flat_map_ext_in {A B} (f g : A -> list B) l :
  (forall x, In x l -> f x = g x) -> flat_map f l = flat_map g l.
Proof.
  induction l as [|a l IH]; intros H; cbn; [reflexivity|].
  rewrite (H a) by now left. rewrite IH; [reflexivity|]. intros x Hx. apply H. now right.
Qed.

Lemma map_flat_map {A B C} (f : B -> C) (g : A -> list B) l :
  map f (flat_map g l) = flat_map (fun x => map f (g x)) l.
Proof. induction l as [|a l IH]; cbn; [reflexivity|]. now rewrite map_app, IH. Qed.

Lemma text_anchors_sec t rs : text_anchors (THeader t :: map TRes rs) = map r_anchor rs.
Proof. unfold text_anchors. cbn. induction rs as [|r rs IH]; cbn; [reflexivity|]. now rewrite IH. Qed.

Lemma text_images_sec t rs : text_images (THeader t :: map TRes rs) = flat_map r_images rs.
Proof. unfold text_images. cbn. induction rs as [|r rs IH]; cbn; [reflexivity|]. now rewrite IH. Qed.

Lemma titles_ok_unfold figs k r :
  titles_ok figs k r
  = nodupb (map title_of (children_of r))
    && forallb (fun c => title_ok (is_top k) (title_of c) && dir_ok figs k (children_of r) c
                         && titles_ok figs (k ++ [title_of c]) c) (children_of r).
Proof. destruct r; reflexivity. Qed.

(* ------------------------------------------------------------------ *)
(* check_tree on the dictionary = check on the tree *)
Lemma dcheck_eq td figs n : forall k fuel,
  height n < fuel -> Forall good_name k ->
  (forall k', is_prefix k k' = true -> dget td k' = tcontrib n k k') ->
  dcheck fuel td figs k = titles_ok figs k n.
Proof.
  induction n as [t rs cs IH] using report_ind'. intros k fuel Hf Gk HD.
  destruct fuel as [|fuel]; [lia|].
  rewrite titles_ok_unfold. cbn [dcheck children_of].
  rewrite (HD k (is_prefix_refl k)).
  destruct (contrib_self (Node t rs cs) k) as [-> _]. cbn [children_of].
  rewrite !forallb_map, !map_map.
  replace (map (fun c => k ++ [title_of c]) cs) with (map (fun x => k ++ [x]) (map title_of cs))
    by (now rewrite map_map).
  rewrite nodup_keys_snoc.
  rewrite (forallb_ext_in _ (fun c => title_ok (is_top k) (title_of c)))
    by (intros c _; apply level_title, Gk).
  rewrite forallb_and3.
  destruct (nodupb (map title_of cs)) eqn:ND.
  2:{ cbn. now rewrite andb_false_r. }
  cbn [andb]. rewrite andb_true_r. apply nodupb_NoDup in ND.
  destruct (forallb (fun c => title_ok (is_top k) (title_of c)) cs) eqn:EA; [|reflexivity].
  cbn [andb]. rewrite forallb_forall in EA.
  assert (Hsub : forall c k', In c cs -> is_prefix (k ++ [title_of c]) k' = true ->
                              dget td k' = tcontrib c (k ++ [title_of c]) k').
  { intros c k' Hc Hp. rewrite HD by (eapply prefix_app_l, Hp).
    now destruct (contrib_child (Node t rs cs) c k k' ND Hc Hp). }
  f_equal.
  - apply forallb_ext_in. intros c Hc. unfold dir_ok. rewrite last_last. f_equal. rewrite andb_comm. f_equal.
    + rewrite (Hsub c _ Hc (is_prefix_refl _)).
      destruct (contrib_self c (k ++ [title_of c])) as [-> _]. unfold has_children.
      destruct (children_of c); reflexivity.
    + unfold files_beside, special_files. f_equal. f_equal. apply map_ext. intros x. now rewrite last_last.
  - apply forallb_ext_in. intros c Hc. rewrite Forall_forall in IH. apply IH; auto.
    + pose proof (height_child (Node t rs cs) c Hc). lia.
    + apply Forall_app. split; [exact Gk|]. constructor; [|constructor].
      now apply (title_ok_good (is_top k)), EA.
Qed.

(* _write_rec on the dictionaries = pages of the tree *)
Lemma dpages_eq st figs n : forall k fuel,
  height n < fuel -> titles_ok figs k n = true ->
  (forall k', is_prefix k k' = true ->
     dget (f_tree st) k' = tcontrib n k k' /\ dget (f_text st) k' = xcontrib n k k') ->
  dpages fuel st k = map page_of (secs k n).
Proof.
  induction n as [t rs cs IH] using report_ind'. intros k fuel Hf Hok HD.
  destruct fuel as [|fuel]; [lia|].
  rewrite secs_unfold. cbn [dpages children_of map].
  destruct (HD k (is_prefix_refl k)) as [-> ->].
  destruct (contrib_self (Node t rs cs) k) as [-> ->]. cbn [children_of results_of title_of].
  rewrite text_anchors_sec, text_images_sec, map_map. f_equal.
  rewrite titles_ok_unfold in Hok. cbn [children_of] in Hok. apply andb_true_iff in Hok as [ND Hok].
  apply nodupb_NoDup in ND. rewrite forallb_forall in Hok.
  rewrite flat_map_map, map_flat_map. apply flat_map_ext_in. intros c Hc.
  rewrite Forall_forall in IH. apply IH; auto.
  - pose proof (height_child (Node t rs cs) c Hc). lia.
  - specialize (Hok c Hc). now apply andb_true_iff in Hok as [_ Hok].
  - intros k' Hp. destruct (HD k' (prefix_app_l _ _ _ Hp)) as [-> ->].
    apply (contrib_child (Node t rs cs) c k k' ND Hc Hp).
Qed.

Lemma images_of_pages r : forall k,
  flat_map (fun kr => p_images (page_of kr)) (secs k r) = images_pre r.
Proof.
  induction r as [t rs cs IH] using report_ind'. intros k.
  rewrite secs_unfold. cbn [children_of flat_map images_pre page_of p_images results_of].
  f_equal. rewrite flat_map_flat_map.
  induction cs as [|c cs IHcs]; cbn; [reflexivity|].
  inversion IH; subst. rewrite H1. f_equal. now apply IHcs.
Qed.

Lemma all_images_pre r : all_images r = images_pre r.
Proof. unfold all_images, pages. rewrite flat_map_map. apply images_of_pages. Qed.

(* ---- C20: the transcription of the code's algorithm and the tree-based model
   are the same function ---- *)
Theorem dict_write_is_tree_write (r : report) : dwrite_report r = write r.
Proof.
  unfold dwrite_report, write, writable.
  destruct (fmt_spec r [] (mk_fstate [] [] [])) as [Hn Hs]. cbn [length] in Hn, Hs.
  destruct (levels_ok 0 r) eqn:L.
  2:{ rewrite (Hn eq_refl). reflexivity. }
  destruct (Hs eq_refl) as (st & -> & Ht & Hx & Hp). cbn [andb].
  cbn [f_tree f_text f_plots dget app] in Ht, Hx, Hp.
  assert (Hpl : f_plots st = uniq (all_images r)) by (rewrite Hp, all_images_pre; reflexivity).
  pose proof (levels_height r 0 L) as Hh. cbn in Hh.
  rewrite Hpl.
  rewrite (dcheck_eq (f_tree st) (map fig_name (uniq (all_images r))) r [] FUEL);
    [|unfold FUEL; lia | constructor | intros k' _; apply Ht].
  destruct (titles_ok (map fig_name (uniq (all_images r))) [] r) eqn:T; [|reflexivity].
  rewrite (dpages_eq st (map fig_name (uniq (all_images r))) r [] FUEL); [reflexivity | unfold FUEL; lia | exact T |].
  intros k' _. split; [apply Ht | apply Hx].
Qed.

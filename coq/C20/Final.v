(* C20: the theorems, stated of the transcription of the code's algorithm
   (Model.dwrite_report = format_report + check_tree + setup + _write_rec over
   the two dictionaries + plots) through Dict.dict_write_is_tree_write. *)
From Coq Require Import String List ZArith Bool.
From VV Require Import Lib.Base C19.Model C19.Proofs C20.Model C20.Proofs C20.Dict C20.Keys.
Import ListNotations.

Theorem code_write_spec (r : report) :
  (snd (dwrite_report r) <> None -> fst (dwrite_report r) = []) /\
  (snd (dwrite_report r) = None ->
   let t := fst (dwrite_report r) in
   trace_pages t = map page_of (secs [] r) /\
   (forall k n, In (k, n) (secs [] r) ->
      page_doc k = match k with [] => ["index"%string] | _ => k end /\ (k = [] -> n = r)) /\
   NoDup (map wr_path t) /\
   flat_map p_anchors (trace_pages t) = anchors_pre r /\
   (forall k n c, In (k, n) (secs [] r) -> In c (children_of n) ->
      In (toc_entry (k ++ [title_of c])) (p_toc (page_of (k, n))) /\
      In (page_of (k ++ [title_of c], c)) (trace_pages t) /\
      resolve (p_doc (page_of (k, n))) (toc_entry (k ++ [title_of c]))
      = p_doc (page_of (k ++ [title_of c], c))) /\
   (forall p i, In p (trace_pages t) -> In i (p_images p) -> In (WFig i) t)).
Proof. rewrite dict_write_is_tree_write. apply write_spec. Qed.

Theorem code_rejects_exactly (r : report) :
  (snd (dwrite_report r) <> None <-> ~ acceptable r) /\
  (snd (dwrite_report r) <> None -> fst (dwrite_report r) = []).
Proof. rewrite dict_write_is_tree_write. apply check_tree_rejects_iff. Qed.

Theorem code_no_file_is_a_directory (r : report) :
  snd (dwrite_report r) = None -> prefix_free (map wr_path (fst (dwrite_report r))).
Proof. rewrite dict_write_is_tree_write. apply no_file_is_a_directory. Qed.

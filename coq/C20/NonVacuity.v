(* concrete reports: one that is written, and the ones the unchanged tree got wrong *)
From Coq Require Import String List ZArith Bool.
From VV Require Import Lib.Base C19.Model C20.Model C20.Proofs.
Import ListNotations.
Local Open Scope string_scope.

Definition res (a : nat) (imgs : list string) := mk_result a imgs.

Definition rep : report :=
  Node "Main" [res 0 ["p0"]]
       [Node "A" [res 1 ["p1"]; res 2 []] [Node "B" [] [Node "C" [res 3 ["p0"]] []]];
        Node "figures" [] [Node "x" [res 4 []] []];
        Node "conf.py" [] []].

Example rep_writable : writable rep = true.
Proof. reflexivity. Qed.

Example rep_written :
  snd (write rep) = None /\
  map wr_path (fst (write rep))
  = [["conf.py"]; [".static"; "valjean.css"]; ["index.rst"]; ["A.rst"]; ["A"; "B.rst"]; ["A"; "B"; "C.rst"];
     ["figures.rst"]; ["figures"; "x.rst"]; ["conf.py.rst"];
     ["figures"; "plot_p0.png"]; ["figures"; "plot_p1.png"]] /\
  map p_toc (trace_pages (fst (write rep)))
  = [[["A"]; ["figures"]; ["conf.py"]]; [["A"; "B"]]; [["B"; "C"]]; []; [["figures"; "x"]]; []; []].
Proof. vm_compute. repeat split. Qed.

(* refused before anything is written: top-level index, invalid title deep in
   the tree, duplicate siblings, empty title, six levels, a directory that
   would have the name of a file *)
Example refused :
  map write
      [Node "M" [] [Node "index" [] []];
       Node "M" [] [Node "A" [] []; Node "B" [] [Node "a/b" [] []]];
       Node "M" [] [Node "A" [res 1 []] []; Node "A" [res 2 []] []];
       Node "M" [] [Node "" [] []];
       Node "M" [] [Node "A" [] [Node "B" [] [Node "C" [] [Node "D" [] [Node "E" [] []]]]]];
       Node "M" [] [Node "conf.py" [] [Node "x" [] []]];
       Node "M" [] [Node "A" [] []; Node "A.rst" [] [Node "x" [] []]];
       Node "M" [] [Node ".static" [] [Node "valjean.css" [] [Node "x" [] []]]];
       Node "M" [res 0 ["p0"]] [Node "figures" [] [Node "plot_p0.png" [] [Node "x" [] []]]]]
  = repeat ([], Some 1) 9.
Proof. vm_compute. reflexivity. Qed.

(* nested "index", five levels, "A.rst" without sub-sections are fine *)
Example accepted :
  forallb writable
      [Node "M" [] [Node "A" [] [Node "index" [] []]];
       Node "M" [] [Node "A" [] [Node "B" [] [Node "C" [] [Node "D" [] []]]]];
       Node "index" [] [Node "A" [] []; Node "A.rst" [] []];
       Node "M" [] [Node ".static" [] [Node "valjean.css" [] []]];
       Node "M" [] [Node "figures" [] [Node "plot_p0.png" [] [Node "x" [] []]]]] = true.
Proof. vm_compute. reflexivity. Qed.

(* ---- the transcription of the code's algorithm on the same data ---- *)
Example rep_by_the_dictionaries : dwrite_report rep = write rep /\ snd (dwrite_report rep) = None.
Proof. vm_compute. split; reflexivity. Qed.

Example refused_by_the_dictionaries :
  map dwrite_report
      [Node "M" [] [Node "index" [] []];
       Node "M" [] [Node "A" [res 1 []] []; Node "A" [res 2 []] []];
       Node "M" [] [Node "A" [] []; Node "B" [] [Node "a/b" [] []]];
       Node "M" [] [Node ".static" [] [Node "valjean.css" [] [Node "x" [] []]]]]
  = repeat ([], Some 1) 4.
Proof. vm_compute. reflexivity. Qed.

(* the unchanged tree had no check_tree: _write_rec on the dictionaries of these
   reports wrote index.rst twice (the section "index" over the root page), and
   merged two sections "A" into one page that is written and listed twice *)
Definition old_pages (r : report) : list page :=
  match fmt r [] (mk_fstate [] [] []) with Some st => dpages FUEL st [] | None => [] end.

Example index_title_refuted :
  map (fun p => (add_rst (p_doc p), p_anchors p)) (old_pages (Node "M" [res 0 []] [Node "index" [res 1 []] []]))
  = [(["index.rst"], [0]); (["index.rst"], [1])].
Proof. vm_compute. reflexivity. Qed.

Example duplicate_sibling_refuted :
  map (fun p => (add_rst (p_doc p), p_anchors p, p_toc p))
      (old_pages (Node "M" [] [Node "A" [res 1 []] []; Node "A" [res 2 []] []]))
  = [(["index.rst"], [], [["A"]; ["A"]]); (["A.rst"], [1; 2], []); (["A.rst"], [1; 2], [])].
Proof. vm_compute. reflexivity. Qed.

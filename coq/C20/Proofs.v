(* C20: proofs over the model of FormattedRst.write *)
From Coq Require Import String Ascii List ZArith Bool Arith Lia.
From VV Require Import Lib.Base C19.Model C19.Proofs C20.Model.
Import ListNotations.

(* ------------------------------------------------------------------ *)
(* induction on rose trees *)
Section RoseInd.
Variable P : report -> Prop.
Hypothesis H : forall t rs cs, Forall P cs -> P (Node t rs cs).
Fixpoint report_ind' (r : report) : P r :=
  match r with
  | Node t rs cs =>
      H t rs cs ((fix go (l : list report) : Forall P l :=
                    match l with
                    | [] => Forall_nil _
                    | c :: l' => Forall_cons _ (report_ind' c) (go l')
                    end) cs)
  end.
End RoseInd.

(* ------------------------------------------------------------------ *)
(* strings *)
Lemma str_length_app a b : String.length (a ++ b) = String.length a + String.length b.
Proof. induction a as [|c a IH]; cbn; [reflexivity|]. now rewrite IH. Qed.

Lemma str_app_cancel_r s a : forall b, (a ++ s = b ++ s)%string -> a = b.
Proof.
  induction a as [|c a IH]; intros [|d b] E; cbn in E.
  - reflexivity.
  - exfalso. apply (f_equal String.length) in E. cbn in E. rewrite str_length_app in E. lia.
  - exfalso. apply (f_equal String.length) in E. cbn in E. rewrite str_length_app in E. lia.
  - inversion E; subst. f_equal. now apply IH.
Qed.

(* does the name end in ".rst"? *)
Fixpoint ends_rst (s : string) : bool :=
  if String.eqb s ".rst" then true
  else match s with String _ r => ends_rst r | EmptyString => false end.

Lemma ends_rst_app a : ends_rst (a ++ ".rst") = true.
Proof.
  induction a as [|c a IH]; [reflexivity|].
  cbn [append]. unfold ends_rst; fold ends_rst.
  destruct (String.eqb (String c (a ++ ".rst")) ".rst"); [reflexivity | exact IH].
Qed.

Lemma ends_rst_png a : ends_rst (a ++ ".png") = false.
Proof.
  induction a as [|c a IH]; [reflexivity|].
  cbn [append]. unfold ends_rst; fold ends_rst. rewrite IH.
  destruct (String.eqb (String c (a ++ ".png")) ".rst") eqn:E; [|reflexivity].
  apply String.eqb_eq in E. apply (f_equal String.length) in E. cbn in E.
  rewrite str_length_app in E. cbn in E. lia.
Qed.

Lemma ends_rst_fig i : ends_rst (fig_name i) = false.
Proof. unfold fig_name. cbn. apply ends_rst_png. Qed.

Lemma fig_name_inj i j : fig_name i = fig_name j -> i = j.
Proof. unfold fig_name. cbn. intros E. inversion E. eapply str_app_cancel_r; eauto. Qed.

(* ------------------------------------------------------------------ *)
(* lists *)
Lemma nodupb_NoDup l : nodupb l = true -> NoDup l.
Proof.
  induction l as [|a r IH]; cbn; [constructor|].
  rewrite andb_true_iff, negb_true_iff. intros [Hn Hr]. constructor; [|now apply IH].
  intros Hin. assert (existsb (String.eqb a) r = true); [|congruence].
  apply existsb_exists. exists a. split; [exact Hin | apply String.eqb_refl].
Qed.

Lemma NoDup_map_local {A B} (f : A -> B) l :
  NoDup l -> (forall x y, In x l -> In y l -> f x = f y -> x = y) -> NoDup (map f l).
Proof.
  induction 1 as [|a l Ha Hl IH]; intros Hinj; cbn; constructor.
  - intros Hin. apply in_map_iff in Hin as (y & Hy & Hiny).
    assert (y = a) by (apply Hinj; cbn; auto). subst. contradiction.
  - apply IH. intros x y Hx Hy. apply Hinj; cbn; auto.
Qed.

Lemma NoDup_app_intro {A} (a b : list A) :
  NoDup a -> NoDup b -> (forall x, In x a -> In x b -> False) -> NoDup (a ++ b).
Proof.
  induction 1 as [|x a Hx Ha IH]; intros Hb Hd; cbn; [exact Hb|].
  constructor.
  - intros Hin. apply in_app_or in Hin as [Hin|Hin]; [contradiction|]. eapply Hd; cbn; eauto.
  - apply IH; [exact Hb|]. intros y Hy. apply Hd. now right.
Qed.

Lemma flat_map_flat_map {A B C} (f : B -> list C) (g : A -> list B) l :
  flat_map f (flat_map g l) = flat_map (fun x => flat_map f (g x)) l.
Proof. induction l as [|a l IH]; cbn; [reflexivity|]. now rewrite flat_map_app, IH. Qed.

Lemma flat_map_map {A B C} (f : B -> list C) (g : A -> B) l :
  flat_map f (map g l) = flat_map (fun x => f (g x)) l.
Proof. induction l as [|a l IH]; cbn; [reflexivity|]. now rewrite IH. Qed.

Lemma add_all_In x l : forall acc, In x (add_all acc l) <-> In x acc \/ In x l.
Proof.
  induction l as [|a r IH]; intros acc; cbn; [tauto|]. rewrite IH.
  destruct (existsb (String.eqb a) acc) eqn:E.
  - apply existsb_exists in E as (y & Hy & Ey). apply String.eqb_eq in Ey. subst y.
    split; [tauto|]. intros [H|[H|H]]; subst; auto.
  - rewrite in_app_iff. cbn. tauto.
Qed.

Lemma add_all_NoDup l : forall acc, NoDup acc -> NoDup (add_all acc l).
Proof.
  induction l as [|a r IH]; intros acc H; cbn; [exact H|]. apply IH.
  destruct (existsb (String.eqb a) acc) eqn:E; [exact H|].
  apply NoDup_app_intro; [exact H | repeat constructor; intros [] |].
  intros x Hx [<-|[]]. assert (existsb (String.eqb a) acc = true); [|congruence].
  apply existsb_exists. exists a. split; [exact Hx | apply String.eqb_refl].
Qed.

Lemma add_all_app acc a b : add_all acc (a ++ b) = add_all (add_all acc a) b.
Proof. revert acc; induction a as [|x a IH]; intros acc; cbn; [reflexivity | apply IH]. Qed.

Lemma dedupe_In x l : In x (uniq l) <-> In x l.
Proof. unfold uniq. rewrite add_all_In. cbn. tauto. Qed.

Lemma dedupe_NoDup l : NoDup (uniq l).
Proof. apply add_all_NoDup. constructor. Qed.

(* ------------------------------------------------------------------ *)
(* titles and paths *)
Lemma title_ok_good top t :
  title_ok top t = true -> good_name t /\ (top = true -> t <> "index"%string).
Proof.
  unfold title_ok. destruct (sanitize t) as [n|c] eqn:E; [|discriminate].
  apply sanitize_ok in E as [_ G]. rewrite negb_true_iff. intros H. split; [exact G|].
  intros -> ->. cbn in H. discriminate.
Qed.

Lemma tree_path_good k : Forall good_name k -> tree_path k = k.
Proof.
  unfold tree_path. induction 1 as [|t k Ht _ IH]; cbn; [reflexivity|].
  now rewrite good_name_parse, IH.
Qed.

Lemma page_doc_good k : Forall good_name k -> k <> [] -> page_doc k = k.
Proof. intros G N. destruct k; [contradiction|]. unfold page_doc. now apply tree_path_good. Qed.

Lemma lastn_2_snoc {A} (k : list A) a t : lastn 2 ((k ++ [a]) ++ [t]) = [a; t].
Proof.
  unfold lastn. rewrite !app_length. cbn.
  replace (length k + 1 + 1 - 2) with (length k) by lia.
  rewrite <- app_assoc. rewrite skipn_app, skipn_all, Nat.sub_diag. reflexivity.
Qed.

(* ---- C20: the subtree[-2:] rule of the table of contents is right at every depth ---- *)
Theorem toc_entries_resolve k t :
  Forall good_name k -> good_name t ->
  resolve (page_doc k) (toc_entry (k ++ [t])) = page_doc (k ++ [t]).
Proof.
  intros Gk Gt.
  assert (Gkt : Forall good_name (k ++ [t])) by (apply Forall_app; auto).
  rewrite (page_doc_good (k ++ [t])) by (auto; destruct k; discriminate).
  destruct k as [|a k].
  - cbn. unfold toc_entry, lastn. cbn. unfold tree_path. cbn. rewrite good_name_parse by exact Gt. reflexivity.
  - destruct (@exists_last _ (a :: k)) as (k' & b & Hk); [discriminate|].
    rewrite page_doc_good by (auto; discriminate). rewrite Hk in *.
    unfold resolve, toc_entry. rewrite removelast_last, lastn_2_snoc.
    apply Forall_app in Gk as [_ Gb]. inversion Gb; subst.
    rewrite tree_path_good by (constructor; [assumption | constructor; [assumption | constructor]]).
    now rewrite <- app_assoc.
Qed.

(* ------------------------------------------------------------------ *)
(* sections and their keys *)

Lemma secs_head k r : exists rest, secs k r = (k, r) :: rest.
Proof. destruct r. cbn. eauto. Qed.

Lemma secs_unfold k r :
  secs k r = (k, r) :: flat_map (fun c => secs (k ++ [title_of c]) c) (children_of r).
Proof. destruct r. reflexivity. Qed.

(* every key below a section extends the key of the section by a chain of
   checked titles *)
Lemma secs_keys figs r : forall k k' n,
  titles_ok figs k r = true -> In (k', n) (secs k r) ->
  exists suf, k' = k ++ suf /\ Forall good_name suf /\
              (k = [] -> suf <> ["index"%string]) /\ (suf = [] -> n = r).
Proof.
  induction r as [t rs cs IH] using report_ind'. intros k k' n Hok Hin.
  rewrite secs_unfold in Hin. cbn [children_of] in Hin. destruct Hin as [E|Hin].
  - inversion E; subst. exists []. rewrite app_nil_r. repeat split; auto. discriminate.
  - cbn in Hok. apply andb_true_iff in Hok as [_ Hok]. rewrite forallb_forall in Hok.
    apply in_flat_map in Hin as (c & Hc & Hin).
    specialize (Hok c Hc). apply andb_true_iff in Hok as [Hok Hrec]. apply andb_true_iff in Hok as [Ht _].
    apply title_ok_good in Ht as [G Hidx].
    rewrite Forall_forall in IH. destruct (IH c Hc _ _ _ Hrec Hin) as (suf & -> & Gs & _ & _).
    exists (title_of c :: suf). rewrite <- app_assoc. cbn. repeat split.
    + constructor; assumption.
    + intros Htop E. inversion E; subst. now apply Hidx.
    + discriminate.
Qed.

Lemma app_cons_neq {A} (k : list A) a s : k ++ a :: s <> k.
Proof. intros E. apply (f_equal (@length _)) in E. rewrite app_length in E. cbn in E. lia. Qed.

(* no two sections have the same key *)
Lemma secs_nodup figs r : forall k, titles_ok figs k r = true -> NoDup (map fst (secs k r)).
Proof.
  induction r as [t rs cs IH] using report_ind'. intros k Hok.
  rewrite secs_unfold. cbn [children_of map fst].
  pose proof Hok as Hok0. cbn in Hok. apply andb_true_iff in Hok as [Hnd Hok].
  apply nodupb_NoDup in Hnd. rewrite forallb_forall in Hok.
  constructor.
  - intros Hin. apply in_map_iff in Hin as ([k' n] & E & Hin). cbn in E. subst k'.
    apply in_flat_map in Hin as (c & Hc & Hin).
    specialize (Hok c Hc). apply andb_true_iff in Hok as [_ Hrec].
    destruct (secs_keys figs c _ _ _ Hrec Hin) as (suf & E & _).
    rewrite <- app_assoc in E. cbn in E. symmetry in E. now apply app_cons_neq in E.
  - assert (Hrec : forall c, In c cs -> titles_ok figs (k ++ [title_of c]) c = true).
    { intros c Hc. specialize (Hok c Hc). now apply andb_true_iff in Hok as [_ Hok]. }
    clear Hok0 Hok. induction cs as [|c cs IHcs]; cbn; [constructor|].
    rewrite map_app. inversion IH as [|? ? IHc IHrest]; subst. inversion Hnd as [|? ? Hnotin Hnd']; subst.
    apply NoDup_app_intro.
    + eapply IHc, Hrec. now left.
    + apply IHcs; auto. intros x Hx. apply Hrec. now right.
    + intros key H1 H2.
      apply in_map_iff in H1 as ([k1 n1] & E1 & H1). cbn in E1. subst k1.
      apply in_map_iff in H2 as ([k2 n2] & E2 & H2). cbn in E2. subst k2.
      apply in_flat_map in H2 as (c' & Hc' & H2).
      pose proof (Hrec c (or_introl eq_refl)) as Ha.
      pose proof (Hrec c' (or_intror Hc')) as Hb.
      destruct (secs_keys figs c _ _ _ Ha H1) as (s1 & E1 & _).
      destruct (secs_keys figs c' _ _ _ Hb H2) as (s2 & E2 & _).
      rewrite E1 in E2. rewrite <- !app_assoc in E2. apply app_inv_head in E2. cbn in E2.
      injection E2 as Et _. apply Hnotin. rewrite Et. now apply in_map.
Qed.

(* the page of a sub-section is written *)
Lemma secs_child r : forall k0 k n c,
  In (k, n) (secs k0 r) -> In c (children_of n) -> In (k ++ [title_of c], c) (secs k0 r).
Proof.
  induction r as [t rs cs IH] using report_ind'. intros k0 k n c Hin Hc.
  rewrite secs_unfold in Hin |- *. cbn [children_of] in *. destruct Hin as [E|Hin].
  - inversion E; subst. right. cbn in Hc. apply in_flat_map. exists c. split; [exact Hc|].
    destruct (secs_head (k ++ [title_of c]) c) as [rest ->]. now left.
  - right. apply in_flat_map in Hin as (c' & Hc' & Hin). apply in_flat_map. exists c'. split; [exact Hc'|].
    rewrite Forall_forall in IH. eapply IH; eauto.
Qed.

(* results in the order of the traversal *)
Fixpoint anchors_pre (r : report) : list nat :=
  match r with
  | Node _ rs cs => map r_anchor rs ++ flat_map anchors_pre cs
  end.

Lemma anchors_of_pages r : forall k,
  flat_map (fun kr => p_anchors (page_of kr)) (secs k r) = anchors_pre r.
Proof.
  induction r as [t rs cs IH] using report_ind'. intros k.
  rewrite secs_unfold. cbn [children_of flat_map anchors_pre page_of p_anchors results_of].
  f_equal. rewrite flat_map_flat_map.
  induction cs as [|c cs IHcs]; cbn; [reflexivity|].
  inversion IH; subst. rewrite H1. f_equal. now apply IHcs.
Qed.

(* ------------------------------------------------------------------ *)
(* paths of the files *)

Lemma add_rst_last p : p <> [] -> ends_rst (last (add_rst p) ""%string) = true.
Proof.
  intros N. unfold add_rst. destruct p; [contradiction|]. rewrite last_last. apply ends_rst_app.
Qed.

Lemma add_rst_inj p q : p <> [] -> q <> [] -> add_rst p = add_rst q -> p = q.
Proof.
  intros Np Nq E. unfold add_rst in E.
  destruct p as [|a p]; [contradiction|]. destruct q as [|b q]; [contradiction|].
  apply app_inj_tail in E as [E1 E2]. apply str_app_cancel_r in E2.
  rewrite (app_removelast_last ""%string (l := a :: p)) by discriminate.
  rewrite (app_removelast_last ""%string (l := b :: q)) by discriminate. now rewrite E1, E2.
Qed.

Lemma page_doc_nonempty k : Forall good_name k -> page_doc k <> [].
Proof.
  intros G. destruct k as [|a k]; [discriminate|]. rewrite page_doc_good by (auto; discriminate). discriminate.
Qed.

Definition is_rst_path (p : list string) : bool := ends_rst (last p ""%string).

Section Written.
Variable r : report.
Hypothesis W : writable r = true.

Let Hlev : levels_ok 0 r = true. Proof. unfold writable in W. now apply andb_true_iff in W. Qed.
Let Htit : titles_ok (map fig_name (uniq (all_images r))) [] r = true.
Proof. unfold writable in W. now apply andb_true_iff in W. Qed.

Lemma key_facts k n : In (k, n) (secs [] r) ->
  Forall good_name k /\ k <> ["index"%string] /\ (k = [] -> n = r).
Proof.
  intros Hin. destruct (secs_keys _ r [] k n Htit Hin) as (suf & E & G & Hi & Hr).
  cbn in E. subst. auto.
Qed.

Lemma page_doc_of_key k n : In (k, n) (secs [] r) ->
  page_doc k = match k with [] => ["index"%string] | _ => k end.
Proof.
  intros Hin. destruct (key_facts k n Hin) as (G & _). destruct k; [reflexivity|].
  apply page_doc_good; [exact G | discriminate].
Qed.

Lemma docs_nodup : NoDup (map p_doc (pages r)).
Proof.
  unfold pages. rewrite map_map.
  replace (map (fun x => p_doc (page_of x)) (secs [] r))
    with (map (fun k => page_doc k) (map fst (secs [] r))).
  2:{ rewrite map_map. apply map_ext. intros [k n]. reflexivity. }
  apply NoDup_map_local; [eapply secs_nodup, Htit|].
  intros x y Hx Hy E.
  apply in_map_iff in Hx as ([kx nx] & <- & Hx). apply in_map_iff in Hy as ([ky ny] & <- & Hy).
  cbn in *. destruct (key_facts _ _ Hx) as (Gx & Ix & _). destruct (key_facts _ _ Hy) as (Gy & Iy & _).
  destruct kx as [|a kx], ky as [|b ky]; try reflexivity.
  - rewrite (page_doc_good (b :: ky)) in E by (auto; discriminate). cbn in E. symmetry in E. contradiction.
  - rewrite (page_doc_good (a :: kx)) in E by (auto; discriminate). cbn in E. contradiction.
  - rewrite !page_doc_good in E by (auto; discriminate). exact E.
Qed.

Lemma page_docs_nonempty p : In p (pages r) -> p_doc p <> [].
Proof.
  unfold pages. intros Hin. apply in_map_iff in Hin as ([k n] & <- & Hin). cbn.
  apply page_doc_nonempty. now destruct (key_facts _ _ Hin).
Qed.

(* ---- no path is written twice ---- *)
Lemma paths_nodup :
  NoDup (map wr_path (WConf :: WCss :: map WPage (pages r) ++ map WFig (uniq (all_images r)))).
Proof.
  cbn [map]. rewrite map_app, !map_map. cbn [wr_path].
  assert (Hpg : forall x, In x (map (fun p => add_rst (p_doc p)) (pages r)) -> is_rst_path x = true).
  { intros x Hx. apply in_map_iff in Hx as (p & <- & Hp). apply add_rst_last. now apply page_docs_nonempty. }
  assert (Hfg : forall x, In x (map (fun i => ["figures"%string; fig_name i]) (uniq (all_images r))) ->
                          is_rst_path x = false /\ length x = 2 /\ hd ""%string x = "figures"%string).
  { intros x Hx. apply in_map_iff in Hx as (i & <- & _). unfold is_rst_path. cbn [last length hd].
    split; [apply ends_rst_fig | auto]. }
  constructor; [|constructor].
  - intros [E|Hin]; [discriminate|]. apply in_app_or in Hin as [Hin|Hin].
    + apply Hpg in Hin. discriminate.
    + apply Hfg in Hin as (_ & Hl & _). discriminate.
  - intros Hin. apply in_app_or in Hin as [Hin|Hin].
    + apply Hpg in Hin. discriminate.
    + apply Hfg in Hin as (_ & _ & Hh). discriminate.
  - apply NoDup_app_intro.
    + rewrite <- map_map. apply NoDup_map_local.
      * apply docs_nodup.
      * intros x y Hx Hy. apply add_rst_inj.
        -- apply in_map_iff in Hx as (p & <- & Hp). now apply page_docs_nonempty.
        -- apply in_map_iff in Hy as (p & <- & Hp). now apply page_docs_nonempty.
    + apply NoDup_map_local; [apply dedupe_NoDup|]. intros x y _ _ E. injection E as E. eapply str_app_cancel_r, E.
    + intros x H1 H2. apply Hpg in H1. apply Hfg in H2 as (H2 & _). congruence.
Qed.

End Written.

(* ------------------------------------------------------------------ *)
Lemma trace_pages_spec ps fs :
  trace_pages (WConf :: WCss :: map WPage ps ++ map WFig fs) = ps.
Proof.
  cbn. induction ps as [|p ps IH]; cbn; [|now rewrite IH].
  induction fs as [|f fs IH]; cbn; auto.
Qed.

(* ---- C20 ---- *)
Theorem write_spec (r : report) :
  (* rejected: before the first write *)
  (snd (write r) <> None -> fst (write r) = []) /\
  (* written *)
  (snd (write r) = None ->
   let t := fst (write r) in
   (* one page per section, in the order of the traversal, the root first *)
   trace_pages t = map page_of (secs [] r) /\
   (* at the path given by its chain of titles; the root page is index *)
   (forall k n, In (k, n) (secs [] r) ->
      page_doc k = match k with [] => ["index"%string] | _ => k end /\ (k = [] -> n = r)) /\
   (* no path is written twice *)
   NoDup (map wr_path t) /\
   (* every result exactly once, on the page of its section (page_of), in order *)
   flat_map p_anchors (trace_pages t) = anchors_pre r /\
   (* every entry of a table of contents resolves to the written page of the sub-section *)
   (forall k n c, In (k, n) (secs [] r) -> In c (children_of n) ->
      In (toc_entry (k ++ [title_of c])) (p_toc (page_of (k, n))) /\
      In (page_of (k ++ [title_of c], c)) (trace_pages t) /\
      resolve (p_doc (page_of (k, n))) (toc_entry (k ++ [title_of c]))
      = p_doc (page_of (k ++ [title_of c], c))) /\
   (* every referenced figure is written *)
   (forall p i, In p (trace_pages t) -> In i (p_images p) -> In (WFig i) t)).
Proof.
  unfold write. destruct (writable r) eqn:W; cbn [fst snd].
  - split; [intros N; now contradiction N|]. intros _. cbn zeta.
    rewrite trace_pages_spec. fold (pages r).
    split; [reflexivity|]. split; [|split; [|split; [|split]]].
    + intros k n Hin. split; [eapply page_doc_of_key; eauto | now destruct (key_facts r W k n Hin) as (_ & _ & H)].
    + now apply paths_nodup.
    + unfold pages. rewrite flat_map_map. apply anchors_of_pages.
    + intros k n c Hin Hc. split; [|split].
      * cbn. apply in_map_iff. exists c. auto.
      * unfold pages. apply in_map. eapply secs_child; eauto.
      * cbn [page_of p_doc]. destruct (key_facts r W _ _ Hin) as (Gk & _).
        pose proof (secs_child r [] k n c Hin Hc) as Hin'.
        destruct (key_facts r W _ _ Hin') as (Gkc & _). apply Forall_app in Gkc as [_ Gc]. inversion Gc; subst.
        now apply toc_entries_resolve.
    + intros p i Hp Hi. right. right. apply in_or_app. right. apply in_map. apply dedupe_In.
      unfold all_images. apply in_flat_map. eauto.
  - split; [reflexivity | discriminate].
Qed.

(* C20: sections addressed by their title chains; what check_tree refuses,
   exactly; no written file is a proper prefix of another written file. *)
From Coq Require Import String Ascii List ZArith Bool Arith Lia.
From VV Require Import Lib.Base C19.Model C19.Proofs C20.Model C20.Proofs.
Import ListNotations.

(* [at_key r k n]: following the chain of titles [k] from [r] leads to section [n] *)
Inductive at_key : report -> key -> report -> Prop :=
| at_nil r : at_key r [] r
| at_cons r c k n : In c (children_of r) -> at_key c k n -> at_key r (title_of c :: k) n.

Lemma at_key_secs r k n : at_key r k n -> forall k0, In (k0 ++ k, n) (secs k0 r).
Proof.
  induction 1 as [r|r c k n Hc _ IH]; intros k0.
  - rewrite app_nil_r. destruct (secs_head k0 r) as [rest ->]. now left.
  - rewrite secs_unfold. right. apply in_flat_map. exists c. split; [exact Hc|].
    specialize (IH (k0 ++ [title_of c])). now rewrite <- app_assoc in IH.
Qed.

Lemma secs_at_key r : forall k0 k' n, In (k', n) (secs k0 r) -> exists k, k' = k0 ++ k /\ at_key r k n.
Proof.
  induction r as [t rs cs IH] using report_ind'. intros k0 k' n Hin.
  rewrite secs_unfold in Hin. cbn [children_of] in Hin. destruct Hin as [E|Hin].
  - inversion E; subst. exists []. rewrite app_nil_r. split; [reflexivity | constructor].
  - apply in_flat_map in Hin as (c & Hc & Hin). rewrite Forall_forall in IH.
    destruct (IH c Hc _ _ _ Hin) as (k & -> & Hk). exists (title_of c :: k).
    rewrite <- app_assoc. split; [reflexivity|]. now constructor.
Qed.

Lemma secs_iff r k n : In (k, n) (secs [] r) <-> at_key r k n.
Proof.
  split.
  - intros H. apply secs_at_key in H as (k' & -> & H). exact H.
  - intros H. exact (at_key_secs r k n H []).
Qed.

Lemma at_key_nil r n : at_key r [] n -> n = r.
Proof. inversion 1. reflexivity. Qed.

Lemma at_key_app r d : forall rest n,
  at_key r (d ++ rest) n <-> exists m, at_key r d m /\ at_key m rest n.
Proof.
  revert r. induction d as [|a d IH]; intros r rest n; cbn.
  - split; [intros H; exists r; split; [constructor | exact H]|]. intros (m & Hm & H). apply at_key_nil in Hm. now subst.
  - split.
    + intros H. inversion H as [|? c ? ? Hc Hk]; subst. apply IH in Hk as (m & Hm & Hk).
      exists m. split; [now constructor | exact Hk].
    + intros (m & Hm & Hk). inversion Hm as [|? c ? ? Hc Hd]; subst. constructor; [exact Hc|].
      apply IH. eauto.
Qed.

Lemma at_key_single r t n : at_key r [t] n <-> In n (children_of r) /\ title_of n = t.
Proof.
  split.
  - intros H. inversion H as [|? c ? ? Hc Hk]; subst. apply at_key_nil in Hk. subst. auto.
  - intros [Hc <-]. constructor; [exact Hc | constructor].
Qed.

Lemma at_key_snoc r k t n :
  at_key r (k ++ [t]) n <-> exists p, at_key r k p /\ In n (children_of p) /\ title_of n = t.
Proof.
  rewrite at_key_app. split; intros (p & Hp & H); exists p; (split; [exact Hp|]); now apply at_key_single.
Qed.

Lemma NoDup_map_inj_in {A B} (f : A -> B) l a b :
  NoDup (map f l) -> In a l -> In b l -> f a = f b -> a = b.
Proof.
  induction l as [|x l IH]; intros ND Ha Hb E; [contradiction|].
  cbn in ND. inversion ND as [|? ? Hnot ND']; subst. destruct Ha as [->|Ha], Hb as [->|Hb]; auto.
  - exfalso. apply Hnot. rewrite E. now apply in_map.
  - exfalso. apply Hnot. rewrite <- E. now apply in_map.
Qed.

(* with pairwise different sibling titles a title chain leads to one section *)
Lemma at_key_unique r k n : at_key r k n ->
  (forall k' m, at_key r k' m -> NoDup (map title_of (children_of m))) ->
  forall n', at_key r k n' -> n' = n.
Proof.
  induction 1 as [r|r c k n Hc Hk IH]; intros ND n' H'.
  - now apply at_key_nil in H'.
  - inversion H' as [|? c' ? ? Hc' Hk' E]; subst.
    assert (c' = c).
    { eapply NoDup_map_inj_in; [apply (ND [] r); constructor | exact Hc' | exact Hc | assumption]. }
    subst c'. apply IH; [|exact Hk']. intros k' m Hm. apply (ND (title_of c :: k') m). now constructor.
Qed.

(* ------------------------------------------------------------------ *)
(* depth *)
Lemma levels_ok_iff r : forall d,
  levels_ok d r = true <-> (forall k n, at_key r k n -> d + length k <= 4).
Proof.
  induction r as [t rs cs IH] using report_ind'. intros d. cbn [levels_ok].
  rewrite andb_true_iff, Nat.leb_le, forallb_forall. rewrite Forall_forall in IH. split.
  - intros [Hd Hcs] k n H. inversion H as [|? c ? ? Hc Hk]; subst; cbn; [lia|].
    cbn in Hc. apply (IH c Hc (S d)) in Hk; [lia | now apply Hcs].
  - intros H. split; [specialize (H [] _ (at_nil _)); cbn in H; lia|].
    intros c Hc. apply (IH c Hc). intros k n Hk.
    specialize (H (title_of c :: k) n (at_cons (Node t rs cs) c k n Hc Hk)). cbn in H. lia.
Qed.

(* ------------------------------------------------------------------ *)
(* what check_tree requires of one section *)
Definition level_ok (figs : list string) (k : key) (n : report) : Prop :=
  NoDup (map title_of (children_of n)) /\
  forall c, In c (children_of n) ->
    good_name (title_of c) /\ (k = [] -> title_of c <> "index"%string)
    /\ dir_ok figs k (children_of n) c = true.

Lemma NoDup_nodupb l : NoDup l -> nodupb l = true.
Proof.
  induction 1 as [|a l Ha _ IH]; cbn; [reflexivity|]. rewrite IH, andb_true_r, negb_true_iff.
  destruct (existsb (String.eqb a) l) eqn:E; [|reflexivity].
  apply existsb_exists in E as (y & Hy & Ey). apply String.eqb_eq in Ey. subst. contradiction.
Qed.

Lemma title_ok_iff k t : title_ok (is_top k) t = true <-> good_name t /\ (k = [] -> t <> "index"%string).
Proof.
  split.
  - intros H. apply title_ok_good in H as [G Hi]. split; [exact G|]. intros ->. now apply Hi.
  - intros [G Hi]. unfold title_ok. assert (sanitize t = Ok t) as -> by (apply sanitize_ok; auto).
    apply negb_true_iff. destruct k; cbn; [|reflexivity]. apply String.eqb_neq. now apply Hi.
Qed.

Lemma titles_ok_unfold figs k r :
  titles_ok figs k r
  = nodupb (map title_of (children_of r))
    && forallb (fun c => title_ok (is_top k) (title_of c) && dir_ok figs k (children_of r) c
                         && titles_ok figs (k ++ [title_of c]) c) (children_of r).
Proof. destruct r; reflexivity. Qed.

Lemma titles_ok_iff figs r : forall k0,
  titles_ok figs k0 r = true <-> (forall k n, at_key r k n -> level_ok figs (k0 ++ k) n).
Proof.
  induction r as [t rs cs IH] using report_ind'. intros k0. rewrite titles_ok_unfold. cbn [children_of].
  rewrite andb_true_iff, forallb_forall. rewrite Forall_forall in IH. split.
  - intros [ND Hcs] k n H. inversion H as [|? c kk nn Hc Hk]; subst.
    + rewrite app_nil_r. split; [now apply nodupb_NoDup|]. intros c Hc. cbn in Hc.
      specialize (Hcs c Hc). apply andb_true_iff in Hcs as [Hcs _]. apply andb_true_iff in Hcs as [Ht Hd].
      apply title_ok_iff in Ht as [G Hi]. auto.
    + cbn in Hc. specialize (Hcs c Hc). apply andb_true_iff in Hcs as [_ Hrec].
      pose proof (proj1 (IH c Hc (k0 ++ [title_of c])) Hrec kk n Hk) as Hl. now rewrite <- app_assoc in Hl.
  - intros H. pose proof (H [] _ (at_nil _)) as [ND Hl]. rewrite app_nil_r in Hl. cbn [children_of] in *.
    split; [now apply NoDup_nodupb|]. intros c Hc. destruct (Hl c Hc) as (G & Hi & Hd).
    rewrite Hd, andb_true_r. apply andb_true_iff. split; [apply title_ok_iff; auto|].
    apply (proj2 (IH c Hc (k0 ++ [title_of c]))). intros k n Hk.
    specialize (H (title_of c :: k) n (at_cons (Node t rs cs) c k n Hc Hk)). now rewrite <- app_assoc.
Qed.

(* ------------------------------------------------------------------ *)
(* the files a report consists of (whether or not it can be written) *)
Definition page_file (k : key) : list string := add_rst (page_doc k).

Definition files (r : report) : list (list string) :=
  ["conf.py"%string] :: [".static"%string; "valjean.css"%string]
  :: map (fun kr => page_file (fst kr)) (secs [] r)
  ++ map (fun i => ["figures"%string; fig_name i]) (uniq (all_images r)).

(* no file lies below another file (which would have to be a directory) *)
Definition prefix_free (l : list (list string)) : Prop :=
  forall f f2 rest, In f l -> In f2 l -> f2 = f ++ rest -> rest = [].

Lemma written_files r : writable r = true -> map wr_path (fst (write r)) = files r.
Proof.
  intros W. unfold write. rewrite W. cbn [fst map]. rewrite map_app, !map_map. unfold files, pages.
  rewrite map_map. f_equal. f_equal. f_equal. apply map_ext. intros [k n]. reflexivity.
Qed.

Lemma page_file_good k : Forall good_name k -> k <> [] ->
  page_file k = removelast k ++ [(last k "" ++ ".rst")%string].
Proof.
  intros G N. unfold page_file. rewrite page_doc_good by assumption. unfold add_rst.
  destruct k; [contradiction | reflexivity].
Qed.

Lemma page_file_snoc k t : Forall good_name k -> good_name t ->
  page_file (k ++ [t]) = k ++ [(t ++ ".rst")%string].
Proof.
  intros Gk Gt. rewrite page_file_good.
  - now rewrite removelast_last, last_last.
  - apply Forall_app. split; [exact Gk | constructor; [exact Gt | constructor]].
  - destruct k; discriminate.
Qed.

Section Accepted.
Variable r : report.
Let figs := map fig_name (uniq (all_images r)).
Hypothesis Hlev : forall k n, at_key r k n -> level_ok figs k n.

Lemma key_good k n : at_key r k n -> Forall good_name k.
Proof.
  revert n. induction k as [|a k IH] using rev_ind; intros n H; [constructor|].
  apply at_key_snoc in H as (p & Hp & Hc & Ht). apply Forall_app. split; [eapply IH, Hp|].
  constructor; [|constructor]. destruct (Hlev _ _ Hp) as [_ Hl]. destruct (Hl n Hc) as (G & _). now rewrite <- Ht.
Qed.

Lemma nodup_everywhere k n : at_key r k n -> NoDup (map title_of (children_of n)).
Proof. intros H. now destruct (Hlev _ _ H). Qed.

(* the file of a page is never one of the one-component names below *)
Lemma page_file_single k n x : at_key r k n -> ends_rst x = false -> page_file k <> [x].
Proof.
  intros H Hx E. pose proof (key_good _ _ H) as G.
  assert (Hl : ends_rst (last (page_file k) ""%string) = true).
  { unfold page_file. apply add_rst_last. now apply page_doc_nonempty. }
  rewrite E in Hl. cbn in Hl. congruence.
Qed.

(* ---- no written file is needed as a directory ---- *)
Lemma files_prefix_free : prefix_free (files r).
Proof.
  intros f f2 rest Hf Hf2 E.
  destruct rest as [|x rest]; [reflexivity|]. exfalso.
  assert (Hfne : f <> []).
  { unfold files in Hf. destruct Hf as [<-|[<-|Hf]]; try discriminate.
    apply in_app_or in Hf as [Hf|Hf]; apply in_map_iff in Hf as (y & <- & _); [|discriminate].
    unfold page_file, add_rst. destruct (page_doc (fst y)); [discriminate|]. intros H.
    apply app_eq_nil in H as [_ H]. discriminate. }
  (* which file is f2 *)
  unfold files in Hf2. destruct Hf2 as [<-|[<-|Hf2]].
  - (* conf.py has no proper prefix *)
    destruct f as [|a [|b f]]; [contradiction | discriminate | discriminate].
  - (* .static/valjean.css: f = [".static"] *)
    destruct f as [|a [|b f]]; [contradiction| |].
    + inversion E; subst. unfold files in Hf. destruct Hf as [H|[H|Hf]]; try discriminate.
      apply in_app_or in Hf as [Hf|Hf]; apply in_map_iff in Hf as (y & Ey & Hy); [|discriminate].
      destruct y as [k n]. apply secs_iff in Hy. now apply (page_file_single k n ".static"%string Hy eq_refl).
    + apply (f_equal (@length _)) in E. cbn in E. rewrite app_length in E. cbn in E. lia.
  - apply in_app_or in Hf2 as [Hf2|Hf2]; apply in_map_iff in Hf2 as (y & Ey & Hy).
    2:{ (* a figure: f = ["figures"] *)
      subst f2. destruct f as [|a [|b f]]; [contradiction| |].
      - inversion E; subst. unfold files in Hf. destruct Hf as [H|[H|Hf]]; try discriminate.
        apply in_app_or in Hf as [Hf|Hf]; apply in_map_iff in Hf as (z & Ez & Hz); [|discriminate].
        destruct z as [k n]. apply secs_iff in Hz. now apply (page_file_single k n "figures"%string Hz eq_refl).
      - apply (f_equal (@length _)) in E. cbn in E. rewrite app_length in E. cbn in E. lia. }
    (* a page: f is a proper prefix of the path of the page of (k2, n2) *)
    destruct y as [k2 n2]. cbn [fst] in Ey. apply secs_iff in Hy. subst f2.
    pose proof (key_good _ _ Hy) as G2.
    destruct k2 as [|a2 k2'] using rev_ind.
    { cbn in E. destruct f as [|a [|b f]]; [contradiction | discriminate | discriminate]. }
    clear IHk2'. apply Forall_app in G2 as [G2 Ga]. inversion Ga as [|? ? Ga2 _]; subst.
    rewrite page_file_snoc in E by assumption.
    (* f ++ x :: rest = k2' ++ [a2.rst]  ->  f is a prefix of k2' *)
    assert (Hpre : exists rest2, k2' = f ++ rest2).
    { destruct (exists_last (l := x :: rest)) as (rest' & z & Er); [discriminate|].
      rewrite Er, app_assoc in E. apply app_inj_tail in E as [E _]. now exists rest'. }
    destruct Hpre as (rest2 & ->).
    rewrite <- app_assoc in Hy. apply at_key_app in Hy as (m & Hm & Hrest).
    assert (Hmc : has_children m = true).
    { inversion Hrest as [|? c ? ? Hc _]; subst; [destruct rest2; discriminate|].
      unfold has_children. destruct (children_of m); [contradiction | reflexivity]. }
    destruct (exists_last Hfne) as (k' & t & ->).
    apply at_key_snoc in Hm as (p & Hp & Hmp & Htm).
    destruct (Hlev _ _ Hp) as [NDp Hlp]. destruct (Hlp m Hmp) as (_ & _ & Hdir).
    unfold dir_ok in Hdir. rewrite Hmc in Hdir. cbn [andb] in Hdir. apply negb_true_iff in Hdir.
    assert (Hex : existsb (String.eqb (title_of m)) (files_beside figs k' (children_of p)) = true);
      [|congruence].
    rewrite Htm. apply existsb_exists. exists t. split; [|apply String.eqb_refl].
    (* which file is f = k' ++ [t] *)
    unfold files in Hf. unfold files_beside. destruct Hf as [Ef|[Ef|Hf]].
    + change ["conf.py"%string] with ([] ++ ["conf.py"%string]) in Ef.
      apply app_inj_tail in Ef as [<- <-]. cbn. auto.
    + change [".static"%string; "valjean.css"%string] with ([".static"%string] ++ ["valjean.css"%string]) in Ef.
      apply app_inj_tail in Ef as [<- <-]. cbn. auto.
    + apply in_app_or in Hf as [Hf|Hf]; apply in_map_iff in Hf as (y & Ey & Hy).
      * destruct y as [k1 n1]. cbn [fst] in Ey. apply secs_iff in Hy.
        pose proof (key_good _ _ Hy) as G1.
        destruct k1 as [|t1 k1'] using rev_ind.
        { change (page_file []) with ([] ++ ["index.rst"%string]) in Ey.
          apply app_inj_tail in Ey as [<- <-]. cbn. auto. }
        clear IHk1'. apply Forall_app in G1 as [G1 Gt]. inversion Gt as [|? ? Gt1 _]; subst.
        rewrite page_file_snoc in Ey by assumption. apply app_inj_tail in Ey as [-> <-].
        apply at_key_snoc in Hy as (p' & Hp' & Hn1 & Ht1).
        assert (p' = p) by (eapply at_key_unique; [exact Hp | intros; eapply nodup_everywhere; eauto | exact Hp']).
        subst p'. apply in_or_app. right. apply in_map_iff. exists n1. rewrite Ht1. auto.
      * change ["figures"%string; fig_name y] with (["figures"%string] ++ [fig_name y]) in Ey.
        apply app_inj_tail in Ey as [<- <-]. apply in_or_app. left.
        change (In (fig_name y) figs). unfold figs. apply in_map. exact Hy.
Qed.

End Accepted.

(* ------------------------------------------------------------------ *)
(* ---- C20: what is refused, exactly ---- *)
Definition acceptable (r : report) : Prop :=
  (* at most the five supported levels *)
  (forall k n, at_key r k n -> length k <= 4) /\
  (* sibling sections have different titles *)
  (forall k n, at_key r k n -> NoDup (map title_of (children_of n))) /\
  (* every title of a chain can be used as a file name *)
  (forall k n, at_key r k n -> Forall good_name k) /\
  (* no top-level section is called like the root page *)
  ~ In "index"%string (map title_of (children_of r)) /\
  (* no file of the report would have to be a directory *)
  prefix_free (files r).

Theorem check_tree_accepts_iff (r : report) : writable r = true <-> acceptable r.
Proof.
  unfold writable, acceptable. rewrite andb_true_iff, levels_ok_iff, titles_ok_iff.
  set (figs := map fig_name (uniq (all_images r))). split.
  - intros [Hd Hlev]. cbn [app] in Hlev. split; [intros k n H; specialize (Hd k n H); lia|].
    split; [intros k n H; now destruct (Hlev k n H)|].
    split; [intros k n H; eapply key_good; eauto|]. split.
    + intros Hin. apply in_map_iff in Hin as (c & Et & Hc).
      destruct (Hlev [] r (at_nil r)) as [_ Hl]. destruct (Hl c Hc) as (_ & Hi & _). now apply Hi.
    + now apply files_prefix_free.
  - intros (Hd & ND & Gk & Hidx & PF). split; [intros k n H; specialize (Hd k n H); lia|].
    intros k n H. cbn [app]. split; [eapply ND, H|]. intros c Hc.
    assert (Hkc : at_key r (k ++ [title_of c]) c) by (apply at_key_snoc; eauto).
    pose proof (Gk _ _ Hkc) as Gkc. apply Forall_app in Gkc as [Gk' Gc]. inversion Gc as [|? ? Gt _]; subst.
    split; [exact Gt|]. split.
    { intros ->. apply at_key_nil in H. subst n. intros E. apply Hidx. rewrite <- E. now apply in_map. }
    destruct (dir_ok figs k (children_of n) c) eqn:Ed; [reflexivity|]. exfalso.
    unfold dir_ok in Ed. apply negb_false_iff, andb_true_iff in Ed as [Hch Hex].
    (* a sub-section of c and the file of its page *)
    unfold has_children in Hch. destruct (children_of c) as [|g gs] eqn:Eg; [discriminate|].
    assert (Hg : at_key r ((k ++ [title_of c]) ++ [title_of g]) g).
    { apply at_key_snoc. exists c. rewrite Eg. cbn. auto. }
    pose proof (Gk _ _ Hg) as Gg. apply Forall_app in Gg as [Gkc Gg]. inversion Gg as [|? ? Gtg _]; subst.
    assert (Hf2 : In (page_file ((k ++ [title_of c]) ++ [title_of g])) (files r)).
    { unfold files. right. right. apply in_or_app. left. apply in_map_iff.
      exists ((k ++ [title_of c]) ++ [title_of g], g). split; [reflexivity | now apply secs_iff]. }
    rewrite page_file_snoc in Hf2 by assumption.
    assert (Hf : In (k ++ [title_of c]) (files r)).
    { apply existsb_exists in Hex as (x & Hx & Ex). apply String.eqb_eq in Ex. subst x.
      unfold files_beside in Hx. apply in_app_or in Hx as [Hx|Hx].
      - destruct k as [|d [|? ?]]; [| |contradiction].
        + destruct Hx as [<-|[<-|[]]].
          * unfold files. right. right. apply in_or_app. left. apply in_map_iff.
            exists ([], r). split; [reflexivity | apply secs_iff; constructor].
          * now left.
        + destruct (String.eqb d ".static") eqn:E1.
          * apply String.eqb_eq in E1. subst d. destruct Hx as [<-|[]]. right. now left.
          * destruct (String.eqb d "figures") eqn:E2; [|contradiction].
            apply String.eqb_eq in E2. subst d. apply in_map_iff in Hx as (i & <- & Hi).
            unfold files. right. right. apply in_or_app. right. apply in_map_iff. exists i. auto.
      - apply in_map_iff in Hx as (c' & Ec' & Hc').
        assert (Hkc' : at_key r (k ++ [title_of c']) c') by (apply at_key_snoc; eauto).
        pose proof (Gk _ _ Hkc') as G'. apply Forall_app in G' as [_ G']. inversion G' as [|? ? Gt' _]; subst.
        rewrite <- Ec', <- page_file_snoc by assumption.
        unfold files. right. right. apply in_or_app. left. apply in_map_iff.
        exists (k ++ [title_of c'], c'). split; [reflexivity | now apply secs_iff]. }
    specialize (PF _ _ _ Hf Hf2 eq_refl). discriminate.
Qed.

(* rejected trees: exactly the others; and nothing is written for them *)
Corollary check_tree_rejects_iff (r : report) :
  (snd (write r) <> None <-> ~ acceptable r) /\ (snd (write r) <> None -> fst (write r) = []).
Proof.
  pose proof (check_tree_accepts_iff r) as H. unfold write. destruct (writable r); cbn.
  - split; [|intros N; now contradiction N]. split; [intros N; now contradiction N|].
    intros N. exfalso. apply N, H. reflexivity.
  - split; [|reflexivity]. split; [|discriminate]. intros _ A. apply H in A. discriminate.
Qed.

(* ---- C20: no written file is needed as a directory by another ---- *)
Theorem no_file_is_a_directory (r : report) :
  snd (write r) = None -> prefix_free (map wr_path (fst (write r))).
Proof.
  intros Hw. assert (W : writable r = true).
  { unfold write in Hw. destruct (writable r); [reflexivity | discriminate]. }
  rewrite written_files by exact W. now apply check_tree_accepts_iff.
Qed.

(* C13: read-only operations on test results as  op : state -> out * state.
   The mutable part of a result is explicit: the classification of a
   TestResultStatsTasks / TestResultStatsTests is a defaultdict(list)
   (insertion-ordered dict; a lookup miss INSERTS the key: LibDict.dd_get).
   Modelled as the code is after the "fix:" commits on stats.py:
     classification_counts (stats.py), repr_testresultstats(tasks|tests)
     (table_repr.py), the verdicts, oracles, nb_missing_labels.
   Results whose attributes are never written after construction (arrays of
   the dataset tests, p-values, metadata dictionaries, the by-labels rows) are
   immutable payloads; their renderings (table / plot representation, rst
   formatting, fingerprint, copy, pickle) are external pure functions of the
   payload ([render], a Section variable): that they really touch nothing is
   what the per-run deep snapshots test. *)
From Coq Require Import List ZArith Bool Arith Lia.
From VV Require Import Lib.Base C17.LibDict C18.Model.
Import ListNotations.

Definition classify := list (nat * list Z).

(* statuses in the order of classification_counts: status_first, then the
   other members of the enum (values 0 .. nstat-1) *)
Definition statuses_order (ok nstat : nat) : list nat :=
  ok :: filter (fun s => negb (Nat.eqb s ok)) (seq 0 nstat).

Definition nonzero (p : nat * nat) : bool := negb (Nat.eqb (snd p) 0).

(* classification_counts after the fix: len(classify.get(status, ())) *)
Definition counts (ok nstat : nat) (c : classify) : list (nat * nat) :=
  filter nonzero (map (fun s => (s, length (look Nat.eqb s c))) (statuses_order ok nstat)).

(* classification_counts as it was: len(classify[status]) on the defaultdict *)
Definition counts_unfixed (ok nstat : nat) (c : classify) : list (nat * nat) * classify :=
  let '(l, c') :=
    fold_left (fun (acc : list (nat * nat) * classify) s =>
                 let '(v, c2) := dd_get Nat.eqb [] s (snd acc) in
                 (fst acc ++ [(s, length v)], c2))
              (statuses_order ok nstat) ([], c) in
  (filter nonzero l, c').

(* "the success key is the only key" (before the fixes) *)
Definition verdict_unfixed (ok : nat) (c : classify) : bool :=
  has Nat.eqb ok c && Nat.eqb (length c) 1.

(* the text part of repr_testresultstats: for every status of the table other
   than status_ok: sorted(classify[status])  -- an indexing of the defaultdict *)
Definition text_loop (ok : nat) (sts : list nat) (c : classify) : list (list Z) * classify :=
  fold_left (fun (acc : list (list Z) * classify) s =>
               if Nat.eqb s ok then acc
               else let '(v, c2) := dd_get Nat.eqb [] s (snd acc) in (fst acc ++ [v], c2))
            sts ([], c).

Section Ops.
Variable nstat : nat.
Context {P O : Type}.
Variable render : nat -> P -> O.
Variable render_stats : nat -> nat -> classify -> O.
Variable render_rows : nat -> list (row Z) -> nat -> O.

Inductive result :=
| RStats (ok : nat) (c : classify)                 (* tasks (ok = DONE) / tests (ok = SUCCESS) *)
| RByLabels (rows : list (row Z)) (n : nat)
| RData (p : P).                                   (* equal, approx-equal, Student, Bonferroni,
                                                      Holm-Bonferroni, chi2, metadata, failed *)

Inductive op :=
| OBool | OOracles | OCounts | OMissing
| OTable (silent : bool)          (* repr_testresultstats(tasks|tests) at a verbosity *)
| OExt (code : nat).              (* plot repr, rst formatting, fingerprint, copy, pickle, ... *)

Inductive out :=
| VBool (b : bool) | VBools (l : list bool) | VCounts (l : list (nat * nat)) | VNat (n : nat)
| VTable (failed : bool) (rows : list (nat * nat)) (txt : list (list Z))
| VNothing | VExt (o : O).

Definition step (o : op) (s : result) : out * result :=
  match s with
  | RStats ok c =>
      match o with
      | OBool => (VBool (verdict Nat.eqb ok c), s)
      | OCounts => (VCounts (counts ok nstat c), s)
      | OTable silent =>
          if silent && verdict Nat.eqb ok c then (VNothing, s)
          else
            let failed := negb (verdict Nat.eqb ok c) in
            let cnts := counts ok nstat c in
            let '(txt, c') := text_loop ok (map fst cnts) c in
            (VTable failed cnts txt, RStats ok c')
      | OExt code => (VExt (render_stats code ok c), s)
      | OOracles | OMissing => (VNothing, s)
      end
  | RByLabels rows n =>
      match o with
      | OBool => (VBool (verdict_bl rows), s)
      | OOracles => (VBools (oracles rows), s)
      | OMissing => (VNat (nb_missing_labels n rows), s)
      | OExt code => (VExt (render_rows code rows n), s)
      | OCounts | OTable _ => (VNothing, s)
      end
  | RData p =>
      match o with
      | OExt code => (VExt (render code p), s)
      | OBool => (VExt (render 0 p), s)
      | OOracles => (VExt (render 1 p), s)
      | _ => (VNothing, s)
      end
  end.

(* a finite sequence of observations: the outputs and the final state *)
Fixpoint run (ops : list op) (s : result) : list out * result :=
  match ops with
  | [] => ([], s)
  | o :: r => let '(v, s1) := step o s in let '(vs, s2) := run r s1 in (v :: vs, s2)
  end.
End Ops.

Arguments RStats {P} ok c.
Arguments RByLabels {P} rows n.

(* ------------------------------------------------------------------ *)
(* what a cases file evaluates (statistics results; the other kinds have no
   model-side computation, they are covered by the snapshots) *)
Inductive zobs :=
| ZBool (b : bool) | ZCounts (l : list (nat * nat))
| ZTable (rows : list (nat * nat)) (nsections : nat) | ZNothing
| ZBools (l : list bool) | ZNat (n : nat) | ZSkip.

Definition no_render : nat -> unit -> unit := fun _ _ => tt.
Definition no_render_stats : nat -> nat -> classify -> unit := fun _ _ _ => tt.
Definition no_render_rows : nat -> list (row Z) -> nat -> unit := fun _ _ _ => tt.
Definition zresult := result (P := unit).
Definition zstep nstat := step nstat no_render no_render_stats no_render_rows.
Definition zrun nstat := run nstat no_render no_render_stats no_render_rows.

Definition obs_match (m : out (O := unit)) (i : zobs) : bool :=
  match m, i with
  | _, ZSkip => true
  | VBool a, ZBool b => Bool.eqb a b
  | VCounts a, ZCounts b => list_eqb (fun x y => Nat.eqb (fst x) (fst y) && Nat.eqb (snd x) (snd y)) a b
  | VTable _ rows txt, ZTable irows nsections =>
      list_eqb (fun x y => Nat.eqb (fst x) (fst y) && Nat.eqb (snd x) (snd y)) rows irows
      && Nat.eqb (length txt) nsections
  | VNothing, ZNothing => true
  | VBools a, ZBools b => list_eqb Bool.eqb a b
  | VNat a, ZNat b => Nat.eqb a b
  | _, _ => false
  end.

Fixpoint forall2b {A B} (f : A -> B -> bool) (l1 : list A) (l2 : list B) : bool :=
  match l1, l2 with
  | [], [] => true
  | a :: r1, b :: r2 => f a b && forall2b f r1 r2
  | _, _ => false
  end.

Definition classify_same (a b : classify) : bool :=
  list_eqb (fun x y => Nat.eqb (fst x) (fst y) && list_eqb Z.eqb (snd x) (snd y)) a b.

Definition row_same (a b : row Z) : bool :=
  list_eqb Z.eqb (r_labels a) (r_labels b) && Nat.eqb (r_ok a) (r_ok b)
  && Nat.eqb (r_ko a) (r_ko b) && Nat.eqb (r_total a) (r_total b).

Definition result_same (a b : zresult) : bool :=
  match a, b with
  | RStats o1 c1, RStats o2 c2 => Nat.eqb o1 o2 && classify_same c1 c2
  | RByLabels r1 n1, RByLabels r2 n2 => list_eqb row_same r1 r2 && Nat.eqb n1 n2
  | _, _ => false
  end.

(* (size of the enum, state before, operations, what the implementation
   returned for each, its state after): outputs agree, and the model's final
   state -- which the theorems show to be the initial one -- is the
   implementation's final state, key order included *)
Definition check_case (c : nat * zresult * list (op * zobs) * zresult) : bool :=
  let '(nstat, s, steps, after) := c in
  let '(outs, s') := zrun nstat (map fst steps) s in
  forall2b obs_match outs (map snd steps)
  && result_same s' after && result_same s after.

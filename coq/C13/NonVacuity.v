(* concrete sequences on concrete results *)
From Coq Require Import List ZArith Bool Arith Lia.
From VV Require Import Lib.Base C17.LibDict C18.Model C13.Model C13.Proofs.
Import ListNotations.

Definition st : zresult := RStats 2 [(2, [7%Z; 8%Z]); (3, [9%Z])].

Example st_sequence :
  zrun 5 [OBool; OTable false; OCounts; OTable true; OBool] st
  = ([VBool false; VTable true [(2, 2); (3, 1)] [[9%Z]]; VCounts [(2, 2); (3, 1)];
      VTable true [(2, 2); (3, 1)] [[9%Z]]; VBool false], st).
Proof. vm_compute. reflexivity. Qed.

Example st_ok_silent :
  zrun 5 [OTable true; OTable false; OBool] (RStats 2 [(2, [7%Z])])
  = ([VNothing; VTable false [(2, 1)] []; VBool true], RStats 2 [(2, [7%Z])]).
Proof. vm_compute. reflexivity. Qed.

Example bylabels_sequence :
  zrun 4 [OBool; OOracles; OMissing] (RByLabels [mk_row [1%Z] 2 0 2; mk_row [2%Z] 1 1 2] 5)
  = ([VBool false; VBools [true; false]; VNat 1], RByLabels [mk_row [1%Z] 2 0 2; mk_row [2%Z] 1 1 2] 5).
Proof. vm_compute. reflexivity. Qed.

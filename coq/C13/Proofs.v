(* C13 proofs: every observation leaves the state unchanged; so does any finite
   sequence, and every output in a sequence is the output on the initial state. *)
From Coq Require Import List ZArith Bool Arith Lia.
From VV Require Import Lib.Base C17.LibDict C18.Model C13.Model.
Import ListNotations.

Lemma dd_get_present (s : nat) (c : classify) v :
  get Nat.eqb s c = Some v -> dd_get Nat.eqb [] s c = (v, c).
Proof. unfold dd_get. now intros ->. Qed.

Lemma text_loop_acc ok sts : forall acc c,
  Forall (fun s => s = ok \/ get Nat.eqb s c <> None) sts ->
  snd (fold_left (fun (acc : list (list Z) * classify) s =>
               if Nat.eqb s ok then acc
               else let '(v, c2) := dd_get Nat.eqb [] s (snd acc) in (fst acc ++ [v], c2))
            sts (acc, c)) = c.
Proof.
  induction sts as [|s r IH]; intros acc c HF; cbn [fold_left]; [reflexivity|].
  inversion HF as [|? ? Hs Hr]; subst. destruct (Nat.eqb s ok) eqn:E.
  - apply IH. exact Hr.
  - cbn [snd fst]. destruct Hs as [Hs|Hs]; [apply Nat.eqb_neq in E; contradiction|].
    destruct (get Nat.eqb s c) as [v|] eqn:Eg; [|contradiction].
    rewrite (dd_get_present s c v Eg). apply IH. exact Hr.
Qed.

Lemma text_loop_preserves ok sts c :
  Forall (fun s => s = ok \/ get Nat.eqb s c <> None) sts ->
  snd (text_loop ok sts c) = c.
Proof. apply text_loop_acc. Qed.

(* the statuses of the table have a non-zero count, hence are keys already *)
Lemma counts_present ok nstat c s :
  In s (map fst (counts ok nstat c)) -> get Nat.eqb s c <> None.
Proof.
  unfold counts. intros Hin. apply in_map_iff in Hin. destruct Hin as ([s' n] & <- & Hin).
  apply filter_In in Hin. destruct Hin as [Hin Hnz]. apply in_map_iff in Hin.
  destruct Hin as (s0 & [= <- <-] & _). cbn in *. unfold look in Hnz.
  destruct (get Nat.eqb s0 c); [discriminate|]. cbn in Hnz. discriminate.
Qed.

Section Ops.
Variable nstat : nat.
Context {P O : Type}.
Variable render : nat -> P -> O.
Variable render_stats : nat -> nat -> classify -> O.
Variable render_rows : nat -> list (row Z) -> nat -> O.
Notation step := (step nstat render render_stats render_rows).
Notation run := (run nstat render render_stats render_rows).

(* THEOREM observers_preserve_state *)
Theorem observers_preserve_state (o : op) (s : result) : snd (step o s) = s.
Proof.
  destruct s as [ok c|rows n|p]; destruct o; cbn [C13.Model.step snd]; try reflexivity.
  destruct (silent && verdict Nat.eqb ok c); [reflexivity|].
  pose proof (text_loop_preserves ok (map fst (counts ok nstat c)) c) as H.
  destruct (text_loop ok (map fst (counts ok nstat c)) c) as [txt c'] eqn:E. cbn [snd] in *.
  rewrite H; [reflexivity|]. apply Forall_forall. intros s Hs. right.
  now apply (counts_present ok nstat c s).
Qed.

(* THEOREM any_sequence_preserves: by induction on the sequence *)
Theorem any_sequence_preserves (ops : list op) (s : result) :
  snd (run ops s) = s /\ fst (run ops s) = map (fun o => fst (step o s)) ops.
Proof.
  induction ops as [|o r IH]; cbn [C13.Model.run map]; [split; reflexivity|].
  pose proof (observers_preserve_state o s) as H1.
  destruct (step o s) as [v s1] eqn:E1. cbn [snd fst] in *. subst s1.
  destruct IH as [IH1 IH2]. destruct (run r s) as [vs s2]. cbn [snd fst] in *. subst. split; reflexivity.
Qed.

(* whatever was looked at and in whatever order, every later observation (the
   verdict in particular) is what it would have been at the beginning *)
Theorem observation_after_any_sequence (ops : list op) (o : op) (s : result) :
  fst (step o (snd (run ops s))) = fst (step o s).
Proof. now rewrite (proj1 (any_sequence_preserves ops s)). Qed.
End Ops.

(* the unfixed counting helper changed the state, and with it the verdict *)
Example classification_counts_refuted :
  let c : classify := [(2, [7%Z; 8%Z])] in
  verdict_unfixed 2 c = true
  /\ snd (counts_unfixed 2 5 c) <> c
  /\ verdict_unfixed 2 (snd (counts_unfixed 2 5 c)) = false
  /\ fst (counts_unfixed 2 5 c) = counts 2 5 c.
Proof. cbv zeta. repeat split; try reflexivity. vm_compute. discriminate. Qed.

(* C07: chi-square test.  Model of valjean/gavroche/stat_tests/chi2.py
   (TestChi2._nonzero_bins, ndf, chi2_test, TestResultChi2.oracles / __bool__).
   The pull (v1-v2)/sqrt(e1^2+e2^2) is C05's expression tree [t_expr]
   (Dataset.__sub__ + division); scipy's chi2.sf is external. *)
From Coq Require Import List ZArith Bool Reals.
From VV Require Import Lib.Base Lib.B64 C06.LibF C05.Model.
Import ListNotations.

Section Generic.
Context {X : Type}.
Definition bin4 : Type := (X * X * X * X)%type.     (* v1, e1, v2, e2 *)
Definition b_v1 (b : bin4) := fst (fst (fst b)).
Definition b_e1 (b : bin4) := snd (fst (fst b)).
Definition b_v2 (b : bin4) := snd (fst b).
Definition b_e2 (b : bin4) := snd b.
Definition env4 (b : bin4) : var -> X := env_of (b_v1 b) (b_e1 b) (b_v2 b) (b_e2 b).
End Generic.
Arguments bin4 : clear implicits.

(* ((v1-v2)/sqrt(e1^2+e2^2))**2 *)
Definition term_expr : expr := Mul t_expr t_expr.

(* nonzero_bins: e1 > 0 or e2 > 0 when ignore_empty, all bins otherwise *)
Definition used (ignore_empty : bool) (b : bin4 b64) : bool :=
  if ignore_empty then fgt (b_e1 b) fzero || fgt (b_e2 b) fzero else true.

(* = evalB (env4 b) term_expr (Proofs.term_is_expr); the pull is evaluated once *)
Definition term (b : bin4 b64) : b64 := let q := evalB (env4 b) t_expr in fmul q q.

Definition used_bins (ie : bool) (bins : list (bin4 b64)) := filter (used ie) bins.

(* ndf = count_nonzero(mask);  chi2 = sum(terms[mask]) (left to right) *)
Definition ndf (ie : bool) (bins : list (bin4 b64)) : nat := length (used_bins ie bins).
Definition chi2_stat (ie : bool) (bins : list (bin4 b64)) : b64 :=
  fsum (map term (used_bins ie bins)).

(* oracles: p > alpha;  verdict: all compared datasets *)
Definition pass (alpha p : b64) : bool := flt alpha p.
Definition verdict (alpha : b64) (ps : list b64) : bool := forallb (pass alpha) ps.

(* ---- what a cases file evaluates ---- *)
Definition zbin := (Z * Z)%type.
Record obs := mk_obs { o_chi2 : Z; o_ndf : nat; o_p : Z }.

Fixpoint zip_bins (r d : list zbin) : list (bin4 b64) :=
  match r, d with
  | (v1, e1) :: r', (v2, e2) :: d' =>
      (of_bits v1, of_bits e1, of_bits v2, of_bits e2) :: zip_bins r' d'
  | _, _ => []
  end.

(* numpy sums pairwise: the statistic is compared within 2^-40 relative *)
Definition check_dataset (ie : bool) (ref : list zbin) (c : list zbin * obs) : bool :=
  let '(d, o) := c in
  let bins := zip_bins ref d in
  Nat.eqb (length d) (length ref)
  && close2 (chi2_stat ie bins) (of_bits (o_chi2 o))
  && Nat.eqb (ndf ie bins) (o_ndf o).

Definition check_case (c : bool * Z * list zbin * list (list zbin * obs) * bool) : bool :=
  let '(ie, alpha, ref, dsets, v) := c in
  forallb (check_dataset ie ref) dsets
  && Bool.eqb (verdict (of_bits alpha) (map (fun c => of_bits (o_p (snd c))) dsets)) v.

(* C07 proofs: mask / count / sum bookkeeping and NaN on binary64; the statistic as a
   sum of squared pulls and its permutation invariance over R. *)
From Coq Require Import List ZArith Bool Reals Lra Lia Permutation.
From Flocq Require Import Core.Core IEEE754.BinarySingleNaN.
From VV Require Import Lib.Base Lib.B64 C06.LibF C05.Model C07.Model.
Import ListNotations.

Lemma term_is_expr b : term b = evalB (env4 b) term_expr.
Proof. reflexivity. Qed.

(* ---------- which bins are used ---------- *)
Lemma used_all bins : used_bins false bins = bins.
Proof. unfold used_bins. induction bins as [|b r IH]; cbn; [reflexivity|]. now rewrite IH. Qed.

(* for defined, non-negative errors a bin is left out iff both errors are zero *)
Lemma mask_spec b :
  B64.is_nan (b_e1 b) = false -> B64.is_nan (b_e2 b) = false ->
  (0 <= xR (b_e1 b))%R -> (0 <= xR (b_e2 b))%R ->
  (used true b = false <-> xR (b_e1 b) = 0%R /\ xR (b_e2 b) = 0%R).
Proof.
  intros N1 N2 P1 P2. unfold used, fgt.
  assert (Z0 : xR fzero = 0%R) by reflexivity.
  rewrite orb_false_iff.
  rewrite (flt_false_R fzero (b_e1 b) eq_refl N1), (flt_false_R fzero (b_e2 b) eq_refl N2).
  rewrite Z0. split; intros [H1 H2]; split; lra.
Qed.

(* ndf is the number of used bins; left-out bins contribute neither to the sum nor to
   the count: statistic and ndf are those of the dataset restricted to its used bins *)
Lemma ndf_is_count_used ie bins : ndf ie bins = length (filter (used ie) bins).
Proof. reflexivity. Qed.

Lemma ndf_count ie bins : ndf ie bins = count_occ bool_dec (map (used ie) bins) true.
Proof.
  unfold ndf, used_bins. induction bins as [|b r IH]; cbn; [reflexivity|].
  destruct (used ie b); cbn; [f_equal; exact IH | exact IH].
Qed.

Lemma filter_idem {A} (f : A -> bool) l : filter f (filter f l) = filter f l.
Proof.
  induction l as [|a r IH]; cbn; [reflexivity|].
  destruct (f a) eqn:E; cbn; [rewrite E, IH; reflexivity | exact IH].
Qed.

Lemma left_out_contribute_nothing ie bins :
  chi2_stat ie bins = chi2_stat ie (used_bins ie bins) /\
  ndf ie bins = ndf ie (used_bins ie bins) /\
  chi2_stat ie bins = chi2_stat false (used_bins ie bins) /\
  ndf ie bins = length (used_bins ie bins).
Proof.
  assert (E : used_bins ie (used_bins ie bins) = used_bins ie bins) by apply filter_idem.
  unfold chi2_stat, ndf. rewrite E, used_all. repeat split; reflexivity.
Qed.

Lemma left_out_bin_ignored ie b bins :
  used ie b = false ->
  chi2_stat ie (b :: bins) = chi2_stat ie bins /\ ndf ie (b :: bins) = ndf ie bins.
Proof. intros H. unfold chi2_stat, ndf, used_bins. cbn. rewrite H. split; reflexivity. Qed.

Lemma left_out_anywhere ie l1 b l2 :
  used ie b = false ->
  chi2_stat ie (l1 ++ b :: l2) = chi2_stat ie (l1 ++ l2) /\
  ndf ie (l1 ++ b :: l2) = ndf ie (l1 ++ l2).
Proof.
  intros H. unfold chi2_stat, ndf, used_bins. rewrite !filter_app. cbn. rewrite H.
  split; reflexivity.
Qed.

(* ---------- verdict ---------- *)
Lemma verdict_iff_all_p_gt_alpha alpha ps :
  verdict alpha ps = true <-> forall p, In p ps -> flt alpha p = true.
Proof. unfold verdict, pass. apply forallb_forall. Qed.

Lemma pass_on_reals alpha p :
  B64.is_nan alpha = false ->
  (B64.is_nan p = true -> pass alpha p = false) /\
  (B64.is_nan p = false -> (pass alpha p = true <-> (xR alpha < xR p)%R)).
Proof.
  intros Na. unfold pass. split.
  - intros Hp. apply is_nan_true in Hp. subst. apply flt_nan_r.
  - intros Np. now apply flt_R.
Qed.

(* ---------- NaN ---------- *)
Lemma fold_fadd_nan l : fold_left fadd l fnan = fnan.
Proof. induction l as [|x r IH]; cbn [fold_left]; [reflexivity|]. now rewrite fadd_nan_l. Qed.

Lemma fsum_nan l : In fnan l -> fsum l = fnan.
Proof.
  unfold fsum. generalize fzero as acc. induction l as [|x r IH]; intros acc H; [contradiction|].
  cbn [fold_left]. destruct H as [->|H].
  - rewrite fadd_nan_r. apply fold_fadd_nan.
  - now apply IH.
Qed.

(* no bin left out and some term undefined => the statistic is NaN *)
Lemma chi2_nan bins b :
  In b bins -> B64.is_nan (term b) = true -> chi2_stat false bins = fnan.
Proof.
  intros Hin Hn. unfold chi2_stat. rewrite used_all. apply fsum_nan.
  apply is_nan_true in Hn. rewrite <- Hn. now apply in_map.
Qed.

(* a NaN input makes the term NaN *)
Lemma term_nan_input b :
  B64.is_nan (b_v1 b) || B64.is_nan (b_e1 b) || B64.is_nan (b_v2 b) || B64.is_nan (b_e2 b) = true ->
  term b = fnan.
Proof.
  destruct b as [[[v1 e1] v2] e2]. unfold term, env4, b_v1, b_e1, b_v2, b_e2. cbn [fst snd].
  cbn [evalB t_expr diff_value diff_error env_of].
  intros H. apply orb_true_iff in H. destruct H as [H|H].
  2:{ apply is_nan_true in H. subst.
      now rewrite fmul_nan_l, fadd_nan_r, fsqrt_nan, fdiv_nan_r, fmul_nan_l. }
  apply orb_true_iff in H. destruct H as [H|H].
  2:{ apply is_nan_true in H. subst. now rewrite fsub_nan_r, fdiv_nan_l, fmul_nan_l. }
  apply orb_true_iff in H. destruct H as [H|H].
  - apply is_nan_true in H. subst. now rewrite fsub_nan_l, fdiv_nan_l, fmul_nan_l.
  - apply is_nan_true in H. subst.
    now rewrite fmul_nan_l, fadd_nan_l, fsqrt_nan, fdiv_nan_r, fmul_nan_l.
Qed.

Section Sf.
Variable sf : b64 -> nat -> b64.                    (* scipy.stats.chi2.sf *)
Hypothesis sf_nan : forall k, B64.is_nan (sf fnan k) = true.

Definition pvalue (ie : bool) (bins : list (bin4 b64)) : b64 :=
  sf (chi2_stat ie bins) (ndf ie bins).

(* when no bin is left out an undefined statistic never passes *)
Lemma nan_never_passes alpha bins b others :
  In b bins -> B64.is_nan (term b) = true ->
  pass alpha (pvalue false bins) = false /\
  (In (pvalue false bins) others -> verdict alpha others = false).
Proof.
  intros Hin Hn.
  assert (Hp : pass alpha (pvalue false bins) = false).
  { unfold pass, pvalue. rewrite (chi2_nan bins b Hin Hn).
    pose proof (sf_nan (ndf false bins)) as H. apply is_nan_true in H. rewrite H.
    apply flt_nan_r. }
  split; [exact Hp|]. intros Ho.
  destruct (verdict alpha others) eqn:E; [|reflexivity].
  pose proof (proj1 (verdict_iff_all_p_gt_alpha alpha others) E _ Ho) as Hq.
  unfold pass in Hp. congruence.
Qed.
End Sf.

(* ---------- the statistic over R ---------- *)
Local Open Scope R_scope.

Definition termR (b : bin4 R) : R := evalR (env4 b) term_expr.
Definition gt0 (x : R) : bool := if Rlt_dec 0 x then true else false.
Definition usedR (ie : bool) (b : bin4 R) : bool :=
  if ie then gt0 (b_e1 b) || gt0 (b_e2 b) else true.
Definition sumR (l : list R) : R := fold_right Rplus 0 l.
Definition chi2R (ie : bool) (bins : list (bin4 R)) : R :=
  sumR (map termR (filter (usedR ie) bins)).
Definition ndfR (ie : bool) (bins : list (bin4 R)) : nat := length (filter (usedR ie) bins).

(* each term is the squared value difference divided by the sum of the squared errors *)
Lemma term_is_squared_pull (b : bin4 R) :
  0 < b_e1 b * b_e1 b + b_e2 b * b_e2 b ->
  termR b = (b_v1 b - b_v2 b) * (b_v1 b - b_v2 b) / (b_e1 b * b_e1 b + b_e2 b * b_e2 b).
Proof.
  intros Hs. unfold termR. destruct b as [[[v1 e1] v2] e2].
  unfold env4, b_v1, b_e1, b_v2, b_e2 in *. cbn [fst snd] in *.
  cbn [evalR term_expr t_expr diff_value diff_error env_of].
  set (s := e1 * e1 + e2 * e2) in *.
  assert (Hq : 0 < sqrt s) by now apply sqrt_lt_R0.
  assert (Hss : sqrt s * sqrt s = s) by (apply sqrt_sqrt; lra).
  unfold Rdiv. rewrite <- Hss at 3.
  field. lra.
Qed.

Lemma chi2_is_sum_of_squared_pulls ie bins :
  (forall b, In b bins -> usedR ie b = true -> 0 < b_e1 b * b_e1 b + b_e2 b * b_e2 b) ->
  chi2R ie bins =
  sumR (map (fun b => (b_v1 b - b_v2 b) * (b_v1 b - b_v2 b)
                      / (b_e1 b * b_e1 b + b_e2 b * b_e2 b)) (filter (usedR ie) bins)).
Proof.
  intros H. unfold chi2R. f_equal. apply map_ext_in. intros b Hb.
  apply filter_In in Hb. destruct Hb as [Hb Hu]. apply term_is_squared_pull. now apply H.
Qed.

(* with ignore_empty, a bin with non-negative errors is used iff its variance sum is positive *)
Lemma usedR_spec b :
  0 <= b_e1 b -> 0 <= b_e2 b ->
  (usedR true b = false <-> b_e1 b = 0 /\ b_e2 b = 0).
Proof.
  intros H1 H2. unfold usedR, gt0. rewrite orb_false_iff.
  destruct (Rlt_dec 0 (b_e1 b)), (Rlt_dec 0 (b_e2 b)); split; intros [Ha Hb];
    try discriminate; try (split; [reflexivity|reflexivity]); try (split; lra); lra.
Qed.

Lemma sumR_perm l l' : Permutation l l' -> sumR l = sumR l'.
Proof.
  induction 1 as [|x l l' _ IH|x y l|l l' l'' _ IH1 _ IH2]; cbn [sumR fold_right] in *;
    unfold sumR in *; cbn [fold_right] in *; lra.
Qed.

Lemma filter_perm {A} (f : A -> bool) l l' :
  Permutation l l' -> Permutation (filter f l) (filter f l').
Proof.
  induction 1 as [|x l l' _ IH|x y l|l l' l'' _ IH1 _ IH2]; cbn.
  - constructor.
  - destruct (f x); [now constructor | exact IH].
  - destruct (f x), (f y); try reflexivity. apply perm_swap.
  - now transitivity (filter f l').
Qed.

(* the statistic and the number of degrees of freedom do not depend on the order of the bins *)
Lemma perm_invariant ie bins bins' :
  Permutation bins bins' -> chi2R ie bins = chi2R ie bins' /\ ndfR ie bins = ndfR ie bins'.
Proof.
  intros H. pose proof (filter_perm (usedR ie) _ _ H) as Hf. split.
  - unfold chi2R. apply sumR_perm, Permutation_map, Hf.
  - unfold ndfR. now apply Permutation_length.
Qed.

(* the model's mask, count and set of used bins are permutation-invariant on binary64 too
   (only the rounding of the sum may depend on the order) *)
Lemma used_perm ie bins bins' :
  Permutation bins bins' ->
  Permutation (used_bins ie bins) (used_bins ie bins') /\ ndf ie bins = ndf ie bins'.
Proof.
  intros H. pose proof (filter_perm (used ie) _ _ H) as Hf. split; [exact Hf|].
  unfold ndf. now apply Permutation_length.
Qed.

(* C07: hypotheses satisfiable, concrete evaluations *)
From Coq Require Import List ZArith Bool Reals Lra.
From VV Require Import Lib.Base Lib.B64 C06.LibF C05.Model C07.Model C07.Proofs.
Import ListNotations.

Definition z := fzero.
Definition f1 := of_bits 4607182418800017408.     (* 1.0 *)
Definition f2 := of_bits 4611686018427387904.     (* 2.0 *)
Definition f01 := of_bits 4591870180066957722.    (* 0.1 *)

(* bins (v1, e1, v2, e2): one empty bin (both errors 0), one with a one-sided zero error *)
Definition bins3 : list (bin4 b64) := [(f1, z, f1, z); (f1, f01, f2, z); (f2, f01, f2, f01)].

Example mask_example :
  map (used true) bins3 = [false; true; true] /\ ndf true bins3 = 2 /\ ndf false bins3 = 3 /\
  to_bits (chi2_stat true bins3) = to_bits (chi2_stat false [(f1, f01, f2, z); (f2, f01, f2, f01)]).
Proof. repeat split; vm_compute; reflexivity. Qed.

(* without the option the empty bin gives 0/0 = NaN and the statistic is NaN *)
Example nan_example :
  B64.is_nan (term (f1, z, f1, z)) = true /\ B64.is_nan (chi2_stat false bins3) = true.
Proof. split; vm_compute; reflexivity. Qed.

(* hypotheses of mask_spec hold for the bins above *)
Example mask_hyp_example :
  B64.is_nan (b_e1 (f1, f01, f2, z)) = false /\ (0 <= xR (b_e1 (f1, f01, f2, z)))%R.
Proof.
  split; [reflexivity|]. unfold b_e1. cbn [fst snd].
  assert (H : flt f01 fzero = false) by (vm_compute; reflexivity).
  apply (flt_false_R f01 fzero eq_refl eq_refl) in H. exact H.
Qed.

(* sf NaN = NaN is satisfiable (e.g. by the identity on the statistic) *)
Example sf_hypothesis_satisfiable :
  exists sf : b64 -> nat -> b64, forall k, B64.is_nan (sf fnan k) = true.
Proof. exists (fun x _ => x). reflexivity. Qed.

(* real-number side: positivity hypothesis of the squared-pull formula *)
Example pull_example :
  termR (1, 3, 2, 4)%R = (1 / 25)%R.
Proof.
  rewrite term_is_squared_pull; unfold b_v1, b_e1, b_v2, b_e2; cbn [fst snd]; [field | lra].
Qed.

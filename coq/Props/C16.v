(* C16 — property theorems only.  Each is closed by [exact]; see C16/*.v. *)
From Coq Require Import List Arith Bool PeanoNat NArith Relations.
From VV Require Import Lib.Base C16.Model C16.Inv C16.GraftSpec C16.ProofsM C16.ProofsQ C16.History
     C16.History2 C16.Trans C16.Toposort C16.Sweep C16.Flatten C16.Heap.
Import ListNotations.

(* one operation of the FULL editing alphabet (new graph, node/edge insertion and removal,
   merge +=, +, copy, invert, graft of a nested graph object) on a world of graph objects that
   satisfy the representation invariant and stand for the plain graphs [aw]: same outcome
   (result or the same exception class), invariant kept, and the new world stands for the
   result of the plain set operation *)
Theorem C16_step_refines : forall w aw e,
  Forall2 R w aw ->
  match wstep w (f_wop e), fstep aw e with
  | Ok w', Ok aw' => Forall2 R w' aw'
  | Raise c, Raise c' => c = c'
  | _, _ => False
  end.
Proof. exact step_refines_full. Qed.
Print Assumptions C16_step_refines.

(* after ANY finite history of these operations from the empty world every graph object
   satisfies the invariant and reports exactly the nodes, direct dependencies and dependees
   of the plain node list / edge list obtained by running the history on plain graphs *)
Theorem C16_edit_history_refines : forall (h : list fop) r g,
  nth_error (wrunf [] h) r = Some g ->
  exists a, nth_error (arunf [] h) r = Some a /\ g_ok g /\
    (forall k, In k (seq (nodes g)) <-> In k (fst a)) /\
    (forall n, match dependencies g n false with
               | Ok l => In n (fst a) /\ forall b, In b l <-> In (n, b) (snd a)
               | Raise c => c = EValue /\ ~ In n (fst a)
               end) /\
    (forall n, match dependees g n with
               | Ok l => In n (fst a) /\ forall b, In b l <-> In (b, n) (snd a)
               | Raise c => c = EValue /\ ~ In n (fst a)
               end).
Proof. exact edit_history_refines. Qed.
Print Assumptions C16_edit_history_refines.

(* the mathematical meaning of graft(s) when the node s is the graph [sub] (GraftSpec.v),
   including the empty sub-graph rule and the re-adding of a self-dependent node *)
Theorem C16_graft_refines : forall g s sub, g_ok g -> g_ok sub ->
  match graft g s sub with
  | Ok g' => cnode g s /\ g_ok g' /\
             (forall k, cnode g' k <-> graft_node g s sub k) /\
             (forall x y, cedge g' x y <-> graft_edge g s sub x y)
  | Raise c => c = EValue /\ ~ cnode g s
  end.
Proof. exact graft_ok. Qed.
Print Assumptions C16_graft_refines.

(* frame: an operation changes at most its target object; +, copy, invert only create one *)
Theorem C16_frame : forall (w : world) e w' q,
  wstep w (f_wop e) = Ok w' -> q < length w -> History2.target e <> Some q ->
  nth_error w' q = nth_error w q.
Proof. exact frame_full. Qed.
Print Assumptions C16_frame.

(* ALIASING (Heap.v): the Python set objects holding the edges and the RList objects have
   identities in a store; each operation says which statement allocates a fresh object and which
   mutates in place.  After ANY history of the 13 operations of the world alphabet the graph
   objects own pairwise disjoint, allocated objects ... *)
Theorem C16_heap_separation_invariant : forall l : list hop, sep (hrun hw_empty l).
Proof. exact sep_invariant. Qed.
Print Assumptions C16_heap_separation_invariant.

(* ... the heap worlds erase exactly to the worlds of the functional model (so every theorem
   about Model.wstep worlds holds for them) ... *)
Theorem C16_heap_simulates_model : forall l : list hop,
  erase_w (hrun hw_empty l) = wrun_ops [] (map Heap.to_wop l).
Proof. exact hrun_sim. Qed.
Print Assumptions C16_heap_simulates_model.

(* ... and an operation leaves the value of every object it does not target as it was: copies,
   inverted graphs and sums are independent of the original and vice versa, for all histories.
   (Heap.copy_sharing_refuted: a copy that reuses the set objects violates this.) *)
Theorem C16_copy_independent : forall (l : list hop) (o : hop) (q : nat) (w' : hworld),
  let w := hrun hw_empty l in
  hstep w o = Ok w' -> Heap.target o <> Some q -> q < length (snd w) ->
  nth_error (erase_w w') q = nth_error (erase_w w) q.
Proof. exact copy_independent. Qed.
Print Assumptions C16_copy_independent.

(* depends(), <= and == report the plain graph *)
Theorem C16_depends_reports : forall g a b, g_ok g ->
  match depends g a b false with
  | Ok r => cnode g a /\ cnode g b /\ (r = true <-> cedge g a b)
  | Raise c => c = EValue /\ (~ cnode g a \/ ~ cnode g b)
  end.
Proof. exact depends_ok. Qed.
Print Assumptions C16_depends_reports.

Theorem C16_le_reports : forall g h, g_ok g -> g_ok h ->
  exists r, le g h = Ok r /\
    (r = true <-> (forall k, cnode g k -> cnode h k) /\ (forall x y, cedge g x y -> cedge h x y)).
Proof. exact le_ok. Qed.
Print Assumptions C16_le_reports.

Theorem C16_eq_reports : forall g h, g_ok g -> g_ok h ->
  exists r, isomorphic g h = Ok r /\
    (r = true <-> (forall k, cnode g k <-> cnode h k) /\ (forall x y, cedge g x y <-> cedge h x y)).
Proof. exact isomorphic_ok. Qed.
Print Assumptions C16_eq_reports.

Theorem C16_initial_terminal_report : forall g, g_ok g ->
  (exists l, initial g = Ok l /\ forall k, In k l <-> is_init g k) /\
  (exists l, terminal g = Ok l /\ forall k, In k l <-> is_term g k).
Proof. exact (fun g H => conj (initial_ok g H) (terminal_ok g H)). Qed.
Print Assumptions C16_initial_terminal_report.

(* transitive closure and reduction, all acyclic graphs (unbounded) *)
Theorem C16_closure_correct : forall g, g_ok g -> acyclic g ->
  exists g', transitive_closure g = Ok g' /\ g_ok g' /\
    (forall k, cnode g' k <-> cnode g k) /\
    (forall x y, cedge g' x y <-> clos_trans key (cedge g) x y).
Proof. exact closure_correct. Qed.
Print Assumptions C16_closure_correct.

Theorem C16_reduction_correct : forall g, g_ok g -> acyclic g ->
  exists g', transitive_reduction g = Ok g' /\ g_ok g' /\
    (forall k, cnode g' k <-> cnode g k) /\
    (forall x y, cedge g' x y <->
       cedge g x y /\ ~ exists c, clos_trans key (cedge g) x c /\ clos_trans key (cedge g) c y) /\
    (forall x y, clos_trans key (cedge g') x y <-> clos_trans key (cedge g) x y).
Proof. exact reduction_correct. Qed.
Print Assumptions C16_reduction_correct.

Theorem C16_reduction_edge_needed : forall g g', g_ok g -> acyclic g -> transitive_reduction g = Ok g' ->
  forall x y, cedge g' x y -> ~ clos_trans key (fun a b => cedge g' a b /\ ~ (a = x /\ b = y)) x y.
Proof. exact reduction_edge_needed. Qed.
Print Assumptions C16_reduction_edge_needed.

(* topological sort, all graphs (unbounded): a result lists every node once, every node
   after all its dependencies, and only acyclic graphs have one *)
Theorem C16_toposort_sound : forall g order, g_ok g -> topological_sort g = Ok order ->
  NoDup order /\ (forall k, In k order <-> cnode g k) /\
  (forall a b, cedge g a b -> before b a order) /\ acyclic g.
Proof. exact toposort_sound. Qed.
Print Assumptions C16_toposort_sound.

Theorem C16_toposort_complete : forall g, g_ok g -> acyclic g ->
  exists order, topological_sort g = Ok order.
Proof. exact toposort_complete. Qed.
Print Assumptions C16_toposort_complete.

Theorem C16_toposort_cyclic : forall g, g_ok g -> ~ acyclic g -> topological_sort g = Raise ECyclic.
Proof. exact toposort_cyclic. Qed.
Print Assumptions C16_toposort_cyclic.

(* FLATTEN, general (unbounded, Flatten.v).  [subs] says which keys are nested graphs and which;
   nesting is well-founded by the measure [rank] (a nested graph only contains nested graphs of
   smaller rank); [inside] = transitively contained; [vstep] = the constraint relation of the nested
   graph where a nested node q is the pair T q (after all of q) / B q (before all of q).
   One graft step keeps the plain nodes and the constraints ... *)
Theorem C16_graft_preserves_order :
  forall (subs : key -> option cgraph) (rank : key -> nat) (g : cgraph) (q : key) (sub : cgraph),
  g_ok g ->
  (forall k s, subs k = Some s -> g_ok s) ->
  (forall k s x, subs k = Some s -> cnode s x -> subs x <> None -> rank x < rank k) ->
  subs q = Some sub -> cnode g q ->
  (forall v, ~ clos_trans vnode (vstep subs g) v v) ->
  ((exists x, cnode sub x) \/
   (forall k s', cnode g k -> subs k = Some s' -> forall x, ~ cnode s' x)) ->
  exists g', graft g q sub = Ok g' /\ g_ok g' /\
    (forall k, subs k = None -> (inside subs g' k <-> inside subs g k)) /\
    (forall v, ~ clos_trans vnode (vstep subs g') v v) /\
    (forall a b, clos_trans vnode (vstep subs g') (P a) (P b) <->
                 clos_trans vnode (vstep subs g) (P a) (P b)).
Proof. exact graft_preserves_order. Qed.
Print Assumptions C16_graft_preserves_order.

(* ... and flatten (sharing of nested graph objects between levels allowed, empty ones included):
   the nodes of the result are the plain nodes inside, and for plain a, b there is a path a ->+ b in
   the flattened graph iff the nested graph constrains a after b *)
Theorem C16_flatten_preserves_order :
  forall (subs : key -> option cgraph) (rank : key -> nat) (bound fuel : nat) (g : cgraph),
  g_ok g ->
  (forall k s, subs k = Some s -> g_ok s) ->
  (forall k s x, subs k = Some s -> cnode s x -> subs x <> None -> rank x < rank k) ->
  (forall k, inside subs g k -> subs k <> None -> rank k < bound) ->
  (forall v, ~ clos_trans vnode (vstep subs g) v v) ->
  bound + 3 <= fuel ->
  exists g', flatten fuel subs true g = Ok g' /\ g_ok g' /\
    (forall k, cnode g' k <-> inside subs g k /\ subs k = None) /\
    (forall a b, subs a = None -> subs b = None ->
       (clos_trans key (cedge g') a b <-> clos_trans vnode (vstep subs g) (P a) (P b))).
Proof. exact flatten_preserves_order. Qed.
Print Assumptions C16_flatten_preserves_order.

(* the same for the flatten operation of a world of graph objects *)
Theorem C16_world_flatten_preserves_order :
  forall (w : world) (r : nat) (g : cgraph) (rank : key -> nat) (bound : nat),
  nth_error w r = Some g -> g_ok g ->
  (forall k s, sub_of w k = Some s -> g_ok s) ->
  (forall k s x, sub_of w k = Some s -> cnode s x -> sub_of w x <> None -> rank x < rank k) ->
  (forall k, inside (sub_of w) g k -> sub_of w k <> None -> rank k < bound) ->
  (forall v, ~ clos_trans vnode (vstep (sub_of w) g) v v) ->
  bound + 3 <= length w + length w ->
  exists g', wstep w (WFlatten r true) = Ok (set_nth r g' w) /\ g_ok g' /\
    (forall k, cnode g' k <-> inside (sub_of w) g k /\ sub_of w k = None) /\
    (forall a b, sub_of w a = None -> sub_of w b = None ->
       (clos_trans key (cedge g') a b <-> clos_trans vnode (vstep (sub_of w) g) (P a) (P b))).
Proof. exact wflatten_preserves_order. Qed.
Print Assumptions C16_world_flatten_preserves_order.

(* exhaustive: all loop-free digraphs on n <= 5 nodes (edge masks m), built through the
   model's own add_node / add_dependency *)
Theorem C16_toposort_correct_le5 : forall n m,
  n <= 5 -> (m < 2 ^ N.of_nat (n * (n - 1)))%N ->
  let es := edges_of_mask n m in
  exists g, graph_of n es = Ok g /\ g_abs g = Ok (List.seq 0 n, es) /\
    topological_sort g <> Raise EFuel /\
    (acyclicb n es = true <-> acyclic_rel es) /\
    (acyclic_rel es ->
       exists order, topological_sort g = Ok order /\
         valid_order (List.seq 0 n) es order = true /\
         NoDup order /\ (forall k, In k order <-> k < n) /\
         (forall a b, In (a, b) es ->
            exists i j, nth_error order i = Some a /\ nth_error order j = Some b /\ j < i)) /\
    (~ acyclic_rel es -> topological_sort g = Raise ECyclic).
Proof. exact toposort_correct_le5. Qed.
Print Assumptions C16_toposort_correct_le5.

Theorem C16_reduction_minimal_le5 : forall n m,
  n <= 5 -> (m < 2 ^ N.of_nat (n * (n - 1)))%N ->
  let es := edges_of_mask n m in
  acyclic_rel es ->
  exists g g' es', graph_of n es = Ok g /\ transitive_reduction g = Ok g' /\
    g_abs g' = Ok (List.seq 0 n, es') /\
    (forall a b, reachable es' a b <-> reachable es a b) /\
    reach_eqb (List.seq 0 n) es es' = true /\
    (forall a b, In (a, b) es' <->
                 In (a, b) es /\ ~ exists c, reachable es a c /\ reachable es c b) /\
    (forall a b, In (a, b) es' -> ~ reachable (remove_edge (a, b) es') a b).
Proof. exact reduction_minimal_le5. Qed.
Print Assumptions C16_reduction_minimal_le5.

Theorem C16_closure_maximal_le5 : forall n m,
  n <= 5 -> (m < 2 ^ N.of_nat (n * (n - 1)))%N ->
  let es := edges_of_mask n m in
  acyclic_rel es ->
  exists g g' es', graph_of n es = Ok g /\ transitive_closure g = Ok g' /\
    g_abs g' = Ok (List.seq 0 n, es') /\
    (forall a b, In (a, b) es' <-> reachable es a b) /\
    (forall a b, In (a, b) es' <-> a < n /\ In b (reach1 n es a)) /\
    (forall a b, reachable es' a b <-> reachable es a b).
Proof. exact closure_maximal_le5. Qed.
Print Assumptions C16_closure_maximal_le5.

(* exhaustive: an outer graph on 2..4 nodes one of which is a nested graph on 0..2 nodes
   (the empty one included), all loop-free edge sets: flatten keeps exactly the ordering
   constraints between plain nodes *)
Theorem C16_flatten_preserves_order_small : forall ons sns mo ms,
  In ons outer_shapes -> In sns sub_shapes ->
  (mo < 2 ^ N.of_nat (length ons * (length ons - 1)))%N ->
  (ms < 2 ^ N.of_nat (length sns * (length sns - 1)))%N ->
  let oes := edges_on ons mo in
  let ses := edges_on sns ms in
  let ves := virt oes sns ses in
  let plain := plain_of ons sns in
  acyclic_rel ves ->
  exists g sg g' ns' es',
    graph_on ons oes = Ok g /\ g_abs g = Ok (ons, oes) /\
    graph_on sns ses = Ok sg /\ g_abs sg = Ok (sns, ses) /\
    flatten 4 (sub_of [g; sg]) true g = Ok g' /\
    wstep [g; sg] (WFlatten 0 true) = Ok [g'; sg] /\
    g_abs g' = Ok (ns', es') /\
    NoDup ns' /\ (forall k, In k ns' <-> In k plain) /\
    (forall a b, In a plain -> In b plain -> (reachable es' a b <-> reachable ves a b)).
Proof. exact flatten_preserves_order_small. Qed.
Print Assumptions C16_flatten_preserves_order_small.

From Coq Require Import List.
From VV Require Import Sched.Model Sched.Defs Sched.Inv Sched.ProofsC04.

(* e0 arbitrary: whatever was carried over from earlier runs, with arbitrary losses *)
Theorem C04_rerun_consistent :
  forall c e0 st0 clk s, wf_cfg c -> junk_free e0 -> clocked e0 clk ->
  reachable c e0 st0 clk s -> mp s = MReturned -> consistent c (env s) /\ clocked (env s) (clock s).
Proof. exact rerun_consistent. Qed.
Print Assumptions C04_rerun_consistent.

(* finite histories: every run starts from any sub-map of the DONE entries of
   the previous final environment, graph / outcomes / worker count may change,
   the clock does not go back; every final environment is consistent (and is
   again a possible starting point) *)
Theorem C04_history :
  forall c e clk0 e0 st0 clk s,
  history e clk0 -> carry e e0 -> clk0 <= clk -> wf_cfg c ->
  reachable c e0 st0 clk s -> mp s = MReturned ->
  consistent c (env s) /\ clocked (env s) (clock s) /\ history (env s) (clock s).
Proof. exact history_consistent. Qed.
Print Assumptions C04_history.

Theorem C04_no_needless_rerun :
  forall c e0 st0 clk s t, wf_cfg c -> junk_free e0 -> clocked e0 clk -> reachable c e0 st0 clk s ->
  t < ntasks c -> up_to_date c e0 t -> started s t = st0 t /\ env s t = e0 t.
Proof. exact no_needless_rerun. Qed.
Print Assumptions C04_no_needless_rerun.

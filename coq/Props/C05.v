(* C05 — property theorems only; see C05/Proofs.v (binary64) and C05/Laws.v (reals).
   student_t is the model of TestStudent.student_test on one bin; the threshold
   |ppf(alpha/2)| and the p-values 2 sf(|t|) are scipy's and enter as inputs /
   Section hypotheses. *)
From Coq Require Import List ZArith Bool Reals.
From Flocq Require Import Core.Core IEEE754.BinarySingleNaN.
From VV Require Import Lib.Base Lib.B64 C06.LibF C05.Model C05.Proofs C05.Laws C05.Rounding C05.Symmetry C05.Monotone.
Import ListNotations.

(* verdict true iff every bin of every compared dataset has |t| < threshold *)
Theorem C05_verdict_iff_all_bins :
  forall thr tss,
  verdict thr tss = true <->
  forall ts, In ts tss -> forall t, In t ts -> flt (fabs t) thr = true.
Proof. exact verdict_iff_all_bins. Qed.
Print Assumptions C05_verdict_iff_all_bins.

(* the per-bin comparison is |t| < thr on real numbers; an undefined t never passes *)
Theorem C05_oracle_on_reals :
  forall thr t,
  oracle thr fnan = false /\
  (B64.is_nan t = false -> B64.is_nan thr = false ->
   (oracle thr t = true <-> (Rabs (xR t) < xR thr)%R)).
Proof. exact (fun thr t => conj (oracle_nan thr) (oracle_on_reals thr t)). Qed.
Print Assumptions C05_oracle_on_reals.

(* the p-value decision is alpha < p on real numbers; an undefined p-value never passes *)
Theorem C05_pvalue_decision_on_reals :
  forall alpha p, B64.is_nan alpha = false ->
  (B64.is_nan p = true -> pdecision alpha p = false) /\
  (B64.is_nan p = false -> (pdecision alpha p = true <-> (xR alpha < xR p)%R)).
Proof. exact pdecision_on_reals. Qed.
Print Assumptions C05_pvalue_decision_on_reals.

(* outside the documented conventions the statistic is the correctly rounded tree
   (v1 - v2) / sqrt(e1*e1 + e2*e2); the conventions are exactly: 0/0, equal values with
   both errors NaN, both values NaN -> t = 0 *)
Theorem C05_t_spec :
  forall v1 e1 v2 e2,
  (patched v1 e1 v2 e2 = false ->
   student_t v1 e1 v2 e2 = fdiv (fsub v1 v2) (fsqrt (fadd (fmul e1 e1) (fmul e2 e2)))) /\
  (patched v1 e1 v2 e2 = true -> student_t v1 e1 v2 e2 = fzero) /\
  (patched v1 e1 v2 e2 = true <->
   (feq (fsub v1 v2) fzero = true /\ feq (fsqrt (fadd (fmul e1 e1) (fmul e2 e2))) fzero = true)
   \/ (feq (fsub v1 v2) fzero = true /\ B64.is_nan e1 = true /\ B64.is_nan e2 = true)
   \/ (B64.is_nan v1 = true /\ B64.is_nan v2 = true)).
Proof.
  exact (fun v1 e1 v2 e2 => conj (t_spec v1 e1 v2 e2)
                                 (conj (patched_zero v1 e1 v2 e2) (patched_spec v1 e1 v2 e2))).
Qed.
Print Assumptions C05_t_spec.

(* a bin whose value is NaN on one side only has t = NaN, fails whatever the threshold,
   and makes the verdict false *)
Theorem C05_nan_one_side_fails :
  forall v1 e1 v2 e2 thr, B64.is_nan v1 <> B64.is_nan v2 ->
  student_t v1 e1 v2 e2 = fnan /\
  oracle thr (student_t v1 e1 v2 e2) = false /\
  forall tss ts, In ts tss -> In (student_t v1 e1 v2 e2) ts -> verdict thr tss = false.
Proof.
  exact (fun v1 e1 v2 e2 thr H =>
    conj (nan_one_side_t v1 e1 v2 e2 H)
      (conj (nan_one_side_fails v1 e1 v2 e2 thr H)
            (fun tss ts H1 H2 => nan_one_side_verdict thr tss ts v1 e1 v2 e2 H1 H2 H))).
Qed.
Print Assumptions C05_nan_one_side_fails.

(* same for an error that is NaN on one side only (values not both NaN) *)
Theorem C05_nan_error_one_side_fails :
  forall v1 e1 v2 e2 thr,
  B64.is_nan e1 <> B64.is_nan e2 -> B64.is_nan v1 && B64.is_nan v2 = false ->
  oracle thr (student_t v1 e1 v2 e2) = false.
Proof. exact nan_error_one_side_fails. Qed.
Print Assumptions C05_nan_error_one_side_fails.

(* documented conventions: both values NaN, or 0/0: t = 0, passes iff 0 < thr *)
Theorem C05_conventions_pass :
  forall v1 e1 v2 e2 thr,
  (B64.is_nan v1 = true /\ B64.is_nan v2 = true) \/
  (feq (fsub v1 v2) fzero = true /\ feq (fsqrt (fadd (fmul e1 e1) (fmul e2 e2))) fzero = true) ->
  student_t v1 e1 v2 e2 = fzero /\ oracle thr (student_t v1 e1 v2 e2) = flt fzero thr.
Proof.
  exact (fun v1 e1 v2 e2 thr H =>
    match H with
    | or_introl (conj H1 H2) => both_nan_passes v1 e1 v2 e2 thr H1 H2
    | or_intror (conj H1 H2) => zero_over_zero_passes v1 e1 v2 e2 thr H1 H2
    end).
Qed.
Print Assumptions C05_conventions_pass.

(* laws over R for the same expression tree t_expr (evalR): symmetry, invariance under a
   common positive rescaling, |t| monotone in |v1-v2| and antitone in an error *)
Theorem C05_laws_on_reals :
  forall v1 e1 v2 e2 : R,
  tR v1 e1 v2 e2 = ((v1 - v2) / sqrt (e1 * e1 + e2 * e2))%R /\
  Rabs (tR v1 e1 v2 e2) = Rabs (tR v2 e2 v1 e1) /\
  (forall k, (0 < k)%R -> (0 < e1 * e1 + e2 * e2)%R ->
     tR (k * v1) (k * e1) (k * v2) (k * e2) = tR v1 e1 v2 e2) /\
  (forall v1' v2', (0 < e1 * e1 + e2 * e2)%R -> (Rabs (v1 - v2) <= Rabs (v1' - v2'))%R ->
     (Rabs (tR v1 e1 v2 e2) <= Rabs (tR v1' e1 v2' e2))%R) /\
  (forall e1', (0 < e1' * e1' + e2 * e2)%R -> (Rabs e1' <= Rabs e1)%R ->
     (Rabs (tR v1 e1 v2 e2) <= Rabs (tR v1 e1' v2 e2))%R) /\
  (forall thr t t', (Rabs t <= Rabs t')%R -> oracleR thr t' -> oracleR thr t).
Proof.
  exact (fun v1 e1 v2 e2 =>
    conj (tR_formula v1 e1 v2 e2)
    (conj (abs_t_symmetric_R v1 e1 v2 e2)
    (conj (fun k => scale_invariant k v1 e1 v2 e2)
    (conj (fun v1' v2' => monotone_in_diff v1 v2 v1' v2' e1 e2)
    (conj (fun e1' => antitone_in_error v1 v2 e1 e1' e2)
          oracleR_downward))))).
Qed.
Print Assumptions C05_laws_on_reals.

(* with sf strictly decreasing on [0, inf) and 2 sf(thr) = alpha (what scipy's sf / ppf are
   assumed to satisfy): p > alpha <=> |t| < thr, bin by bin, hence oracles, p-value
   decisions and verdict agree *)
Theorem C05_pvalue_decision_agrees :
  forall (sf : R -> R) (alpha thr : R),
  (forall x y, (0 <= x)%R -> (x < y)%R -> (sf y < sf x)%R) ->
  (0 <= thr)%R -> (2 * sf thr = alpha)%R ->
  (forall t, (alpha < pvalueR sf t)%R <-> oracleR thr t) /\
  (forall tss : list (list R),
     (forall ts, In ts tss -> forall t, In t ts -> oracleR thr t) <->
     (forall ts, In ts tss -> forall t, In t ts -> (alpha < pvalueR sf t)%R)).
Proof.
  exact (fun sf alpha thr H1 H2 H3 =>
           conj (pvalue_decision_agrees sf alpha thr H1 H2 H3)
                (decisions_agree sf alpha thr H1 H2 H3)).
Qed.
Print Assumptions C05_pvalue_decision_agrees.

(* link between the two evaluators: when every intermediate binary64 value is finite, the
   binary64 evaluation of an expression tree is its real evaluation with one rounding to
   nearest-even per operation; in particular for the statistic outside the conventions *)
Theorem C05_statistic_is_rounded_real_formula :
  (forall env e, all_finite env e = true ->
     B2R (evalB env e) = evalRnd (fun v => B2R (env v)) e) /\
  (forall v1 e1 v2 e2,
     patched v1 e1 v2 e2 = false -> all_finite (env_of v1 e1 v2 e2) t_expr = true ->
     B2R (student_t v1 e1 v2 e2) =
     rnd (rnd (B2R v1 - B2R v2) / rnd (sqrt (rnd (rnd (B2R e1 * B2R e1) + rnd (B2R e2 * B2R e2)))))%R).
Proof. exact (conj evalB_rounds_evalR student_t_rounds). Qed.
Print Assumptions C05_statistic_is_rounded_real_formula.

(* symmetric in the two datasets, bit for bit, for ALL binary64 inputs (NaN, infinities,
   overflow included): |t(a,b)| = |t(b,a)|, hence identical oracles and verdict *)
Theorem C05_abs_t_symmetric :
  (forall v1 e1 v2 e2, fabs (student_t v1 e1 v2 e2) = fabs (student_t v2 e2 v1 e1)) /\
  (forall thr v1 e1 v2 e2,
     oracle thr (student_t v1 e1 v2 e2) = oracle thr (student_t v2 e2 v1 e1)) /\
  (forall thr (dss : list (list bin4)),
     map (map (fun b => oracle thr (t_of b))) dss
     = map (map (fun b => oracle thr (t_of (swap b)))) dss /\
     verdict thr (map (map t_of) dss) = verdict thr (map (map (fun b => t_of (swap b))) dss)).
Proof. exact (conj abs_t_symmetric (conj oracle_symmetric verdict_symmetric)). Qed.
Print Assumptions C05_abs_t_symmetric.

(* never improves when a difference grows or an error shrinks, on binary64, whenever every
   intermediate value is finite (no NaN/inf, no overflow, errors not both zero): |t| does
   not decrease, so a bin that passes after the change passed before it *)
Theorem C05_never_improves :
  forall thr v1 e1 v2 e2 v1' e1' v2',
  patched v1 e1 v2 e2 = false -> all_finite (env_of v1 e1 v2 e2) t_expr = true ->
  patched v1' e1' v2' e2 = false -> all_finite (env_of v1' e1' v2' e2) t_expr = true ->
  (e1' = e1 /\ (Rabs (B2R v1 - B2R v2) <= Rabs (B2R v1' - B2R v2'))%R) \/
  (v1' = v1 /\ v2' = v2 /\ (Rabs (B2R e1') <= Rabs (B2R e1))%R) ->
  (Rabs (B2R (student_t v1 e1 v2 e2)) <= Rabs (B2R (student_t v1' e1' v2' e2)))%R /\
  (oracle thr (student_t v1' e1' v2' e2) = true -> oracle thr (student_t v1 e1 v2 e2) = true).
Proof. exact never_improves. Qed.
Print Assumptions C05_never_improves.

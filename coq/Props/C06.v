(* C06 — property theorems only.  Each is closed by [exact]; see C06/Proofs.v,
   C06/Levels.v, C06/Main.v.  p-values are binary64 (Flocq), arrays are flat lists
   in C order; xR embeds the non-NaN values in R (+-inf as +-2^1024). *)
From Coq Require Import List ZArith Bool Arith Reals Permutation Sorted.
From Flocq Require Import Core.Core IEEE754.BinarySingleNaN.
From VV Require Import Lib.Base Lib.B64 C06.LibF C06.Model C06.Proofs C06.Levels C06.Main.
Import ListNotations.

(* Bonferroni flags the bin at position i exactly when p_i <= (alpha/2)/m, or p_i is NaN *)
Theorem C06_bonferroni_flag_iff :
  forall alpha ps i p, nth_error ps i = Some p ->
  nth_error (bonf alpha ps) i
  = Some (fle p (fdiv (fdiv alpha ftwo) (of_nat (length ps))) || B64.is_nan p).
Proof. exact bonf_flag_iff. Qed.
Print Assumptions C06_bonferroni_flag_iff.

(* the binary64 comparisons of the two rules are the real-number comparisons <= and < *)
Theorem C06_flag_rules_on_reals :
  forall lvl p : b64, B64.is_nan lvl = false ->
  (B64.is_nan p = true -> bonf_rule lvl p = true /\ holm_rule lvl p = true) /\
  (B64.is_nan p = false ->
     (bonf_rule lvl p = true <-> (xR p <= xR lvl)%R) /\
     (holm_rule lvl p = true <-> (xR p < xR lvl)%R)).
Proof. exact flag_rules_on_reals. Qed.
Print Assumptions C06_flag_rules_on_reals.

(* Holm-Bonferroni: some permutation sigma of the positions sorts the p-values
   increasingly (NaN last); the bin of rank k (from 0; position sigma(k)) is flagged
   exactly when p < (alpha/2)/(m-k) (or p is NaN); its level and flag are reported at
   its original position sigma(k); inside a group of tied p-values the rank lies in the
   group's range [#smaller, #smaller-or-equal) *)
Theorem C06_holm_flag_by_rank :
  forall alpha ps, let m := length ps in
  exists sigma : list nat,
    Permutation sigma (seq 0 m) /\
    StronglySorted (fun x y => ple x y = true) (map (fun i => nth i ps fnan) sigma) /\
    forall k i, nth_error sigma k = Some i ->
      exists p, nth_error ps i = Some p /\
        count_lt ple ps p <= k < count_le ple ps p /\
        nth_error (holm alpha ps) i =
        Some (fdiv (fdiv alpha ftwo) (of_nat (m - k)),
              flt p (fdiv (fdiv alpha ftwo) (of_nat (m - k))) || B64.is_nan p).
Proof. exact holm_flag_by_rank. Qed.
Print Assumptions C06_holm_flag_by_rank.

(* flags are attached to the bins, not to the positions: under any permutation (hence
   any reshaping / reordering) of the bins a bin keeps its Bonferroni flag, and its
   Holm level and flag when its p-value is not tied with another one *)
Theorem C06_flags_follow_bins :
  forall alpha ps qs i j p,
  Permutation ps qs ->
  nth_error ps i = Some p -> nth_error qs j = Some p ->
  nth_error (bonf alpha ps) i = nth_error (bonf alpha qs) j /\
  (count_le ple ps p = S (count_lt ple ps p) ->
   nth_error (holm alpha ps) i = nth_error (holm alpha qs) j).
Proof. exact flags_follow_bins. Qed.
Print Assumptions C06_flags_follow_bins.

(* verdict true exactly when nothing is flagged; nb_rejected counts the flags *)
Theorem C06_verdict_iff_none_flagged :
  forall flags,
  (verdict flags = true <-> forall i, nth_error flags i <> Some true) /\
  (verdict flags = true <-> nb_rejected flags = 0).
Proof. exact verdict_spec. Qed.
Print Assumptions C06_verdict_iff_none_flagged.

(* a bin without a defined p-value is never accepted *)
Theorem C06_nan_never_accepted :
  forall alpha ps i, nth_error ps i = Some fnan ->
  nth_error (bonf alpha ps) i = Some true /\
  (exists a, nth_error (holm alpha ps) i = Some (a, true)) /\
  verdict (bonf alpha ps) = false /\ verdict (map snd (holm alpha ps)) = false.
Proof. exact nan_never_accepted. Qed.
Print Assumptions C06_nan_never_accepted.

(* the per-rank levels are ordered: level/m <= level/(m-k) <= alpha *)
Theorem C06_levels_ordered :
  forall alpha : b64, is_finite alpha = true -> (0 <= B2R alpha)%R ->
  forall m k, (Z.of_nat m < 2 ^ 53)%Z -> k < m ->
  fle (bonf_level alpha m) (holm_level alpha m k) = true /\
  fle (holm_level alpha m k) alpha = true.
Proof.
  exact (fun alpha Fa Pa m k Hm Hk =>
           levels_ok_spec alpha m k (levels_ok_holds alpha Fa Pa m Hm) Hk).
Qed.
Print Assumptions C06_levels_ordered.

(* every bin flagged by Bonferroni is flagged by Holm-Bonferroni, EXCEPT when its
   p-value equals level/m exactly: there the property's own definitions (<= vs <)
   disagree (NonVacuity.bonf_subset_holm_full_refuted; known finding) *)
Theorem C06_bonf_subset_holm_partial :
  forall alpha ps i p,
  is_finite alpha = true -> (0 <= B2R alpha)%R -> (Z.of_nat (length ps) < 2 ^ 53)%Z ->
  nth_error ps i = Some p ->
  nth_error (bonf alpha ps) i = Some true ->
  feq p (bonf_level alpha (length ps)) = false ->
  exists a, nth_error (holm alpha ps) i = Some (a, true).
Proof. exact bonf_subset_holm_partial'. Qed.
Print Assumptions C06_bonf_subset_holm_partial.

(* a comparison whose p-values all exceed alpha (the p-value decision of the first
   test; by C05 it agrees with the bin-by-bin verdict) passes both corrections at alpha *)
Theorem C06_pass_implies_corrections_pass :
  forall alpha ps,
  is_finite alpha = true -> (0 <= B2R alpha)%R -> (Z.of_nat (length ps) < 2 ^ 53)%Z ->
  (forall i p, nth_error ps i = Some p -> flt alpha p = true) ->
  verdict (bonf alpha ps) = true /\ verdict (map snd (holm alpha ps)) = true.
Proof. exact pass_implies_corrections_pass'. Qed.
Print Assumptions C06_pass_implies_corrections_pass.

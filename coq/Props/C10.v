(* C10 - property theorems only.  Each is closed by [exact]; see C10/Proofs.v,
   C10/Floats.v, C10/ApolloProofs.v, C10/TextProofs.v.  C10 is claimed as proof,
   PARTIAL: the text level is a theorem about the model printer and the model
   parser of C10/Text.v (the layouts the generator assembles); pyparsing itself,
   float() of a numeral and h5py/HDF5 (file -> tree) are bound to these models
   by the per-run correspondence only. *)
From Coq Require Import List Bool Arith ZArith Reals.
From Flocq Require Import Core.Core IEEE754.BinarySingleNaN.
From VV Require Import Lib.B64 C10.Model C10.Proofs C10.Floats C10.Apollo C10.ApolloProofs C10.Check.
From VV Require C11.Pystr C11.Model C11.Proofs.
From VV Require Import C10.Text C10.TextProofs C10.TextCheck.
Import ListNotations.

(* one axis, rows "a - b" that follow each other, printed in either order: after
   add_last_bin and flip_if_decreasing, cell i of the result is the printed row
   whose bounds are {bins[i], bins[i+1]} (rows in printed order, or reversed with
   bounds swapped), and the bins are strictly increasing *)
Theorem C10_flip_keeps_rows_attached :
  forall (B V : Type) (ltb : B -> B -> bool) (rows : list (B * B * V)),
  rows <> [] -> contiguous rows ->
  let d := decreasing ltb (e_bins rows) in
  cells (flip_if d (e_bins rows)) (flip_if d (map i_val rows))
  = if d then rev (map swap rows) else rows.
Proof. exact @axis_rows_attached. Qed.
Print Assumptions C10_flip_keeps_rows_attached.

Theorem C10_bins_increasing :
  forall (B V : Type) (ltb : B -> B -> bool),
  (forall x y, ltb x y = true -> ltb y x = false) ->
  forall rows : list (B * B * V),
  rows <> [] -> contiguous rows ->
  (forall c, In c rows -> ltb (i_fst c) (i_snd c) = true) \/
  (forall c, In c rows -> ltb (i_snd c) (i_fst c) = true) ->
  adjacent_lt ltb (flip_if (decreasing ltb (e_bins rows)) (e_bins rows)).
Proof. exact @axis_rows_increasing. Qed.
Print Assumptions C10_bins_increasing.

(* the time axis: steps (min, max) printed upwards or downwards *)
Theorem C10_time_steps_attached :
  forall (B V : Type) (ltb : B -> B -> bool),
  (forall x y, ltb x y = true -> ltb y x = false) ->
  forall steps : list (B * B * V),
  steps <> [] ->
  (contiguous steps /\ (forall c, In c steps -> ltb (i_fst c) (i_snd c) = true)) \/
  (contiguous_down steps /\ 2 <= length steps /\
   (forall c, In c steps -> ltb (i_fst c) (i_snd c) = true)) ->
  let tb := t_bins ltb steps in
  let d := decreasing ltb tb in
  cells (flip_if d tb) (flip_if d (map i_val steps)) = (if d then rev steps else steps)
  /\ adjacent_lt ltb (flip_if d tb).
Proof. exact @axis_steps_attached. Qed.
Print Assumptions C10_time_steps_attached.

(* the energy x time plane of a spectrum printed by time steps *)
Theorem C10_plane_attached :
  forall (B S : Type) (ltb : B -> B -> bool),
  (forall x y, ltb x y = true -> ltb y x = false) ->
  forall (s0 : step B S) (rest : list (step B S)),
  let steps := s0 :: rest in
  rows s0 <> [] ->
  (forall s, In s steps -> contiguous (rows s) /\ e_bins (rows s) = e_bins (rows s0)
                           /\ length (rows s) = length (rows s0)) ->
  ((forall c, In c (rows s0) -> ltb (i_fst c) (i_snd c) = true) \/
   (forall c, In c (rows s0) -> ltb (i_snd c) (i_fst c) = true)) ->
  ((contiguous (map step_interval steps) /\ (forall s, In s steps -> ltb (t_min s) (t_max s) = true)) \/
   (contiguous_down (map step_interval steps) /\ 2 <= length steps /\
    (forall s, In s steps -> ltb (t_min s) (t_max s) = true))) ->
  let p := build_plane ltb true steps in
  let de := decreasing ltb (e_bins (rows s0)) in
  let dt := decreasing ltb (t_bins ltb (map step_interval steps)) in
  let order := flip_if dt steps in
  adjacent_lt ltb (p_ebins p) /\ adjacent_lt ltb (p_tbins p) /\
  p_vals p = map (fun s => flip_if de (map snd (rows s))) order /\
  p_integ p = map integ order /\
  cells (p_tbins p) order = map step_interval order /\
  (forall s, In s steps ->
     cells (p_ebins p) (flip_if de (map snd (rows s)))
     = if de then rev (map swap (rows s)) else rows s) /\
  p_ebins_integ p = first_last (p_ebins p).
Proof. exact @plane_attached. Qed.
Print Assumptions C10_plane_attached.

(* numpy's "<" on binary64 satisfies the order hypothesis of the theorems above *)
Theorem C10_binary64_order_asymmetric :
  forall x y : b64, flt x y = true -> flt y x = false.
Proof. exact flt_asym. Qed.
Print Assumptions C10_binary64_order_asymmetric.

(* error = (sigma * value) * 0.01 in binary64, and its reading over the reals *)
Theorem C10_convert_error_is_value_times_sigma_percent :
  forall score sigma : b64,
  (snd (convert (score, sigma)) = fmul (fmul sigma score) c001 /\ fst (convert (score, sigma)) = score) /\
  (let rnd := round radix2 (SpecFloat.fexp 53 1024) (round_mode mode_NE) in
   Rlt_bool (Rabs (rnd (B2R sigma * B2R score))) (bpow radix2 1024) = true ->
   Rlt_bool (Rabs (rnd (rnd (B2R sigma * B2R score) * B2R c001))) (bpow radix2 1024) = true ->
   B2R (snd (convert (score, sigma))) = rnd (rnd (B2R sigma * B2R score) * B2R c001)
   /\ is_finite (snd (convert (score, sigma))) = is_finite sigma && is_finite score)%R.
Proof. exact convert_error_full. Qed.
Print Assumptions C10_convert_error_is_value_times_sigma_percent.

(* Apollo3: on a well-formed standard-layout tree every result the Reader
   lists, with its labels (output, zone, isotope, name), is returned
   identically (array, scalar/array, bins, what) by the Picker *)
Theorem C10_reader_picker_agree :
  forall (f : file) (es : list entry),
  wf_file f -> reader f = ROk es ->
  forall e, In e es -> pick f (e_out e) (e_zone e) (e_key e) (e_iso e) = ROk (e_ds e).
Proof. exact reader_picker_agree. Qed.
Print Assumptions C10_reader_picker_agree.

Theorem C10_wellformed_check_sound :
  forall f : file, wf_fileb f = true -> wf_file f.
Proof. exact wf_fileb_sound. Qed.
Print Assumptions C10_wellformed_check_sound.

(* shared with C11: the block the scanner returns for an edition is exactly
   the text from that edition's start flag to its end flag *)
Theorem C10_scan_blocks_keyed_by_batch :
  forall (L : Type) (s0 : C11.Model.st L) t0 l0 body te le f s',
  C11.Model.s_bs s0 = None -> C11.Model.s_fatal (C11.Model.set_flags s0 l0) = false ->
  C11.Model.s_init s0 <> None ->
  C11.Proofs.not_comment l0 -> C11.Pystr.contains C11.Model.kw_RESULTS l0 = true ->
  (forall t l, In (t, l) body -> C11.Proofs.plain_line l) ->
  C11.Proofs.not_comment le -> C11.Proofs.not_diverting le -> C11.Model.is_end_flag le = Some f ->
  C11.Model.run s0 ((t0, l0) :: body ++ [(te, le)]) = C11.Model.OkS s' ->
  exists bn, C11.Model.s_stores s' = (bn, t0 :: map fst body ++ [te]) :: C11.Model.s_stores s0 /\
             C11.Model.od_get Z.eqb (C11.Model.s_coll s') bn = Some (t0 :: map fst body ++ [te]).
Proof. exact @C11.Proofs.scan_blocks_keyed_by_batch. Qed.
Print Assumptions C10_scan_blocks_keyed_by_batch.

(* ---- text level ---- *)

(* the model parser reads back every well-formed document of the generator's
   layouts from the text the model printer prints for it (any number of
   responses, zones, time steps, groups; either printing order; NOT YET
   CONVERGED steps; generic responses; keff block) *)
Theorem C10_parse_print :
  forall d : doc_block, wf_doc d -> parse_block (print_block d) = Some (rows_of d).
Proof. exact parse_print. Qed.
Print Assumptions C10_parse_print.

(* from the printed TEXT to the datasets.  [num] stands for float() (any
   function); the order is numpy's "<" on binary64.  For every well-formed
   document whose groups and time steps are printed consistently (zone_ordered),
   the model pipeline run on what the model parser reads from the printed text
   gives, for every scoring zone: strictly increasing energy (and time) bins,
   and for every printed time step a position j in the time bins delimited by
   the printed time min/max, holding its energy-integrated result, and for every
   printed group of that step a position i such that the dataset holds at
   [j][i] the printed score as value and (sigma * score) * 0.01 as error, and
   the energy bins i, i+1 are the two printed bounds of that group *)
(* the same for any reading [num] of numerals into any ordered type and any
   conversion [conv] of a (score, sigma) cell: closed under the global context *)
Theorem C10_text_to_cells :
  forall (B D : Type) (num : C11.Pystr.str -> B) (ltb : B -> B -> bool) (conv : B * B -> D),
  (forall x y, ltb x y = true -> ltb y x = false) ->
  forall d : doc_block, wf_doc d ->
  (forall rz, In rz (zones_of d) -> zone_ordered num ltb (snd rz)) ->
  exists r, parse_block (print_block d) = Some r /\ r = rows_of d /\
  forall rz, In rz (zones_of r) ->
    let z := snd rz in
    let p := text_plane num ltb z in
    let dataset := map (map conv) (p_vals p) in
    adjacent_lt ltb (p_ebins p) /\ (with_time z = true -> adjacent_lt ltb (p_tbins p)) /\
    forall s, In s (z_steps z) -> exists j,
      printed_time num z s (p_tbins p) j /\
      nth_error (p_integ p) j = Some (option_map (ncell num) (integ_of (s_integ s))) /\
      exists drow, nth_error dataset j = Some drow /\
        forall r, In r (s_rows s) -> exists i,
          nth_error drow i = Some (conv (num (r_score r), num (r_sigma r))) /\
          ((nth_error (p_ebins p) i = Some (num (r_a r)) /\ nth_error (p_ebins p) (S i) = Some (num (r_b r))) \/
           (nth_error (p_ebins p) i = Some (num (r_b r)) /\ nth_error (p_ebins p) (S i) = Some (num (r_a r)))).
Proof. exact @text_to_dataset_gen. Qed.
Print Assumptions C10_text_to_cells.

Theorem C10_text_to_dataset :
  forall (num : C11.Pystr.str -> b64) (d : doc_block), wf_doc d ->
  (forall rz, In rz (zones_of d) -> zone_ordered num flt (snd rz)) ->
  exists r, parse_block (print_block d) = Some r /\ r = rows_of d /\
  forall rz, In rz (zones_of r) ->
    let z := snd rz in
    let p := text_plane num flt z in
    let dataset := map (map convert) (p_vals p) in
    adjacent_lt flt (p_ebins p) /\ (with_time z = true -> adjacent_lt flt (p_tbins p)) /\
    forall s, In s (z_steps z) -> exists j,
      printed_time num z s (p_tbins p) j /\
      nth_error (p_integ p) j = Some (option_map (ncell num) (integ_of (s_integ s))) /\
      exists drow, nth_error dataset j = Some drow /\
        forall r, In r (s_rows s) -> exists i,
          nth_error drow i
          = Some (num (r_score r), fmul (fmul (num (r_sigma r)) (num (r_score r))) c001) /\
          ((nth_error (p_ebins p) i = Some (num (r_a r)) /\ nth_error (p_ebins p) (S i) = Some (num (r_b r))) \/
           (nth_error (p_ebins p) i = Some (num (r_b r)) /\ nth_error (p_ebins p) (S i) = Some (num (r_a r)))).
Proof. exact text_to_dataset. Qed.
Print Assumptions C10_text_to_dataset.

(* C10 - property theorems only (filled in below). *)
From Coq Require Import List.
From VV Require Import C10.Model C10.Proofs.
Theorem C10_placeholder : True.
Proof. exact I. Qed.
Print Assumptions C10_placeholder.

(* C14 — property theorems only.  Each is closed by [exact]; see C14/Proofs*.v. *)
From Coq Require Import List ZArith NArith.
From VV Require Import C14.Model C14.Proofs C14.Proofs2 C14.Proofs3 C14.Proofs4.
Import ListNotations.
Open Scope N_scope.

(* The unpickler, whatever the opcodes do: if loading b succeeds, consuming [used]
   (up to its STOP) and leaving [rest], then loading ANY strict prefix of [used]
   fails with EOFError or "pickle data was truncated" - it never yields a value
   and never fails otherwise.  [exec] is arbitrary: this covers payload classes
   outside the modelled value universe. *)
Theorem C14_no_strict_prefix_loads :
  forall (St V : Type) (shape_tbl : N -> option shape) (exec : N -> list N -> St -> step St V)
         (s0 : St) (b : list N) (v : V) (rest : list N),
  load St V shape_tbl exec s0 b = Got (v, rest) ->
  exists used, b = used ++ rest /\
    forall p q, used = p ++ q -> q <> [] ->
      load St V shape_tbl exec s0 p = Fail EEOF \/ load St V shape_tbl exec s0 p = Fail ETrunc.
Proof. exact load_prefix_err. Qed.
Print Assumptions C14_no_strict_prefix_loads.

(* dec_prefix_err: the same for the value-level decoder of Env files *)
Theorem C14_dec_prefix_err :
  forall b v rest, dec b = Got (v, rest) ->
  exists used, b = used ++ rest /\
    forall p q, used = p ++ q -> q <> [] -> dec p = Fail EEOF \/ dec p = Fail ETrunc.
Proof. exact dec_prefix_err. Qed.
Print Assumptions C14_dec_prefix_err.

(* dec_enc: what the encoder writes is read back exactly and completely *)
Theorem C14_dec_enc :
  forall v, wf v -> N.of_nat (length (enc_v v) + 1) < 2 ^ 64 -> dec (enc v) = Got (v, []).
Proof. exact dec_enc. Qed.
Print Assumptions C14_dec_enc.

(* from_file on a file cut at any byte (the empty file included): no exception,
   no environment - provided EOFError and UnpicklingError are in the except clauses *)
Theorem C14_from_file_never_raises_on_prefix :
  forall caught p,
  caught XEOFError = true -> caught XUnpicklingError = true ->
  (exists full v rest used q,
     dec full = Got (v, rest) /\ full = used ++ rest /\ used = p ++ q /\ q <> []) ->
  from_file caught (FData p) = Ret None.
Proof. exact from_file_never_raises_on_prefix. Qed.
Print Assumptions C14_from_file_never_raises_on_prefix.

(* read_env over files each of which is damaged (missing, unreadable, cut anywhere)
   or holds a complete Env({name: entry}): never raises; every reported entry is the
   DONE entry of an intact file; every DONE entry of an intact file is reported, exactly *)
Theorem C14_read_env_spec :
  forall caught,
  caught XEOFError = true -> caught XUnpicklingError = true -> caught XOSError = true ->
  forall (fs : fsmap) names,
  (forall n, In n names -> file_ok (fs n)) ->
  exists r, read_env caught fs names = Ret r /\
    (forall k e, In (k, e) r -> exists n, In n names /\ intact_for (fs n) k e /\ done e) /\
    (forall n s e, In n names -> intact_for (fs n) (VStr s) e -> done e ->
       (forall n' e', In n' names -> intact_for (fs n') (VStr s) e' -> e' = e) ->
       In (VStr s, e) r).
Proof. exact read_env_spec. Qed.
Print Assumptions C14_read_env_spec.

(* ... and that is the state after ANY history of complete writes (by whatever
   pickler), crashes that leave the first j bytes of a file, and deletions *)
Theorem C14_read_env_after_history :
  forall caught ops names,
  caught XEOFError = true -> caught XUnpicklingError = true -> caught XOSError = true ->
  Forall valid_hop ops ->
  let fs := fold_left apply_hop ops fs0 in
  exists r, read_env caught fs names = Ret r /\
    (forall k e, In (k, e) r -> exists n, In n names /\ intact_for (fs n) k e /\ done e) /\
    (forall n s e, In n names -> intact_for (fs n) (VStr s) e -> done e ->
       (forall n' e', In n' names -> intact_for (fs n') (VStr s) e' -> e' = e) ->
       In (VStr s, e) r).
Proof. exact read_env_after_history. Qed.
Print Assumptions C14_read_env_after_history.

(* a write interrupted after j < |b| bytes leaves a damaged file *)
Theorem C14_crash_during_write_is_damage :
  forall fs n b j s e,
  dec b = Got (mk_env [(VStr s, e)], []) -> (j < length b)%nat ->
  damaged (apply_hop (apply_hop fs (HWrite n b)) (HCut n j) n).
Proof. exact crash_during_write_damaged. Qed.
Print Assumptions C14_crash_during_write_is_damage.

(* WRITE, CRASH, READ (the property's first sentence).  write_env writes an environment
   (keys = task names, entries with a status) into an empty output directory with a
   pickler [penc] that the decoder reads back; crashes then cut files at arbitrary bytes
   or delete them; read_env is called for [names].  It does not raise; everything it
   reports is an entry of the written environment, unchanged, that was DONE and had an
   output directory; every such entry whose own file root/name/fname was not touched
   (and that no other entry's output_dir points at) is reported. *)
Theorem C14_write_crash_read :
  forall (penc : value -> list N) (root fname : list N) (caught : exn -> bool),
  caught XEOFError = true -> caught XUnpicklingError = true -> caught XOSError = true ->
  forall items faults names,
  (forall k e, In (k, e) items -> dec (penc (mk_env [(k, e)])) = Got (mk_env [(k, e)], [])) ->
  (forall k e, In (k, e) items -> (exists s, k = VStr s) /\ wf_entry e) ->
  NoDup (map fst items) ->
  Forall is_fault faults ->
  let fs := fold_left apply_hop (wops penc fname items ++ faults) fs0 in
  exists r, read_env caught (fun n => fs (task_file root fname n)) names = Ret r /\
    (forall k e, In (k, e) r ->
       In (k, e) items /\ done e /\ exists d, output_dir e = Some (VStr d)) /\
    (forall s e, In (VStr s, e) items -> done e -> In s names ->
       output_dir e = Some (VStr (join_path root s)) ->
       (forall k' e' d', In (k', e') items -> output_dir e' = Some (VStr d') ->
                         join_path d' fname = task_file root fname s -> k' = VStr s) ->
       (forall o, In o faults -> target o <> task_file root fname s) ->
       In (VStr s, e) r).
Proof. exact write_crash_read. Qed.
Print Assumptions C14_write_crash_read.

(* C14 — property theorems only (placeholder while the proofs are written). *)
From Coq Require Import List NArith.
From VV Require Import C14.Model.
Theorem C14_placeholder : caught_now XEOFError = true.
Proof. reflexivity. Qed.
Print Assumptions C14_placeholder.

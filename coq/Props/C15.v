(* C15 — property theorems only.  Each is closed by [exact]; see C15/Proofs*.v.
   A history is a list of requests (Use.get_task / RunTaskFactory.make) run from
   the hand-made tasks [base] and empty caches; [resolve o] is the request with
   dictionaries normalised, factory keyword arguments merged and the task name
   determined: (function, injected (task, key) list, keyword injections,
   dependency type, serialize) resp. (factory, task name, extra arguments,
   keyword arguments, subprocess arguments, dependencies, soft dependencies). *)
From Coq Require Import String List Arith Relations.
From VV Require Import Lib.Base C15.Model C15.Proofs C15.ProofsClosure C15.ProofsHistory.
Import ListNotations.

(* cache_sound, part 1: whatever was created earlier or later, the task returned
   for a request is the task generated for exactly this request, with exactly
   the requested hard and soft dependencies *)
Theorem C15_cache_sound_behaves :
  forall fnames facs hash base ops stf res i o t,
  (forall tk, In tk base -> t_beh tk = None) ->
  run fnames facs hash (mk_state base []) ops = (stf, res) ->
  nth_error ops i = Some o -> nth_error res i = Some (Ok t) ->
  exists tk, nth_error (tasks stf) t = Some tk /\
             t_beh tk = Some (resolve facs hash o) /\
             t_hard tk = hard_of facs (resolve facs hash o) /\
             t_soft tk = soft_of facs (resolve facs hash o).
Proof. exact cache_sound_behaves. Qed.
Print Assumptions C15_cache_sound_behaves.

(* cache_sound, part 2: two requests of a history share a task exactly when
   they are the same request *)
Theorem C15_cache_sound_one_to_one :
  forall fnames facs hash base ops stf res i j oi oj ti tj,
  (forall tk, In tk base -> t_beh tk = None) ->
  run fnames facs hash (mk_state base []) ops = (stf, res) ->
  nth_error ops i = Some oi -> nth_error res i = Some (Ok ti) ->
  nth_error ops j = Some oj -> nth_error res j = Some (Ok tj) ->
  (ti = tj <-> resolve facs hash oi = resolve facs hash oj).
Proof. exact cache_sound_one_to_one. Qed.
Print Assumptions C15_cache_sound_one_to_one.

(* a generated task is never one of the hand-made tasks *)
Theorem C15_cache_sound_fresh :
  forall fnames facs hash base ops stf res i o t,
  (forall tk, In tk base -> t_beh tk = None) ->
  run fnames facs hash (mk_state base []) ops = (stf, res) ->
  nth_error ops i = Some o -> nth_error res i = Some (Ok t) ->
  length base <= t.
Proof. exact cache_sound_fresh. Qed.
Print Assumptions C15_cache_sound_fresh.

(* cache_sound, part 3: the only error is explicit (ValueError = Raise 0) and
   means that an earlier, successful, different request of the same factory
   holds the same task name; Use.get_task never raises it *)
Theorem C15_explicit_error_only_on_clash :
  forall fnames facs hash base ops stf res j oj,
  (forall tk, In tk base -> t_beh tk = None) ->
  run fnames facs hash (mk_state base []) ops = (stf, res) ->
  nth_error ops j = Some oj -> nth_error res j = Some (Raise 0) ->
  exists i oi ti, i < j /\ nth_error ops i = Some oi /\ nth_error res i = Some (Ok ti) /\
                  ckey (resolve facs hash oi) = ckey (resolve facs hash oj) /\
                  resolve facs hash oi <> resolve facs hash oj.
Proof. exact explicit_error_only_on_clash. Qed.
Print Assumptions C15_explicit_error_only_on_clash.

Theorem C15_use_never_rejected :
  forall fnames facs st r, snd (use_get fnames facs st r) <> Raise 0.
Proof. exact use_never_rejected. Qed.
Print Assumptions C15_use_never_rejected.

(* closure_complete_once: on a table whose dependencies are tasks of the table,
   close_dependency_graph (fuel = number of tasks + 1) terminates and returns
   exactly the tasks reachable from the job list through hard and soft
   dependencies (reflexive-transitive closure), each once; cycles included *)
Theorem C15_closure_complete_once :
  forall tbl roots,
  (forall a b, In b (succs tbl a) -> b < length tbl) ->
  (forall r, In r roots -> r < length tbl) ->
  exists l, close_deps tbl roots = Some l /\ NoDup l /\
            (forall x, In x l <->
                       exists r, In r roots /\
                                 clos_refl_trans tid (fun a b => In b (succs tbl a)) r x).
Proof. exact closure_complete_once. Qed.
Print Assumptions C15_closure_complete_once.

(* unique_names_rejects: on a list of distinct tasks the name check fails
   exactly when two different tasks have the same name *)
Theorem C15_unique_names_rejects :
  forall tbl l, NoDup l ->
  (names_clash tbl l = true <->
   exists a b, In a l /\ In b l /\ a <> b /\ tname tbl a = tname tbl b).
Proof. exact unique_names_rejects. Qed.
Print Assumptions C15_unique_names_rejects.

(* after ANY history the table is such a graph: collect_tasks is total, returns
   the closure with each task once, and raises ValueError exactly when two
   different collected tasks share a name *)
Theorem C15_collect_after_history :
  forall fnames facs hash base ops stf res roots,
  (forall t tk d, nth_error base t = Some tk -> In d (t_hard tk ++ t_soft tk) -> d < length base) ->
  run fnames facs hash (mk_state base []) ops = (stf, res) ->
  (forall r, In r roots -> r < length (tasks stf)) ->
  exists l, close_deps (tasks stf) roots = Some l /\ NoDup l /\
            (forall x, In x l <-> reach (tasks stf) roots x) /\
            (collect (tasks stf) roots = Raise 0 <->
             exists a b, In a l /\ In b l /\ a <> b /\ tname (tasks stf) a = tname (tasks stf) b).
Proof. exact collect_after_history. Qed.
Print Assumptions C15_collect_after_history.

(* C18 — property theorems only.  Each is closed by [exact]; see C18/Proofs*.v. *)
From Coq Require Import List ZArith Bool Arith Permutation Sorted.
From VV Require Import Lib.Base C17.LibDict C17.Model C18.Model C18.Proofs C18.ProofsLabels C18.ProofsOrder.
Import ListNotations.

(* every observed task is listed once, under the status it ended with, in
   order; the counts sum to the number of tasks; no class twice, none empty *)
Theorem C18_each_task_once :
  forall (S Nm : Type) (seqb : S -> S -> bool),
  (forall a b : S, seqb a b = true <-> a = b) ->
  forall ts : list (Nm * S),
  (forall s : S,
     look seqb s (classify_tasks seqb ts) = map fst (filter (fun t : Nm * S => seqb s (snd t)) ts)) /\
  total (classify_tasks seqb ts) = length ts /\ wf_classes (classify_tasks seqb ts).
Proof. exact @each_task_once. Qed.
Print Assumptions C18_each_task_once.

(* every observation of the test summary (one MISSING per task without
   results, one SUCCESS/FAILURE per test result according to its verdict, one
   NOT_A_TEST per other item: [observations]) is listed once under its
   outcome; the counts sum to their number *)
Theorem C18_each_result_once :
  forall (K V Nm F : Type) (tasks : list (Nm * option (list (item K V Nm F)))),
  ((forall o : nat,
      look Nat.eqb o (classify_tests tasks) =
      map snd (filter (fun ob : nat * entry => Nat.eqb o (fst ob)) (observations tasks))) /\
   total (classify_tests tasks) = length (observations tasks) /\ wf_classes (classify_tests tasks)) /\
  length (observations tasks) = n_items tasks.
Proof. exact @each_result_once_full. Qed.
Print Assumptions C18_each_result_once.

(* per label combination: total = number of results carrying all requested
   labels with those values, OK / KO = those among them that succeeded /
   failed, OK + KO = total; the totals add up to the number of results
   carrying all requested labels, the rest is nb_missing_labels *)
Theorem C18_by_labels_is_groupby :
  forall (K V Nm F : Type) (keqb : K -> K -> bool) (veqb : V -> V -> bool),
  (forall a b : K, keqb a b = true <-> a = b) ->
  (forall a b : V, veqb a b = true <-> a = b) ->
  forall (k_name k_result : K) (v_succ v_fail : V) (vname : Nm -> V),
  v_succ <> v_fail ->
  forall (tasks : list (Nm * option (list (item K V Nm F)))) (by_labels : list K)
         (rows : list (row V)) (n : nat),
  tasks_dicts tasks ->
  evaluate_by_labels keqb veqb k_name k_result v_succ v_fail vname tasks by_labels = Ok (rows, n) ->
  let lod := labels_lod keqb k_name k_result v_succ v_fail vname tasks in
  let all := seq 0 (length lod) in
  let at_ := fun i : nat => nth i lod nil in
  n = length lod /\
  (forall row0 : row V,
     In row0 rows ->
     length (r_labels row0) = length by_labels /\
     (let T := filter (fun i : nat => matchl keqb veqb (combine by_labels (r_labels row0)) (at_ i)) all in
      r_total row0 = length T /\
      r_ok row0 = length (filter (fun i : nat => kv keqb veqb k_result v_succ (at_ i)) T) /\
      r_ko row0 = length (filter (fun i : nat => kv keqb veqb k_result v_fail (at_ i)) T) /\
      r_ok row0 + r_ko row0 = r_total row0)) /\
  sum_total rows = length (filter (fun i : nat => carries keqb by_labels (at_ i)) all) /\
  sum_total rows + nb_missing_labels n rows = n.
Proof. exact @by_labels_is_groupby. Qed.
Print Assumptions C18_by_labels_is_groupby.

(* a summary is successful exactly when everything it observed succeeded
   (in particular an empty summary is successful) *)
Theorem C18_summary_successful_iff_all_succeeded :
  (forall (S Nm : Type) (seqb : S -> S -> bool),
   (forall a b : S, seqb a b = true <-> a = b) ->
   forall (ts : list (Nm * S)) (done : S),
   verdict seqb done (classify_tasks seqb ts) = forallb (fun t : Nm * S => seqb (snd t) done) ts) /\
  (forall (K V Nm F : Type) (tasks : list (Nm * option (list (item K V Nm F)))),
   verdict Nat.eqb 0 (classify_tests tasks) = all_succeeded tasks) /\
  (forall (V : Type) (rows : list (row V)),
   (forall r : row V, In r rows -> r_ok r + r_ko r = r_total r) ->
   verdict_bl rows = forallb (fun r : row V => Nat.eqb (r_ko r) 0) rows).
Proof. exact @summary_successful_iff_all_succeeded. Qed.
Print Assumptions C18_summary_successful_iff_all_succeeded.

(* round 4: the rows carry pairwise distinct label tuples (every combination
   of values gets exactly one row), and the final sort is a permutation of
   them in increasing lexicographic order of the tuples: with distinct tuples
   this is THE order in which the code lists them *)
Theorem C18_by_labels_rows_distinct_and_sorted :
  forall (K V Nm F : Type) (keqb : K -> K -> bool) (veqb vleb : V -> V -> bool),
  (forall a b : K, keqb a b = true <-> a = b) ->
  (forall a b : V, veqb a b = true <-> a = b) ->
  (forall a b : V, vleb a b = true \/ vleb b a = true) ->
  forall (k_name k_result : K) (v_succ v_fail : V) (vname : Nm -> V)
         (tasks : list (Nm * option (list (item K V Nm F)))) (by_labels : list K)
         (rows : list (row V)) (n : nat),
  tasks_dicts tasks ->
  evaluate_by_labels keqb veqb k_name k_result v_succ v_fail vname tasks by_labels = Ok (rows, n) ->
  NoDup (map (@r_labels V) rows) /\
  Permutation (sort_rows vleb veqb rows) rows /\
  Sorted (row_le vleb veqb) (sort_rows vleb veqb rows) /\
  NoDup (map (@r_labels V) (sort_rows vleb veqb rows)).
Proof. exact @by_labels_rows_distinct_and_sorted. Qed.
Print Assumptions C18_by_labels_rows_distinct_and_sorted.

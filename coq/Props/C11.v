(* C11 - property theorems only (filled in below). *)
From Coq Require Import List ZArith.
From VV Require Import C11.Pystr C11.Model.
Import ListNotations.

Theorem C11_placeholder : True.
Proof. exact I. Qed.
Print Assumptions C11_placeholder.

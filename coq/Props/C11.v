(* C11 - property theorems only.  Each is closed by [exact]; see C11/Proofs.v. *)
From Coq Require Import List ZArith.
From VV Require Import C11.Pystr C11.Model C11.Proofs.
Import ListNotations.

(* For EVERY text F = P ++ S and its prefix P: scanning P never fails with
   anything but ScannerException, and when it succeeds everything it stored
   (blocks with their batch number, times; newest first) is the oldest part of
   what scanning F stores; _collres and times are functions of that history
   ([inv]). *)
Theorem C11_prefix_scan_safe :
  forall (P S : str),
  (forall e, scan_text P <> Err (Other e)) /\
  (scan_text P = Err ScannerExc \/
   exists sP, scan_text P = Ok sP /\ inv sP /\
     forall sF, scan_text (P ++ S) = Ok sF -> hist_prefix sP sF /\ inv sF).
Proof. exact prefix_scan_safe. Qed.
Print Assumptions C11_prefix_scan_safe.

(* the block the prefix holds for batch k is the block the complete text holds
   for k (key and text), unless the complete text stores batch k again later *)
Theorem C11_prefix_blocks_agree :
  forall (P S : str) sP sF k blk,
  scan_text P = Ok sP -> scan_text (P ++ S) = Ok sF ->
  od_get Z.eqb (s_coll sP) k = Some blk ->
  (forall a, s_stores sF = a ++ s_stores sP -> forall e, In e a -> fst e <> k) ->
  od_get Z.eqb (s_coll sF) k = Some blk.
Proof. exact prefix_blocks_agree. Qed.
Print Assumptions C11_prefix_blocks_agree.

Theorem C11_prefix_times_agree :
  forall (P S : str) sP sF k tv,
  scan_text P = Ok sP -> scan_text (P ++ S) = Ok sF ->
  od_get tkey_eqb (s_times sP) k = Some tv ->
  (forall c, s_tevs sF = c ++ s_tevs sP -> forall e, In e c -> fst (fst e) <> k) ->
  od_get tkey_eqb (s_times sF) k = Some tv.
Proof. exact prefix_times_agree. Qed.
Print Assumptions C11_prefix_times_agree.

(* a successful open-and-parse of edition b of the prefix equals that of the
   complete text (payload of the grammar, batch, times), when the rest of the
   text stores nothing more for batch b; parse_block is any function of the
   block *)
Theorem C11_prefix_parse_identical :
  forall (payload ptime : Type) (time_ne : ptime -> tval -> bool)
         (parse_block : block str -> presult payload ptime)
         (P S : str) sP sF b r,
  scan_text P = Ok sP -> scan_text (P ++ S) = Ok sF ->
  edition_closed sP sF b ->
  (s_partial sP = true -> s_partial sF = true) ->
  open_and_parse payload ptime time_ne parse_block (self_tagged P) (Number b) = Ok r ->
  open_and_parse payload ptime time_ne parse_block (self_tagged (P ++ S)) (Number b) = Ok r.
Proof. exact prefix_parse_identical. Qed.
Print Assumptions C11_prefix_parse_identical.

(* the hypothesis on the "partial" flag holds for every cut at a line boundary *)
Theorem C11_prefix_flags_monotone_at_boundary :
  forall (P S : str) sP sF,
  P = [] \/ ends_nl P = true ->
  scan_text P = Ok sP -> scan_text (P ++ S) = Ok sF ->
  s_partial sP = true -> s_partial sF = true.
Proof. exact prefix_flags_monotone_at_boundary. Qed.
Print Assumptions C11_prefix_flags_monotone_at_boundary.

(* opening and parsing any text never fails with anything but ParserException,
   except the documented KeyError for an edition the text does not hold and
   what the grammar itself raises on a stored block *)
Theorem C11_open_and_parse_errors :
  forall (payload ptime : Type) (time_ne : ptime -> tval -> bool)
         (parse_block : block str -> presult payload ptime)
         (ls : list (str * str)) sel e,
  open_and_parse payload ptime time_ne parse_block ls sel = Err (Other e) ->
  exists s, scan ls = Ok s /\
    ((exists b, sel = Number b /\ od_get Z.eqb (s_coll s) b = None /\ e = KeyError) \/
     (exists bn blk, od_get Z.eqb (s_coll s) bn = Some blk /\
                     parse_block blk = PRaise payload ptime (PE_Other e))).
Proof. exact open_and_parse_errors. Qed.
Print Assumptions C11_open_and_parse_errors.

(* the block stored for an edition is exactly the lines from its start flag to
   its end flag (no comment line, no diverted balance/dump section inside),
   stored under the edition's batch number *)
Theorem C11_scan_blocks_keyed_by_batch :
  forall (L : Type) (s0 : st L) t0 l0 body te le f s',
  s_bs s0 = None -> s_fatal (set_flags s0 l0) = false -> s_init s0 <> None ->
  not_comment l0 -> contains kw_RESULTS l0 = true ->
  (forall t l, In (t, l) body -> plain_line l) ->
  not_comment le -> not_diverting le -> is_end_flag le = Some f ->
  run s0 ((t0, l0) :: body ++ [(te, le)]) = OkS s' ->
  exists bn, s_stores s' = (bn, t0 :: map fst body ++ [te]) :: s_stores s0 /\
             od_get Z.eqb (s_coll s') bn = Some (t0 :: map fst body ++ [te]).
Proof. exact @scan_blocks_keyed_by_batch. Qed.
Print Assumptions C11_scan_blocks_keyed_by_batch.

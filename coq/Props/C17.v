(* C17 — property theorems only.  Each is closed by [exact]; see C17/Proofs.v. *)
From Coq Require Import List ZArith Bool Arith.
From VV Require Import Lib.Base C17.LibDict C17.Model C17.Proofs C17.ProofsKeys.
Import ListNotations.

(* the index-based selection of positions equals the naive scan of the item
   list (sorted positions), for all item lists and all queries, including
   absent keys / values and the data key *)
Theorem C17_filter_ids_is_scan :
  forall (K V : Type) (keqb : K -> K -> bool) (veqb : V -> V -> bool) (hashable : V -> bool)
         (kindex : K) (vpos : nat -> V),
  (forall a b : K, keqb a b = true <-> a = b) ->
  (forall a b : V, veqb a b = true <-> a = b) ->
  forall (items : list (list (K * V))) (dk : K) (g : list (K * V)) (b : browser K V) (q : list (K * V)),
  Forall isdict items ->
  make keqb veqb hashable kindex vpos items dk g = Ok b ->
  filter_ids keqb veqb b q =
  filter (fun i : nat => matches keqb veqb (data_key b) q (nth i (content b) nil))
         (seq 0 (length (content b))).
Proof. exact @filter_ids_is_scan. Qed.
Print Assumptions C17_filter_ids_is_scan.

(* filter_by: succeeds; content = the items a direct scan selects, in their
   original order, every key but the renumbered 'index' (so the data too)
   untouched; same data key, same globals *)
Theorem C17_filter_by_spec :
  forall (K V : Type) (keqb : K -> K -> bool) (veqb : V -> V -> bool) (hashable : V -> bool)
         (kindex : K) (vpos : nat -> V),
  (forall a b : K, keqb a b = true <-> a = b) ->
  (forall a b : V, veqb a b = true <-> a = b) ->
  (forall n : nat, hashable (vpos n) = true) ->
  forall (b : browser K V) (incl excl : list K) (q : list (K * V)),
  wfb keqb veqb hashable kindex vpos b ->
  exists b' : browser K V,
    filter_by keqb veqb hashable kindex vpos b incl excl q = Ok b' /\
    content b' =
      stamp_from keqb kindex vpos 0 (filter (selected keqb veqb (data_key b) incl excl q) (content b)) /\
    Forall2 (same_but_index keqb kindex) (content b')
            (filter (selected keqb veqb (data_key b) incl excl q) (content b)) /\
    data_key b' = data_key b /\ globals b' = globals b /\ wfb keqb veqb hashable kindex vpos b'.
Proof. exact @filter_by_spec. Qed.
Print Assumptions C17_filter_by_spec.

(* select_by: the item, NoItemBrowserError (1) or TooManyItemsBrowserError (2) *)
Theorem C17_select_by_spec :
  forall (K V : Type) (keqb : K -> K -> bool) (veqb : V -> V -> bool) (hashable : V -> bool)
         (kindex : K) (vpos : nat -> V),
  (forall a b : K, keqb a b = true <-> a = b) ->
  (forall a b : V, veqb a b = true <-> a = b) ->
  forall (b : browser K V) (incl excl : list K) (q : list (K * V)),
  wfb keqb veqb hashable kindex vpos b ->
  select_by keqb veqb b incl excl q =
  match filter (selected keqb veqb (data_key b) incl excl q) (content b) with
  | nil => Raise 1
  | it :: nil => Ok it
  | it :: _ :: _ => Raise 2
  end.
Proof. exact @select_by_spec. Qed.
Print Assumptions C17_select_by_spec.

(* merge: the concatenation (second part renumbered), globals updated; the
   documented ValueError (3) exactly when the data keys differ *)
Theorem C17_merge_is_concat :
  forall (K V : Type) (keqb : K -> K -> bool) (veqb : V -> V -> bool) (hashable : V -> bool)
         (kindex : K) (vpos : nat -> V),
  (forall a b : K, keqb a b = true <-> a = b) ->
  (forall n : nat, hashable (vpos n) = true) ->
  forall b1 b2 : browser K V,
  wfb keqb veqb hashable kindex vpos b1 ->
  wfb keqb veqb hashable kindex vpos b2 ->
  (data_key b1 = data_key b2 ->
   exists b : browser K V,
     merge keqb veqb hashable kindex vpos b1 b2 = Ok b /\
     content b = content b1 ++ stamp_from keqb kindex vpos (length (content b1)) (content b2) /\
     Forall2 (same_but_index keqb kindex) (content b) (content b1 ++ content b2) /\
     data_key b = data_key b1 /\
     globals b = update keqb (globals b1) (globals b2) /\ wfb keqb veqb hashable kindex vpos b) /\
  (data_key b1 <> data_key b2 -> merge keqb veqb hashable kindex vpos b1 b2 = Raise 3).
Proof. exact @merge_is_concat. Qed.
Print Assumptions C17_merge_is_concat.

(* any chain of filter_by / merge: every intermediate result is a well-formed
   browser with the first one's data key; the only possible error is merge's
   ValueError *)
Theorem C17_chains_well_formed :
  forall (K V : Type) (keqb : K -> K -> bool) (veqb : V -> V -> bool) (hashable : V -> bool)
         (kindex : K) (vpos : nat -> V),
  (forall a b : K, keqb a b = true <-> a = b) ->
  (forall a b : V, veqb a b = true <-> a = b) ->
  (forall n : nat, hashable (vpos n) = true) ->
  forall (ops : list (op K V)) (b : browser K V),
  wfb keqb veqb hashable kindex vpos b ->
  Forall (op_wf keqb veqb hashable kindex vpos) ops ->
  (exists b' : browser K V,
     run keqb veqb hashable kindex vpos b ops = Ok b' /\
     wfb keqb veqb hashable kindex vpos b' /\ data_key b' = data_key b) \/
  run keqb veqb hashable kindex vpos b ops = Raise 3.
Proof. exact @chains_well_formed. Qed.
Print Assumptions C17_chains_well_formed.

(* successive filters (not selecting on the renumbered 'index') = one scan
   with the conjunction of the selections *)
Theorem C17_filter_chain_spec :
  forall (K V : Type) (keqb : K -> K -> bool) (veqb : V -> V -> bool) (hashable : V -> bool)
         (kindex : K) (vpos : nat -> V),
  (forall a b : K, keqb a b = true <-> a = b) ->
  (forall a b : V, veqb a b = true <-> a = b) ->
  (forall n : nat, hashable (vpos n) = true) ->
  forall (fs : list fspec) (b : browser K V),
  wfb keqb veqb hashable kindex vpos b ->
  Forall (f_noindex keqb kindex) fs ->
  exists b' : browser K V,
    run keqb veqb hashable kindex vpos b (map f_op fs) = Ok b' /\
    content b' =
      stamp_from keqb kindex vpos 0
        (filter (fun it : list (K * V) => forallb (fun f : fspec => f_sel keqb veqb (data_key b) f it) fs)
                (content b)) /\
    data_key b' = data_key b /\ globals b' = globals b.
Proof. exact @filter_chain_spec. Qed.
Print Assumptions C17_filter_chain_spec.

(* round 4: keys() lists exactly the metadata keys (every key but the data key)
   present in some item *)
Theorem C17_keys_spec :
  forall (K V : Type) (keqb : K -> K -> bool) (veqb : V -> V -> bool) (hashable : V -> bool)
         (kindex : K) (vpos : nat -> V),
  (forall a b : K, keqb a b = true <-> a = b) ->
  forall (items : list (list (K * V))) (dk : K) (g : list (K * V)) (b : browser K V) (k : K),
  make keqb veqb hashable kindex vpos items dk g = Ok b ->
  In k (bkeys b) <->
  keqb k (data_key b) = false /\ (exists (it : list (K * V)) (v : V), In it (content b) /\ In (k, v) it).
Proof. exact @keys_spec. Qed.
Print Assumptions C17_keys_spec.

(* available_values(k) lists exactly the values some item carries under the
   metadata key k *)
Theorem C17_available_values_spec :
  forall (K V : Type) (keqb : K -> K -> bool) (veqb : V -> V -> bool) (hashable : V -> bool)
         (kindex : K) (vpos : nat -> V),
  (forall a b : K, keqb a b = true <-> a = b) ->
  (forall a b : V, veqb a b = true <-> a = b) ->
  forall (items : list (list (K * V))) (dk : K) (g : list (K * V)) (b : browser K V) (k : K) (v : V),
  make keqb veqb hashable kindex vpos items dk g = Ok b ->
  In v (available_values keqb b k) <->
  keqb k (data_key b) = false /\ (exists it : list (K * V), In it (content b) /\ In (k, v) it).
Proof. exact @available_values_spec. Qed.
Print Assumptions C17_available_values_spec.

(* neither lists anything twice (they are sets) *)
Theorem C17_keys_values_nodup :
  forall (K V : Type) (keqb : K -> K -> bool) (veqb : V -> V -> bool) (hashable : V -> bool)
         (kindex : K) (vpos : nat -> V),
  (forall a b : K, keqb a b = true <-> a = b) ->
  (forall a b : V, veqb a b = true <-> a = b) ->
  forall (items : list (list (K * V))) (dk : K) (g : list (K * V)) (b : browser K V),
  make keqb veqb hashable kindex vpos items dk g = Ok b ->
  NoDup (bkeys b) /\ (forall k : K, NoDup (available_values keqb b k)).
Proof. exact @keys_values_nodup. Qed.
Print Assumptions C17_keys_values_nodup.

(* a selection never invents a key, nor a value of a key other than the
   renumbered 'index' *)
Theorem C17_keys_after_filter :
  forall (K V : Type) (keqb : K -> K -> bool) (veqb : V -> V -> bool) (hashable : V -> bool)
         (kindex : K) (vpos : nat -> V),
  (forall a b : K, keqb a b = true <-> a = b) ->
  (forall a b : V, veqb a b = true <-> a = b) ->
  (forall n : nat, hashable (vpos n) = true) ->
  forall (b : browser K V) (incl excl : list K) (q : list (K * V)) (b' : browser K V),
  wfb keqb veqb hashable kindex vpos b ->
  filter_by keqb veqb hashable kindex vpos b incl excl q = Ok b' ->
  (forall k : K, In k (bkeys b') -> In k (bkeys b)) /\
  (forall (k : K) (v : V),
     keqb k kindex = false -> In v (available_values keqb b' k) -> In v (available_values keqb b k)).
Proof. exact @keys_after_filter. Qed.
Print Assumptions C17_keys_after_filter.

(* the keys of a merge are those of its two parts *)
Theorem C17_keys_after_merge :
  forall (K V : Type) (keqb : K -> K -> bool) (veqb : V -> V -> bool) (hashable : V -> bool)
         (kindex : K) (vpos : nat -> V),
  (forall a b : K, keqb a b = true <-> a = b) ->
  (forall n : nat, hashable (vpos n) = true) ->
  forall b1 b2 b : browser K V,
  wfb keqb veqb hashable kindex vpos b1 ->
  wfb keqb veqb hashable kindex vpos b2 ->
  merge keqb veqb hashable kindex vpos b1 b2 = Ok b ->
  forall k : K, In k (bkeys b) <-> In k (bkeys b1) \/ In k (bkeys b2).
Proof. exact @keys_after_merge. Qed.
Print Assumptions C17_keys_after_merge.
